// Package crashx is the reusable "operation under a gated backend with crash
// states" pattern of the GATE engine: run a real restic operation on the gated
// in-memory store under the explorer, treat the store state at every scheduler
// step plus every subset of in-flight mutations as a crash state, and hand each
// distinct crash state to a state oracle.
package crashx

import (
	"bytes"
	"context"
	"fmt"
	"sort"
	"strings"
	"testing"
	"time"

	"github.com/restic/restic/internal/verifshim/detrand"
	"github.com/restic/restic/internal/verifshim/gatebe"
	"github.com/restic/restic/internal/verifshim/vh"
	"github.com/restic/restic/internal/verifshim/vx"
	"github.com/restic/restic/internal/verifshim/xplore"
)

// SemFn names files semantically.
type SemFn = func(k gatebe.FileKey, data []byte, lookup func(gatebe.FileKey) string) string

// Crash is one crash state.
type Crash struct {
	Key        string
	State      gatebe.State
	Desc       string
	Nontrivial bool // differs from the base state
	Log        int  // number of completed mutations
}

// Run is the per-execution state handed to the callbacks.
type Run struct {
	X       *xplore.Exec
	Store   *gatebe.Store
	Crashes []Crash
	Err     error
	Done    bool
	Faulted bool // an injected fault was delivered in this execution
	Data    any
	restore func()
}

// Scenario describes one operation to explore.
type Scenario struct {
	Property string
	Name     string
	Base     gatebe.State
	Sem      SemFn
	// Backend lets the scenario adjust the gated backend (Conns, Alts, AtomicReplace, Ungated …).
	Backend func(be *gatebe.Backend)
	// Prepare runs inside the bubble with gating disarmed (open the repository, load the index …).
	Prepare func(ctx context.Context, run *Run, be *gatebe.Backend) (any, error)
	// Op is the operation under test; it runs as the registered driver goroutine "op" with gating armed.
	Op func(ctx context.Context, run *Run, prepared any) error
	// StateOracle evaluates one distinct crash state (outside the bubble); it returns problems.
	StateOracle func(ctx context.Context, c Crash) []string
	// EndOracle evaluates the finished execution (outside the bubble); it returns problems.
	EndOracle func(ctx context.Context, run *Run) []string
	// Faults: answers offered for every gated operation (default {"ok","err"}, for Save and Remove also "err-after").
	Faults []string
	// MaxInflightSubset bounds the in-flight closure (default 6 → at most 64 subsets per step).
	MaxInflightSubset int
	// NoFaultFailureIsViolation: the operation must succeed whenever no fault was injected.
	NoFaultFailureIsViolation bool
	// Actions returns extra scenario actions (cancellation, foreign processes …) enabled at this step.
	Actions func(run *Run) []xplore.Action
	// TimeAction adds "time passes although operations are pending" (a stalled operation) as a choice;
	// TimeQuantum bounds one such step.
	TimeAction  bool
	TimeQuantum time.Duration
	// CrashFilter, if set, decides whether a crash state is evaluated (e.g. only states that differ from base).
	CrashFilter func(c Crash) bool
}

// Explore explores sc within the deviation bound.  seen de-duplicates crash states across scenarios of one shard.
func Explore(r *vh.Run, t *testing.T, sc Scenario, bound int, seen map[string]bool) xplore.Stats {
	ctx := context.Background()
	faults := sc.Faults
	if faults == nil {
		faults = []string{"ok", "err"}
	}
	maxSub := sc.MaxInflightSubset
	if maxSub <= 0 {
		maxSub = 6
	}
	collect := func(run *Run) {
		base := run.Store.Snapshot()
		infl := run.Store.InFlight()
		if len(infl) > maxSub {
			infl = infl[:maxSub]
		}
		for mask := 0; mask < 1<<len(infl); mask++ {
			s := base
			var applied []string
			if mask != 0 {
				s = base.Clone()
				for i, m := range infl {
					if mask&(1<<i) != 0 {
						m.Apply(s)
						applied = append(applied, m.String())
					}
				}
			}
			key := sc.Name + "|" + run.Store.StateKey(s)
			if seen[key] {
				continue
			}
			seen[key] = true
			nt := len(s) != len(sc.Base)
			if !nt {
				for k, v := range s {
					if bv, ok := sc.Base[k]; !ok || (k.Name == "" && !bytes.Equal(bv, v)) {
						nt = true
						break
					}
				}
			}
			desc := fmt.Sprintf("after %d completed mutations", run.Store.LogLen())
			if len(applied) > 0 {
				sort.Strings(applied)
				desc += " + in-flight{" + strings.Join(applied, ", ") + "}"
			}
			c := Crash{Key: key, State: s, Desc: desc, Nontrivial: nt, Log: run.Store.LogLen()}
			if sc.CrashFilter != nil && !sc.CrashFilter(c) {
				continue
			}
			run.Crashes = append(run.Crashes, c)
		}
	}
	xs := xplore.Scenario{
		Start: func(x *xplore.Exec) {
			run := &Run{X: x, Store: gatebe.NewStoreFrom(sc.Base, sc.Sem)}
			x.Data = run
			run.restore = detrand.Install(1)
			armed := false
			be := &gatebe.Backend{S: run.Store, Proc: "op", Conns: 3, AtomicReplace: true,
				X: func() *xplore.Exec {
					if armed {
						return x
					}
					return nil
				},
				Alts: func(op *gatebe.Op) []string {
					if sc.Faults == nil && (op.Kind == "Save" || op.Kind == "Remove") {
						// default for mutations: also "took effect, but the caller got an error" (a lost reply)
						return []string{"ok", "err", "err-after"}
					}
					if sc.Faults == nil && op.Kind == "Load" {
						// default for downloads: also "broke off half-way and was repeated" (the retry layer; the
						// consumer is called twice within one Load) - not a failure, the operation must still succeed
						return []string{"ok", "err", "retried"}
					}
					return faults
				},
			}
			be.Observe = func(op *gatebe.Op, ans string, err error) {
				if ans != "ok" && ans != "abort" && ans != "severed" && ans != "retried" {
					run.Faulted = true
				}
			}
			if sc.Backend != nil {
				sc.Backend(be)
			}
			var prepared any
			if sc.Prepare != nil {
				var err error
				prepared, err = sc.Prepare(x.Ctx, run, be)
				if err != nil {
					t.Fatalf("%s/%s: prepare: %v", sc.Property, sc.Name, err)
				}
			}
			armed = true
			x.Go("op", func() {
				run.Err = sc.Op(x.Ctx, run, prepared)
				run.Done = true
			})
		},
		Actions: func(x *xplore.Exec) []xplore.Action {
			if sc.Actions == nil {
				return nil
			}
			return sc.Actions(x.Data.(*Run))
		},
		OnStep: func(x *xplore.Exec) { collect(x.Data.(*Run)) },
		OnEnd:  func(x *xplore.Exec) { collect(x.Data.(*Run)) },
	}
	check := func(x *xplore.Exec) {
		run := x.Data.(*Run)
		run.restore()
		pfx := sc.Property + "|"
		if len(x.Panics) > 0 {
			vx.Violation(r, sc.Name, x, pfx+"panic|"+sc.Name, "operation panicked: "+x.Panics[0], nil)
		}
		if x.Deadlock {
			vx.Violation(r, sc.Name, x, pfx+"deadlock|"+sc.Name, "operation blocked forever: unfinished but no pending backend operation", nil)
		}
		if sc.NoFaultFailureIsViolation && run.Done && run.Err != nil && !run.Faulted {
			vx.Violation(r, sc.Name, x, pfx+"op-failed|"+sc.Name, fmt.Sprintf("operation failed without any injected fault: %v", run.Err), nil)
		}
		r.Outcome(fmt.Sprintf("%s err=%v faulted=%v", sc.Name, run.Err != nil, run.Faulted))
		for _, c := range run.Crashes {
			r.State(c.Key)
			if c.Nontrivial {
				r.Nontrivial(c.Key)
			}
			r.Count("oracle_evaluations", 1)
			if sc.StateOracle == nil {
				continue
			}
			if probs := sc.StateOracle(ctx, c); len(probs) > 0 {
				vx.Violation(r, sc.Name, x, pfx+"crash-state|"+sc.Name+"|"+Kind(probs), fmt.Sprintf("crash state (%s) violates the oracle:\n  %s\nfiles: %s", c.Desc, strings.Join(probs, "\n  "), strings.Join(run.Store.Describe(c.State), " ")), map[string]any{"crash": c.Desc})
			}
		}
		if sc.EndOracle != nil {
			if probs := sc.EndOracle(ctx, run); len(probs) > 0 {
				vx.Violation(r, sc.Name, x, pfx+"end|"+sc.Name+"|"+Kind(probs), fmt.Sprintf("at the end of the execution (err=%v):\n  %s", run.Err, strings.Join(probs, "\n  ")), nil)
			}
		}
		if len(run.Crashes) > 0 {
			n := len(x.Labels)
			if n > 8 {
				n = 8
			}
			r.Sample(map[string]any{"scenario": sc.Name, "schedule_len": len(x.Trace), "first_events": x.Labels[:n], "new_crash_states": len(run.Crashes), "example_crash": run.Crashes[len(run.Crashes)-1].Desc})
		}
	}
	st := vx.Explore(r, t, sc.Name, xs, xplore.Options{Policy: xplore.FIFO, Bound: bound, MaxSteps: 1500, TimeAction: sc.TimeAction, TimeQuantum: sc.TimeQuantum}, check)
	r.Note("%s: execs(this shard)=%d maxpending=%d", sc.Name, st.Execs, st.MaxPending)
	return st
}

// Kind classifies a problem list for violation keys.
func Kind(probs []string) string {
	p := probs[0]
	for _, k := range []string{"open:", "LoadIndex", "check: packs", "check: tree", "check: read-data", "check: index", "check:", "content", "snapshot", "missing", "key"} {
		if strings.Contains(p, k) {
			return strings.TrimSuffix(strings.ReplaceAll(k, " ", "-"), ":")
		}
	}
	return "other"
}

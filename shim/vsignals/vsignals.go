// Package vsignals replaces internal/ui/signals in internal/ui/progress for
// harnesses that run restic commands inside a synctest bubble: the real package
// hands out a process-global channel (SIGUSR1 progress requests) that is created
// outside the bubble, and a select on it is not durably blocking, which would
// keep synctest.Wait from ever returning.  A nil channel never fires.
package vsignals

import "os"

// GetProgressChannel returns a channel that never delivers.
func GetProgressChannel() <-chan os.Signal { return nil }

// Package vfileio replaces internal/fileio in selected restic packages (import substitution through
// the build overlay): creating a temporary file becomes an environment answer the harness can decide
// (disk full, too many open files, temporary directory gone).
package vfileio

import (
	"os"

	"github.com/restic/restic/internal/fileio"
)

// Hook, when non-nil, is asked before every TempFile; a non-nil error is returned to the caller instead
// of creating the file.
var Hook func(prefix string) error

func TempFile(dir, prefix string) (*os.File, error) {
	if h := Hook; h != nil {
		if err := h(prefix); err != nil {
			return nil, err
		}
	}
	return fileio.TempFile(dir, prefix)
}

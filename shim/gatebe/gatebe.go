// Package gatebe provides the in-memory repository store used by the GATE
// engine and a backend.Backend on top of it whose every operation is a gate of
// the explorer: an operation takes effect (or fails) only when the scheduler
// releases it.  Every mutation is logged in completion order, and mutations
// that are parked are visible as "in flight", which is what crash-state
// enumeration needs.
package gatebe

import (
	"bytes"
	"context"
	"crypto/sha256"
	"encoding/hex"
	"fmt"
	"hash"
	"io"
	"sort"
	"strings"
	"sync"
	"time"

	"github.com/cespare/xxhash/v2"
	"github.com/restic/restic/internal/backend"
	"github.com/restic/restic/internal/backend/util"
	"github.com/restic/restic/internal/errors"
	"github.com/restic/restic/internal/verifshim/xplore"
)

// FileKey identifies a stored file.
type FileKey struct {
	Type backend.FileType
	Name string
}

func (k FileKey) String() string {
	n := k.Name
	if len(n) > 8 {
		n = n[:8]
	}
	return k.Type.String() + "/" + n
}

// State is an immutable snapshot of the store: file → content (byte slices are never modified).
type State map[FileKey][]byte

// Clone copies the map (contents are shared, they are immutable).
func (s State) Clone() State {
	c := make(State, len(s))
	for k, v := range s {
		c[k] = v
	}
	return c
}

// Mut is one mutation of the store.
type Mut struct {
	Remove bool
	Key    FileKey
	Data   []byte
	Proc   string
	Sem    string // semantic name of the file
}

func (m Mut) String() string {
	op := "save"
	if m.Remove {
		op = "remove"
	}
	n := m.Sem
	if n == "" {
		n = m.Key.String()
	}
	return m.Proc + ":" + op + ":" + n
}

// Apply applies the mutation to a state (in place).
func (m Mut) Apply(s State) {
	if m.Remove {
		delete(s, m.Key)
	} else {
		s[m.Key] = m.Data
	}
}

// Store is the shared "bucket".
type Store struct {
	mu       sync.Mutex
	files    State
	names    map[FileKey]string // semantic names
	Log      []Mut              // completed mutations, completion order
	inflight map[int]Mut
	nextOp   int
	// visibleAt: files saved through a Backend with ListDelay > 0 appear in listings only from this time on
	visibleAt map[FileKey]time.Time
	// Sem computes the semantic (schedule-independent) name of a file from its content; may be nil.
	Sem func(k FileKey, data []byte, lookup func(FileKey) string) string
}

// NewStore returns an empty store.
func NewStore() *Store {
	return &Store{files: State{}, names: map[FileKey]string{}, inflight: map[int]Mut{}, visibleAt: map[FileKey]time.Time{}}
}

// NewStoreFrom returns a store initialised with a copy of st.
func NewStoreFrom(st State, sem func(k FileKey, data []byte, lookup func(FileKey) string) string) *Store {
	s := NewStore()
	s.Sem = sem
	// name files in dependency-friendly order: packs, then indexes, then the rest
	keys := make([]FileKey, 0, len(st))
	for k := range st {
		keys = append(keys, k)
	}
	sort.Slice(keys, func(i, j int) bool {
		ri, rj := typeRank(keys[i].Type), typeRank(keys[j].Type)
		if ri != rj {
			return ri < rj
		}
		return keys[i].Name < keys[j].Name
	})
	for _, k := range keys {
		s.files[k] = st[k]
		s.nameLocked(k, st[k])
	}
	return s
}

func typeRank(t backend.FileType) int {
	switch t {
	case backend.ConfigFile:
		return 0
	case backend.KeyFile:
		return 1
	case backend.PackFile:
		return 2
	case backend.IndexFile:
		return 3
	case backend.SnapshotFile:
		return 4
	}
	return 5
}

func (s *Store) nameLocked(k FileKey, data []byte) string {
	if n, ok := s.names[k]; ok {
		return n
	}
	n := ""
	if s.Sem != nil {
		n = s.Sem(k, data, func(o FileKey) string { return s.names[o] })
	}
	if n == "" {
		n = k.String()
	}
	s.names[k] = n
	return n
}

// SemName returns the semantic name registered for a file ("" if unknown).
func (s *Store) SemName(k FileKey) string {
	s.mu.Lock()
	defer s.mu.Unlock()
	if n, ok := s.names[k]; ok {
		return n
	}
	return k.String()
}

// Snapshot returns the current state.
func (s *Store) Snapshot() State {
	s.mu.Lock()
	defer s.mu.Unlock()
	return s.files.Clone()
}

// LogLen returns the number of completed mutations.
func (s *Store) LogLen() int { s.mu.Lock(); defer s.mu.Unlock(); return len(s.Log) }

// LogCopy returns a copy of the mutation log.
func (s *Store) LogCopy() []Mut {
	s.mu.Lock()
	defer s.mu.Unlock()
	return append([]Mut(nil), s.Log...)
}

// InFlight returns the mutations that are parked at a gate right now (sorted).
func (s *Store) InFlight() []Mut {
	s.mu.Lock()
	defer s.mu.Unlock()
	out := make([]Mut, 0, len(s.inflight))
	for _, m := range s.inflight {
		out = append(out, m)
	}
	sort.Slice(out, func(i, j int) bool { return out[i].String() < out[j].String() })
	return out
}

// Put stores a file directly (no gate, logged).
func (s *Store) Put(proc string, k FileKey, data []byte) {
	s.mu.Lock()
	defer s.mu.Unlock()
	s.files[k] = data
	s.Log = append(s.Log, Mut{Key: k, Data: data, Proc: proc, Sem: s.nameLocked(k, data)})
}

// Del removes a file directly (no gate, logged).
func (s *Store) Del(proc string, k FileKey) bool {
	s.mu.Lock()
	defer s.mu.Unlock()
	if _, ok := s.files[k]; !ok {
		return false
	}
	delete(s.files, k)
	s.Log = append(s.Log, Mut{Remove: true, Key: k, Proc: proc, Sem: s.names[k]})
	return true
}

// Get reads a file directly.
func (s *Store) Get(k FileKey) ([]byte, bool) {
	s.mu.Lock()
	defer s.mu.Unlock()
	b, ok := s.files[k]
	return b, ok
}

// Keys lists files of one type, sorted by name.
func (s *Store) Keys(t backend.FileType) []FileKey {
	s.mu.Lock()
	defer s.mu.Unlock()
	var out []FileKey
	for k := range s.files {
		if k.Type == t {
			out = append(out, k)
		}
	}
	sort.Slice(out, func(i, j int) bool { return out[i].Name < out[j].Name })
	return out
}

// visibleKeys is Keys minus the files whose listing delay has not yet elapsed.
func (s *Store) visibleKeys(t backend.FileType) []FileKey {
	all := s.Keys(t)
	s.mu.Lock()
	defer s.mu.Unlock()
	if len(s.visibleAt) == 0 {
		return all
	}
	now := time.Now()
	out := all[:0]
	for _, k := range all {
		if at, ok := s.visibleAt[k]; ok && now.Before(at) {
			continue
		}
		out = append(out, k)
	}
	return out
}

// StateKey is a canonical hash of a state: the sorted multiset of (type, semantic name).
func (s *Store) StateKey(st State) string {
	s.mu.Lock()
	defer s.mu.Unlock()
	l := make([]string, 0, len(st))
	for k := range st {
		n, ok := s.names[k]
		if !ok {
			n = k.String()
		}
		if k.Type == backend.ConfigFile {
			// the config is the one file whose name does not determine its content
			ch := sha256.Sum256(st[k])
			n += "#" + hex.EncodeToString(ch[:6])
		}
		l = append(l, k.Type.String()+":"+n)
	}
	sort.Strings(l)
	h := sha256.Sum256([]byte(strings.Join(l, "\n")))
	return hex.EncodeToString(h[:12])
}

// Describe lists a state's files by semantic name (for violation messages).
func (s *Store) Describe(st State) []string {
	s.mu.Lock()
	defer s.mu.Unlock()
	l := make([]string, 0, len(st))
	for k := range st {
		n, ok := s.names[k]
		if !ok {
			n = k.String()
		}
		l = append(l, k.Type.String()+":"+n)
	}
	sort.Strings(l)
	return l
}

// ---------------------------------------------------------------------------

var (
	errNotFound = fmt.Errorf("gatebe: not found")
	errTooSmall = errors.New("gatebe: access beyond end of file")
	// ErrInjected is the error returned for injected faults.
	ErrInjected = errors.New("gatebe: injected backend failure")
	// ErrSevered is returned by every operation of a crashed process.
	ErrSevered = errors.New("gatebe: process crashed (backend severed)")
)

// Op describes one backend operation (passed to the Alts / Custom callbacks).
type Op struct {
	Proc   string
	Kind   string // Save, Load, Stat, Remove, List
	Key    FileKey
	Sem    string
	Data   []byte // Save
	Length int
	Offset int64
	// DeadOnArrival: the caller's context was already cancelled when the request was issued (Save, Remove)
	DeadOnArrival bool
}

// Backend is a backend.Backend over a Store whose operations are explorer gates.
type Backend struct {
	S    *Store
	Proc string
	// X returns the execution whose scheduler owns this backend; nil (or returning nil) = ungated pass-through.
	X             func() *xplore.Exec
	Conns         uint
	AtomicReplace bool
	// Alts returns the answers the explorer may give to op (first = default "ok"); nil = {"ok"}.
	// Built-in answers: "ok", "err" (fails, no effect), "err-after" (takes effect, then reports an error),
	// "corrupt" (Save only: acknowledged, but damaged data is stored).
	Alts func(op *Op) []string
	// Custom handles scenario-specific answers; it returns handled=false for built-in ones.
	Custom func(op *Op, answer string) (handled bool, data []byte, err error)
	// Observe is called (scheduler-serialised) when an operation has completed.
	Observe func(op *Op, answer string, err error)
	// Ungated file types are passed through without a gate (e.g. lock files in scenarios that do not study locking).
	Ungated map[backend.FileType]bool
	// ListDelay models an eventually consistent listing: a file saved through this backend is returned by
	// List (of any process) only ListDelay after the Save completed; Load/Stat see it immediately.
	ListDelay time.Duration
	// ListReverse returns listings in descending name order (backends do not guarantee any order).
	ListReverse bool
	// KeyBySem makes the semantic file name part of the event identity (use when the scenario's
	// operation order is deterministic, e.g. lock protocols).
	KeyBySem bool
	// Filter, if set, decides per operation whether it is gated.
	Filter func(op *Op) bool

	mu      sync.Mutex
	severed bool
}

var _ backend.Backend = &Backend{}

// Sever makes every pending and future operation of this process fail without effect (process crash).
func (b *Backend) Sever() { b.mu.Lock(); b.severed = true; b.mu.Unlock() }

func (b *Backend) isSevered() bool { b.mu.Lock(); defer b.mu.Unlock(); return b.severed }

func norm(h backend.Handle) FileKey {
	k := FileKey{Type: h.Type, Name: h.Name}
	if h.Type == backend.ConfigFile {
		k.Name = ""
	}
	return k
}

// gate parks the operation; it returns the chosen answer.
func (b *Backend) gate(op *Op, write bool, mut *Mut) string {
	if b.isSevered() {
		return "severed"
	}
	var x *xplore.Exec
	if b.X != nil {
		x = b.X()
	}
	if x == nil || b.Ungated[op.Key.Type] || (b.Filter != nil && !b.Filter(op)) {
		return "ok"
	}
	alts := []string{"ok"}
	if b.Alts != nil {
		if a := b.Alts(op); len(a) > 0 {
			alts = a
		}
	}
	id := -1
	if mut != nil {
		b.S.mu.Lock()
		id = b.S.nextOp
		b.S.nextOp++
		b.S.inflight[id] = *mut
		b.S.mu.Unlock()
	}
	name := op.Sem
	if op.Kind == "List" {
		name = ""
	}
	// The identity of an event is (process, operation, file type, ordinal of arrival): restic iterates
	// over Go maps (ID sets) when it feeds its worker pools, so *which* file the k-th operation touches
	// is the runtime's choice; the semantic name is kept as a label only.
	ev := xplore.Event{Key: b.Proc + ":" + op.Kind + ":" + op.Key.Type.String(), Proc: b.Proc, Kind: op.Kind, Label: name, Alts: alts, Meta: op, Write: write, Obj: op.Key.Type.String() + ":" + name}
	if b.KeyBySem {
		ev.Key += ":" + name
	}
	a := x.Gate(ev)
	if id >= 0 {
		b.S.mu.Lock()
		delete(b.S.inflight, id)
		b.S.mu.Unlock()
	}
	if a < 0 {
		return "abort"
	}
	if b.isSevered() {
		return "severed"
	}
	return alts[a]
}

func (b *Backend) done(op *Op, ans string, err error) error {
	if b.Observe != nil {
		b.Observe(op, ans, err)
	}
	return err
}

func (b *Backend) Properties() backend.Properties {
	c := b.Conns
	if c == 0 {
		c = 2
	}
	return backend.Properties{Connections: c, HasAtomicReplace: b.AtomicReplace}
}

func (b *Backend) Hasher() hash.Hash { return xxhash.New() }

func (b *Backend) IsNotExist(err error) bool { return errors.Is(err, errNotFound) }

func (b *Backend) IsPermanentError(err error) bool {
	return b.IsNotExist(err) || errors.Is(err, errTooSmall) || errors.Is(err, ErrSevered)
}

func (b *Backend) Close() error { return nil }

func (b *Backend) Delete(_ context.Context) error { return errors.New("gatebe: Delete not supported") }

func (b *Backend) Warmup(_ context.Context, _ []backend.Handle) ([]backend.Handle, error) {
	return []backend.Handle{}, nil
}
func (b *Backend) WarmupWait(_ context.Context, _ []backend.Handle) error { return nil }

func (b *Backend) Save(ctx context.Context, h backend.Handle, rd backend.RewindReader) error {
	k := norm(h)
	buf, err := io.ReadAll(rd)
	if err != nil {
		return err
	}
	if int64(len(buf)) != rd.Length() {
		return errors.Errorf("gatebe: read %d bytes instead of the expected %d bytes", len(buf), rd.Length())
	}
	hs := b.Hasher()
	_, _ = hs.Write(buf)
	if !bytes.Equal(hs.Sum(nil), rd.Hash()) {
		return errors.New("gatebe: invalid file hash or content")
	}
	b.S.mu.Lock()
	sem := b.S.nameLocked(k, buf)
	b.S.mu.Unlock()
	op := &Op{Proc: b.Proc, Kind: "Save", Key: k, Sem: sem, Data: buf, DeadOnArrival: ctx.Err() != nil}
	mut := Mut{Key: k, Data: buf, Proc: b.Proc, Sem: sem}
	ans := b.gate(op, true, &mut)
	switch ans {
	case "severed":
		return b.done(op, ans, ErrSevered)
	case "abort":
		return b.done(op, ans, context.Canceled)
	case "err":
		return b.done(op, ans, ErrInjected)
	}
	if ans != "ok" && ans != "err-after" && ans != "corrupt" && b.Custom != nil {
		if handled, _, cerr := b.Custom(op, ans); handled {
			return b.done(op, ans, cerr)
		}
	}
	if err := ctx.Err(); err != nil && ans == "ok" {
		// a request whose context was cancelled while it was pending is aborted: no effect.  ("took effect but
		// the caller saw an error" is the separate, explicit answer err-after.)
		return b.done(op, "cancelled", err)
	}
	b.S.mu.Lock()
	if _, exists := b.S.files[k]; exists && !b.AtomicReplace {
		b.S.mu.Unlock()
		return b.done(op, ans, errors.New("gatebe: file already exists"))
	}
	if ans == "corrupt" {
		// the backend acknowledges the upload but stores damaged data (second half zeroed, last byte dropped)
		bad := make([]byte, len(buf))
		copy(bad, buf[:len(buf)/2])
		if len(bad) > 0 {
			bad = bad[:len(bad)-1]
		}
		buf = bad
		mut.Data = bad
	}
	b.S.files[k] = buf
	b.S.Log = append(b.S.Log, mut)
	if b.ListDelay > 0 {
		b.S.visibleAt[k] = time.Now().Add(b.ListDelay)
	}
	b.S.mu.Unlock()
	if ans == "err-after" {
		return b.done(op, ans, ErrInjected)
	}
	return b.done(op, ans, ctx.Err())
}

func (b *Backend) Remove(ctx context.Context, h backend.Handle) error {
	k := norm(h)
	sem := b.S.SemName(k)
	op := &Op{Proc: b.Proc, Kind: "Remove", Key: k, Sem: sem, DeadOnArrival: ctx.Err() != nil}
	mut := Mut{Remove: true, Key: k, Proc: b.Proc, Sem: sem}
	ans := b.gate(op, true, &mut)
	switch ans {
	case "severed":
		return b.done(op, ans, ErrSevered)
	case "abort":
		return b.done(op, ans, context.Canceled)
	case "err":
		return b.done(op, ans, ErrInjected)
	}
	if err := ctx.Err(); err != nil && ans == "ok" {
		return b.done(op, "cancelled", err)
	}
	b.S.mu.Lock()
	if _, ok := b.S.files[k]; !ok {
		b.S.mu.Unlock()
		return b.done(op, ans, errNotFound)
	}
	delete(b.S.files, k)
	b.S.Log = append(b.S.Log, mut)
	b.S.mu.Unlock()
	if ans == "err-after" {
		return b.done(op, ans, ErrInjected)
	}
	return b.done(op, ans, ctx.Err())
}

// Load: besides "ok" and "err" the answer "retried" may be offered (Alts): the transfer breaks off after
// half of the bytes and the consumer is then called a second time, within the same Load, with the complete
// data.  That is what the retry layer of every production backend stack does on top of a flaky transport,
// and what the interface allows ("fn may be called multiple times during the same Load invocation and
// therefore must be idempotent").
func (b *Backend) Load(ctx context.Context, h backend.Handle, length int, offset int64, fn func(rd io.Reader) error) error {
	retried := false
	err := util.DefaultLoad(ctx, h, length, offset, func(ctx context.Context, h backend.Handle, length int, offset int64) (io.ReadCloser, error) {
		rc, ans, err := b.openReaderAns(ctx, h, length, offset)
		if err == nil && ans == "retried" {
			retried = true
			buf, _ := io.ReadAll(rc)
			return io.NopCloser(io.MultiReader(bytes.NewReader(buf[:(len(buf)+1)/2]), errReader{io.ErrUnexpectedEOF})), nil
		}
		return rc, err
	}, fn)
	if !retried {
		return err
	}
	// second attempt of the same Load: complete data, not a scheduling point of its own
	k := norm(h)
	buf, ok := b.S.Get(k)
	if !ok {
		return errNotFound
	}
	if offset+int64(length) > int64(len(buf)) {
		return errTooSmall
	}
	buf = buf[offset:]
	if length > 0 {
		buf = buf[:length]
	}
	if err := ctx.Err(); err != nil {
		return err
	}
	return fn(bytes.NewReader(buf))
}

type errReader struct{ err error }

func (e errReader) Read([]byte) (int, error) { return 0, e.err }

func (b *Backend) openReader(ctx context.Context, h backend.Handle, length int, offset int64) (io.ReadCloser, error) {
	rc, _, err := b.openReaderAns(ctx, h, length, offset)
	return rc, err
}

func (b *Backend) openReaderAns(ctx context.Context, h backend.Handle, length int, offset int64) (io.ReadCloser, string, error) {
	rc, ans, err := b.openReaderInner(ctx, h, length, offset)
	return rc, ans, err
}

func (b *Backend) openReaderInner(ctx context.Context, h backend.Handle, length int, offset int64) (rc io.ReadCloser, ans string, err error) {
	k := norm(h)
	op := &Op{Proc: b.Proc, Kind: "Load", Key: k, Sem: b.S.SemName(k), Length: length, Offset: offset}
	ans = b.gate(op, false, nil)
	rc, err = b.openReaderTail(ctx, op, k, ans, length, offset)
	return rc, ans, err
}

func (b *Backend) openReaderTail(ctx context.Context, op *Op, k FileKey, ans string, length int, offset int64) (io.ReadCloser, error) {
	switch ans {
	case "severed":
		return nil, b.done(op, ans, ErrSevered)
	case "abort":
		return nil, b.done(op, ans, context.Canceled)
	case "err":
		return nil, b.done(op, ans, ErrInjected)
	}
	buf, ok := b.S.Get(k)
	if ans != "ok" && b.Custom != nil {
		op.Data = buf
		if handled, data, cerr := b.Custom(op, ans); handled {
			if cerr != nil {
				return nil, b.done(op, ans, cerr)
			}
			_ = b.done(op, ans, nil)
			return io.NopCloser(bytes.NewReader(data)), nil
		}
	}
	if !ok {
		return nil, b.done(op, ans, errNotFound)
	}
	if offset+int64(length) > int64(len(buf)) {
		return nil, b.done(op, ans, errTooSmall)
	}
	buf = buf[offset:]
	if length > 0 {
		buf = buf[:length]
	}
	_ = b.done(op, ans, nil)
	return io.NopCloser(bytes.NewReader(buf)), ctx.Err()
}

func (b *Backend) Stat(ctx context.Context, h backend.Handle) (backend.FileInfo, error) {
	k := norm(h)
	op := &Op{Proc: b.Proc, Kind: "Stat", Key: k, Sem: b.S.SemName(k)}
	ans := b.gate(op, false, nil)
	switch ans {
	case "severed":
		return backend.FileInfo{}, b.done(op, ans, ErrSevered)
	case "abort":
		return backend.FileInfo{}, b.done(op, ans, context.Canceled)
	case "err":
		return backend.FileInfo{}, b.done(op, ans, ErrInjected)
	}
	buf, ok := b.S.Get(k)
	if !ok {
		return backend.FileInfo{}, b.done(op, ans, errNotFound)
	}
	return backend.FileInfo{Size: int64(len(buf)), Name: h.Name}, b.done(op, ans, ctx.Err())
}

func (b *Backend) List(ctx context.Context, t backend.FileType, fn func(backend.FileInfo) error) error {
	op := &Op{Proc: b.Proc, Kind: "List", Key: FileKey{Type: t}}
	ans := b.gate(op, false, nil)
	switch ans {
	case "severed":
		return b.done(op, ans, ErrSevered)
	case "abort":
		return b.done(op, ans, context.Canceled)
	case "err":
		return b.done(op, ans, ErrInjected)
	}
	// the listing is the state at the moment the operation is released
	keys := b.S.visibleKeys(t)
	if b.ListReverse {
		for i, j := 0, len(keys)-1; i < j; i, j = i+1, j-1 {
			keys[i], keys[j] = keys[j], keys[i]
		}
	}
	sizes := make([]int64, len(keys))
	for i, k := range keys {
		buf, _ := b.S.Get(k)
		sizes[i] = int64(len(buf))
	}
	_ = b.done(op, ans, nil)
	for i, k := range keys {
		if ctx.Err() != nil {
			return ctx.Err()
		}
		if err := fn(backend.FileInfo{Name: k.Name, Size: sizes[i]}); err != nil {
			return err
		}
	}
	return ctx.Err()
}

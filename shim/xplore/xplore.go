// Package xplore is the stateless explorer of /verif (engines GATE and FINE).
//
// One *execution* runs a scenario — a few driver goroutines calling real restic
// code — inside a testing/synctest bubble.  Every environment interaction that
// the scenario routes through Exec.Gate (backend operations, loader calls,
// compute callbacks, lock acquisitions of registered goroutines in FINE mode)
// parks the calling goroutine.  The root goroutine is the scheduler: it waits
// for quiescence (synctest.Wait), lists the enabled choices in a canonical
// order, takes the one dictated by the replayed prefix (else choice 0) and
// applies it.  Explore enumerates, depth-first and without sampling, every
// choice sequence whose number of *deviations* from the default stays within
// the bound.
package xplore

import (
	"bytes"
	"context"
	"fmt"
	"runtime"
	"runtime/debug"
	"sort"
	"strconv"
	"strings"
	"sync"
	"testing"
	"testing/synctest"
	"time"

	"github.com/restic/restic/internal/verifshim/vsync"
)

// Event describes a parked environment interaction.
type Event struct {
	Key   string   // canonical identity, stable across executions (used for ordering, replay, independence)
	Proc  string   // logical process / goroutine the event belongs to
	Kind  string   // free text: "Save", "Load", "Lock", …
	Yield bool     // the process voluntarily waits here (e.g. "holding the lock, working"): switching away is not a preemption
	Label string   // human-readable detail that is NOT part of the identity (e.g. the semantic file name)
	Alts  []string // possible answers; Alts[0] is the default ("ok"); nil means {"ok"}
	Meta  any      // scenario data
	Write bool     // mutates shared state (used by the default independence relation)
	Obj   string   // object touched (used by the default independence relation)
}

type pending struct {
	ev      Event
	seq     int
	arrival int
	ch      chan int
	enabled func() bool
}

// Choice is one enabled alternative at a scheduler step.
type Choice struct {
	Key    string // event key + "=" + answer, or "@" + action name
	Proc   string
	Alt    int
	p      *pending
	action *Action
}

// Action is a scenario-supplied choice that is not the release of a parked
// goroutine: advancing virtual time, a foreign process deleting a file, …
type Action struct {
	Name string
	Proc string
	Do   func(x *Exec)
}

// Step records one scheduler step of an execution.
type Step struct {
	N      int      // number of enabled choices
	Keys   []string // their keys, canonical order
	Costs  []int    // deviation cost of each
	Chosen int
}

// Exec is one execution.
type Exec struct {
	T           *testing.T
	Ctx         context.Context
	cancel      context.CancelFunc
	mu          sync.Mutex
	pend        []*pending
	arrivals    int
	live        int
	gids        map[uint64]string
	pcount      map[string]int
	Steps       []Step
	Trace       []string // chosen keys
	Labels      []string // chosen keys with human-readable labels
	prefix      []string
	Diverged    bool
	DivergeInfo string
	Deadlock    bool
	Horizon     bool
	Panics      []string
	lastProc    string
	StepNo      int
	Data        any // scenario state for this execution
	policy      Policy
	aborting    bool
	wake        chan struct{}
	idle        time.Duration
	timeAction  bool
	quantum     time.Duration
	timeDead    bool
	free        bool
	lockAll     bool
	schedGID    uint64
	autoCount   map[string]int
	idleDead    bool
	// IdleWaits counts the times the scheduler had nothing to choose and let virtual time run.
	IdleWaits int
	// Stalls counts "@time" steps taken while operations were pending (each stalls them by up to TimeQuantum)
	Stalls int
}

// Policy selects the canonical order and the deviation cost.
type Policy int

const (
	// FIFO: choice 0 = oldest parked event (ties by key) with its default answer;
	// every other choice costs one deviation.
	FIFO Policy = iota
	// Preempt: choice 0 = the process that ran last if it has an enabled event,
	// else the lowest process name; switching away from a process that could
	// continue costs one deviation (a preemption); non-default answers cost one.
	Preempt
)

// Scenario is what is explored.
type Scenario struct {
	// Start runs inside the bubble and starts the drivers with x.Go.
	Start func(x *Exec)
	// Actions returns extra enabled choices for the current step (may be nil).
	Actions func(x *Exec) []Action
	// OnStep is the monitor; it runs at every scheduler step after quiescence.
	OnStep func(x *Exec)
	// OnEnd runs inside the bubble after all drivers finished (or deadlock / horizon).
	OnEnd func(x *Exec)
	// After runs outside the bubble with the finished execution.
	After func(x *Exec)
	// Independent reports whether two enabled choices commute (nil = none do); used for sleep sets.
	Independent func(a, b string) bool
}

// Options bounds the exploration.
type Options struct {
	Policy   Policy
	Bound    int // maximal number of deviations per execution (<0: unbounded)
	MaxSteps int // horizon per execution (default 2000)
	MaxExecs int64
	Expired  func() bool
	// Own decides whether this shard owns the subtree below the first deviation (nil = all).
	Own func(firstDeviation string) bool
	// Prefix, if non-nil, replays exactly this one choice sequence (no search).
	Prefix []string
	// RootOwner: whether this shard counts the root (deviation-free) execution.
	RootOwner bool
	// SleepSets enables sleep-set reduction using Scenario.Independent (only sound with Bound < 0).
	SleepSets bool
	// IdleTimeout is the virtual time the scheduler waits, when nothing is enabled, before declaring a deadlock (default 2h).
	IdleTimeout time.Duration
	// TimeAction adds the choice "@time" (let virtual time pass although operations are pending) at every step.
	TimeAction bool
	// Skip, if set, is asked before a prefix is executed; a skipped prefix is neither run nor expanded
	// (used to step around a schedule that crashed the test process in an earlier attempt).
	Skip func(prefix []string) bool
	// BeforeExec is called with the prefix about to be executed (crash checkpointing).
	BeforeExec func(prefix []string)
	// TimeQuantum bounds how long one "@time" step lets operations stay pending (a stall); 0 = idle timeout.
	TimeQuantum time.Duration
	// LockPoints makes every vsync Lock/RLock of a registered goroutine a scheduling point (FINE).
	LockPoints bool
	// LockPointsAll extends LockPoints to goroutines the code under test starts itself (uploaders, async
	// savers): they are named after the function that created them.
	LockPointsAll bool
}

// Stats summarises an exploration.
type Stats struct {
	Execs       int64
	Steps       int64
	Diverged    int64
	Deadlocks   int64
	Horizons    int64
	SleepCut    int64
	MaxDev      int
	Capped      bool
	MaxPending  int
	ChoicePoint int64
	DivergeInfo []string
	Skipped     int64
}

var hookMu sync.Mutex

// Gate parks the calling goroutine until the scheduler releases it and
// returns the index of the chosen answer.  -1 means the execution is being
// torn down: the caller must fail the operation.
func (x *Exec) Gate(ev Event) int { return x.gate(ev, nil) }

// freePrefix marks a free-running execution (see Free).
var freePrefix = []string{"\x00free"}

func (x *Exec) gate(ev Event, enabled func() bool) int {
	x.mu.Lock()
	if x.aborting {
		x.mu.Unlock()
		return -1
	}
	if x.free {
		x.Trace = append(x.Trace, ev.Key)
		x.mu.Unlock()
		for enabled != nil && !enabled() {
			runtime.Gosched()
		}
		runtime.Gosched()
		return 0
	}
	if len(ev.Alts) == 0 {
		ev.Alts = []string{"ok"}
	}
	// make keys unique per execution: n-th occurrence of the same key
	x.pcount[ev.Key]++
	if n := x.pcount[ev.Key]; n > 1 {
		ev.Key = ev.Key + "#" + strconv.Itoa(n)
	}
	p := &pending{ev: ev, seq: x.StepNo, arrival: x.arrivals, ch: make(chan int, 1), enabled: enabled}
	x.arrivals++
	x.pend = append(x.pend, p)
	x.mu.Unlock()
	x.signal()
	return <-p.ch
}

// Go starts a registered driver goroutine.
func (x *Exec) Go(name string, f func()) {
	x.mu.Lock()
	x.live++
	x.mu.Unlock()
	go func() {
		gid := curGID()
		x.mu.Lock()
		x.gids[gid] = name
		x.mu.Unlock()
		defer func() {
			if e := recover(); e != nil {
				st := string(debug.Stack())
				if len(st) > 3000 {
					st = st[:3000]
				}
				x.mu.Lock()
				x.Panics = append(x.Panics, fmt.Sprintf("%s: panic: %v\n%s", name, e, st))
				x.mu.Unlock()
			}
			x.mu.Lock()
			delete(x.gids, gid)
			x.live--
			x.mu.Unlock()
			x.signal()
		}()
		f()
	}()
}

// letTimePass blocks the scheduler until something observable happens (a goroutine parks at a gate, a
// driver finishes) or the idle timeout elapses; meanwhile virtual time advances from timer to timer.
func (x *Exec) letTimePass() bool { return x.letTimePassFor(x.idle) }

func (x *Exec) letTimePassFor(d time.Duration) bool {
	select {
	case <-x.wake:
	default:
	}
	tm := time.NewTimer(d)
	defer tm.Stop()
	select {
	case <-x.wake:
		return true
	case <-tm.C:
		return false
	}
}

func nonYieldNow(x *Exec) bool {
	x.mu.Lock()
	defer x.mu.Unlock()
	for _, p := range x.pend {
		if !p.ev.Yield {
			return true
		}
	}
	return false
}

func (x *Exec) signal() {
	select {
	case x.wake <- struct{}{}:
	default:
	}
}

// ProcOfCaller returns the registered name of the calling goroutine ("" if unregistered).
func (x *Exec) ProcOfCaller() string {
	gid := curGID()
	x.mu.Lock()
	defer x.mu.Unlock()
	return x.gids[gid]
}

// autoName gives a goroutine that the code under test started itself a stable name: the function that
// created it plus the ordinal among the goroutines of that origin seen so far (LockPointsAll).
func (x *Exec) autoName() string {
	buf := make([]byte, 8192)
	n := runtime.Stack(buf, false)
	st := string(buf[:n])
	tag := "?"
	if i := strings.LastIndex(st, "created by "); i >= 0 {
		tag = st[i+len("created by "):]
		if j := strings.IndexAny(tag, " \n"); j >= 0 {
			tag = tag[:j]
		}
		if j := strings.LastIndexByte(tag, '/'); j >= 0 {
			tag = tag[j+1:]
		}
	}
	gid := curGID()
	x.mu.Lock()
	defer x.mu.Unlock()
	if x.autoCount == nil {
		x.autoCount = map[string]int{}
	}
	x.autoCount[tag]++
	name := fmt.Sprintf("bg[%s#%d]", tag, x.autoCount[tag])
	x.gids[gid] = name
	return name
}

// LockPoint is the FINE hook body: lock acquisitions of registered goroutines become scheduling points.
func (x *Exec) LockPoint(kind string, free func() bool) {
	name := x.ProcOfCaller()
	if name == "" {
		x.mu.Lock()
		all := x.lockAll && !x.aborting
		x.mu.Unlock()
		if all && curGID() != x.schedGID {
			name = x.autoName()
		}
	}
	if name == "" {
		return
	}
	x.mu.Lock()
	x.pcount["lp:"+name]++
	n := x.pcount["lp:"+name]
	x.mu.Unlock()
	x.gate(Event{Key: name + ":" + kind + ":" + strconv.Itoa(n), Proc: name, Kind: kind}, free)
}

// Pending returns the currently parked events (canonical order).
func (x *Exec) Pending() []Event {
	x.mu.Lock()
	defer x.mu.Unlock()
	ps := append([]*pending(nil), x.pend...)
	sort.SliceStable(ps, func(i, j int) bool { return lessPending(ps[i], ps[j]) })
	out := make([]Event, len(ps))
	for i, p := range ps {
		out[i] = p.ev
	}
	return out
}

// Live returns the number of unfinished registered drivers.
func (x *Exec) Live() int { x.mu.Lock(); defer x.mu.Unlock(); return x.live }

func lessPending(a, b *pending) bool {
	if a.seq != b.seq {
		return a.seq < b.seq
	}
	return a.ev.Key < b.ev.Key
}

func curGID() uint64 {
	var buf [64]byte
	n := runtime.Stack(buf[:], false)
	// "goroutine 123 ["
	b := buf[:n]
	b = bytes.TrimPrefix(b, []byte("goroutine "))
	i := bytes.IndexByte(b, ' ')
	if i < 0 {
		return 0
	}
	id, _ := strconv.ParseUint(string(b[:i]), 10, 64)
	return id
}

func (x *Exec) choices(sc *Scenario) ([]Choice, []int) {
	x.mu.Lock()
	ps := append([]*pending(nil), x.pend...)
	x.mu.Unlock()
	var cs []Choice
	switch x.policy {
	case FIFO:
		sort.SliceStable(ps, func(i, j int) bool { return lessPending(ps[i], ps[j]) })
	case Preempt:
		sort.SliceStable(ps, func(i, j int) bool {
			a, b := ps[i], ps[j]
			if a.ev.Yield != b.ev.Yield {
				return !a.ev.Yield
			}
			al, bl := a.ev.Proc == x.lastProc, b.ev.Proc == x.lastProc
			if al != bl {
				return al
			}
			if a.ev.Proc != b.ev.Proc {
				return a.ev.Proc < b.ev.Proc
			}
			return lessPending(a, b)
		})
	}
	// canonical order: non-yield events, then "time passes", then yield events, then scenario actions
	nonYield, yieldsParked := 0, 0
	live := x.Live()
	var timeChoice *Choice
	if x.timeAction && live > 0 && !x.timeDead {
		timeChoice = &Choice{Key: "@time", action: &Action{Name: "time", Do: func(x *Exec) {
			// while operations are pending this is a stall of those operations: bounded by the quantum
			d := x.idle
			if nonYieldNow(x) {
				x.Stalls++
				if x.quantum > 0 {
					d = x.quantum
				}
			}
			if !x.letTimePassFor(d) && d == x.idle {
				x.timeDead = true
			}
		}}}
	}
	emit := func(yield bool) {
		for _, p := range ps {
			if p.ev.Yield != yield || (p.enabled != nil && !p.enabled()) {
				continue
			}
			if yield {
				yieldsParked++
			} else {
				nonYield++
			}
			for a := range p.ev.Alts {
				cs = append(cs, Choice{Key: p.ev.Key + "=" + p.ev.Alts[a], Proc: p.ev.Proc, Alt: a, p: p})
			}
		}
	}
	emit(false)
	procsAtYield := map[string]bool{}
	for _, p := range ps {
		if p.ev.Yield {
			procsAtYield[p.ev.Proc] = true
		}
	}
	// waiting = unfinished registered drivers that are neither at a yield gate nor have an enabled event:
	// they wait for a timer (or for ever); letting time pass is then the natural next thing
	waiting := live - len(procsAtYield)
	procsWithEvent := map[string]bool{}
	for _, c := range cs {
		procsWithEvent[c.Proc] = true
	}
	waiting -= len(procsWithEvent)
	timeIdx := -1
	timeFree := nonYield == 0 && waiting > 0
	if timeChoice != nil && len(ps) > 0 && timeFree {
		timeIdx = len(cs)
		cs = append(cs, *timeChoice)
	}
	emit(true)
	if timeChoice != nil && len(ps) > 0 && !timeFree {
		timeIdx = len(cs)
		cs = append(cs, *timeChoice)
	}
	idleIdx := -1
	if sc.Actions != nil {
		acts := sc.Actions(x)
		if len(acts) > 0 && len(cs) == 0 && live > 0 {
			// nothing but scenario actions is enabled: the default is to let virtual time run (free);
			// a scenario action is always a deviation
			idleIdx = 0
			cs = append(cs, Choice{Key: "@idle", action: &Action{Name: "idle", Do: func(x *Exec) {
				x.IdleWaits++
				if !x.letTimePass() {
					x.idleDead = true
				}
			}}})
		}
		for i := range acts {
			cs = append(cs, Choice{Key: "@" + acts[i].Name, Proc: acts[i].Proc, action: &acts[i]})
		}
	}
	costs := make([]int, len(cs))
	switch x.policy {
	case FIFO:
		for i := range cs {
			if i > 0 {
				costs[i] = 1
			}
		}
	case Preempt:
		lastEnabled := false
		for _, c := range cs {
			if c.p != nil && c.Proc == x.lastProc && c.Alt == 0 && !c.p.ev.Yield {
				lastEnabled = true
			}
		}
		firstOfProc := map[string]*pending{}
		var firstYield *pending
		for _, c := range cs {
			if c.p != nil && firstOfProc[c.Proc] == nil {
				firstOfProc[c.Proc] = c.p
			}
			if c.p != nil && c.p.ev.Yield && firstYield == nil {
				firstYield = c.p
			}
		}
		for i, c := range cs {
			cost := 0
			if c.Alt > 0 {
				cost++
			}
			switch {
			case i == timeIdx:
				// free only when nothing else can run and somebody is waiting for a timer
				cost = 1
				if nonYield == 0 && waiting > 0 {
					cost = 0
				}
			case i == idleIdx:
				cost = 0
			case c.action != nil:
				cost = 1
			case c.p.ev.Yield:
				// ending a voluntary wait (e.g. releasing a held lock) is the default only when nothing
				// else can happen; earlier it is a deviation
				if nonYield > 0 || (timeIdx >= 0 && timeFree) || firstYield != c.p {
					cost++
				}
			default:
				if lastEnabled && c.Proc != x.lastProc {
					cost++ // preemption
				}
				if firstOfProc[c.Proc] != c.p {
					cost++ // within one process the oldest parked event is the default (FIFO)
				}
			}
			costs[i] = cost
		}
	}
	return cs, costs
}

func (x *Exec) apply(c Choice) {
	if c.action != nil {
		if c.Proc != "" {
			x.lastProc = c.Proc
		}
		c.action.Do(x)
		return
	}
	x.mu.Lock()
	for i, p := range x.pend {
		if p == c.p {
			x.pend = append(x.pend[:i], x.pend[i+1:]...)
			break
		}
	}
	x.mu.Unlock()
	x.lastProc = c.Proc
	x.timeDead = false
	c.p.ch <- c.Alt
}

func (x *Exec) abortAll() {
	x.mu.Lock()
	x.aborting = true
	ps := x.pend
	x.pend = nil
	x.mu.Unlock()
	for _, p := range ps {
		p.ch <- -1
	}
}

// runOne runs a single execution with the given prefix of chosen keys.
func runOne(t *testing.T, sc *Scenario, opt *Options, prefix []string) *Exec {
	var x *Exec
	synctest.Test(t, func(t *testing.T) {
		ctx, cancel := context.WithCancel(context.Background())
		x = &Exec{T: t, Ctx: ctx, cancel: cancel, gids: map[uint64]string{}, pcount: map[string]int{}, prefix: prefix, policy: opt.Policy, wake: make(chan struct{}, 1)}
		x.idle = opt.IdleTimeout
		if x.idle <= 0 {
			x.idle = 2 * time.Hour
		}
		x.timeAction = opt.TimeAction
		x.quantum = opt.TimeQuantum
		maxSteps := opt.MaxSteps
		if maxSteps <= 0 {
			maxSteps = 2000
		}
		x.free = len(prefix) == 1 && prefix[0] == freePrefix[0]
		if x.free {
			x.prefix = nil
		}
		if opt.LockPoints && !x.free {
			vsync.Hook = func(kind string, _ any, free func() bool) { x.LockPoint(kind, free) }
			defer func() { vsync.Hook = nil }()
		}
		sc.Start(x)
		// (only now: Start itself runs on the scheduler's goroutine and may wait for helpers it starts)
		x.schedGID = curGID()
		x.mu.Lock()
		x.lockAll = opt.LockPointsAll && !x.free
		x.mu.Unlock()
		for {
			synctest.Wait()
			x.mu.Lock()
			live, np := x.live, len(x.pend)
			x.mu.Unlock()
			if live == 0 && np == 0 {
				break
			}
			if x.free {
				if live == 0 {
					break
				}
				x.IdleWaits++
				if x.letTimePass() {
					continue
				}
				x.Deadlock = true
				break
			}
			if sc.OnStep != nil {
				sc.OnStep(x)
			}
			cs, costs := x.choices(sc)
			if live == 0 {
				// only helper goroutines are parked; nothing left to decide
				break
			}
			if x.idleDead {
				x.Deadlock = true
				break
			}
			if len(cs) == 0 {
				// nothing to decide: every unfinished goroutine waits for a timer (virtual time) or for
				// nothing at all.  Let virtual time run until something parks at a gate or a driver
				// finishes; if that does not happen within the idle timeout it is a deadlock.
				x.IdleWaits++
				if x.letTimePass() {
					continue
				}
				x.Deadlock = true
				break
			}
			if x.StepNo >= maxSteps {
				x.Horizon = true
				break
			}
			idx := 0
			if x.StepNo < len(prefix) && !x.Diverged {
				idx = -1
				for i, c := range cs {
					if c.Key == prefix[x.StepNo] {
						idx = i
						break
					}
				}
				if idx < 0 {
					x.Diverged = true
					var have []string
					for _, c := range cs {
						have = append(have, c.Key)
					}
					x.DivergeInfo = fmt.Sprintf("step %d: wanted %q, enabled: %s", x.StepNo, prefix[x.StepNo], strings.Join(have, " | "))
					idx = 0
				}
			}
			keys := make([]string, len(cs))
			for i, c := range cs {
				keys[i] = c.Key
			}
			x.Steps = append(x.Steps, Step{N: len(cs), Keys: keys, Costs: costs, Chosen: idx})
			x.Trace = append(x.Trace, cs[idx].Key)
			lbl := cs[idx].Key
			if cs[idx].p != nil && cs[idx].p.ev.Label != "" {
				lbl += "[" + cs[idx].p.ev.Label + "]"
			}
			x.Labels = append(x.Labels, lbl)
			x.StepNo++
			x.apply(cs[idx])
		}
		if sc.OnEnd != nil {
			sc.OnEnd(x)
		}
		// teardown: make every remaining goroutine of the bubble exit
		cancel()
		for i := 0; i < 200; i++ {
			x.abortAll()
			synctest.Wait()
			x.mu.Lock()
			done := x.live == 0 && len(x.pend) == 0
			x.mu.Unlock()
			if done {
				break
			}
			time.Sleep(time.Second) // let timers of unwinding code fire (virtual time)
		}
		x.abortAll()
	})
	return x
}

type work struct {
	prefix []string
	dev    int
	first  string // first deviation (subtree ownership)
	sleep  []string
}

// Free > 0 turns every Explore into Free free-running executions of the scenario (race pass): gates
// return their default answer at once, lock points are off, actions are never taken, no oracle is
// evaluated.  Which interleaving runs is the Go runtime's choice; the pass exists for the race detector,
// which reports accesses that are unordered by happens-before whatever the timing was.
var Free int

// FreeExecs counts the executions of free mode (evidence).
var FreeExecs int64

// Explore enumerates all executions within the bound.  check is called for
// every execution (outside the bubble).
func Explore(t *testing.T, sc Scenario, opt Options, check func(x *Exec)) Stats {
	var st Stats
	if Free > 0 {
		for i := 0; i < Free; i++ {
			x := runOne(t, &sc, &opt, freePrefix)
			st.Execs++
			FreeExecs++
			if sc.After != nil {
				sc.After(x)
			}
		}
		return st
	}
	if opt.Prefix != nil {
		if opt.BeforeExec != nil {
			opt.BeforeExec(opt.Prefix)
		}
		x := runOne(t, &sc, &opt, opt.Prefix)
		st.Execs, st.Steps = 1, int64(len(x.Steps))
		if x.Diverged {
			st.Diverged++
		}
		if sc.After != nil {
			sc.After(x)
		}
		check(x)
		return st
	}
	stack := []work{{}}
	for len(stack) > 0 {
		w := stack[len(stack)-1]
		stack = stack[:len(stack)-1]
		if (opt.Expired != nil && opt.Expired()) || (opt.MaxExecs > 0 && st.Execs >= opt.MaxExecs) {
			st.Capped = true
			break
		}
		var x *Exec
		if opt.Skip != nil && opt.Skip(w.prefix) {
			st.Skipped++
			continue
		}
		if opt.BeforeExec != nil {
			opt.BeforeExec(w.prefix)
		}
		for try := 0; try < 15; try++ {
			x = runOne(t, &sc, &opt, w.prefix)
			if !x.Diverged {
				break
			}
		}
		isRoot := len(w.prefix) == 0
		counted := !isRoot || opt.RootOwner
		if counted {
			st.Execs++
			st.Steps += int64(len(x.Steps))
			if x.Deadlock {
				st.Deadlocks++
			}
			if x.Horizon {
				st.Horizons++
			}
			if w.dev > st.MaxDev {
				st.MaxDev = w.dev
			}
			for _, s := range x.Steps {
				if s.N > st.MaxPending {
					st.MaxPending = s.N
				}
				if s.N > 1 {
					st.ChoicePoint++
				}
			}
			if sc.After != nil {
				sc.After(x)
			}
			check(x)
		}
		if x.Diverged {
			st.Diverged++
			if len(st.DivergeInfo) < 5 {
				st.DivergeInfo = append(st.DivergeInfo, x.DivergeInfo)
			}
			continue // children of a diverged prefix are not expanded (reported as not exhaustive by the caller)
		}
		// expand: alternatives at every step at or after the prefix
		var children []work
		sleep := append([]string(nil), w.sleep...)
		for i := len(w.prefix); i < len(x.Steps); i++ {
			s := x.Steps[i]
			explored := []string{s.Keys[s.Chosen]}
			for j := 0; j < s.N; j++ {
				if j == s.Chosen {
					continue
				}
				cost := w.dev + s.Costs[j]
				// the chosen alternative may itself have had a cost (Preempt policy never charges the default)
				if opt.Bound >= 0 && cost > opt.Bound {
					continue
				}
				if opt.SleepSets && contains(sleep, s.Keys[j]) {
					st.SleepCut++
					continue
				}
				np := append(append([]string(nil), x.Trace[:i]...), s.Keys[j])
				first := w.first
				if first == "" {
					first = strings.Join(np, "\x00")
					if opt.Own != nil && !opt.Own(first) {
						continue
					}
				}
				cs := work{prefix: np, dev: cost, first: first}
				if opt.SleepSets && sc.Independent != nil {
					// the child must not re-explore, first, choices that were already explored from this
					// state and commute with the child's first move
					for _, k := range append(append([]string(nil), sleep...), explored...) {
						if sc.Independent(k, s.Keys[j]) {
							cs.sleep = append(cs.sleep, k)
						}
					}
				}
				children = append(children, cs)
				explored = append(explored, s.Keys[j])
			}
			// moving on along the executed path: the choice taken at step i wakes dependent sleepers
			if opt.SleepSets && sc.Independent != nil {
				var ns []string
				for _, k := range sleep {
					if sc.Independent(k, s.Keys[s.Chosen]) {
						ns = append(ns, k)
					}
				}
				sleep = ns
			}
			// charge the cost of the choice actually taken at step i (non-zero only under Preempt
			// when the default itself is a non-free switch — never, by construction)
		}
		// depth-first: push in reverse so that the shallowest alternative is explored first
		for i := len(children) - 1; i >= 0; i-- {
			stack = append(stack, children[i])
		}
	}
	return st
}

func contains(l []string, s string) bool {
	for _, x := range l {
		if x == s {
			return true
		}
	}
	return false
}

// TraceString renders a choice sequence.
func TraceString(tr []string) string { return strings.Join(tr, " → ") }

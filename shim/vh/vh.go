// Package vh is the harness-side runtime of /verif: sharding, counters,
// distinct-sets, samples, violations and the per-shard result file that the
// driver (cmd/verif) merges into /verif/evidence/<id>.json.
//
// It is injected into the restic module as internal/verifshim/vh through the
// build overlay and depends on the standard library only, so every restic
// package's test binary can import it.
package vh

import (
	"crypto/sha256"
	"encoding/binary"
	"encoding/json"
	"fmt"
	"hash/fnv"
	"os"
	"path/filepath"
	"runtime/debug"
	"strconv"
	"strings"
	"sync"
	"testing"
	"time"
)

// Violation is one observed counterexample.
type Violation struct {
	Key    string `json:"key"`              // canonical identity of the failing case (matched against KNOWN_FINDINGS.json)
	What   string `json:"what"`             // human readable description
	Case   string `json:"case,omitempty"`   // the Case() key under which it was found (used for replay filtering)
	Detail any    `json:"detail,omitempty"` // schedule / history / input, enough to replay
}

// Result is what one shard writes.
type Result struct {
	Property    string              `json:"property"`
	Shard       int                 `json:"shard"`
	Shards      int                 `json:"shards"`
	Evaluations int64               `json:"evaluations"`
	Transitions int64               `json:"transitions"`
	Traces      int64               `json:"traces"`
	Counters    map[string]int64    `json:"counters"`
	Sets        map[string][]uint64 `json:"sets"`
	Samples     []any               `json:"samples"`
	Violations  []Violation         `json:"violations"`
	Exhaustive  bool                `json:"exhaustive"`
	Caps        []string            `json:"caps"`
	Notes       []string            `json:"notes"`
	Rule        string              `json:"rule"`
	Assumptions []string            `json:"assumptions"`
	Extra       map[string]any      `json:"extra"`
	Completed   bool                `json:"completed"`
	// OutcomeNames: the first distinct outcomes of this shard written out (at most 200)
	OutcomeNames []string `json:"outcome_names"`
}

// Run is the per-test-binary handle.
type Run struct {
	T        testing.TB
	Property string
	Tier     string // "quick" | "thorough"
	Seed     int64
	Shard    int
	Shards   int
	Scratch  string
	out      string
	deadline time.Time
	only     string          // replay: run only the case with this key
	replay   json.RawMessage // replay: detail of the violation being replayed
	rkey     string

	mu       sync.Mutex
	res      Result
	sets     map[string]map[uint64]struct{}
	maxSamp  int
	maxViol  int
	capNoted map[string]bool
}

// Start reads the environment prepared by the driver.  When run outside the
// driver (plain `go test`) it behaves as a single quick shard.
func Start(t testing.TB, property string) *Run {
	r := &Run{T: t, Property: property, Tier: "quick", Shards: 1, maxSamp: 6, maxViol: 20,
		sets: map[string]map[uint64]struct{}{}, capNoted: map[string]bool{}}
	if v := os.Getenv("VERIF_TIER"); v == "thorough" {
		r.Tier = v
	}
	if v := os.Getenv("VERIF_SEED"); v != "" {
		r.Seed, _ = strconv.ParseInt(v, 10, 64)
	}
	if v := os.Getenv("VERIF_SHARD"); v != "" {
		parts := strings.SplitN(v, "/", 2)
		if len(parts) == 2 {
			r.Shard, _ = strconv.Atoi(parts[0])
			r.Shards, _ = strconv.Atoi(parts[1])
		}
	}
	if r.Shards < 1 {
		r.Shards = 1
	}
	r.out = os.Getenv("VERIF_OUT")
	r.Scratch = os.Getenv("VERIF_SCRATCH")
	if r.Scratch == "" {
		r.Scratch = filepath.Join(os.TempDir(), fmt.Sprintf("verif-scratch-%d", os.Getpid()))
	}
	// fixed-length name: the location of the scratch directory must not differ in depth or name lengths
	// between shards, confirmation lanes and later replays (see runShardLane in the driver)
	r.Scratch = filepath.Join(r.Scratch, fmt.Sprintf("%s-s%02d", property, r.Shard%100))
	_ = os.MkdirAll(r.Scratch, 0o700)
	if v := os.Getenv("VERIF_DEADLINE"); v != "" {
		if n, err := strconv.ParseInt(v, 10, 64); err == nil {
			r.deadline = time.Unix(n, 0)
		}
	}
	if p := os.Getenv("VERIF_REPLAY"); p != "" {
		buf, err := os.ReadFile(p)
		if err != nil {
			t.Fatalf("verif: cannot read replay file: %v", err)
		}
		var rf struct {
			Key    string          `json:"key"`
			Case   string          `json:"case"`
			Detail json.RawMessage `json:"detail"`
		}
		if err := json.Unmarshal(buf, &rf); err != nil {
			t.Fatalf("verif: bad replay file: %v", err)
		}
		r.only = rf.Case
		r.rkey = rf.Key
		r.replay = rf.Detail
		r.Shard, r.Shards = 0, 1
	}
	r.res = Result{Property: property, Shard: r.Shard, Shards: r.Shards, Exhaustive: true,
		Counters: map[string]int64{}, Sets: map[string][]uint64{}, Extra: map[string]any{}}
	return r
}

// Thorough reports whether the thorough tier was requested.
func (r *Run) Thorough() bool { return r.Tier == "thorough" }

// Pick returns q in the quick tier and t in the thorough tier.
func Pick[T any](r *Run, q, t T) T {
	if r.Thorough() {
		return t
	}
	return q
}

// Replaying reports whether a single recorded violation is being replayed, and
// returns its detail.
func (r *Run) Replaying() (json.RawMessage, bool) { return r.replay, r.only != "" || r.rkey != "" }

func h64(s string) uint64 {
	h := fnv.New64a()
	_, _ = h.Write([]byte(s))
	return h.Sum64()
}

// Hash is a stable 64-bit hash for use as a set member.
func Hash(parts ...string) uint64 {
	h := sha256.New()
	for _, p := range parts {
		var l [4]byte
		binary.LittleEndian.PutUint32(l[:], uint32(len(p)))
		h.Write(l[:])
		h.Write([]byte(p))
	}
	return binary.LittleEndian.Uint64(h.Sum(nil)[:8])
}

// Case decides whether the case identified by key belongs to this shard (or,
// when replaying, is the case to replay).  Keys must be stable across runs.
func (r *Run) Case(key string) bool {
	if r.only != "" {
		return key == r.only
	}
	if r.Shards == 1 {
		return true
	}
	return int((h64(key)+uint64(r.Seed))%uint64(r.Shards)) == r.Shard
}

// CaseIdx is Case for spaces enumerated by index.
func (r *Run) CaseIdx(i int64) bool {
	if r.only != "" {
		return strconv.FormatInt(i, 10) == r.only
	}
	if r.Shards == 1 {
		return true
	}
	return int((uint64(i)+uint64(r.Seed))%uint64(r.Shards)) == r.Shard
}

// Eval counts n evaluated cases (executions run / inputs tried).
func (r *Run) Eval(n int64) { r.mu.Lock(); r.res.Evaluations += n; r.mu.Unlock() }

// Transition counts n transitions (environment events applied / operations executed).
func (r *Run) Transition(n int64) { r.mu.Lock(); r.res.Transitions += n; r.mu.Unlock() }

// Trace counts n complete executions of the real code that were compared with the model/oracle.
func (r *Run) Trace(n int64) { r.mu.Lock(); r.res.Traces += n; r.mu.Unlock() }

// Count adds to a named counter (summed across shards).
func (r *Run) Count(name string, n int64) { r.mu.Lock(); r.res.Counters[name] += n; r.mu.Unlock() }

// Add puts a member into a named distinct-set (unioned across shards).
// Conventional names: "states", "nontrivial", "outcomes".
// It reports whether the member was new in this shard.
func (r *Run) Add(set string, member uint64) bool {
	r.mu.Lock()
	defer r.mu.Unlock()
	m := r.sets[set]
	if m == nil {
		m = map[uint64]struct{}{}
		r.sets[set] = m
	}
	if _, ok := m[member]; ok {
		return false
	}
	m[member] = struct{}{}
	return true
}

// AddS is Add with a string member.
func (r *Run) AddS(set, member string) bool { return r.Add(set, Hash(member)) }

// State records a canonical state.
func (r *Run) State(key string) bool { return r.Add("states", Hash(key)) }

// Nontrivial records a distinct non-trivial case.
func (r *Run) Nontrivial(key string) bool { return r.Add("nontrivial", Hash(key)) }

// Outcome records a distinct observed outcome.
func (r *Run) Outcome(key string) bool {
	isNew := r.Add("outcomes", Hash(key))
	if isNew {
		r.mu.Lock()
		if len(r.res.OutcomeNames) < 200 {
			if len(key) > 300 {
				key = key[:300] + "…"
			}
			r.res.OutcomeNames = append(r.res.OutcomeNames, key)
		}
		r.mu.Unlock()
	}
	return isNew
}

// NontrivialByConstruction counts n non-trivial cases that are distinct because
// the enumeration visits every element of the space exactly once.
func (r *Run) NontrivialByConstruction(n int64) { r.Count("nontrivial_by_construction", n) }

// Sample keeps a few written-out cases.
func (r *Run) Sample(v any) {
	r.mu.Lock()
	defer r.mu.Unlock()
	if len(r.res.Samples) < r.maxSamp {
		r.res.Samples = append(r.res.Samples, v)
	}
}

// Rule sets the evidence "rule" text.
func (r *Run) Rule(s string) { r.mu.Lock(); r.res.Rule = s; r.mu.Unlock() }

// Assume records an assumption for the evidence file.
func (r *Run) Assume(s ...string) {
	r.mu.Lock()
	r.res.Assumptions = append(r.res.Assumptions, s...)
	r.mu.Unlock()
}

// Note records free text for the evidence file.
func (r *Run) Note(format string, a ...any) {
	r.mu.Lock()
	if len(r.res.Notes) < 50 {
		r.res.Notes = append(r.res.Notes, fmt.Sprintf(format, a...))
	}
	r.mu.Unlock()
}

// Extra records an additional evidence key (last shard wins unless numeric).
func (r *Run) Extra(k string, v any) { r.mu.Lock(); r.res.Extra[k] = v; r.mu.Unlock() }

// Expired reports whether the wall-clock cap of this shard was reached; the
// first time it is, the run is marked not exhaustive.
func (r *Run) Expired() bool {
	if r.deadline.IsZero() || time.Now().Before(r.deadline) {
		return false
	}
	r.Cap("wall-clock cap reached")
	return true
}

// Cap marks the run as not exhaustive and records why.
func (r *Run) Cap(why string) {
	r.mu.Lock()
	defer r.mu.Unlock()
	r.res.Exhaustive = false
	if !r.capNoted[why] {
		r.capNoted[why] = true
		r.res.Caps = append(r.res.Caps, why)
	}
}

// Violation records a counterexample.  caseKey is the Case() key it was found
// under ("" if the harness does not shard by key).
func (r *Run) Violation(caseKey, key, what string, detail any) {
	r.mu.Lock()
	defer r.mu.Unlock()
	r.res.Counters["violations_seen"]++
	for _, v := range r.res.Violations {
		if v.Key == key {
			return
		}
	}
	if len(r.res.Violations) < r.maxViol {
		r.res.Violations = append(r.res.Violations, Violation{Key: key, What: what, Case: caseKey, Detail: detail})
	}
}

// Violationf is a convenience wrapper.
func (r *Run) Violationf(caseKey, key string, detail any, format string, a ...any) {
	r.Violation(caseKey, key, fmt.Sprintf(format, a...), detail)
}

// NoPanic runs f and turns a panic into a returned description.
func NoPanic(f func()) (panicked bool, msg string) {
	defer func() {
		if e := recover(); e != nil {
			panicked = true
			st := string(debug.Stack())
			if len(st) > 1500 {
				st = st[:1500]
			}
			msg = fmt.Sprintf("%v\n%s", e, st)
		}
	}()
	f()
	return
}

// Checkpoint records what is about to be executed.  If the test process dies (an unrecovered panic in
// a goroutine started by restic), the driver turns the last checkpoint into a violation and replays it.
func (r *Run) Checkpoint(caseKey string, detail any) {
	if r.out == "" {
		return
	}
	buf, err := json.Marshal(map[string]any{"case": caseKey, "detail": detail})
	if err != nil {
		return
	}
	_ = os.WriteFile(r.out+".cur", buf, 0o600)
}

// Finish writes the shard result.  Call it with defer right after Start.
func (r *Run) Finish() {
	r.mu.Lock()
	defer r.mu.Unlock()
	for name, m := range r.sets {
		l := make([]uint64, 0, len(m))
		for k := range m {
			l = append(l, k)
		}
		r.res.Sets[name] = l
	}
	r.res.Completed = !r.T.Failed()
	_ = os.RemoveAll(r.Scratch)
	if r.out == "" {
		for _, v := range r.res.Violations {
			r.T.Errorf("VIOLATION %s key=%s: %s", r.Property, v.Key, v.What)
		}
		r.T.Logf("verif %s: evals=%d transitions=%d states=%d nontrivial=%d exhaustive=%v", r.Property,
			r.res.Evaluations, r.res.Transitions, len(r.res.Sets["states"]),
			int64(len(r.res.Sets["nontrivial"]))+r.res.Counters["nontrivial_by_construction"], r.res.Exhaustive)
		return
	}
	buf, err := json.Marshal(&r.res)
	if err != nil {
		r.T.Fatalf("verif: marshal result: %v", err)
	}
	tmp := r.out + ".tmp"
	if err := os.WriteFile(tmp, buf, 0o600); err != nil {
		r.T.Fatalf("verif: write result: %v", err)
	}
	if err := os.Rename(tmp, r.out); err != nil {
		r.T.Fatalf("verif: write result: %v", err)
	}
}

// Package detrand replaces crypto/rand.Reader by a deterministic stream for the
// duration of one explored execution, so that restic's few *decisions* that
// depend on randomness (which of its packers receives a blob) repeat from one
// execution to the next.  Single-byte reads (rand.Int with a small range) come
// from a fixed decision sequence indexed by ordinal; longer reads (nonces,
// salts, IDs) come from a counter-based generator and are unique.
package detrand

import (
	"crypto/rand"
	"crypto/sha256"
	"encoding/binary"
	"io"
	"sync"
)

type reader struct {
	mu       sync.Mutex
	decision uint64
	counter  uint64
	seed     uint64
}

func (r *reader) Read(p []byte) (int, error) {
	r.mu.Lock()
	defer r.mu.Unlock()
	if len(p) <= 2 {
		for i := range p {
			var b [16]byte
			binary.LittleEndian.PutUint64(b[:8], r.seed)
			binary.LittleEndian.PutUint64(b[8:], r.decision)
			r.decision++
			h := sha256.Sum256(b[:])
			p[i] = h[0]
		}
		return len(p), nil
	}
	off := 0
	for off < len(p) {
		var b [24]byte
		binary.LittleEndian.PutUint64(b[:8], r.seed)
		binary.LittleEndian.PutUint64(b[8:16], r.counter)
		copy(b[16:], "verifnnc")
		r.counter++
		h := sha256.Sum256(b[:])
		off += copy(p[off:], h[:])
	}
	return len(p), nil
}

var installMu sync.Mutex

// Install swaps crypto/rand.Reader; the returned function restores it.
func Install(seed uint64) (restore func()) {
	installMu.Lock()
	old := rand.Reader
	rand.Reader = io.Reader(&reader{seed: seed})
	installMu.Unlock()
	var once sync.Once
	return func() {
		once.Do(func() {
			installMu.Lock()
			rand.Reader = old
			installMu.Unlock()
		})
	}
}

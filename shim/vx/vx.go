// Package vx glues the explorer (xplore) to the harness runtime (vh):
// shard ownership of subtrees, replay of a recorded schedule, evidence counters.
package vx

import (
	"encoding/json"
	"fmt"
	"os"
	"strings"
	"testing"

	"github.com/restic/restic/internal/verifshim/vh"
	"github.com/restic/restic/internal/verifshim/xplore"
)

// Detail is what a schedule violation carries for replay.
type Detail struct {
	Scenario string   `json:"scenario"`
	Trace    []string `json:"trace"`
	Extra    any      `json:"extra,omitempty"`
}

// Explore runs the exploration of one named scenario within this shard.
func Explore(r *vh.Run, t *testing.T, name string, sc xplore.Scenario, opt xplore.Options, check func(x *xplore.Exec)) xplore.Stats {
	if raw, replaying := r.Replaying(); replaying {
		var d Detail
		if err := json.Unmarshal(raw, &d); err != nil || d.Scenario != name {
			return xplore.Stats{}
		}
		opt.Prefix = d.Trace
		if opt.Prefix == nil {
			opt.Prefix = []string{}
		}
	} else {
		opt.Own = func(first string) bool { return r.Case(name + "|" + first) }
		opt.RootOwner = r.Case(name + "|root")
		if opt.Expired == nil {
			opt.Expired = r.Expired
		}
	}
	if skips := loadSkips(); len(skips) > 0 {
		opt.Skip = func(prefix []string) bool {
			for _, sk := range skips {
				if sk.Scenario == name && strings.Join(sk.Trace, "\x00") == strings.Join(prefix, "\x00") {
					return true
				}
			}
			return false
		}
	}
	opt.BeforeExec = func(prefix []string) {
		r.Checkpoint(name, Detail{Scenario: name, Trace: append([]string{}, prefix...)})
	}
	st := xplore.Explore(t, sc, opt, check)
	r.Eval(st.Execs)
	r.Trace(st.Execs)
	r.Transition(st.Steps)
	r.Count("choice_points", st.ChoicePoint)
	r.Count("deadlocked_executions", st.Deadlocks)
	r.Count("horizon_executions", st.Horizons)
	r.Count("sleep_set_cuts", st.SleepCut)
	if st.Diverged > 0 {
		r.Count("diverged_prefixes", st.Diverged)
		for _, d := range st.DivergeInfo {
			r.Note("divergence in %s: %s", name, d)
		}
		r.Cap(fmt.Sprintf("scenario %s: a replayed prefix diverged (runtime nondeterminism not owned by the scheduler); its subtree was not expanded", name))
	}
	if st.Skipped > 0 {
		r.Count("schedules_skipped_after_process_crash", st.Skipped)
		r.Cap(fmt.Sprintf("scenario %s: %d schedule(s) that crashed the test process (panic inside restic) were skipped together with their subtrees", name, st.Skipped))
	}
	if st.Capped {
		r.Cap(fmt.Sprintf("scenario %s: exploration stopped by the wall-clock/execution cap", name))
	}
	return st
}

// loadSkips reads the schedules the driver asks this shard to step around (VERIF_SKIP = JSON file).
func loadSkips() []Detail {
	p := os.Getenv("VERIF_SKIP")
	if p == "" {
		return nil
	}
	buf, err := os.ReadFile(p)
	if err != nil {
		return nil
	}
	var l []Detail
	_ = json.Unmarshal(buf, &l)
	return l
}

// Violation records a violation found in execution x of the named scenario.
func Violation(r *vh.Run, name string, x *xplore.Exec, key, what string, extra any) {
	r.Violation(name, key, what+"\nschedule: "+xplore.TraceString(x.Labels), Detail{Scenario: name, Trace: append([]string{}, x.Trace...), Extra: extra})
}

// Package oracle holds the repository-level oracles and fixtures shared by the
// GATE harnesses: opening a store state as a fresh repository, `check
// --read-data` semantics classified exactly as cmd/restic's runCheck does,
// walking snapshots and comparing their content with a model, forging
// snapshots straight into a repository, and semantic (schedule-independent)
// naming of repository files.
package oracle

import (
	"bytes"
	"context"
	"crypto/sha256"
	"encoding/hex"
	"encoding/json"
	"fmt"
	"sort"
	"strings"
	"testing"
	"time"

	"github.com/klauspost/compress/zstd"
	"github.com/restic/chunker"
	"github.com/restic/restic/internal/backend"
	"github.com/restic/restic/internal/checker"
	"github.com/restic/restic/internal/data"
	"github.com/restic/restic/internal/errors"
	"github.com/restic/restic/internal/repository"
	"github.com/restic/restic/internal/repository/crypto"
	"github.com/restic/restic/internal/repository/pack"
	"github.com/restic/restic/internal/restic"
	"github.com/restic/restic/internal/verifshim/gatebe"
)

const testPol = chunker.Pol(0x3DA3358B4DC173)

// Password is the password of every fixture repository.
const Password = "verif-password"

type nolog struct{}

func (nolog) Logf(string, ...any) {}

type nologTB struct{ testing.TB }

func (nologTB) Logf(string, ...any) {}

// LowKDF switches to the low-security KDF parameters restic's own tests use.
func LowKDF() {
	repository.TestUseLowSecurityKDFParameters(nolog{})
}

// Open opens a fresh Repository (no lock taken, lock files ignored) over a private copy of the state.
func Open(ctx context.Context, st gatebe.State, password string) (*repository.Repository, *gatebe.Store, error) {
	LowKDF()
	store := gatebe.NewStoreFrom(st, nil)
	be := &gatebe.Backend{S: store, Proc: "oracle", Conns: 2, AtomicReplace: true}
	repo, err := repository.New(be, repository.Options{})
	if err != nil {
		return nil, nil, err
	}
	if err := repo.SearchKey(ctx, password, 20, ""); err != nil {
		return nil, nil, err
	}
	return repo, store, nil
}

// OpenHint is Open with a key hint (--key-hint / RESTIC_KEY_HINT).
func OpenHint(ctx context.Context, st gatebe.State, password, hint string) (*repository.Repository, error) {
	LowKDF()
	store := gatebe.NewStoreFrom(st, nil)
	be := &gatebe.Backend{S: store, Proc: "oracle", Conns: 2, AtomicReplace: true}
	repo, err := repository.New(be, repository.Options{})
	if err != nil {
		return nil, err
	}
	if err := repo.SearchKey(ctx, password, 20, hint); err != nil {
		return nil, err
	}
	return repo, nil
}

// CheckResult is the outcome of `check --read-data` semantics.
type CheckResult struct {
	Errors []string // what runCheck counts as errors ("repository contains errors")
	Hints  []string // non-critical hints (duplicate packs, mixed packs, orphaned packs)
}

// Check runs the real checker the way cmd/restic's runCheck does and classifies its findings the same way.
func Check(ctx context.Context, repo *repository.Repository, readData bool) CheckResult {
	var res CheckResult
	chkr := checker.New(repo, false)
	if err := chkr.LoadSnapshots(ctx, &data.SnapshotFilter{}, nil); err != nil {
		res.Errors = append(res.Errors, "LoadSnapshots: "+err.Error())
		return res
	}
	hints, errs := chkr.LoadIndex(ctx, restic.NoopTerminalCounterFactory)
	for _, hint := range hints {
		switch hint.(type) {
		case *repository.ErrDuplicatePacks, *repository.ErrMixedPack:
			res.Hints = append(res.Hints, hint.Error())
		default:
			res.Errors = append(res.Errors, "index: "+hint.Error())
		}
	}
	if len(errs) > 0 {
		for _, e := range errs {
			res.Errors = append(res.Errors, "LoadIndex: "+e.Error())
		}
		return res
	}
	errChan := make(chan error)
	go chkr.Packs(ctx, errChan)
	for err := range errChan {
		var pe *repository.ErrPackMetadata
		if errors.As(err, &pe) && pe.Orphaned {
			res.Hints = append(res.Hints, err.Error())
			continue
		}
		res.Errors = append(res.Errors, "packs: "+err.Error())
	}
	errChan = make(chan error)
	go chkr.Structure(ctx, restic.NoopCounter, errChan)
	for err := range errChan {
		switch e := err.(type) {
		case *checker.TreeError:
			for _, te := range e.Errors {
				res.Errors = append(res.Errors, fmt.Sprintf("tree %v: %v", e.ID.Str(), te))
			}
		default:
			res.Errors = append(res.Errors, "structure: "+err.Error())
		}
	}
	if readData {
		errChan = make(chan error)
		go chkr.ReadPacks(ctx, func(p map[restic.ID]int64) map[restic.ID]int64 { return p }, restic.NewNoopPrinter(), errChan)
		for err := range errChan {
			res.Errors = append(res.Errors, "read-data: "+err.Error())
		}
	}
	sort.Strings(res.Errors)
	sort.Strings(res.Hints)
	return res
}

// Content is the user-visible content of one snapshot: path → description.
//
//	dir:      "d"
//	file:     "f:<size>:<sha256 of content>"
//	symlink:  "l:<target>"
//	other:    "o:<type>"
type Content map[string]string

// FileDesc describes file bytes the way Content does.
func FileDesc(b []byte) string {
	h := sha256.Sum256(b)
	return fmt.Sprintf("f:%d:%s", len(b), hex.EncodeToString(h[:]))
}

// Walk reads a whole tree through LoadBlob (every tree, every data blob) and returns its content.
func Walk(ctx context.Context, repo restic.BlobLoader, tree restic.ID) (Content, error) {
	c := Content{}
	err := walk(ctx, repo, tree, "", c, 0)
	return c, err
}

func walk(ctx context.Context, repo restic.BlobLoader, tree restic.ID, prefix string, c Content, depth int) error {
	if depth > 64 {
		return fmt.Errorf("tree nesting too deep at %q", prefix)
	}
	it, err := data.LoadTree(ctx, repo, tree)
	if err != nil {
		return fmt.Errorf("load tree %v (%q): %w", tree.Str(), prefix, err)
	}
	type sub struct {
		p  string
		id restic.ID
	}
	var subs []sub
	for item := range it {
		if item.Error != nil {
			return fmt.Errorf("tree %v (%q): %w", tree.Str(), prefix, item.Error)
		}
		n := item.Node
		p := prefix + "/" + n.Name
		switch n.Type {
		case data.NodeTypeDir:
			c[p] = "d"
			if n.Subtree == nil {
				return fmt.Errorf("dir %q has no subtree", p)
			}
			subs = append(subs, sub{p, *n.Subtree})
		case data.NodeTypeFile:
			h := sha256.New()
			size := 0
			for _, id := range n.Content {
				buf, err := repo.LoadBlob(ctx, restic.BlobHandle{ID: id, Type: restic.DataBlob}, nil)
				if err != nil {
					return fmt.Errorf("file %q blob %v: %w", p, id.Str(), err)
				}
				if restic.Hash(buf) != id {
					return fmt.Errorf("file %q blob %v: LoadBlob returned bytes that do not hash to the blob ID", p, id.Str())
				}
				h.Write(buf)
				size += len(buf)
			}
			if uint64(size) != n.Size {
				return fmt.Errorf("file %q: node size %d but content has %d bytes", p, n.Size, size)
			}
			c[p] = fmt.Sprintf("f:%d:%s", size, hex.EncodeToString(h.Sum(nil)))
		case data.NodeTypeSymlink:
			c[p] = "l:" + n.LinkTarget
		default:
			c[p] = "o:" + string(n.Type)
		}
	}
	for _, s := range subs {
		if err := walk(ctx, repo, s.id, s.p, c, depth+1); err != nil {
			return err
		}
	}
	return nil
}

// Equal compares two contents and describes the first difference.
func (c Content) Equal(o Content) (bool, string) {
	for p, v := range c {
		if ov, ok := o[p]; !ok {
			return false, "missing " + p
		} else if ov != v {
			return false, fmt.Sprintf("%s differs: want %s got %s", p, v, ov)
		}
	}
	for p := range o {
		if _, ok := c[p]; !ok {
			return false, "unexpected " + p
		}
	}
	return true, ""
}

// Expect maps snapshot IDs to the content the user was promised.
type Expect map[restic.ID]Content

// VerifyOpts selects what Verify does.
type VerifyOpts struct {
	ReadData   bool // run ReadPacks as check --read-data does
	SkipCheck  bool // only verify snapshot contents
	AlsoListed bool // additionally walk every *listed* snapshot that is not in Expect (must be readable)
}

// Verify is the RepoOracle: it opens the state as a fresh repository and
// returns a list of problems (empty = the state is fine).
func Verify(ctx context.Context, st gatebe.State, password string, expect Expect, o VerifyOpts) []string {
	var problems []string
	repo, _, err := Open(ctx, st, password)
	if err != nil {
		return []string{"open: " + err.Error()}
	}
	if err := repo.LoadIndex(ctx, restic.NoopTerminalCounterFactory); err != nil {
		return []string{"LoadIndex: " + err.Error()}
	}
	if !o.SkipCheck {
		cr := Check(ctx, repo, o.ReadData)
		for _, e := range cr.Errors {
			problems = append(problems, "check: "+e)
		}
	}
	ids := make([]restic.ID, 0, len(expect))
	for id := range expect {
		ids = append(ids, id)
	}
	sort.Slice(ids, func(i, j int) bool { return ids[i].String() < ids[j].String() })
	for _, id := range ids {
		sn, err := data.LoadSnapshot(ctx, repo, id)
		if err != nil {
			problems = append(problems, fmt.Sprintf("snapshot %v: %v", id.Str(), err))
			continue
		}
		if sn.Tree == nil {
			problems = append(problems, fmt.Sprintf("snapshot %v has no tree", id.Str()))
			continue
		}
		got, err := Walk(ctx, repo, *sn.Tree)
		if err != nil {
			problems = append(problems, fmt.Sprintf("snapshot %v: %v", id.Str(), err))
			continue
		}
		if ok, why := expect[id].Equal(got); !ok {
			problems = append(problems, fmt.Sprintf("snapshot %v content: %s", id.Str(), why))
		}
	}
	if o.AlsoListed {
		_ = repo.List(ctx, restic.SnapshotFile, func(id restic.ID, _ int64) error {
			if _, ok := expect[id]; ok {
				return nil
			}
			sn, err := data.LoadSnapshot(ctx, repo, id)
			if err != nil {
				problems = append(problems, fmt.Sprintf("listed snapshot %v: %v", id.Str(), err))
				return nil
			}
			if sn.Tree == nil {
				problems = append(problems, fmt.Sprintf("listed snapshot %v has no tree", id.Str()))
				return nil
			}
			if _, err := Walk(ctx, repo, *sn.Tree); err != nil {
				problems = append(problems, fmt.Sprintf("listed snapshot %v: %v", id.Str(), err))
			}
			return nil
		})
	}
	return problems
}

// ---------------------------------------------------------------------------
// Forge: write snapshots straight into a repository.

// Spec is a tiny file tree: path ("a/b/c", no leading slash) → content.  A nil value makes a directory.
type Spec map[string][]byte

// ForgeOpts controls Forge.
type ForgeOpts struct {
	ChunkSize int // files are split into blobs of this many bytes (default 1024)
	Tags      []string
	Host      string
	Time      time.Time
	Paths     []string
}

type fnode struct {
	children map[string]*fnode
	content  []byte
	isFile   bool
}

// Forge saves the spec as a snapshot (data blobs, trees, index, snapshot file) and returns its ID and content model.
func Forge(ctx context.Context, repo *repository.Repository, spec Spec, o ForgeOpts) (restic.ID, Content, error) {
	if o.ChunkSize <= 0 {
		o.ChunkSize = 1024
	}
	if o.Time.IsZero() {
		o.Time = time.Date(2020, 1, 2, 3, 4, 5, 0, time.UTC)
	}
	if o.Host == "" {
		o.Host = "verifhost"
	}
	if o.Paths == nil {
		o.Paths = []string{"/src"}
	}
	root := &fnode{children: map[string]*fnode{}}
	model := Content{}
	for p, b := range spec {
		parts := strings.Split(p, "/")
		cur := root
		pp := ""
		for i, part := range parts {
			pp += "/" + part
			nx := cur.children[part]
			if nx == nil {
				nx = &fnode{children: map[string]*fnode{}}
				cur.children[part] = nx
			}
			if i == len(parts)-1 && b != nil {
				nx.isFile = true
				nx.content = b
				model[pp] = FileDesc(b)
			} else {
				model[pp] = "d"
			}
			cur = nx
		}
	}
	var treeID restic.ID
	err := repo.WithBlobUploader(ctx, func(ctx context.Context, up restic.BlobSaverWithAsync) error {
		var err error
		treeID, err = forgeTree(ctx, up, root, o)
		return err
	})
	if err != nil {
		return restic.ID{}, nil, err
	}
	sn := &data.Snapshot{Time: o.Time, Tree: &treeID, Paths: o.Paths, Hostname: o.Host, Tags: o.Tags, Username: "verif"}
	id, err := data.SaveSnapshot(ctx, repo, sn)
	return id, model, err
}

func forgeTree(ctx context.Context, up restic.BlobSaver, n *fnode, o ForgeOpts) (restic.ID, error) {
	names := make([]string, 0, len(n.children))
	for name := range n.children {
		names = append(names, name)
	}
	sort.Strings(names)
	tw := data.NewTreeWriter(up)
	for _, name := range names {
		ch := n.children[name]
		node := &data.Node{Name: name, ModTime: o.Time, AccessTime: o.Time, ChangeTime: o.Time}
		if ch.isFile {
			node.Type = data.NodeTypeFile
			node.Mode = 0o644
			node.Size = uint64(len(ch.content))
			node.Content = restic.IDs{}
			for off := 0; off < len(ch.content); off += o.ChunkSize {
				end := off + o.ChunkSize
				if end > len(ch.content) {
					end = len(ch.content)
				}
				id, _, _, err := up.SaveBlob(ctx, restic.DataBlob, ch.content[off:end], restic.ID{}, false)
				if err != nil {
					return restic.ID{}, err
				}
				node.Content = append(node.Content, id)
			}
		} else {
			node.Type = data.NodeTypeDir
			node.Mode = 0o755 | 1<<31
			sub, err := forgeTree(ctx, up, ch, o)
			if err != nil {
				return restic.ID{}, err
			}
			node.Subtree = &sub
		}
		if err := tw.AddNode(node); err != nil {
			return restic.ID{}, err
		}
	}
	return tw.Finalize(ctx)
}

// LCG returns n deterministic, incompressible-looking bytes.
func LCG(seed uint64, n int) []byte {
	b := make([]byte, n)
	x := seed*6364136223846793005 + 1442695040888963407
	for i := range b {
		x = x*6364136223846793005 + 1442695040888963407
		b[i] = byte(x >> 33)
	}
	return b
}

// NewRepo creates and initialises a repository on a fresh store (ungated) and returns both.
func NewRepo(ctx context.Context, version uint, opts repository.Options) (*repository.Repository, *gatebe.Store, error) {
	LowKDF()
	store := gatebe.NewStore()
	be := &gatebe.Backend{S: store, Proc: "setup", Conns: 2, AtomicReplace: true}
	repo, err := repository.New(be, opts)
	if err != nil {
		return nil, nil, err
	}
	if version == 0 {
		version = restic.StableRepoVersion
	}
	restic.TestDisableCheckPolynomial(nologTB{})
	pol := testPol
	if err := repo.Init(ctx, version, Password, &pol); err != nil {
		return nil, nil, err
	}
	return repo, store, nil
}

// OpenOn opens the repository stored in store through the given backend (which may be gated).
func OpenOn(ctx context.Context, be backend.Backend, opts repository.Options) (*repository.Repository, error) {
	LowKDF()
	repo, err := repository.New(be, opts)
	if err != nil {
		return nil, err
	}
	if err := repo.SearchKey(ctx, Password, 20, ""); err != nil {
		return nil, err
	}
	return repo, nil
}

// ---------------------------------------------------------------------------
// semantic naming

func decompress(p []byte) []byte {
	if len(p) == 0 {
		return p
	}
	if p[0] == '[' || p[0] == '{' {
		return p
	}
	if p[0] != 2 {
		return nil
	}
	// a fresh decoder per call: zstd decoders hold channels, which must not be shared between synctest bubbles
	zdec, err := zstd.NewReader(nil, zstd.WithDecoderConcurrency(1))
	if err != nil {
		return nil
	}
	defer zdec.Close()
	out, err := zdec.DecodeAll(p[1:], nil)
	if err != nil {
		return nil
	}
	return out
}

func openUnpacked(key *crypto.Key, buf []byte) []byte {
	if len(buf) < key.NonceSize()+key.Overhead()-key.NonceSize() {
		return nil
	}
	nonce, ct := buf[:key.NonceSize()], buf[key.NonceSize():]
	pt, err := key.Open(nil, nonce, ct, nil)
	if err != nil {
		return nil
	}
	return decompress(pt)
}

func short(id restic.ID) string { return hex.EncodeToString(id[:4]) }

// SemNamer returns a gatebe Store.Sem function that names repository files by
// what they mean rather than by the hash of their (randomly nonced) ciphertext.
func SemNamer(key *crypto.Key) func(k gatebe.FileKey, buf []byte, lookup func(gatebe.FileKey) string) string {
	return func(k gatebe.FileKey, buf []byte, lookup func(gatebe.FileKey) string) string {
		switch k.Type {
		case backend.ConfigFile:
			return "config"
		case backend.PackFile:
			blobs, _, err := pack.List(key, bytes.NewReader(buf), int64(len(buf)))
			if err != nil {
				return ""
			}
			l := make([]string, len(blobs))
			for i, b := range blobs {
				l[i] = string(b.Type.String()[0]) + short(b.ID)
			}
			sort.Strings(l)
			return "P{" + strings.Join(l, ",") + "}"
		case backend.IndexFile:
			pt := openUnpacked(key, buf)
			if pt == nil {
				return ""
			}
			var idx struct {
				Packs []struct {
					ID    restic.ID `json:"id"`
					Blobs []struct {
						ID restic.ID `json:"id"`
					} `json:"blobs"`
				} `json:"packs"`
			}
			if json.Unmarshal(pt, &idx) != nil {
				return ""
			}
			var l []string
			for _, p := range idx.Packs {
				n := lookup(gatebe.FileKey{Type: backend.PackFile, Name: p.ID.String()})
				if n == "" {
					bl := make([]string, len(p.Blobs))
					for i, b := range p.Blobs {
						bl[i] = short(b.ID)
					}
					sort.Strings(bl)
					n = "P?{" + strings.Join(bl, ",") + "}"
				}
				l = append(l, n)
			}
			sort.Strings(l)
			h := sha256.Sum256([]byte(strings.Join(l, ";")))
			return fmt.Sprintf("I{%dpacks:%s}", len(l), hex.EncodeToString(h[:4]))
		case backend.SnapshotFile:
			pt := openUnpacked(key, buf)
			if pt == nil {
				return ""
			}
			var sn struct {
				Time     time.Time  `json:"time"`
				Tree     *restic.ID `json:"tree"`
				Tags     []string   `json:"tags"`
				Host     string     `json:"hostname"`
				Original *restic.ID `json:"original"`
				Paths    []string   `json:"paths"`
			}
			if json.Unmarshal(pt, &sn) != nil {
				return ""
			}
			t := "nil"
			if sn.Tree != nil {
				t = short(*sn.Tree)
			}
			orig := ""
			if sn.Original != nil {
				orig = ",orig"
			}
			return fmt.Sprintf("S{%s,%s,%s,%s%s}", t, sn.Time.UTC().Format("20060102T150405"), sn.Host, strings.Join(sn.Tags, "+"), orig)
		case backend.KeyFile:
			var kf struct {
				Created  time.Time `json:"created"`
				Username string    `json:"username"`
			}
			if json.Unmarshal(buf, &kf) != nil {
				return ""
			}
			return fmt.Sprintf("K{%s,%s}", kf.Username, kf.Created.UTC().Format("150405.000"))
		case backend.LockFile:
			pt := openUnpacked(key, buf)
			if pt == nil {
				return ""
			}
			var l struct {
				Time      time.Time `json:"time"`
				Exclusive bool      `json:"exclusive"`
			}
			if json.Unmarshal(pt, &l) != nil {
				return ""
			}
			return fmt.Sprintf("L{excl=%v,%s}", l.Exclusive, l.Time.UTC().Format("150405.000"))
		}
		return ""
	}
}

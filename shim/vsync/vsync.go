// Package vsync replaces the standard "sync" package in selected restic
// packages (through the build overlay, by import substitution only).
//
// Why: a goroutine blocked on a real sync.Mutex is not "durably blocked" for
// testing/synctest, so synctest.Wait would never return while a goroutine holds
// a mutex across a gated environment call.  Mutex and RWMutex here block on a
// sync.Cond, which synctest treats as durable.  Everything else is an alias of
// the real type.
//
// For the FINE engine, Lock/RLock additionally call Hook (if set) first: the
// explorer makes every lock acquisition of a *registered* goroutine a
// scheduling point.
package vsync

import (
	"sync"
)

type (
	WaitGroup = sync.WaitGroup
	Once      = sync.Once
	Map       = sync.Map
	Pool      = sync.Pool
	Cond      = sync.Cond
	Locker    = sync.Locker
)

func NewCond(l Locker) *Cond { return sync.NewCond(l) }

func OnceFunc(f func()) func()                                 { return sync.OnceFunc(f) }
func OnceValue[T any](f func() T) func() T                     { return sync.OnceValue(f) }
func OnceValues[T1, T2 any](f func() (T1, T2)) func() (T1, T2) { return sync.OnceValues(f) }

// Hook, when non-nil, is called before every blocking acquisition.  kind is
// "Lock" or "RLock"; free reports whether the acquisition could succeed right
// now without blocking (evaluated by the scheduler while everything else is
// parked).  Hook returns after the scheduler decided that this goroutine may
// proceed.
var Hook func(kind string, m any, free func() bool)

// Access marks a bulk memory access (inserted by the overlay in front of builtin copy calls of
// packages listed under access_points): a scheduling point of registered goroutines, never blocking.
func Access(kind string) {
	if h := Hook; h != nil {
		h(kind, nil, func() bool { return true })
	}
}

// Mutex is a mutual exclusion lock whose waiters block durably.
type Mutex struct {
	mu     sync.Mutex
	c      *sync.Cond
	locked bool
}

func (m *Mutex) cond() *sync.Cond {
	if m.c == nil {
		m.c = sync.NewCond(&m.mu)
	}
	return m.c
}

func (m *Mutex) isFree() bool {
	m.mu.Lock()
	defer m.mu.Unlock()
	return !m.locked
}

func (m *Mutex) Lock() {
	if h := Hook; h != nil {
		h("Lock", m, m.isFree)
	}
	m.mu.Lock()
	for m.locked {
		m.cond().Wait()
	}
	m.locked = true
	m.mu.Unlock()
}

func (m *Mutex) TryLock() bool {
	m.mu.Lock()
	defer m.mu.Unlock()
	if m.locked {
		return false
	}
	m.locked = true
	return true
}

func (m *Mutex) Unlock() {
	m.mu.Lock()
	if !m.locked {
		m.mu.Unlock()
		panic("vsync: unlock of unlocked mutex")
	}
	m.locked = false
	m.cond().Broadcast()
	m.mu.Unlock()
}

// RWMutex is a writer-preferring reader/writer lock whose waiters block durably.
type RWMutex struct {
	mu       sync.Mutex
	c        *sync.Cond
	readers  int
	writer   bool
	wwaiting int
}

func (m *RWMutex) cond() *sync.Cond {
	if m.c == nil {
		m.c = sync.NewCond(&m.mu)
	}
	return m.c
}

func (m *RWMutex) wFree() bool {
	m.mu.Lock()
	defer m.mu.Unlock()
	return !m.writer && m.readers == 0
}

func (m *RWMutex) rFree() bool {
	m.mu.Lock()
	defer m.mu.Unlock()
	return !m.writer && m.wwaiting == 0
}

func (m *RWMutex) Lock() {
	if h := Hook; h != nil {
		h("Lock", m, m.wFree)
	}
	m.mu.Lock()
	m.wwaiting++
	for m.writer || m.readers > 0 {
		m.cond().Wait()
	}
	m.wwaiting--
	m.writer = true
	m.mu.Unlock()
}

func (m *RWMutex) Unlock() {
	m.mu.Lock()
	if !m.writer {
		m.mu.Unlock()
		panic("vsync: unlock of unlocked RWMutex")
	}
	m.writer = false
	m.cond().Broadcast()
	m.mu.Unlock()
}

func (m *RWMutex) RLock() {
	if h := Hook; h != nil {
		h("RLock", m, m.rFree)
	}
	m.mu.Lock()
	for m.writer || m.wwaiting > 0 {
		m.cond().Wait()
	}
	m.readers++
	m.mu.Unlock()
}

func (m *RWMutex) RUnlock() {
	m.mu.Lock()
	if m.readers <= 0 {
		m.mu.Unlock()
		panic("vsync: RUnlock of unlocked RWMutex")
	}
	m.readers--
	if m.readers == 0 {
		m.cond().Broadcast()
	}
	m.mu.Unlock()
}

func (m *RWMutex) TryLock() bool {
	m.mu.Lock()
	defer m.mu.Unlock()
	if m.writer || m.readers > 0 {
		return false
	}
	m.writer = true
	return true
}

func (m *RWMutex) TryRLock() bool {
	m.mu.Lock()
	defer m.mu.Unlock()
	if m.writer || m.wwaiting > 0 {
		return false
	}
	m.readers++
	return true
}

// RLocker returns a Locker whose Lock/Unlock call RLock/RUnlock.
func (m *RWMutex) RLocker() Locker { return (*rlocker)(m) }

type rlocker RWMutex

func (r *rlocker) Lock()   { (*RWMutex)(r).RLock() }
func (r *rlocker) Unlock() { (*RWMutex)(r).RUnlock() }

#!/usr/bin/env python3
# usage: tools/mkseed.py Cxx...  — creates /tmp/seed-Cxx (detached worktree of /repo HEAD) and /tmp/seedout/Cxx/PROPERTY.txt
import sys, json, os, subprocess
props = {json.loads(l)['id']: json.loads(l) for l in open('/verif/properties.jsonl')}
for pid in sys.argv[1:]:
    p = props[pid]
    os.makedirs(f'/tmp/seedout/{pid}', exist_ok=True)
    a = p['anchors']
    mech = '; '.join(f"{m['name']} ({m.get('file', m.get('where', ''))})" if isinstance(m, dict) else str(m) for m in a.get('mechanism', []))
    txt = (f"Property {pid}: {p['title']}\n\nStatement: {p['statement']}\n\n"
           f"Quantified over ({', '.join(p['quantifier']['over'])}): {p['quantifier']['text']}\n\n"
           f"Why the existing tests cannot settle it: {p['why_tests_cant']}\n\n"
           f"Code anchors: files {', '.join(a['files'])}; mechanisms: {mech}\n")
    open(f'/tmp/seedout/{pid}/PROPERTY.txt', 'w').write(txt)
    if not os.path.isdir(f'/tmp/seed-{pid}'):
        subprocess.check_call(['git', '-C', '/repo', 'worktree', 'add', '--detach', '-q', f'/tmp/seed-{pid}', 'HEAD'])
    print('prepared', pid)

#!/bin/sh
# usage: tools/selftest_all.sh   — runs bin/verif selftest for every READY check; writes mutants/DETECTION.tsv
cd /verif
out=mutants/DETECTION.tsv
: > $out.tmp
for id in $(cat checks/READY.txt); do
  ls mutants/${id}_*.patch >/dev/null 2>&1 || continue
  ./bin/verif selftest $id 2>&1 | grep -E "^${id}_.*detected=" | while read -r line; do
    f=${line%%:*}; d=${line##*detected=}
    printf '%s\t%s\t%s\n' "$id" "$f" "$d" >> $out.tmp
  done
done
mv $out.tmp $out

#!/bin/sh
# usage: tools/mutsweep.sh [patch ...]   (default: all mutants) — for every mutant: does it apply, does the
# pinned suite still pass with it, does the check detect it.  Appends to mutants/STATUS.tsv.
cd /verif
OUT=mutants/STATUS.tsv
[ $# -eq 0 ] && set -- mutants/*.patch
for p in "$@"; do
  name=$(basename "$p" .patch); id=${name%%_*}
  if grep -q "^$name	" $OUT 2>/dev/null; then continue; fi
  WT=/tmp/wt-sweep
  git -C /repo worktree remove --force $WT >/dev/null 2>&1; rm -rf $WT
  git -C /repo worktree add --detach $WT HEAD >/dev/null 2>&1
  if ! git -C $WT apply "/verif/$p" 2>/dev/null; then
     if ! (cd $WT && patch -p1 -s --no-backup-if-mismatch < "/verif/$p" >/dev/null 2>&1); then
       echo "$name	APPLY-FAIL	-	-" >> $OUT; git -C /repo worktree remove --force $WT >/dev/null 2>&1; continue
     fi
  fi
  suite=$(tools/baseline.sh $WT 2>&1 | head -1)
  np=$(echo "$suite" | sed 's/.*not_passing=//')
  git -C /repo worktree remove --force $WT >/dev/null 2>&1; rm -rf $WT
  det=$(VERIF_NO_CONFIRM=1 ./bin/verif check $id --patch $p 2>&1 | grep -c "^VIOLATION property=$id")
  echo "$name	applies	suite_not_passing=$np	detected=$det" >> $OUT
done
echo SWEEP-DONE >> $OUT

#!/usr/bin/env python3
# usage: tools/keepseed.py <Cxx> <slug> "<result of /verif checks>"  — copies /tmp/seedout/<Cxx> to seeded/<Cxx>-<slug>
import sys, json, shutil, os
srcid, slug, res = sys.argv[1:4]
pid = srcid[:3]  # second-round seeds come from /tmp/seedout/Cxxb
src = f'/tmp/seedout/{srcid}'; dst = f'/verif/seeded/{pid}-{slug}'
os.makedirs(dst, exist_ok=True)
shutil.copy(f'{src}/patch.diff', dst)
if os.path.isdir(f'{dst}/demo'): shutil.rmtree(f'{dst}/demo')
shutil.copytree(f'{src}/demo', f'{dst}/demo')
j = json.load(open(f'{src}/meta.json'))
j['property'] = pid
j['verif_result'] = res
j['lead_verification'] = "demo run by the lead in the scratch worktree with and without the change (fails / passes); patch applied through the /verif overlay (bin/verif check <id> --patch seeded/<dir>/patch.diff) -> VIOLATION; unchanged tree -> exit 0; pinned-suite result as observed by the seeding agent with tools/baseline.sh in its scratch worktree"
json.dump(j, open(f'{dst}/meta.json', 'w'), indent=1)
print('kept', dst)

#!/bin/sh
# usage: tools/mkseed2.sh Cxx   — prepares a SECOND seeding round for Cxx: /tmp/seed-Cxxb, /tmp/seedout/Cxxb/PROPERTY.txt (+ AVOID.txt listing the kept seeds of Cxx)
set -e
id=$1
python3 /verif/tools/mkseed.py $id >/dev/null
git -C /repo worktree remove --force /tmp/seed-$id 2>/dev/null || true
mkdir -p /tmp/seedout/${id}b
cp /tmp/seedout/$id/PROPERTY.txt /tmp/seedout/${id}b/PROPERTY.txt
: > /tmp/seedout/${id}b/AVOID.txt
for m in /verif/seeded/$id-*/meta.json; do
  [ -f "$m" ] && jq -r '"- " + (.summary | .[0:600])' "$m" >> /tmp/seedout/${id}b/AVOID.txt
done
[ -d /tmp/seed-${id}b ] || git -C /repo worktree add --detach -q /tmp/seed-${id}b HEAD
echo prepared ${id}b

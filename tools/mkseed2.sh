#!/bin/sh
# usage: tools/mkseed2.sh Cxx [suffix]  — prepares a further seeding round for Cxx: /tmp/seed-Cxx<suffix>, /tmp/seedout/Cxx<suffix>/PROPERTY.txt (+ AVOID.txt listing the kept seeds of Cxx); suffix defaults to b
set -e
id=$1
sfx=${2:-b}
python3 /verif/tools/mkseed.py $id >/dev/null
git -C /repo worktree remove --force /tmp/seed-$id 2>/dev/null || true
mkdir -p /tmp/seedout/${id}${sfx}
cp /tmp/seedout/$id/PROPERTY.txt /tmp/seedout/${id}${sfx}/PROPERTY.txt
: > /tmp/seedout/${id}${sfx}/AVOID.txt
for m in /verif/seeded/$id-*/meta.json; do
  [ -f "$m" ] && jq -r '"- " + (.summary | .[0:600])' "$m" >> /tmp/seedout/${id}${sfx}/AVOID.txt
done
[ -d /tmp/seed-${id}${sfx} ] || git -C /repo worktree add --detach -q /tmp/seed-${id}${sfx} HEAD
echo prepared ${id}${sfx}

#!/usr/bin/env python3
# prints the "as built" per-property table for DESIGN.md from checks/*.json, evidence/*.json, mutants/, seeded/
import json, glob, os
ids=[json.loads(l)['id'] for l in open('/verif/properties.jsonl')]
ready=set(open('/verif/checks/READY.txt').read().split())
print('| id | engine | level | quick run (evaluations / states / transitions / distinct non-trivial) | exhaustive | mutants kept | seeded |')
print('|---|---|---|---|---|---|---|')
for i in ids:
    p=f'/verif/checks/{i}.json'
    if not os.path.exists(p) or i not in ready:
        print(f'| {i} | — | — | not claimed yet | | | |'); continue
    c=json.load(open(p))
    ev={}
    try: ev=json.load(open(f'/verif/evidence/{i}.json'))['coverage']
    except Exception: pass
    muts=len(glob.glob(f'/verif/mutants/{i}_*.patch'))
    seeded=len(glob.glob(f'/verif/seeded/{i}*/meta.json'))
    print(f"| {i} | {c.get('engine')} | {c.get('level')} | {ev.get('evaluations','?')} / {ev.get('states','?')} / {ev.get('transitions','?')} / {ev.get('distinct_nontrivial','?')} | {ev.get('exhaustive','?')} | {muts} | {seeded} |")

#!/bin/sh
# usage: tools/seedsweep.sh [dir-prefix...]  — runs every kept seeded change (seeded/<dir>/patch.diff) through the check that
# is recorded as detecting it (meta.json: detected_by, default = the seed's property) and writes seeded/DETECTION.tsv
cd /verif
out=${OUT:-seeded/DETECTION.tsv}
: > $out.tmp
for d in seeded/*/; do
  d=${d%/}; name=$(basename $d)
  [ -f $d/patch.diff ] || continue
  if [ $# -gt 0 ]; then ok=0; for p in "$@"; do case $name in $p*) ok=1;; esac; done; [ $ok = 1 ] || continue; fi
  id=$(jq -r '.detected_by // .property' $d/meta.json)
  res=$(./bin/verif check $id --patch $d/patch.diff 2>&1)
  n=$(echo "$res" | grep -c '^VIOLATION')
  det=false; [ "$n" -gt 0 ] && det=true
  printf '%s\t%s\t%s\t%s\n' "$name" "$id" "$det" "$(echo "$res" | grep -m1 'key=' | sed 's/^ *key=//' | cut -c1-120)" >> $out.tmp
  echo "$name $id detected=$det"
done
mv $out.tmp $out

#!/bin/sh
# usage: tools/baseline.sh <restic tree>   — runs the pinned test suite in that tree and
# reports every test of BASELINE.json's stable_pass list that did not pass.  Exit 0 iff none.
set -u
DIR=${1:-/repo}
OUT=$(mktemp /var/tmp/baseline.XXXXXX.json)
unset GOTOOLCHAIN GOSUMDB
(cd "$DIR" && GOFLAGS=-mod=mod GOPROXY=off go test -json -vet=off -count=1 -timeout 25m ./... > "$OUT" 2>/dev/null)
python3 - "$OUT" <<'PY'
import json,sys
b=json.load(open('/root/.vp/BASELINE.json'))
want=set(b['stable_pass'])
res={}
for l in open(sys.argv[1]):
    try: e=json.loads(l)
    except Exception: continue
    if e.get('Test') and e.get('Action') in ('pass','fail','skip'):
        res[e['Package']+'::'+e['Test']]=e['Action']
bad=sorted(t for t in want if res.get(t)!='pass')
print('stable_pass=%d passed_now=%d not_passing=%d'%(len(want),sum(1 for t in want if res.get(t)=='pass'),len(bad)))
for t in bad[:40]: print('  NOT PASSING:',t,res.get(t))
sys.exit(1 if bad else 0)
PY
rc=$?
rm -f "$OUT"
exit $rc

#!/bin/sh
# usage: tools/runall.sh [--tier thorough] ID...   — runs checks sequentially, prints one line per check
TIER=quick
if [ "$1" = "--tier" ]; then TIER=$2; shift 2; fi
cd /verif
for id in "$@"; do
  out=$(./bin/verif check "$id" --tier "$TIER" 2>&1); rc=$?
  echo "== $id rc=$rc $(echo "$out" | grep '^verif ' | tail -1)"
  if [ $rc -ne 0 ]; then echo "$out" | grep -E 'VIOLATION|KNOWN-FINDING|HARNESS-ERROR|key=' | cut -c1-300 | head -12; fi
  echo "$out" | grep -E '^KNOWN-FINDING' | cut -c1-200 | head -5
done

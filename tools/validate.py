#!/usr/bin/env python3-vt
# validates MANIFEST.json and every evidence file against the given schemas
import json, sys, glob, jsonschema
ms = json.load(open('/root/.vp/MANIFEST.schema.json'))
es = json.load(open('/root/.vp/EVIDENCE.schema.json'))
man = json.load(open('/verif/MANIFEST.json'))
jsonschema.validate(man, ms)
bad = 0
levels = {c['property_id']: c['level_claimed']['category'] for c in man['checks']}
for f in sorted(glob.glob('/verif/evidence/*.json')):
    try:
        e = json.load(open(f)); jsonschema.validate(e, es)
        if e['property_id'] in levels and levels.get(e['property_id']) != e['level']:
            print('LEVEL MISMATCH', f); bad += 1
    except Exception as ex:
        print('INVALID', f, str(ex)[:300]); bad += 1
ids = set(levels) | {n['property_id'] for n in man.get('not_applicable', [])}
print('manifest ok; checks=%d na=%d evidence_bad=%d' % (len(man['checks']), len(man.get('not_applicable', [])), bad))
sys.exit(1 if bad else 0)

#!/usr/bin/env python3
# fills the generated parts of DESIGN.md (as-built table, seeded list) between markers
import subprocess, json, glob, os, re
p='/verif/DESIGN.md'
s=open(p).read()
table=subprocess.run(['python3','/verif/tools/asbuilt.py'],capture_output=True,text=True).stdout.strip()
rows=[]
for m in sorted(glob.glob('/verif/seeded/*/meta.json')):
    j=json.load(open(m)); d=os.path.basename(os.path.dirname(m))
    rows.append(f"| {d} | {j.get('property')} | {j.get('summary','')[:160]} | {j.get('needs_to_manifest','')[:140]} | {j.get('verif_result','?')} |")
seeded='(none kept yet)' if not rows else '| dir | property | change | needs to manifest | result of /verif checks |\n|---|---|---|---|---|\n'+'\n'.join(rows)
def put(name, body):
    global s
    a=f'<!-- BEGIN {name} -->'; b=f'<!-- END {name} -->'
    if f'@@{name}@@' in s:
        s=s.replace(f'@@{name}@@', f'{a}\n{body}\n{b}')
    else:
        s=re.sub(re.escape(a)+r'.*?'+re.escape(b), lambda m: f'{a}\n{body}\n{b}', s, flags=re.S)
k=json.load(open('/verif/KNOWN_FINDINGS.json'))
rows=['| property | what failed on the pinned tree | handling |','|---|---|---|']
for f in k['fixed']:
    rows.append(f"| {f['property']} | {f['what']} | fix {f['commit']} |")
for f in k['findings']:
    rows.append(f"| {f['property']} | {f['what']} | known finding `{f['key']}` |")
put('TABLE', table); put('SEEDED', seeded); put('FINDINGS', '\n'.join(rows))
open(p,'w').write(s)

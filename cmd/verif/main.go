// Command verif is the driver of the /verif model-checking machinery.
//
//	verif setup                                  build and warm everything
//	verif check <ID> [--tier quick|thorough] [--patch file.diff]
//	verif replay <ID> <replay.json>
//	verif manifest                               regenerate MANIFEST.json from checks/*.json
//	verif selftest <ID>                          run every mutants/<ID>_*.patch and expect a VIOLATION
//
// Exit codes of check: 0 = property held on everything explored (known
// findings are printed, not counted), 1 = VIOLATION line printed,
// 2 = infrastructure problem (never a verdict).
package main

import (
	"encoding/json"
	"fmt"
	"os"
	"os/exec"
	"path/filepath"
	"sort"
	"strconv"
	"strings"
	"sync"
	"time"
)

const (
	repoDir  = "/repo"
	verifDir = "/verif"
	modPath  = "github.com/restic/restic"
)

type CheckCfg struct {
	ID            string            `json:"id"`
	Pkg           string            `json:"pkg"`
	Test          string            `json:"test,omitempty"`
	Shards        map[string]int    `json:"shards,omitempty"`
	CapSeconds    map[string]int    `json:"cap_seconds,omitempty"`
	GOMAXPROCS    int               `json:"gomaxprocs,omitempty"`
	Parallel      int               `json:"parallel,omitempty"` // max shard processes at once (default 16)
	SyncRewrite   []string          `json:"sync_rewrite,omitempty"`
	ImportRewrite []string          `json:"import_rewrite,omitempty"`     // "pkg dir|import path|shim package"
	AccessPoints  []string          `json:"access_points,omitempty"`      // package dirs: every statement with a builtin copy() is preceded by a scheduling point
	GlobalReset   []string          `json:"global_reset,omitempty"`       // packages that get a generated VerifResetGlobals()
	ExtraPkgs     []string          `json:"extra_harness_pkgs,omitempty"` // other packages whose harness files (common + this id) are overlaid
	RacePass      bool              `json:"race_pass,omitempty"`
	RaceTier      string            `json:"race_tier,omitempty"` // "thorough": the free-running -race pass is part of the thorough tier only
	Env           map[string]string `json:"env,omitempty"`
	MemLimitMB    int               `json:"mem_limit_mb,omitempty"`
	// CrashPolicy: "violation" (default) or "crash-point" (a test process dying from a panic inside restic is just
	// another crash: the schedule is recorded, skipped, and the shard is re-run).
	CrashPolicy string `json:"crash_policy,omitempty"`

	Level       string `json:"level"`
	LevelText   string `json:"level_text"`
	LevelNote   string `json:"level_note"`
	Technique   string `json:"technique"`
	Engine      string `json:"engine"`
	DesignRef   string `json:"design_ref"`
	HasThorough *bool  `json:"has_thorough,omitempty"`
}

func die(code int, format string, a ...any) {
	fmt.Fprintf(os.Stderr, "verif: "+format+"\n", a...)
	os.Exit(code)
}

func loadCfg(id string) *CheckCfg {
	buf, err := os.ReadFile(filepath.Join(verifDir, "checks", id+".json"))
	if err != nil {
		die(2, "no check registered for %s: %v", id, err)
	}
	var c CheckCfg
	if err := json.Unmarshal(buf, &c); err != nil {
		die(2, "checks/%s.json: %v", id, err)
	}
	if c.ID == "" {
		c.ID = id
	}
	if c.Test == "" {
		c.Test = "TestVerif_" + id
	}
	if c.Parallel <= 0 {
		c.Parallel = 16
	}
	return &c
}

func (c *CheckCfg) shards(tier string) int {
	if n := c.Shards[tier]; n > 0 {
		return n
	}
	if tier == "thorough" {
		return 16
	}
	return 8
}

func (c *CheckCfg) capSeconds(tier string) int {
	if n := c.CapSeconds[tier]; n > 0 {
		return n
	}
	if tier == "thorough" {
		return 1200
	}
	return 150
}

func goEnv() []string {
	var env []string
	for _, kv := range os.Environ() {
		k := strings.SplitN(kv, "=", 2)[0]
		switch k {
		case "GOFLAGS", "GOPROXY", "GOTOOLCHAIN", "GOSUMDB", "GOMAXPROCS":
			continue
		}
		env = append(env, kv)
	}
	// GOTOOLCHAIN=local / GOSUMDB=off break the build of /repo here (go.mod names go1.25.10,
	// which is in the module cache and selected offline by "auto").
	env = append(env, "GOFLAGS=-mod=mod", "GOPROXY=off", "GOTOOLCHAIN=auto")
	return env
}

func scratchRoot() string {
	if s := os.Getenv("VERIF_SCRATCH"); s != "" {
		return s
	}
	return filepath.Join("/var/tmp", fmt.Sprintf("verif.%07d", os.Getpid()))
}

func main() {
	if len(os.Args) < 2 {
		die(2, "usage: verif setup|check|replay|manifest|selftest ...")
	}
	switch os.Args[1] {
	case "check":
		os.Exit(cmdCheck(os.Args[2:]))
	case "replay":
		os.Exit(cmdReplay(os.Args[2:]))
	case "manifest":
		os.Exit(cmdManifest())
	case "setup":
		os.Exit(cmdSetup())
	case "selftest":
		os.Exit(cmdSelftest(os.Args[2:]))
	default:
		die(2, "unknown command %q", os.Args[1])
	}
}

// ---------------------------------------------------------------------------
// build

// buildTestBinary builds the test binary of cfg.Pkg with the overlay and returns its path.
func buildTestBinary(cfg *CheckCfg, scratch, patch string, race bool) (string, error) {
	ov, err := buildOverlay(cfg, scratch, patch)
	if err != nil {
		return "", err
	}
	name := strings.ReplaceAll(cfg.Pkg, "/", "_") + "." + cfg.ID
	if race {
		name += ".race"
	}
	bin := filepath.Join(scratch, name+".test")
	args := []string{"test", "-c", "-overlay", ov, "-vet=off", "-o", bin}
	if race {
		args = append(args, "-race")
	}
	args = append(args, "./"+cfg.Pkg)
	cmd := exec.Command("go", args...)
	cmd.Dir = repoDir
	cmd.Env = goEnv()
	out, err := cmd.CombinedOutput()
	if err != nil {
		return "", fmt.Errorf("go %s failed: %v\n%s", strings.Join(args, " "), err, out)
	}
	return bin, nil
}

// ---------------------------------------------------------------------------
// check

type Violation struct {
	Key    string          `json:"key"`
	What   string          `json:"what"`
	Case   string          `json:"case,omitempty"`
	Detail json.RawMessage `json:"detail,omitempty"`
}

type ShardResult struct {
	Property     string              `json:"property"`
	Shard        int                 `json:"shard"`
	Evaluations  int64               `json:"evaluations"`
	Transitions  int64               `json:"transitions"`
	Traces       int64               `json:"traces"`
	Counters     map[string]int64    `json:"counters"`
	Sets         map[string][]uint64 `json:"sets"`
	Samples      []json.RawMessage   `json:"samples"`
	Violations   []Violation         `json:"violations"`
	Exhaustive   bool                `json:"exhaustive"`
	Caps         []string            `json:"caps"`
	Notes        []string            `json:"notes"`
	Rule         string              `json:"rule"`
	Assumptions  []string            `json:"assumptions"`
	Extra        map[string]any      `json:"extra"`
	Completed    bool                `json:"completed"`
	OutcomeNames []string            `json:"outcome_names"`
}

type knownFile struct {
	Findings []struct {
		Property string `json:"property"`
		Key      string `json:"key"`
		What     string `json:"what"`
	} `json:"findings"`
	Fixed []struct {
		Property string `json:"property"`
		Commit   string `json:"commit"`
		What     string `json:"what"`
	} `json:"fixed"`
}

func loadKnown() knownFile {
	var k knownFile
	buf, err := os.ReadFile(filepath.Join(verifDir, "KNOWN_FINDINGS.json"))
	if err == nil {
		if err := json.Unmarshal(buf, &k); err != nil {
			die(2, "KNOWN_FINDINGS.json: %v", err)
		}
	}
	return k
}

func parseCheckArgs(args []string) (id, tier, patch string, keep bool) {
	tier = os.Getenv("VERIF_TIER")
	for i := 0; i < len(args); i++ {
		switch args[i] {
		case "--tier":
			i++
			if i < len(args) {
				tier = args[i]
			}
		case "--patch":
			i++
			if i < len(args) {
				patch = args[i]
			}
		case "--keep":
			keep = true
		default:
			if id == "" {
				id = args[i]
			}
		}
	}
	if tier != "thorough" {
		tier = "quick"
	}
	if id == "" {
		die(2, "usage: verif check <ID> [--tier quick|thorough] [--patch file.diff]")
	}
	return
}

func runShard(bin string, cfg *CheckCfg, tier string, seed int64, shard, shards int, scratch, replay string, deadline time.Time, race bool) (*ShardResult, string, error) {
	return runShardLane(bin, cfg, tier, seed, shard, shards, scratch, 0, replay, deadline, race)
}

// runShardLane: lanes are parallel runs inside one scratch directory (the confirmation replays).  Every
// lane's working directory has the same depth and the same name lengths as the main run's, because some
// code under test is sensitive to where its files lie (an absolute source path becomes one tree per path
// component): a recorded schedule must replay in any lane and in a later `verif replay`.
func runShardLane(bin string, cfg *CheckCfg, tier string, seed int64, shard, shards int, scratch string, lane int, replay string, deadline time.Time, race bool) (*ShardResult, string, error) {
	_ = os.MkdirAll(filepath.Join(scratch, fmt.Sprintf("tm%02d", lane)), 0o700)
	out := filepath.Join(scratch, fmt.Sprintf("out-%s-%d-%d-%d.json", cfg.ID, shard, lane, time.Now().UnixNano()))
	test := cfg.Test
	if race {
		test = "TestVerifRace_" + cfg.ID
	}
	hard := time.Until(deadline) + 120*time.Second
	if hard < 180*time.Second {
		hard = 180 * time.Second
	}
	args := []string{"-test.run", "^" + test + "$", "-test.timeout", hard.String(), "-test.count", "1"}
	var cmd *exec.Cmd
	if cfg.MemLimitMB > 0 && !race {
		sh := fmt.Sprintf("ulimit -v %d; exec \"$0\" \"$@\"", cfg.MemLimitMB*1024)
		cmd = exec.Command("/bin/sh", append([]string{"-c", sh, bin}, args...)...)
	} else {
		cmd = exec.Command(bin, args...)
	}
	cmd.Dir = filepath.Join(repoDir, cfg.Pkg)
	env := os.Environ()
	env = append(env,
		"VERIF_TIER="+tier,
		"VERIF_SEED="+strconv.FormatInt(seed, 10),
		fmt.Sprintf("VERIF_SHARD=%d/%d", shard, shards),
		"VERIF_OUT="+out,
		"VERIF_SCRATCH="+filepath.Join(scratch, fmt.Sprintf("wk%02d", lane)),
		"VERIF_DEADLINE="+strconv.FormatInt(deadline.Unix(), 10),
		"TMPDIR="+filepath.Join(scratch, fmt.Sprintf("tm%02d", lane)),
		"RESTIC_CACHE_DIR="+filepath.Join(scratch, fmt.Sprintf("ca%02d", lane)),
	)
	if replay != "" {
		env = append(env, "VERIF_REPLAY="+replay)
	}
	if cfg.GOMAXPROCS > 0 {
		env = append(env, "GOMAXPROCS="+strconv.Itoa(cfg.GOMAXPROCS))
	}
	for k, v := range cfg.Env {
		env = append(env, k+"="+v)
	}
	cmd.Env = env
	outb, err := cmd.CombinedOutput()
	log := string(outb)
	buf, rerr := os.ReadFile(out)
	_ = os.Remove(out)
	cur, cerr := os.ReadFile(out + ".cur")
	_ = os.Remove(out + ".cur")
	if rerr != nil {
		if sig := crashSignature(log); sig != "" && cerr == nil {
			// the test process died from an unrecovered panic (a goroutine started by the code under test):
			// the last checkpoint says what was being executed
			var cp struct {
				Case   string          `json:"case"`
				Detail json.RawMessage `json:"detail"`
			}
			if json.Unmarshal(cur, &cp) == nil {
				res := &ShardResult{Property: cfg.ID, Shard: shard, Exhaustive: false, Completed: true,
					Caps: []string{"a shard process crashed; the rest of its sub-space was not explored"},
					Violations: []Violation{{Key: cfg.ID + "|process-crash|" + sig, Case: cp.Case, Detail: cp.Detail,
						What: "the test process died from an unrecovered panic while executing the checkpointed case:\n" + tail(log, 2500)}}}
				return res, log, nil
			}
		}
		return nil, log, fmt.Errorf("shard %d produced no result (exit: %v)", shard, err)
	}
	var res ShardResult
	if jerr := json.Unmarshal(buf, &res); jerr != nil {
		return nil, log, fmt.Errorf("shard %d result unreadable: %v", shard, jerr)
	}
	if err != nil || !res.Completed {
		return &res, log, fmt.Errorf("shard %d: test binary failed (exit: %v)", shard, err)
	}
	return &res, log, nil
}

type merged struct {
	evals, transitions, traces int64
	counters                   map[string]int64
	sets                       map[string]map[uint64]struct{}
	samples                    []json.RawMessage
	violations                 []Violation
	exhaustive                 bool
	caps, notes, assumptions   []string
	rule                       string
	extra                      map[string]any
	outcomeNames               []string
}

func mergeShards(rs []*ShardResult) *merged {
	m := &merged{counters: map[string]int64{}, sets: map[string]map[uint64]struct{}{}, exhaustive: true, extra: map[string]any{}}
	seenV := map[string]bool{}
	seenS := map[string]bool{}
	for _, r := range rs {
		if r == nil {
			m.exhaustive = false
			continue
		}
		m.evals += r.Evaluations
		m.transitions += r.Transitions
		m.traces += r.Traces
		for k, v := range r.Counters {
			m.counters[k] += v
		}
		for k, l := range r.Sets {
			s := m.sets[k]
			if s == nil {
				s = map[uint64]struct{}{}
				m.sets[k] = s
			}
			for _, x := range l {
				s[x] = struct{}{}
			}
		}
		for _, s := range r.Samples {
			if len(m.samples) < 8 {
				m.samples = append(m.samples, s)
			}
		}
		for _, v := range r.Violations {
			if !seenV[v.Key] {
				seenV[v.Key] = true
				m.violations = append(m.violations, v)
			}
		}
		for _, o := range r.OutcomeNames {
			if !seenS["o"+o] && len(m.outcomeNames) < 300 {
				seenS["o"+o] = true
				m.outcomeNames = append(m.outcomeNames, o)
			}
		}
		if !r.Exhaustive {
			m.exhaustive = false
		}
		for _, l := range [][]string{r.Caps, r.Notes, r.Assumptions} {
			_ = l
		}
		for _, c := range r.Caps {
			if !seenS["c"+c] {
				seenS["c"+c] = true
				m.caps = append(m.caps, c)
			}
		}
		for _, c := range r.Notes {
			if !seenS["n"+c] && (len(m.notes) < 40 || (strings.HasPrefix(c, "divergence in ") && len(m.notes) < 60)) {
				seenS["n"+c] = true
				m.notes = append(m.notes, c)
			}
		}
		for _, c := range r.Assumptions {
			if !seenS["a"+c] {
				seenS["a"+c] = true
				m.assumptions = append(m.assumptions, c)
			}
		}
		if r.Rule != "" {
			m.rule = r.Rule
		}
		for k, v := range r.Extra {
			if f, ok := v.(float64); ok {
				if old, ok := m.extra[k].(float64); ok {
					m.extra[k] = old + f
					continue
				}
			}
			m.extra[k] = v
		}
	}
	sort.Slice(m.violations, func(i, j int) bool { return m.violations[i].Key < m.violations[j].Key })
	return m
}

func keyMatches(pattern, key string) bool {
	if pattern == key {
		return true
	}
	if strings.HasSuffix(pattern, "*") && strings.HasPrefix(key, strings.TrimSuffix(pattern, "*")) {
		return true
	}
	return false
}

func cmdCheck(args []string) int {
	id, tier, patch, keep := parseCheckArgs(args)
	cfg := loadCfg(id)
	start := time.Now()
	seed, _ := strconv.ParseInt(os.Getenv("VERIF_SEED"), 10, 64)
	scratch := scratchRoot()
	if err := os.MkdirAll(filepath.Join(scratch, "tmp"), 0o700); err != nil {
		die(2, "scratch: %v", err)
	}
	if !keep {
		defer os.RemoveAll(scratch)
	}
	code := doCheck(cfg, tier, patch, seed, scratch, start)
	if !keep {
		os.RemoveAll(scratch)
	}
	return code
}

func doCheck(cfg *CheckCfg, tier, patch string, seed int64, scratch string, start time.Time) int {
	id := cfg.ID
	evPath := filepath.Join(verifDir, "evidence", id+".json")
	bin, err := buildTestBinary(cfg, scratch, patch, false)
	if err != nil {
		fmt.Fprintf(os.Stderr, "HARNESS-ERROR property=%s build failed\n%v\n", id, err)
		return 2
	}
	buildS := time.Since(start).Seconds()
	shards := cfg.shards(tier)
	deadline := time.Now().Add(time.Duration(cfg.capSeconds(tier)) * time.Second)
	results := make([]*ShardResult, shards)
	logs := make([]string, shards)
	errs := make([]error, shards)
	sem := make(chan struct{}, cfg.Parallel)
	var wg sync.WaitGroup
	for i := 0; i < shards; i++ {
		wg.Add(1)
		go func(i int) {
			defer wg.Done()
			sem <- struct{}{}
			defer func() { <-sem }()
			results[i], logs[i], errs[i] = runShardSkippingCrashes(bin, cfg, tier, seed, i, shards, scratch, deadline)
		}(i)
	}
	wg.Wait()
	infra := false
	for i, e := range errs {
		if e != nil {
			infra = true
			fmt.Fprintf(os.Stderr, "HARNESS-ERROR property=%s %v\n%s\n", id, e, tail(logs[i], 6000))
		}
	}
	m := mergeShards(results)

	racePass := "not configured"
	if cfg.RacePass && cfg.RaceTier == "thorough" && tier != "thorough" && os.Getenv("VERIF_RACE_FORCE") == "" {
		racePass = "thorough tier only"
	} else if cfg.RacePass && !infra {
		rbin, err := buildTestBinary(cfg, scratch, patch, true)
		if err != nil {
			fmt.Fprintf(os.Stderr, "HARNESS-ERROR property=%s race build failed\n%v\n", id, err)
			infra = true
		} else {
			raceBudget := 120 * time.Second
			if tier == "thorough" {
				raceBudget = 300 * time.Second
			}
			res, log, err := runShard(rbin, cfg, tier, seed, 0, 1, scratch, "", time.Now().Add(raceBudget), true)
			switch {
			case strings.Contains(log, "WARNING: DATA RACE"):
				racePass = "DATA RACE reported"
				rp := writeReplay(id, Violation{Key: id + "|data-race", What: "free-running -race pass reported a data race", Detail: mustJSON(tail(log, 4000))})
				m.violations = append(m.violations, Violation{Key: id + "|data-race", What: "data race in free-running pass (log in " + rp + ")"})
			case err != nil:
				// the free-running pass did not finish (usually the wall-clock limit on a loaded machine): it
				// adds race detection to the exhaustive part and gives no verdict of its own, so this is recorded,
				// not treated as a broken check
				fmt.Fprintf(os.Stderr, "RACE-PASS-INCOMPLETE property=%s %v (no data race reported up to that point; not a verdict)\n", id, err)
				racePass = "incomplete: " + err.Error()
			default:
				racePass = fmt.Sprintf("clean (%d executions)", res.Evaluations)
			}
			// results compared by the free-running bodies themselves (real executions of the real code)
			if res != nil && !strings.Contains(log, "WARNING: DATA RACE") {
				for _, rv := range res.Violations {
					if strings.Contains(rv.Key, "|free-running|") {
						racePass = "wrong result in the free-running pass"
						m.violations = append(m.violations, rv)
					}
				}
			}
		}
	}

	// classify violations
	known := loadKnown()
	var fresh []Violation
	var knownHit []string
	// one line per listed finding, however many cases of this run fall under it
	hitCount := map[int]int{}
	hitFirst := map[int]string{}
	for _, v := range m.violations {
		matched := false
		for ki, k := range known.Findings {
			if k.Property == id && keyMatches(k.Key, v.Key) {
				matched = true
				if hitCount[ki] == 0 {
					hitFirst[ki] = v.Key
				}
				hitCount[ki]++
				break
			}
		}
		if !matched {
			fresh = append(fresh, v)
		}
	}
	for ki, k := range known.Findings {
		if n := hitCount[ki]; n == 1 {
			knownHit = append(knownHit, fmt.Sprintf("KNOWN-FINDING: property=%s %s [key=%s]", id, k.What, hitFirst[ki]))
		} else if n > 1 {
			knownHit = append(knownHit, fmt.Sprintf("KNOWN-FINDING: property=%s %s [%d cases of this run, first key=%s]", id, k.What, n, hitFirst[ki]))
		}
	}
	sort.Strings(knownHit)
	for _, l := range knownHit {
		fmt.Println(l)
	}

	// confirm fresh violations by replaying each (first 3) five times
	var confirmed []Violation
	var replayPaths []string
	unconfirmed := 0
	for i, v := range fresh {
		rp := writeReplay(id, v)
		if i >= 3 || strings.HasSuffix(v.Key, "|data-race") || strings.Contains(v.Key, "|free-running|") || os.Getenv("VERIF_NO_CONFIRM") != "" {
			confirmed = append(confirmed, v)
			replayPaths = append(replayPaths, rp)
			continue
		}
		okAll := true
		var cw sync.WaitGroup
		var cmu sync.Mutex
		for k := 0; k < 5; k++ {
			cw.Add(1)
			go func(k int) {
				defer cw.Done()
				res, clog, cerr := runShardLane(bin, cfg, tier, seed, 0, 1, scratch, 1+k, rp, time.Now().Add(120*time.Second), false)
				if os.Getenv("VERIF_SHOWLOG") != "" {
					fmt.Fprintf(os.Stderr, "confirm %d of %s: res=%v err=%v\n%s\n", k, v.Key, res != nil, cerr, tail(clog, 3000))
				}
				hit := false
				if res != nil {
					for _, rv := range res.Violations {
						if rv.Key == v.Key {
							hit = true
						}
					}
				}
				if !hit {
					cmu.Lock()
					okAll = false
					cmu.Unlock()
				}
			}(k)
		}
		cw.Wait()
		if !okAll {
			// Not 5/5.  The remaining nondeterminism may be restic's own (Go map iteration order decides e.g.
			// which copy of a duplicated blob prune keeps): every failing replay is a real execution of the
			// real code, so the violation stands if the same schedule fails again in further replays.
			hits := 0
			for k := 0; k < 15 && hits < 2; k++ {
				res, _, _ := runShardLane(bin, cfg, tier, seed, 0, 1, scratch, 1, rp, time.Now().Add(120*time.Second), false)
				if res != nil {
					for _, rv := range res.Violations {
						if rv.Key == v.Key {
							hits++
						}
					}
				}
			}
			if hits >= 2 {
				okAll = true
				v.What = "[nondeterministic inside restic: the recorded schedule fails in some replays only, e.g. depending on Go map iteration order]\n" + v.What
			}
		}
		if okAll {
			confirmed = append(confirmed, v)
			replayPaths = append(replayPaths, rp)
		} else {
			unconfirmed++
			fmt.Fprintf(os.Stderr, "FLAKY-UNCONFIRMED property=%s key=%s (replay %s did not reproduce 5/5): %s\n", id, v.Key, rp, v.What)
			_ = os.Remove(rp)
		}
	}

	// evidence
	nontriv := int64(len(m.sets["nontrivial"])) + m.counters["nontrivial_by_construction"]
	states := int64(len(m.sets["states"])) + m.counters["states_by_construction"]
	cov := map[string]any{
		"evaluations":                   m.evals,
		"distinct_nontrivial":           nontriv,
		"rule":                          m.rule,
		"samples":                       m.samples,
		"states":                        states,
		"transitions":                   m.transitions,
		"traces_validated_against_impl": m.traces,
		"distinct_outcomes":             len(m.sets["outcomes"]),
		"outcome_list":                  sortedOrEmpty(m.outcomeNames),
		"exhaustive":                    m.exhaustive && !infra,
		"caps_hit":                      m.caps,
		"counters":                      m.counters,
		"notes":                         m.notes,
		"shards":                        shards,
		"build_s":                       round2(buildS),
		"race_pass":                     racePass,
		"known_findings_reported":       len(knownHit),
		"flaky_unconfirmed":             unconfirmed,
	}
	for k, s := range m.sets {
		if k != "states" && k != "nontrivial" && k != "outcomes" {
			cov["distinct_"+k] = len(s)
		}
	}
	for k, v := range m.extra {
		if _, ok := cov[k]; !ok {
			cov[k] = v
		}
	}
	if m.samples == nil {
		cov["samples"] = []any{}
	}
	ev := map[string]any{
		"property_id": id,
		"tier":        tier,
		"seed":        seed,
		"level":       cfg.Level,
		"coverage":    cov,
		"assumptions": m.assumptions,
		"wall_s":      round2(time.Since(start).Seconds()),
		"violations":  len(confirmed),
	}
	if patch != "" {
		cov["patched_with"] = patch
	}
	if m.assumptions == nil {
		ev["assumptions"] = []string{}
	}
	if m.caps == nil {
		cov["caps_hit"] = []string{}
	}
	if m.notes == nil {
		cov["notes"] = []string{}
	}
	buf, _ := json.MarshalIndent(ev, "", " ")
	if patch == "" || os.Getenv("VERIF_EVIDENCE_WITH_PATCH") != "" {
		_ = os.MkdirAll(filepath.Dir(evPath), 0o755)
		if err := os.WriteFile(evPath, append(buf, '\n'), 0o644); err != nil {
			fmt.Fprintf(os.Stderr, "verif: cannot write evidence: %v\n", err)
			return 2
		}
	}
	fmt.Printf("verif %s tier=%s evaluations=%d states=%d transitions=%d nontrivial=%d outcomes=%d exhaustive=%v wall=%.1fs\n",
		id, tier, m.evals, states, m.transitions, nontriv, len(m.sets["outcomes"]), m.exhaustive && !infra, time.Since(start).Seconds())
	if len(confirmed) > 0 {
		for i, v := range confirmed {
			fmt.Printf("VIOLATION property=%s replay=%s\n", id, replayPaths[i])
			fmt.Printf("  key=%s\n  %s\n", v.Key, firstLines(v.What, 12))
		}
		return 1
	}
	if infra {
		return 2
	}
	return 0
}

func round2(f float64) float64 { return float64(int64(f*100)) / 100 }

func mustJSON(v any) json.RawMessage { b, _ := json.Marshal(v); return b }

func tail(s string, n int) string {
	if len(s) > n {
		return "…" + s[len(s)-n:]
	}
	return s
}

func firstLines(s string, n int) string {
	l := strings.Split(s, "\n")
	if len(l) > n {
		l = append(l[:n], "…")
	}
	return strings.Join(l, "\n  ")
}

func writeReplay(id string, v Violation) string {
	dir := filepath.Join(verifDir, "replays", id)
	_ = os.MkdirAll(dir, 0o755)
	name := fmt.Sprintf("%016x.json", fnv64(v.Key))
	p := filepath.Join(dir, name)
	buf, _ := json.MarshalIndent(map[string]any{"property": id, "key": v.Key, "what": v.What, "case": v.Case, "detail": v.Detail}, "", " ")
	_ = os.WriteFile(p, append(buf, '\n'), 0o644)
	return p
}

func fnv64(s string) uint64 {
	var h uint64 = 14695981039346656037
	for i := 0; i < len(s); i++ {
		h ^= uint64(s[i])
		h *= 1099511628211
	}
	return h
}

// ---------------------------------------------------------------------------
// replay

func cmdReplay(args []string) int {
	if len(args) < 2 {
		die(2, "usage: verif replay <ID> <replay.json>")
	}
	cfg := loadCfg(args[0])
	rp, _ := filepath.Abs(args[1])
	tier := os.Getenv("VERIF_TIER")
	if tier != "thorough" {
		tier = "quick"
	}
	scratch := scratchRoot()
	_ = os.MkdirAll(filepath.Join(scratch, "tmp"), 0o700)
	defer os.RemoveAll(scratch)
	patch := ""
	for i := 2; i+1 < len(args); i++ {
		if args[i] == "--patch" {
			patch, _ = filepath.Abs(args[i+1])
		}
	}
	bin, err := buildTestBinary(cfg, scratch, patch, false)
	if err != nil {
		fmt.Fprintf(os.Stderr, "HARNESS-ERROR property=%s build failed\n%v\n", cfg.ID, err)
		return 2
	}
	res, log, err := runShard(bin, cfg, tier, 0, 0, 1, scratch, rp, time.Now().Add(300*time.Second), false)
	if res == nil {
		fmt.Fprintf(os.Stderr, "HARNESS-ERROR %v\n%s\n", err, tail(log, 4000))
		return 2
	}
	if os.Getenv("VERIF_SHOWLOG") != "" {
		fmt.Fprintln(os.Stderr, tail(log, 200000))
	}
	if len(res.Violations) > 0 {
		for _, v := range res.Violations {
			fmt.Printf("VIOLATION property=%s replay=%s\n  key=%s\n  %s\n", cfg.ID, rp, v.Key, firstLines(v.What, 20))
		}
		return 1
	}
	fmt.Printf("replay of %s: no violation (evaluations=%d)\n", rp, res.Evaluations)
	return 0
}

// ---------------------------------------------------------------------------
// selftest: every mutants/<ID>_*.patch must produce a VIOLATION

func cmdSelftest(args []string) int {
	if len(args) < 1 {
		die(2, "usage: verif selftest <ID>")
	}
	id := args[0]
	patches, _ := filepath.Glob(filepath.Join(verifDir, "mutants", id+"_*.patch"))
	if len(patches) == 0 {
		fmt.Printf("no mutants for %s\n", id)
		return 0
	}
	self, _ := os.Executable()
	bad := 0
	for _, p := range patches {
		cmd := exec.Command(self, "check", id, "--tier", "quick", "--patch", p)
		cmd.Env = append(os.Environ(), "VERIF_NO_CONFIRM=1", "VERIF_SCRATCH="+scratchRoot()+"-st")
		out, err := cmd.CombinedOutput()
		code := 0
		if ee, ok := err.(*exec.ExitError); ok {
			code = ee.ExitCode()
		}
		detected := code == 1 && strings.Contains(string(out), "VIOLATION property="+id)
		fmt.Printf("%s: exit=%d detected=%v\n", filepath.Base(p), code, detected)
		if !detected {
			bad++
			fmt.Println(tail(string(out), 3000))
		}
	}
	if bad > 0 {
		return 1
	}
	return 0
}

// ---------------------------------------------------------------------------
// setup: warm the build cache by building every registered test binary once

func cmdSetup() int {
	files, _ := filepath.Glob(filepath.Join(verifDir, "checks", "C*.json"))
	sort.Strings(files)
	scratch := scratchRoot()
	_ = os.MkdirAll(filepath.Join(scratch, "tmp"), 0o700)
	defer os.RemoveAll(scratch)
	fail := 0
	sem := make(chan struct{}, 4)
	var wg sync.WaitGroup
	var mu sync.Mutex
	for _, f := range files {
		id := strings.TrimSuffix(filepath.Base(f), ".json")
		if !setupReady()[id] {
			continue
		}
		wg.Add(1)
		go func(id string) {
			defer wg.Done()
			sem <- struct{}{}
			defer func() { <-sem }()
			cfg := loadCfg(id)
			sub := filepath.Join(scratch, id)
			_ = os.MkdirAll(sub, 0o700)
			t0 := time.Now()
			_, err := buildTestBinary(cfg, sub, "", false)
			if err == nil && cfg.RacePass {
				_, err = buildTestBinary(cfg, sub, "", true)
			}
			_ = os.RemoveAll(sub)
			mu.Lock()
			defer mu.Unlock()
			if err != nil {
				fail++
				fmt.Fprintf(os.Stderr, "setup: %s: %v\n", id, err)
			} else {
				fmt.Printf("setup: %s built in %.1fs\n", id, time.Since(t0).Seconds())
			}
		}(id)
	}
	wg.Wait()
	if fail > 0 {
		return 2
	}
	return 0
}

func setupReady() map[string]bool {
	ready := map[string]bool{}
	if buf, err := os.ReadFile(filepath.Join(verifDir, "checks", "READY.txt")); err == nil {
		for _, f := range strings.Fields(string(buf)) {
			ready[f] = true
		}
	}
	return ready
}

// crashSignature extracts a stable one-line signature of a Go panic / fatal error from a test log.
func crashSignature(log string) string {
	if strings.Contains(log, "test timed out") {
		return ""
	}
	for _, l := range strings.Split(log, "\n") {
		if strings.HasPrefix(l, "panic: ") || strings.HasPrefix(l, "fatal error: ") {
			l = strings.TrimSpace(l)
			if i := strings.Index(l, " [recovered"); i > 0 {
				l = l[:i]
			}
			if len(l) > 120 {
				l = l[:120]
			}
			return l
		}
	}
	return ""
}

// runShardSkippingCrashes runs a shard; with crash_policy "crash-point" a shard that died from a panic inside
// restic is re-run with the crashing schedule on its skip list (at most 8 times).
func runShardSkippingCrashes(bin string, cfg *CheckCfg, tier string, seed int64, shard, shards int, scratch string, deadline time.Time) (*ShardResult, string, error) {
	if cfg.CrashPolicy != "crash-point" {
		return runShard(bin, cfg, tier, seed, shard, shards, scratch, "", deadline, false)
	}
	var skips []json.RawMessage
	var notes []string
	skipFile := filepath.Join(scratch, fmt.Sprintf("skip-%s-%d.json", cfg.ID, shard))
	for attempt := 0; ; attempt++ {
		if len(skips) > 0 {
			buf, _ := json.Marshal(skips)
			_ = os.WriteFile(skipFile, buf, 0o600)
			if cfg.Env == nil {
				cfg.Env = map[string]string{}
			}
		}
		c := *cfg
		if len(skips) > 0 {
			c.Env = map[string]string{}
			for k, v := range cfg.Env {
				c.Env[k] = v
			}
			c.Env["VERIF_SKIP"] = skipFile
		}
		res, log, err := runShard(bin, &c, tier, seed, shard, shards, scratch, "", deadline, false)
		crashed := false
		if res != nil && err == nil {
			var keep []Violation
			for _, v := range res.Violations {
				if strings.HasPrefix(v.Key, cfg.ID+"|process-crash|") && attempt < 8 {
					crashed = true
					skips = append(skips, v.Detail)
					notes = append(notes, "process crash treated as a crash point and skipped: "+strings.TrimPrefix(v.Key, cfg.ID+"|process-crash|"))
				} else {
					keep = append(keep, v)
				}
			}
			res.Violations = keep
		}
		if !crashed {
			if res != nil {
				res.Notes = append(res.Notes, notes...)
				if len(notes) > 0 {
					res.Exhaustive = false
					res.Caps = append(res.Caps, fmt.Sprintf("%d schedule(s) crashed the test process (panic inside restic under injected faults); they count as crash points, their subtrees were not explored", len(notes)))
					if res.Counters == nil {
						res.Counters = map[string]int64{}
					}
					res.Counters["process_crashes_treated_as_crash_points"] += int64(len(notes))
				}
			}
			return res, log, err
		}
	}
}

// sortedOrEmpty returns a sorted copy (never nil: evidence must not contain null arrays).
func sortedOrEmpty(l []string) []string {
	out := append([]string{}, l...)
	sort.Strings(out)
	return out
}

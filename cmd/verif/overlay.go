package main

import (
	"bytes"
	"encoding/json"
	"fmt"
	"go/ast"
	"go/build"
	"go/format"
	"go/parser"
	"go/token"
	"os"
	"os/exec"
	"path/filepath"
	"regexp"
	"sort"
	"strconv"
	"strings"
)

const shimImportBase = modPath + "/internal/verifshim/"

// buildOverlay generates the -overlay JSON for one check from the files that
// are in /repo now:
//  1. harness/<pkg>/zz_verif_common*.go and zz_verif_<ID>*.go → /repo/<pkg>/
//  2. shim/<p>/*.go → /repo/internal/verifshim/<p>/
//  3. optional patch (a deliberate property-breaking change) applied to copies
//  4. "sync" → vsync import rewriting for the packages listed in sync_rewrite
func buildOverlay(cfg *CheckCfg, scratch, patch string) (string, error) {
	replace := map[string]string{}

	pkgs := append([]string{cfg.Pkg}, cfg.ExtraPkgs...)
	for _, pkg := range pkgs {
		dir := filepath.Join(verifDir, "harness", pkg)
		ents, err := os.ReadDir(dir)
		if err != nil {
			if pkg == cfg.Pkg {
				return "", fmt.Errorf("no harness directory %s: %v", dir, err)
			}
			continue
		}
		n := 0
		for _, e := range ents {
			name := e.Name()
			if e.IsDir() || !strings.HasSuffix(name, ".go") {
				continue
			}
			if strings.HasPrefix(name, "zz_verif_common") || strings.HasPrefix(name, "zz_verif_"+cfg.ID+"_") || name == "zz_verif_"+cfg.ID+"_test.go" {
				replace[filepath.Join(repoDir, pkg, name)] = filepath.Join(dir, name)
				n++
			}
		}
		if n == 0 && pkg == cfg.Pkg {
			return "", fmt.Errorf("no harness files for %s in %s", cfg.ID, dir)
		}
	}

	shimRoot := filepath.Join(verifDir, "shim")
	err := filepath.Walk(shimRoot, func(p string, info os.FileInfo, err error) error {
		if err != nil {
			return err
		}
		if info.IsDir() || !strings.HasSuffix(p, ".go") {
			return nil
		}
		rel, _ := filepath.Rel(shimRoot, p)
		replace[filepath.Join(repoDir, "internal", "verifshim", rel)] = p
		return nil
	})
	if err != nil {
		return "", err
	}

	// inject/<pkg path>/*.go: add-only virtual source files (exported test hooks) inside restic packages
	injRoot := filepath.Join(verifDir, "inject")
	_ = filepath.Walk(injRoot, func(p string, info os.FileInfo, err error) error {
		if err != nil || info.IsDir() || !strings.HasSuffix(p, ".go") {
			return nil
		}
		rel, _ := filepath.Rel(injRoot, p)
		replace[filepath.Join(repoDir, rel)] = p
		return nil
	})

	// patch → copies
	patched := map[string]string{} // repo-relative → patched copy
	if patch != "" {
		pdir := filepath.Join(scratch, "patched")
		_ = os.RemoveAll(pdir)
		files, err := patchFiles(patch)
		if err != nil {
			return "", err
		}
		for _, f := range files {
			dst := filepath.Join(pdir, f)
			if err := os.MkdirAll(filepath.Dir(dst), 0o755); err != nil {
				return "", err
			}
			src := filepath.Join(repoDir, f)
			buf, err := os.ReadFile(src)
			if err == nil {
				if err := os.WriteFile(dst, buf, 0o644); err != nil {
					return "", err
				}
			}
		}
		abs, _ := filepath.Abs(patch)
		cmd := exec.Command("patch", "-p1", "--no-backup-if-mismatch", "-s", "-i", abs)
		cmd.Dir = pdir
		if out, err := cmd.CombinedOutput(); err != nil {
			return "", fmt.Errorf("patch %s does not apply to the current tree: %v\n%s", patch, err, out)
		}
		for _, f := range files {
			patched[f] = filepath.Join(pdir, f)
			replace[filepath.Join(repoDir, f)] = filepath.Join(pdir, f)
		}
	}

	// sync rewriting
	rdir := filepath.Join(scratch, "rewritten")
	_ = os.RemoveAll(rdir)
	for _, pkg := range cfg.SyncRewrite {
		ents, err := os.ReadDir(filepath.Join(repoDir, pkg))
		if err != nil {
			return "", fmt.Errorf("sync_rewrite: %v", err)
		}
		for _, e := range ents {
			name := e.Name()
			if e.IsDir() || !strings.HasSuffix(name, ".go") || strings.HasSuffix(name, "_test.go") {
				continue
			}
			rel := filepath.Join(pkg, name)
			src := filepath.Join(repoDir, rel)
			if p, ok := patched[rel]; ok {
				src = p
			}
			out, changed, err := rewriteImports(src, map[string]string{"sync": shimImportBase + "vsync"})
			if err != nil {
				return "", fmt.Errorf("sync_rewrite %s: %v", rel, err)
			}
			if !changed {
				continue
			}
			dst := filepath.Join(rdir, rel)
			if err := os.MkdirAll(filepath.Dir(dst), 0o755); err != nil {
				return "", err
			}
			if err := os.WriteFile(dst, out, 0o644); err != nil {
				return "", err
			}
			replace[filepath.Join(repoDir, rel)] = dst
		}
	}

	// other import substitutions: "pkg dir|from import path|shim name"
	for _, spec := range cfg.ImportRewrite {
		parts := strings.Split(spec, "|")
		if len(parts) != 3 {
			return "", fmt.Errorf("import_rewrite: bad spec %q", spec)
		}
		pkg, from, to := parts[0], parts[1], shimImportBase+parts[2]
		ents, err := os.ReadDir(filepath.Join(repoDir, pkg))
		if err != nil {
			return "", fmt.Errorf("import_rewrite: %v", err)
		}
		for _, e := range ents {
			name := e.Name()
			if e.IsDir() || !strings.HasSuffix(name, ".go") || strings.HasSuffix(name, "_test.go") {
				continue
			}
			rel := filepath.Join(pkg, name)
			src := filepath.Join(repoDir, rel)
			if cur, ok := replace[src]; ok {
				src = cur // already patched or sync-rewritten
			}
			out, changed, err := rewriteImports(src, map[string]string{from: to})
			if err != nil {
				return "", fmt.Errorf("import_rewrite %s: %v", rel, err)
			}
			if !changed {
				continue
			}
			dst := filepath.Join(rdir, "ir", rel)
			if err := os.MkdirAll(filepath.Dir(dst), 0o755); err != nil {
				return "", err
			}
			if err := os.WriteFile(dst, out, 0o644); err != nil {
				return "", err
			}
			replace[filepath.Join(repoDir, rel)] = dst
		}
	}

	// access_points: bulk memory accesses (builtin copy) of the listed packages become scheduling
	// points of registered goroutines, so that an exploration also orders the one kind of
	// unsynchronised access that moves whole buffers (aliasing / recycled buffers)
	for _, pkg := range cfg.AccessPoints {
		ents, err := os.ReadDir(filepath.Join(repoDir, pkg))
		if err != nil {
			return "", fmt.Errorf("access_points: %v", err)
		}
		for _, e := range ents {
			name := e.Name()
			if e.IsDir() || !strings.HasSuffix(name, ".go") || strings.HasSuffix(name, "_test.go") {
				continue
			}
			rel := filepath.Join(pkg, name)
			src := filepath.Join(repoDir, rel)
			if cur, ok := replace[src]; ok {
				src = cur
			}
			out, changed, err := insertAccessPoints(src, shimImportBase+"vsync")
			if err != nil {
				return "", fmt.Errorf("access_points %s: %v", rel, err)
			}
			if !changed {
				continue
			}
			dst := filepath.Join(rdir, "ap", rel)
			if err := os.MkdirAll(filepath.Dir(dst), 0o755); err != nil {
				return "", err
			}
			if err := os.WriteFile(dst, out, 0o644); err != nil {
				return "", err
			}
			replace[filepath.Join(repoDir, rel)] = dst
		}
	}

	// global_reset: a generated file per listed package that can put every package-level variable
	// back to its value at program start (so that executions of a stateless exploration stay independent
	// even if a change introduces hidden package-level state)
	for _, pkg := range cfg.GlobalReset {
		src, err := genGlobalReset(pkg, replace)
		if err != nil {
			return "", fmt.Errorf("global_reset %s: %v", pkg, err)
		}
		dst := filepath.Join(rdir, "gr", pkg, "zz_verif_globals.go")
		if err := os.MkdirAll(filepath.Dir(dst), 0o755); err != nil {
			return "", err
		}
		if err := os.WriteFile(dst, src, 0o644); err != nil {
			return "", err
		}
		replace[filepath.Join(repoDir, pkg, "zz_verif_globals.go")] = dst
	}

	ov := filepath.Join(scratch, "overlay-"+cfg.ID+".json")
	buf, _ := json.MarshalIndent(map[string]any{"Replace": replace}, "", " ")
	if err := os.WriteFile(ov, buf, 0o644); err != nil {
		return "", err
	}
	return ov, nil
}

var diffFileRe = regexp.MustCompile(`(?m)^\+\+\+ b/(\S+)`)

func patchFiles(patch string) ([]string, error) {
	buf, err := os.ReadFile(patch)
	if err != nil {
		return nil, err
	}
	var files []string
	for _, m := range diffFileRe.FindAllSubmatch(buf, -1) {
		files = append(files, string(m[1]))
	}
	if len(files) == 0 {
		return nil, fmt.Errorf("patch %s names no files (expected git-style +++ b/<path>)", patch)
	}
	return files, nil
}

// rewriteImports replaces import paths (keeping the old package name as the
// local name) using go/parser and go/format — no textual substitution.
func rewriteImports(file string, m map[string]string) ([]byte, bool, error) {
	fset := token.NewFileSet()
	f, err := parser.ParseFile(fset, file, nil, parser.ParseComments)
	if err != nil {
		return nil, false, err
	}
	changed := false
	for _, imp := range f.Imports {
		p, _ := strconv.Unquote(imp.Path.Value)
		if np, ok := m[p]; ok {
			if imp.Name == nil {
				imp.Name = ast.NewIdent(filepath.Base(p))
			}
			imp.Path.Value = strconv.Quote(np)
			changed = true
		}
	}
	if !changed {
		return nil, false, nil
	}
	var out bytes.Buffer
	if err := format.Node(&out, fset, f); err != nil {
		return nil, false, err
	}
	return out.Bytes(), true, nil
}

// genGlobalReset writes VerifResetGlobals() for one package: a shallow snapshot of all package-level
// variables taken in an init function of a file that sorts last, and a function restoring it.
func genGlobalReset(pkg string, replace map[string]string) ([]byte, error) {
	dir := filepath.Join(repoDir, pkg)
	bp, err := build.Default.ImportDir(dir, 0)
	if err != nil {
		return nil, err
	}
	var names []string
	fset := token.NewFileSet()
	for _, name := range append(append([]string{}, bp.GoFiles...), bp.CgoFiles...) {
		file := filepath.Join(dir, name)
		if cur, ok := replace[file]; ok {
			file = cur
		}
		f, err := parser.ParseFile(fset, file, nil, 0)
		if err != nil {
			return nil, err
		}
		for _, d := range f.Decls {
			gd, ok := d.(*ast.GenDecl)
			if !ok || gd.Tok != token.VAR {
				continue
			}
			for _, sp := range gd.Specs {
				for _, n := range sp.(*ast.ValueSpec).Names {
					if n.Name != "_" {
						names = append(names, n.Name)
					}
				}
			}
		}
	}
	var b bytes.Buffer
	fmt.Fprintf(&b, "// Code generated by /verif (global_reset). DO NOT EDIT.\n\npackage %s\n\nvar verifGlobalsRestore = func() {}\n\nfunc init() {\n", bp.Name)
	for i, n := range names {
		fmt.Fprintf(&b, "\tc%d := %s\n", i, n)
	}
	fmt.Fprintf(&b, "\tverifGlobalsRestore = func() {\n")
	for i, n := range names {
		fmt.Fprintf(&b, "\t\t%s = c%d\n", n, i)
	}
	fmt.Fprintf(&b, "\t}\n}\n\n// VerifResetGlobals puts every package-level variable back to its value at program start (shallow copies).\nfunc VerifResetGlobals() { verifGlobalsRestore() }\n")
	return format.Source(b.Bytes())
}

// insertAccessPoints puts `verifaccess.Access("copy"); ` in front of every statement (of a block,
// case or select clause) that contains a call of the builtin copy.  Line numbers are preserved.
func insertAccessPoints(src, vsyncPath string) ([]byte, bool, error) {
	buf, err := os.ReadFile(src)
	if err != nil {
		return nil, false, err
	}
	fset := token.NewFileSet()
	f, err := parser.ParseFile(fset, src, buf, parser.ParseComments)
	if err != nil {
		return nil, false, err
	}
	hasCopy := func(n ast.Node) bool {
		found := false
		ast.Inspect(n, func(m ast.Node) bool {
			if _, ok := m.(*ast.FuncLit); ok {
				return false // statements inside are handled on their own
			}
			if c, ok := m.(*ast.CallExpr); ok {
				if id, ok := c.Fun.(*ast.Ident); ok && id.Name == "copy" && id.Obj == nil {
					found = true
				}
			}
			return !found
		})
		return found
	}
	var offs []int
	lists := func(l []ast.Stmt) {
		for _, st := range l {
			switch st.(type) {
			case *ast.BlockStmt, *ast.IfStmt, *ast.ForStmt, *ast.RangeStmt, *ast.SwitchStmt, *ast.TypeSwitchStmt, *ast.SelectStmt, *ast.LabeledStmt:
				continue // compound: their inner statements are visited
			}
			if hasCopy(st) {
				offs = append(offs, fset.Position(st.Pos()).Offset)
			}
		}
	}
	ast.Inspect(f, func(n ast.Node) bool {
		switch b := n.(type) {
		case *ast.BlockStmt:
			lists(b.List)
		case *ast.CaseClause:
			lists(b.Body)
		case *ast.CommClause:
			lists(b.Body)
		}
		return true
	})
	if len(offs) == 0 {
		return buf, false, nil
	}
	sort.Ints(offs)
	var out []byte
	last := 0
	pkgEnd := fset.Position(f.Name.End()).Offset
	out = append(out, buf[:pkgEnd]...)
	out = append(out, []byte("; import verifaccess "+strconv.Quote(vsyncPath))...)
	last = pkgEnd
	for _, o := range offs {
		out = append(out, buf[last:o]...)
		out = append(out, []byte(`verifaccess.Access("copy"); `)...)
		last = o
	}
	out = append(out, buf[last:]...)
	return out, true, nil
}

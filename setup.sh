#!/bin/sh
# Build the /verif driver from files on disk only and warm the Go build cache.
set -e
cd /verif
unset GOTOOLCHAIN GOSUMDB
export GOFLAGS=-mod=mod GOPROXY=off GOTOOLCHAIN=auto
mkdir -p bin evidence replays
(cd cmd/verif && go build -o ../../bin/verif .)
./bin/verif setup

package repository

// Exported test hooks for /verif.  This file is not part of restic; it is added
// to the package at build time through the /verif overlay (add-only).

// VerifSetPackSize overrides the target pack size (restic's public minimum is 4 MiB;
// small packs let tiny fixtures produce several packs and concurrent uploads).
func VerifSetPackSize(r *Repository, n uint) { r.opts.PackSize = n }

package repository

import (
	"context"
	"fmt"

	"github.com/restic/restic/internal/repository/index"
	"github.com/restic/restic/internal/repository/pack"
	"github.com/restic/restic/internal/restic"
)

// Exported test hooks for /verif.  This file is not part of restic; it is added
// to the package at build time through the /verif overlay (add-only).

// VerifSetPackSize overrides the target pack size (restic's public minimum is 4 MiB;
// small packs let tiny fixtures produce several packs and concurrent uploads).
func VerifSetPackSize(r *Repository, n uint) { r.opts.PackSize = n }

// VerifBreakIndexEntry rewrites the index of r so that the entry of blob h in pack packID carries a
// length changed by delta (everything else is kept): a damaged index over an intact pack file (C34).
func VerifBreakIndexEntry(ctx context.Context, r *Repository, packID restic.ID, h restic.BlobHandle, delta int) error {
	packs := restic.NewIDSet()
	if err := r.ListBlobs(ctx, func(pb restic.PackBlob) { packs.Insert(pb.PackID()) }); err != nil {
		return err
	}
	all := map[restic.ID]pack.Blobs{}
	for pbs := range r.listPacksFromIndex(ctx, packs) {
		all[pbs.PackID] = pbs.Blobs
	}
	old := r.idx.IDs()
	idx := index.NewIndex()
	found := false
	for id, blobs := range all {
		blobs = append(pack.Blobs{}, blobs...)
		if id == packID {
			for i := range blobs {
				if blobs[i].BlobHandle == h {
					blobs[i].Length = uint(int(blobs[i].Length) + delta)
					found = true
				}
			}
		}
		idx.StorePack(id, blobs)
	}
	if !found {
		return fmt.Errorf("VerifBreakIndexEntry: blob %v is not indexed in pack %v", h, packID.Str())
	}
	idx.Finalize()
	if _, err := idx.SaveIndex(ctx, &internalRepository{r}); err != nil {
		return err
	}
	for id := range old {
		if err := (&internalRepository{r}).RemoveUnpacked(ctx, restic.IndexFile, id); err != nil {
			return err
		}
	}
	return nil
}

package dump

// Exported test hook for /verif.  This file is not part of restic; it is added
// to the package at build time through the /verif overlay (add-only).

import "github.com/restic/restic/internal/bloblru"

// VerifSetCacheSize replaces the dumper's 64 MiB blob cache by one of the given size, so that
// evictions happen with tiny blobs while blobs are still queued for the writer.
func VerifSetCacheSize(d *Dumper, size int) { d.cache = bloblru.New(size) }

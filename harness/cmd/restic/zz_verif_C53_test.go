package main

// C53: diff reports exactly the paths that differ between two snapshots.
//
// Space.  Trees over the names {a,b,c}: a root slot holds one of the kinds
//   absent, F1, F2 (same size/metadata, other content -> "bitrot" shape), F3
//   (other content, size, mtime), F3r (F3's two blobs in the other order), F1d
//   (F1's blob twice: same SET of blob IDs as F1), F1m (F1 with another mtime: metadata only),
//   F0n / F0e (empty file stored with "content":null / "content":[]),
//   L1, L2 (symlink, two targets), DE (empty dir), D0 (dir{a:F1}),
//   DB (dir{a:F1,b:L1} = the base's /b: an identical subtree), DBm (DB with
//   another dir mtime: metadata only), DT (dir{a:G,b:G}: twin sub-directories, one tree blob);
// a slot inside a root directory holds one of
//   absent, F1, F2, F3, F3r, F1d, F1m, F0n, F0e, L1, L2, E (empty dir), G (dir{x:F1}),
//   G2 (dir{x:F2}).
// Base tree B = {a:F1, b:DB, c:absent} (thorough also B' = {a:dir{a:F0e,b:G,c:F3},
// b:L1, c:F1}).  An edit sets one slot (a root slot, or a slot inside a root
// directory that exists at that point) to another kind.  Pairs compared with
// the real runDiff (JSON output), each with and without --metadata:
//   (B, e(B)) and (e(B), B) for every single edit e;
//   (B, e2(e1(B))) and the reverse for every double edit on two different
//   slots (quick: the second edit drawn from a reduced kind alphabet);
//   thorough: additionally (e1(B), e2(B)) for all ordered pairs of single edits.
// Trees, data blobs and one snapshot per tree are forged with SaveBlob /
// data.SaveSnapshot.
//
// Oracle: an independent flattening of both trees to path -> (type, content
// key, metadata key, subtree key).  For every path, comparing letters of the
// "modifier" of its (at most one) output line:
//   '+' / '-'  <=> the path exists only in the second / first tree (this
//                  includes every descendant of an added/removed directory and
//                  every descendant of a directory that became a non-directory
//                  or vice versa);
//   'T'        <=> exists in both and the types differ;
//   'M'        <=> both are files and the content (sequence of blobs) differs;
//                  '?' only together with 'M';
//   'U'        never without --metadata; with --metadata required when the
//                  metadata key differs, allowed when the node differs in any
//                  way, forbidden when the nodes are identical;
//   no line at all for a path whose nodes are identical, nor for anything
//   below an identical subtree.
// Left open: two empty files of which one stores its content list as JSON null
// (F0n; never written by this restic version, only by forged/legacy trees) and
// the other as [] (F0e) - restic reports "M?" for this pair; 'M' is neither
// demanded nor forbidden there (counter null_vs_empty_list_content_reported_as_M).
//
// Deviation from DESIGN: "identical subtree moved" is realised by the kind DB
// (a directory identical to the base's /b) appearing at another root slot,
// combined with removing /b by a second edit.
// A trailing '/' of directory paths is ignored.

import (
	"context"
	"encoding/json"
	"fmt"
	"os"
	"path/filepath"
	"sort"
	"strings"
	"testing"
	"time"

	"github.com/restic/restic/internal/data"
	"github.com/restic/restic/internal/global"
	"github.com/restic/restic/internal/repository"
	"github.com/restic/restic/internal/restic"
	"github.com/restic/restic/internal/ui/progress"
	"github.com/restic/restic/internal/verifshim/vh"
)

// verifC53Tree: root slot -> kind; for root directories the children kinds.
type verifC53Dir struct {
	Meta     int               `json:"meta,omitempty"` // 0 | 1: directory mtime variant
	Children map[string]string `json:"children"`
}

type verifC53Tree struct {
	Leaf map[string]string       `json:"leaf,omitempty"` // root slot -> leaf kind
	Dir  map[string]*verifC53Dir `json:"dir,omitempty"`  // root slot -> directory
}

func (t *verifC53Tree) clone() *verifC53Tree {
	n := &verifC53Tree{Leaf: map[string]string{}, Dir: map[string]*verifC53Dir{}}
	for k, v := range t.Leaf {
		n.Leaf[k] = v
	}
	for k, d := range t.Dir {
		nd := &verifC53Dir{Meta: d.Meta, Children: map[string]string{}}
		for ck, cv := range d.Children {
			nd.Children[ck] = cv
		}
		n.Dir[k] = nd
	}
	return n
}

func (t *verifC53Tree) key() string {
	var parts []string
	for _, n := range []string{"a", "b", "c"} {
		if k, ok := t.Leaf[n]; ok {
			parts = append(parts, n+"="+k)
		} else if d, ok := t.Dir[n]; ok {
			var cp []string
			for _, cn := range []string{"a", "b", "c"} {
				if ck, ok := d.Children[cn]; ok {
					cp = append(cp, cn+"="+ck)
				}
			}
			parts = append(parts, fmt.Sprintf("%s=dir%d{%s}", n, d.Meta, strings.Join(cp, ",")))
		}
	}
	return strings.Join(parts, " ")
}

var verifC53RootKinds = []string{"absent", "F1", "F2", "F3", "F3r", "F1d", "F1m", "F0n", "F0e", "L1", "L2", "DE", "D0", "DB", "DBm", "DT"}
var verifC53SubKinds = []string{"absent", "F1", "F2", "F3", "F3r", "F1d", "F1m", "F0n", "F0e", "L1", "L2", "E", "G", "G2"}
var verifC53RootKindsQuick = []string{"absent", "F1", "F2", "F1m", "L1", "D0", "DB", "DT"}
var verifC53SubKindsQuick = []string{"absent", "F1", "F3", "F3r", "F1d", "F1m", "L1", "G"}

type verifC53Edit struct {
	Root string `json:"root"`          // root slot
	Sub  string `json:"sub,omitempty"` // slot inside the root directory ("" = the root slot itself)
	Kind string `json:"kind"`
}

func (e verifC53Edit) key() string {
	if e.Sub == "" {
		return "/" + e.Root + ":=" + e.Kind
	}
	return "/" + e.Root + "/" + e.Sub + ":=" + e.Kind
}

func (e verifC53Edit) slot() string { return e.Root + "/" + e.Sub }

func (t *verifC53Tree) rootKind(n string) string {
	if k, ok := t.Leaf[n]; ok {
		return k
	}
	if d, ok := t.Dir[n]; ok {
		c := d.Children
		switch {
		case len(c) == 0 && d.Meta == 0:
			return "DE"
		case len(c) == 1 && c["a"] == "F1" && d.Meta == 0:
			return "D0"
		case len(c) == 2 && c["a"] == "F1" && c["b"] == "L1" && d.Meta == 0:
			return "DB"
		case len(c) == 2 && c["a"] == "F1" && c["b"] == "L1" && d.Meta == 1:
			return "DBm"
		case len(c) == 2 && c["a"] == "G" && c["b"] == "G" && d.Meta == 0:
			return "DT"
		}
		return "dir"
	}
	return "absent"
}

// apply returns the edited tree, or nil when the edit is not applicable or a no-op.
func (t *verifC53Tree) apply(e verifC53Edit) *verifC53Tree {
	n := t.clone()
	if e.Sub == "" {
		if t.rootKind(e.Root) == e.Kind {
			return nil
		}
		delete(n.Leaf, e.Root)
		delete(n.Dir, e.Root)
		switch e.Kind {
		case "absent":
		case "DE":
			n.Dir[e.Root] = &verifC53Dir{Children: map[string]string{}}
		case "D0":
			n.Dir[e.Root] = &verifC53Dir{Children: map[string]string{"a": "F1"}}
		case "DB":
			n.Dir[e.Root] = &verifC53Dir{Children: map[string]string{"a": "F1", "b": "L1"}}
		case "DBm":
			n.Dir[e.Root] = &verifC53Dir{Meta: 1, Children: map[string]string{"a": "F1", "b": "L1"}}
		case "DT":
			// twin sub-directories: /x/a and /x/b are the same tree blob
			n.Dir[e.Root] = &verifC53Dir{Children: map[string]string{"a": "G", "b": "G"}}
		default:
			n.Leaf[e.Root] = e.Kind
		}
		return n
	}
	d, ok := n.Dir[e.Root]
	if !ok {
		return nil
	}
	cur, ok := d.Children[e.Sub]
	if !ok {
		cur = "absent"
	}
	if cur == e.Kind {
		return nil
	}
	if e.Kind == "absent" {
		delete(d.Children, e.Sub)
	} else {
		d.Children[e.Sub] = e.Kind
	}
	return n
}

func verifC53Edits(t *verifC53Tree, rootKinds, subKinds []string) []verifC53Edit {
	var res []verifC53Edit
	for _, n := range []string{"a", "b", "c"} {
		for _, k := range rootKinds {
			e := verifC53Edit{Root: n, Kind: k}
			if t.apply(e) != nil {
				res = append(res, e)
			}
		}
		if _, ok := t.Dir[n]; ok {
			for _, s := range []string{"a", "b", "c"} {
				for _, k := range subKinds {
					e := verifC53Edit{Root: n, Sub: s, Kind: k}
					if t.apply(e) != nil {
						res = append(res, e)
					}
				}
			}
		}
	}
	return res
}

// ---- model: flattening

type verifC53Entry struct {
	Type    string // "file" | "dir" | "symlink"
	Content string // files: content key
	Meta    string // metadata key (everything except content / subtree)
	Sub     string // dirs: canonical description of the subtree
	Null    bool   // files: the (empty) content list is stored as JSON null instead of []
}

func verifC53Leaf(kind string) verifC53Entry {
	switch kind {
	case "F1":
		return verifC53Entry{Type: "file", Content: "c1", Meta: "s11,t1"}
	case "F2":
		return verifC53Entry{Type: "file", Content: "c2", Meta: "s11,t1"}
	case "F3":
		return verifC53Entry{Type: "file", Content: "c1+c2", Meta: "s22,t2"}
	case "F3r":
		// the blobs of F3 in the other order: same set of blob IDs, other content
		return verifC53Entry{Type: "file", Content: "c2+c1", Meta: "s22,t2"}
	case "F1d":
		// F1's blob twice (a file that grew by a repeated chunk): same set of blob IDs as F1
		return verifC53Entry{Type: "file", Content: "c1+c1", Meta: "s22,t2"}
	case "F1m":
		return verifC53Entry{Type: "file", Content: "c1", Meta: "s11,t2"}
	case "F0n":
		return verifC53Entry{Type: "file", Content: "", Meta: "s0,t1", Null: true}
	case "F0e":
		return verifC53Entry{Type: "file", Content: "", Meta: "s0,t1"}
	case "L1":
		return verifC53Entry{Type: "symlink", Meta: "->t1"}
	case "L2":
		return verifC53Entry{Type: "symlink", Meta: "->t2"}
	case "E":
		return verifC53Entry{Type: "dir", Meta: "dt0", Sub: "{}"}
	case "G":
		return verifC53Entry{Type: "dir", Meta: "dt0", Sub: "{x=F1}"}
	case "G2":
		return verifC53Entry{Type: "dir", Meta: "dt0", Sub: "{x=F2}"}
	}
	panic("unknown kind " + kind)
}

func (t *verifC53Tree) flatten() map[string]verifC53Entry {
	m := map[string]verifC53Entry{}
	for n, k := range t.Leaf {
		m["/"+n] = verifC53Leaf(k)
	}
	for n, d := range t.Dir {
		var cp []string
		for _, cn := range []string{"a", "b", "c"} {
			ck, ok := d.Children[cn]
			if !ok {
				continue
			}
			cp = append(cp, cn+"="+ck)
			ce := verifC53Leaf(ck)
			m["/"+n+"/"+cn] = ce
			switch ck {
			case "G":
				m["/"+n+"/"+cn+"/x"] = verifC53Leaf("F1")
			case "G2":
				m["/"+n+"/"+cn+"/x"] = verifC53Leaf("F2")
			}
		}
		m["/"+n] = verifC53Entry{Type: "dir", Meta: fmt.Sprintf("dt%d", d.Meta), Sub: "{" + strings.Join(cp, ",") + "}"}
	}
	return m
}

// ---- forging

type verifC53Env struct {
	t      *testing.T
	env    *testEnvironment
	repo   *repository.Repository
	ctx    context.Context
	c1, c2 restic.ID
	snaps  map[string]string // tree key -> snapshot ID
	nsnap  int
}

var verifC53T1 = time.Date(2019, 1, 2, 3, 4, 5, 0, time.UTC)
var verifC53T2 = time.Date(2019, 6, 7, 8, 9, 10, 0, time.UTC)

func (e *verifC53Env) leafNode(name, kind string, up restic.BlobSaver) *data.Node {
	n := &data.Node{Name: name, UID: 1000, GID: 1000, User: "u", Group: "g", ModTime: verifC53T1, AccessTime: verifC53T1, ChangeTime: verifC53T1}
	switch kind {
	case "F1":
		n.Type, n.Mode, n.Content, n.Size = data.NodeTypeFile, 0o644, restic.IDs{e.c1}, 11
	case "F2":
		n.Type, n.Mode, n.Content, n.Size = data.NodeTypeFile, 0o644, restic.IDs{e.c2}, 11
	case "F3":
		n.Type, n.Mode, n.Content, n.Size = data.NodeTypeFile, 0o644, restic.IDs{e.c1, e.c2}, 22
		n.ModTime = verifC53T2
	case "F3r":
		n.Type, n.Mode, n.Content, n.Size = data.NodeTypeFile, 0o644, restic.IDs{e.c2, e.c1}, 22
		n.ModTime = verifC53T2
	case "F1d":
		n.Type, n.Mode, n.Content, n.Size = data.NodeTypeFile, 0o644, restic.IDs{e.c1, e.c1}, 22
		n.ModTime = verifC53T2
	case "F1m":
		n.Type, n.Mode, n.Content, n.Size = data.NodeTypeFile, 0o644, restic.IDs{e.c1}, 11
		n.ModTime = verifC53T2
	case "F0n":
		n.Type, n.Mode, n.Content = data.NodeTypeFile, 0o644, nil
	case "F0e":
		n.Type, n.Mode, n.Content = data.NodeTypeFile, 0o644, restic.IDs{}
	case "L1":
		n.Type, n.Mode, n.LinkTarget = data.NodeTypeSymlink, os.ModeSymlink|0o777, "t1"
	case "L2":
		n.Type, n.Mode, n.LinkTarget = data.NodeTypeSymlink, os.ModeSymlink|0o777, "t2"
	case "E", "G", "G2":
		var nodes []*data.Node
		if kind == "G" {
			nodes = append(nodes, e.leafNode("x", "F1", up))
		} else if kind == "G2" {
			nodes = append(nodes, e.leafNode("x", "F2", up))
		}
		id := data.TestSaveNodes(e.t, e.ctx, up, nodes)
		n.Type, n.Mode, n.Subtree = data.NodeTypeDir, os.ModeDir|0o755, &id
	default:
		e.t.Fatalf("C53: unknown kind %q", kind)
	}
	return n
}

func (e *verifC53Env) saveTree(t *verifC53Tree, up restic.BlobSaver) restic.ID {
	var nodes []*data.Node
	for n, k := range t.Leaf {
		nodes = append(nodes, e.leafNode(n, k, up))
	}
	for n, d := range t.Dir {
		var sub []*data.Node
		for cn, ck := range d.Children {
			sub = append(sub, e.leafNode(cn, ck, up))
		}
		id := data.TestSaveNodes(e.t, e.ctx, up, sub)
		dn := &data.Node{Name: n, Type: data.NodeTypeDir, Mode: os.ModeDir | 0o755, UID: 1000, GID: 1000, User: "u", Group: "g",
			ModTime: verifC53T1, AccessTime: verifC53T1, ChangeTime: verifC53T1, Subtree: &id}
		if d.Meta == 1 {
			dn.ModTime = verifC53T2
		}
		nodes = append(nodes, dn)
	}
	return data.TestSaveNodes(e.t, e.ctx, up, nodes)
}

// forge makes sure a snapshot exists for every tree; returns nothing, fills e.snaps.
func (e *verifC53Env) forge(trees []*verifC53Tree) {
	var todo []*verifC53Tree
	seen := map[string]bool{}
	for _, t := range trees {
		if _, ok := e.snaps[t.key()]; !ok && !seen[t.key()] {
			seen[t.key()] = true
			todo = append(todo, t)
		}
	}
	if len(todo) == 0 {
		return
	}
	ids := make([]restic.ID, len(todo))
	err := e.repo.WithBlobUploader(e.ctx, func(ctx context.Context, up restic.BlobSaverWithAsync) error {
		for i, t := range todo {
			ids[i] = e.saveTree(t, up)
		}
		return nil
	})
	if err != nil {
		e.t.Fatalf("C53 forge: %v", err)
	}
	for i, t := range todo {
		tree := ids[i]
		e.nsnap++
		sn := &data.Snapshot{Time: verifC53T2.Add(time.Duration(e.nsnap) * time.Minute), Tree: &tree, Paths: []string{"/"}, Hostname: "h", Username: "verif"}
		id, err := data.SaveSnapshot(e.ctx, e.repo, sn)
		if err != nil {
			e.t.Fatalf("C53 forge: %v", err)
		}
		e.snaps[t.key()] = id.String()
	}
}

func (e *verifC53Env) dropSnapshots() {
	dir := filepath.Join(e.env.repo, "snapshots")
	for _, id := range e.snaps {
		_ = os.Remove(filepath.Join(dir, id))
	}
	e.snaps = map[string]string{}
}

type verifC53Line struct {
	Path     string `json:"path"`
	Modifier string `json:"modifier"`
}

func (e *verifC53Env) diff(r *vh.Run, ck string, t1, t2 *verifC53Tree, metadata bool, how []string) {
	id1, id2 := e.snaps[t1.key()], e.snaps[t2.key()]
	gopts := e.env.gopts
	gopts.JSON = true
	gopts.Quiet = false
	gopts.NoLock = true
	var out string
	var rerr error
	pan, msg := vh.NoPanic(func() {
		buf, err := withCaptureStdout(e.t, gopts, func(ctx context.Context, gopts global.Options) error {
			return runDiff(ctx, DiffOptions{ShowMetadata: metadata}, gopts, []string{id1, id2}, gopts.Term)
		})
		out, rerr = buf.String(), err
	})
	r.Eval(1)
	r.Transition(1)
	pk := fmt.Sprintf("[%s] -> [%s]|metadata=%v", t1.key(), t2.key(), metadata)
	detail := map[string]any{"tree1": t1, "tree2": t2, "metadata": metadata, "derivation": how}
	if pan {
		r.Violationf(ck, "C53|panic|"+pk, detail, "runDiff panicked: %s", msg)
		return
	}
	if rerr != nil {
		r.Violationf(ck, "C53|error|"+pk, detail, "runDiff failed: %v", rerr)
		return
	}
	got := map[string]string{}
	var lines []verifC53Line
	for _, l := range strings.Split(out, "\n") {
		l = strings.TrimSpace(l)
		if !strings.HasPrefix(l, "{") {
			continue
		}
		var m struct {
			MessageType string `json:"message_type"`
			verifC53Line
		}
		if err := json.Unmarshal([]byte(l), &m); err != nil {
			r.Violationf(ck, "C53|json|"+pk, detail, "diff --json line does not parse: %q", l)
			continue
		}
		if m.MessageType != "change" {
			continue
		}
		lines = append(lines, m.verifC53Line)
		p := m.Path
		if len(p) > 1 {
			p = strings.TrimSuffix(p, "/")
		}
		if old, dup := got[p]; dup {
			r.Violationf(ck, "C53|duplicate-line|"+pk+"|"+p, detail, "path %s is listed twice (%q and %q)", p, old, m.Modifier)
		}
		got[p] = m.Modifier
	}
	f1, f2 := t1.flatten(), t2.flatten()
	paths := map[string]bool{}
	for p := range f1 {
		paths[p] = true
	}
	for p := range f2 {
		paths[p] = true
	}
	for p := range got {
		paths[p] = true
	}
	var plist []string
	for p := range paths {
		plist = append(plist, p)
	}
	sort.Strings(plist)
	nontrivial := false
	for _, p := range plist {
		e1, in1 := f1[p]
		e2, in2 := f2[p]
		mod, listed := got[p]
		has := func(c string) bool { return strings.Contains(mod, c) }
		bad := func(kind, format string, a ...any) {
			key := fmt.Sprintf("C53|%s|%s|path=%s", kind, pk, p)
			// a path below a directory that changed its type is a class of its own, keyed by
			// the type change of the ancestor only
			if kind == "missing-removed" || kind == "missing-added" {
				for anc := p[:strings.LastIndex(p, "/")]; anc != ""; anc = anc[:strings.LastIndex(anc, "/")] {
					pe1, ok1 := f1[anc]
					pe2, ok2 := f2[anc]
					if ok1 && ok2 && pe1.Type != pe2.Type {
						kind = "type-change-hides-children"
						key = fmt.Sprintf("C53|type-change-hides-children|%s->%s", pe1.Type, pe2.Type)
						break
					}
				}
			}
			r.Violationf(ck, key, detail, "diff %s: path %s: "+format+" (all lines: %v)", append([]any{pk, p}, append(a, lines)...)...)
			_ = kind
		}
		switch {
		case !in1 && !in2:
			bad("phantom-path", "listed with %q but exists in neither snapshot", mod)
		case in1 && !in2:
			nontrivial = true
			if !listed || mod != "-" {
				kind := "wrong-modifier"
				if !listed {
					kind = "missing-removed"
				}
				bad(kind, "exists only in the first snapshot, expected \"-\", got %q (listed=%v)", mod, listed)
			}
		case !in1 && in2:
			nontrivial = true
			if !listed || mod != "+" {
				kind := "wrong-modifier"
				if !listed {
					kind = "missing-added"
				}
				bad(kind, "exists only in the second snapshot, expected \"+\", got %q (listed=%v)", mod, listed)
			}
		default:
			wantT := e1.Type != e2.Type
			wantM := e1.Type == "file" && e2.Type == "file" && e1.Content != e2.Content
			metaDiff := e1.Meta != e2.Meta
			// two empty files whose empty content list is stored once as null and once as []:
			// the content does not differ, but restic's node comparison distinguishes the two
			// encodings (Node.sameContent); 'M' is neither demanded nor forbidden for this pair
			reprOnly := e1.Type == "file" && e2.Type == "file" && e1.Content == e2.Content && e1.Null != e2.Null
			anyDiff := wantT || wantM || metaDiff || e1.Sub != e2.Sub || reprOnly
			if anyDiff {
				nontrivial = true
			}
			if has("+") || has("-") {
				bad("wrong-modifier", "exists in both snapshots but is listed with %q", mod)
			}
			if has("T") != wantT {
				bad("type-change", "types %s/%s, modifier %q (listed=%v)", e1.Type, e2.Type, mod, listed)
			}
			if reprOnly {
				if has("M") {
					r.Count("null_vs_empty_list_content_reported_as_M", 1)
				}
			} else if has("M") != wantM {
				kind := "content-change"
				bad(kind, "content %q/%q (types %s/%s), modifier %q (listed=%v)", e1.Content, e2.Content, e1.Type, e2.Type, mod, listed)
			}
			if has("?") && !has("M") {
				bad("wrong-modifier", "'?' without 'M': %q", mod)
			}
			if has("U") {
				if !metadata {
					bad("metadata-flag", "'U' listed without --metadata: %q", mod)
				} else if !anyDiff {
					bad("identical-listed", "identical nodes listed with %q", mod)
				}
			} else if metadata && metaDiff && !wantM && !wantT {
				// 'U' is required when only the metadata differ (for a file whose content changed
				// as well the documented modifier is 'M', for a type change 'T')
				bad("metadata-missing", "metadata differ (%s / %s) but no 'U' with --metadata: %q (listed=%v)", e1.Meta, e2.Meta, mod, listed)
			}
			if listed && !anyDiff {
				bad("identical-listed", "identical nodes listed with %q", mod)
			}
			if listed && strings.Trim(mod, "TMU?") != "" {
				bad("wrong-modifier", "unknown modifier %q", mod)
			}
		}
	}
	if nontrivial {
		r.Nontrivial(pk)
	}
	var outc []string
	for _, l := range lines {
		outc = append(outc, l.Modifier)
	}
	sort.Strings(outc)
	r.Outcome(strings.Join(outc, ","))
	r.Trace(1)
	if len(how) == 2 && how[0] == "/b/a:=F3" && how[1] == "/c:=D0" {
		r.Sample(map[string]any{"tree1": t1.key(), "tree2": t2.key(), "metadata": metadata, "lines": lines})
	}
}

func TestVerif_C53(t *testing.T) {
	r := vh.Start(t, "C53")
	defer r.Finish()
	r.Rule("pairs of forged snapshot trees over names {a,b,c} (depth <= 3) derived from a base tree by every single edit and every double edit of a slot (add, remove, type change, content change, metadata-only change, identical subtree elsewhere), both directions, with and without --metadata, through the real runDiff --json; thorough also every ordered pair of single-edit variants; non-trivial = the two trees differ")
	r.Assume("a trailing '/' on directory paths is ignored", "'?' (bitrot marker) is accepted together with 'M' and not otherwise demanded",
		"with --metadata 'U' is required when the metadata differ and no 'M' applies, allowed whenever the nodes differ (a changed subtree ID makes a directory node differ)")

	env, cleanup := withTestEnvironment(t)
	defer cleanup()
	testRunInit(t, env.gopts)

	hg := env.gopts
	hg.BackendTestHook = nil
	hg.NoCache = true
	err := withTermStatus(t, hg, func(ctx context.Context, hg global.Options) error {
		printer := progress.NewTerminalPrinter(false, 0, hg.Term)
		repo, err := global.OpenRepository(ctx, hg, printer)
		if err != nil {
			return err
		}
		e := &verifC53Env{t: t, env: env, repo: repo, ctx: ctx, snaps: map[string]string{}}
		if err := repo.WithBlobUploader(ctx, func(ctx context.Context, up restic.BlobSaverWithAsync) error {
			var err error
			if e.c1, _, _, err = up.SaveBlob(ctx, restic.DataBlob, []byte("content one"), restic.ID{}, false); err != nil {
				return err
			}
			e.c2, _, _, err = up.SaveBlob(ctx, restic.DataBlob, []byte("content two"), restic.ID{}, false)
			return err
		}); err != nil {
			return err
		}

		bases := []*verifC53Tree{{
			Leaf: map[string]string{"a": "F1"},
			Dir:  map[string]*verifC53Dir{"b": {Children: map[string]string{"a": "F1", "b": "L1"}}},
		}}
		if r.Thorough() {
			bases = append(bases, &verifC53Tree{
				Leaf: map[string]string{"b": "L1", "c": "F1"},
				Dir:  map[string]*verifC53Dir{"a": {Children: map[string]string{"a": "F0e", "b": "G", "c": "F3"}}},
			})
		}
		for bi, base := range bases {
			singles := verifC53Edits(base, verifC53RootKinds, verifC53SubKinds)
			for i1, e1 := range singles {
				ck := fmt.Sprintf("base=%d|e1=%s", bi, e1.key())
				if !r.Case(ck) {
					continue
				}
				if r.Expired() {
					return nil
				}
				v1 := base.apply(e1)
				type pair struct {
					a, b *verifC53Tree
					how  []string
				}
				var pairs []pair
				pairs = append(pairs, pair{base, v1, []string{e1.key()}}, pair{v1, base, []string{"reverse", e1.key()}})
				rk, sk := verifC53RootKinds, verifC53SubKinds
				if !r.Thorough() {
					rk, sk = verifC53RootKindsQuick, verifC53SubKindsQuick
				}
				// double edits: second edit on a different slot of the edited tree; each unordered
				// pair of slots once (the later slot in enumeration order is edited second) unless
				// the second slot only exists because of the first edit
				for _, e2 := range verifC53Edits(v1, rk, sk) {
					if e2.slot() == e1.slot() {
						continue
					}
					if base.apply(e2) != nil {
						// e2 is also applicable to the base: take each unordered pair once
						idx2 := -1
						for j, s := range singles {
							if s == e2 {
								idx2 = j
							}
						}
						if idx2 >= 0 && idx2 < i1 && base.apply(e2).apply(e1) != nil {
							continue
						}
					}
					v2 := v1.apply(e2)
					if v2 == nil || v2.key() == base.key() {
						continue
					}
					pairs = append(pairs, pair{base, v2, []string{e1.key(), e2.key()}}, pair{v2, base, []string{"reverse", e1.key(), e2.key()}})
				}
				if r.Thorough() {
					for _, e2 := range singles {
						if e2 == e1 {
							continue
						}
						pairs = append(pairs, pair{v1, base.apply(e2), []string{"left:" + e1.key(), "right:" + e2.key()}})
					}
				}
				e.dropSnapshots()
				var trees []*verifC53Tree
				for _, p := range pairs {
					trees = append(trees, p.a, p.b)
				}
				e.forge(trees)
				r.State(ck)
				for _, p := range pairs {
					for _, md := range []bool{false, true} {
						e.diff(r, ck, p.a, p.b, md, p.how)
					}
				}
			}
		}
		// identity: a tree compared with itself and with a second snapshot of the same tree
		if r.Case("identity") {
			e.dropSnapshots()
			e.forge([]*verifC53Tree{bases[0]})
			for _, md := range []bool{false, true} {
				e.diff(r, "identity", bases[0], bases[0], md, []string{"identity"})
			}
		}
		return nil
	})
	if err != nil {
		t.Fatalf("C53 harness: %v", err)
	}
}

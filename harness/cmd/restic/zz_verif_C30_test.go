package main

// C30: init never overwrites an existing repository.
//
// Space (complete): all 32 subsets of pre-existing {config, key, snapshot,
// index, pack} files (real files taken from a donor repository, so their names
// are valid IDs exactly as in a repository whose other files were lost) in an
// in-memory backend, crossed with
//   driver "repo": Repository.Init(version in {0,1,2,3}, polynomial in {nil, given})
//   driver "cli" : the real runInit with --repository-version in
//                  {0,1,2,3,stable,latest} x {no, --copy-chunker-params from a
//                  secondary (donor) repository}, through global.CreateRepository
//                  and the usual backend wrappers; the memory backends are
//                  reachable through a test-only location scheme "vmem:".
//
// Oracle (property statement + the comments in Repository.Init + doc/030):
//   init fails  <=>  config or key or snapshot present, or version not in {1,2};
//   on failure the backend content is byte-identical to before (nothing
//   changed, nothing added); on success all pre-existing files are unchanged
//   and exactly one config and one key file were added, the given password
//   opens the repository (and a different one does not), the config version is
//   the requested one (stable/latest = 2 per the table in doc/030), the
//   polynomial is the given one resp. irreducible by an independent Rabin test
//   of degree 53, the repository ID is 64 lower-case hex digits and different
//   for every init performed (each successful case is run twice).
//
// Deviation from DESIGN: 32 x (4x2 + 6x2) = 640 cases instead of 384 because
// the CLI aliases stable/latest are included.

import (
	"context"
	"crypto/sha256"
	"encoding/hex"
	"fmt"
	"io"
	"net/http"
	"sort"
	"strings"
	"testing"
	"time"

	"github.com/restic/chunker"
	"github.com/restic/restic/internal/backend"
	"github.com/restic/restic/internal/backend/limiter"
	"github.com/restic/restic/internal/backend/location"
	"github.com/restic/restic/internal/backend/mem"
	"github.com/restic/restic/internal/backend/retry"
	"github.com/restic/restic/internal/data"
	"github.com/restic/restic/internal/global"
	"github.com/restic/restic/internal/options"
	"github.com/restic/restic/internal/repository"
	"github.com/restic/restic/internal/restic"
	"github.com/restic/restic/internal/verifshim/vh"
)

const (
	verifC30Password      = "verif-C30 password"
	verifC30DonorPassword = "verif-C30 donor password"
)

var verifC30Types = []backend.FileType{backend.ConfigFile, backend.KeyFile, backend.SnapshotFile, backend.IndexFile, backend.PackFile, backend.LockFile}

// the five kinds of pre-existing files, bit i of the subset mask
var verifC30Kinds = []backend.FileType{backend.ConfigFile, backend.KeyFile, backend.SnapshotFile, backend.IndexFile, backend.PackFile}

type verifC30File struct {
	h   backend.Handle
	buf []byte
}

// ---- test-only backend scheme "vmem:<name>" ---------------------------------

type verifC30Cfg struct{ Name string }

type verifC30Factory struct{ bes map[string]*mem.MemoryBackend }

func (f *verifC30Factory) Scheme() string { return "vmem" }
func (f *verifC30Factory) ParseConfig(s string) (any, error) {
	return &verifC30Cfg{Name: strings.TrimPrefix(s, "vmem:")}, nil
}
func (f *verifC30Factory) StripPassword(s string) string { return s }
func (f *verifC30Factory) get(cfg any) (backend.Backend, error) {
	be := f.bes[cfg.(*verifC30Cfg).Name]
	if be == nil {
		return nil, fmt.Errorf("vmem: no such backend %q", cfg.(*verifC30Cfg).Name)
	}
	return be, nil
}
func (f *verifC30Factory) Create(_ context.Context, cfg any, _ http.RoundTripper, _ limiter.Limiter, _ func(string, ...any)) (backend.Backend, error) {
	return f.get(cfg)
}
func (f *verifC30Factory) Open(_ context.Context, cfg any, _ http.RoundTripper, _ limiter.Limiter, _ func(string, ...any)) (backend.Backend, error) {
	return f.get(cfg)
}

// ---- helpers ----------------------------------------------------------------

func verifC30Load(ctx context.Context, be backend.Backend, h backend.Handle) ([]byte, error) {
	var buf []byte
	err := be.Load(ctx, h, 0, 0, func(rd io.Reader) (err error) {
		buf, err = io.ReadAll(rd)
		return err
	})
	return buf, err
}

// verifC30Dump returns "type/name" -> sha256(content) for every file in be.
func verifC30Dump(t *testing.T, be backend.Backend) map[string]string {
	ctx := context.Background()
	out := map[string]string{}
	for _, tpe := range verifC30Types {
		var names []string
		if err := be.List(ctx, tpe, func(fi backend.FileInfo) error {
			names = append(names, fi.Name)
			return nil
		}); err != nil {
			t.Fatalf("C30: list %v: %v", tpe, err)
		}
		for _, n := range names {
			buf, err := verifC30Load(ctx, be, backend.Handle{Type: tpe, Name: n})
			if err != nil {
				t.Fatalf("C30: load %v/%v: %v", tpe, n, err)
			}
			sum := sha256.Sum256(buf)
			out[tpe.String()+"/"+n] = hex.EncodeToString(sum[:])
		}
	}
	return out
}

func verifC30DumpString(m map[string]string) string {
	keys := make([]string, 0, len(m))
	for k, v := range m {
		keys = append(keys, k+"="+v[:12])
	}
	sort.Strings(keys)
	return strings.Join(keys, " ")
}

// verifC30Donor builds a complete small repository and returns one file of
// each kind plus its config.
func verifC30Donor(t *testing.T) (*mem.MemoryBackend, map[backend.FileType]verifC30File, restic.Config) {
	ctx := context.Background()
	be := mem.New()
	repo, err := repository.New(be, repository.Options{})
	if err != nil {
		t.Fatal(err)
	}
	if err := repo.Init(ctx, 2, verifC30DonorPassword, nil); err != nil {
		t.Fatalf("C30: donor init: %v", err)
	}
	var blobID restic.ID
	if err := repo.WithBlobUploader(ctx, func(ctx context.Context, up restic.BlobSaverWithAsync) error {
		var err error
		blobID, _, _, err = up.SaveBlob(ctx, restic.DataBlob, []byte("verif C30 donor blob"), restic.ID{}, false)
		return err
	}); err != nil {
		t.Fatalf("C30: donor blob: %v", err)
	}
	sn, err := data.NewSnapshot([]string{"/donor"}, nil, "verif", time.Unix(1700000000, 0))
	if err != nil {
		t.Fatal(err)
	}
	sn.Tree = &blobID
	if _, err := data.SaveSnapshot(ctx, repo, sn); err != nil {
		t.Fatalf("C30: donor snapshot: %v", err)
	}
	files := map[backend.FileType]verifC30File{}
	for _, tpe := range verifC30Kinds {
		var names []string
		_ = be.List(ctx, tpe, func(fi backend.FileInfo) error { names = append(names, fi.Name); return nil })
		if len(names) != 1 {
			t.Fatalf("C30: donor has %d files of type %v, expected 1", len(names), tpe)
		}
		h := backend.Handle{Type: tpe, Name: names[0]}
		buf, err := verifC30Load(ctx, be, h)
		if err != nil {
			t.Fatal(err)
		}
		files[tpe] = verifC30File{h: h, buf: buf}
	}
	return be, files, repo.Config()
}

func verifC30Prepare(t *testing.T, files map[backend.FileType]verifC30File, mask int) *mem.MemoryBackend {
	be := mem.New()
	for i, tpe := range verifC30Kinds {
		if mask&(1<<i) == 0 {
			continue
		}
		f := files[tpe]
		if err := be.Save(context.Background(), f.h, backend.NewByteReader(f.buf, be.Hasher())); err != nil {
			t.Fatalf("C30: prepare: %v", err)
		}
	}
	return be
}

func verifC30MaskString(mask int) string {
	var s []string
	for i, tpe := range verifC30Kinds {
		if mask&(1<<i) != 0 {
			s = append(s, tpe.String())
		}
	}
	if len(s) == 0 {
		return "empty"
	}
	return strings.Join(s, "+")
}

// ---- independent irreducibility test over GF(2) (Rabin) --------------------

func verifC30Deg(p uint64) int {
	d := -1
	for p != 0 {
		d++
		p >>= 1
	}
	return d
}

func verifC30Mod(a, f uint64) uint64 {
	df := verifC30Deg(f)
	for da := verifC30Deg(a); da >= df; da = verifC30Deg(a) {
		a ^= f << uint(da-df)
	}
	return a
}

// verifC30MulMod multiplies a*b mod f; deg f <= 62, a and b reduced.
func verifC30MulMod(a, b, f uint64) uint64 {
	df := uint(verifC30Deg(f))
	var res uint64
	for b != 0 {
		if b&1 != 0 {
			res ^= a
		}
		b >>= 1
		a <<= 1
		if a&(1<<df) != 0 {
			a ^= f
		}
	}
	return res
}

func verifC30GCD(a, b uint64) uint64 {
	for b != 0 {
		a, b = b, verifC30Mod(a, b)
	}
	return a
}

func verifC30Irreducible(f uint64) bool {
	n := verifC30Deg(f)
	if n < 1 || n > 62 {
		return false
	}
	if n == 1 {
		return true
	}
	x := verifC30Mod(2, f)
	// frob(k) = x^(2^k) mod f
	frob := func(k int) uint64 {
		h := x
		for i := 0; i < k; i++ {
			h = verifC30MulMod(h, h, f)
		}
		return h
	}
	if frob(n) != x {
		return false
	}
	m := n
	for p := 2; p <= m; p++ {
		if m%p != 0 {
			continue
		}
		for m%p == 0 {
			m /= p
		}
		if verifC30GCD(f, frob(n/p)^x) != 1 {
			return false
		}
	}
	return true
}

// ---- the check --------------------------------------------------------------

type verifC30Case struct {
	Driver  string `json:"driver"`
	Mask    string `json:"preexisting"`
	Version string `json:"version"`
	Pol     string `json:"polynomial"`
}

func TestVerif_C30(t *testing.T) {
	r := vh.Start(t, "C30")
	defer r.Finish()
	r.Rule("all 32 subsets of pre-existing {config,key,snapshot,index,pack} x (Repository.Init: version 0..3 x polynomial {nil,given}; runInit: --repository-version {0,1,2,3,stable,latest} x {random, --copy-chunker-params}); non-trivial = at least one pre-existing file or an unsupported version (a guard has to fire or init has to leave foreign files alone)")
	r.Assume("the in-memory backend (internal/backend/mem) stands for any backend: Init only uses Stat/List/Save",
		"pre-existing files are genuine files of another repository (names are valid IDs); files with non-ID names are ignored by Repository.List by design and are not part of the space")

	repository.TestUseLowSecurityKDFParameters(t)
	retry.TestFastRetries(t)
	// NOTE: restic.TestDisableCheckPolynomial is deliberately NOT called: opening
	// the new repository must pass LoadConfig's polynomial check.

	ctx := context.Background()
	donorBE, files, donorCfg := verifC30Donor(t)
	// sanity of the independent test on known values
	if !verifC30Irreducible(0x3DA3358B4DC173) || verifC30Irreducible(0x3DA3358B4DC172) || verifC30Irreducible(0x3DA3358B4DC171) || !verifC30Irreducible(0x7) || verifC30Irreducible(0x5) {
		t.Fatalf("C30: independent irreducibility test is broken")
	}

	seenIDs := map[string]string{donorCfg.ID: "donor"}

	type result struct {
		err    error
		before map[string]string
		after  map[string]string
		be     *mem.MemoryBackend
	}

	runRepo := func(mask int, version uint, pol *chunker.Pol) result {
		be := verifC30Prepare(t, files, mask)
		before := verifC30Dump(t, be)
		repo, err := repository.New(be, repository.Options{})
		if err != nil {
			t.Fatal(err)
		}
		err = repo.Init(ctx, version, verifC30Password, pol)
		return result{err: err, before: before, after: verifC30Dump(t, be), be: be}
	}

	runCLI := func(mask int, version string, copyParams bool) result {
		be := verifC30Prepare(t, files, mask)
		before := verifC30Dump(t, be)
		reg := location.NewRegistry()
		reg.Register(&verifC30Factory{bes: map[string]*mem.MemoryBackend{"target": be, "donor": donorBE}})
		gopts := global.Options{
			Repo:     "vmem:target",
			Quiet:    true,
			NoCache:  true,
			Password: verifC30Password,
			Extended: make(options.Options),
			Backends: reg,
		}
		opts := InitOptions{RepositoryVersion: version}
		if copyParams {
			opts.CopyChunkerParameters = true
			opts.SecondaryRepoOptions = global.SecondaryRepoOptions{Repo: "vmem:donor", Password: verifC30DonorPassword}
		}
		err := withTermStatus(t, gopts, func(ctx context.Context, gopts global.Options) error {
			return runInit(ctx, opts, gopts, nil, gopts.Term)
		})
		return result{err: err, before: before, after: verifC30Dump(t, be), be: be}
	}

	donorBefore := verifC30Dump(t, donorBE)

	check := func(ck string, c verifC30Case, mask int, wantVersion uint, versionOK bool, wantPol *chunker.Pol, res result) {
		key := fmt.Sprintf("C30|%s|pre=%s|v=%s|pol=%s", c.Driver, c.Mask, c.Version, c.Pol)
		r.Eval(1)
		r.Trace(1)
		guarded := mask&0b00111 != 0
		wantErr := guarded || !versionOK
		if guarded || !versionOK || mask != 0 {
			r.Nontrivial(key)
		}
		outcome := "ok"
		if res.err != nil {
			outcome = "error:" + strings.SplitN(res.err.Error(), "\n", 2)[0]
			if i := strings.Index(outcome, "vmem:"); i >= 0 {
				outcome = outcome[:i]
			}
		}
		r.Outcome(outcome)
		if mask == 0b10101 && c.Version == "2" {
			r.Sample(map[string]any{"case": c, "outcome": outcome, "files_before": len(res.before), "files_after": len(res.after)})
		}

		if wantErr {
			if res.err == nil {
				r.Violationf(ck, key+"|accepted", c, "init succeeded although it must refuse (pre-existing: %s, version %s); backend before: [%s] after: [%s]", c.Mask, c.Version, verifC30DumpString(res.before), verifC30DumpString(res.after))
				return
			}
			if verifC30DumpString(res.before) != verifC30DumpString(res.after) || len(res.before) != len(res.after) {
				r.Violationf(ck, key+"|failed-but-modified", c, "init failed (%v) but changed the backend; before: [%s] after: [%s]", res.err, verifC30DumpString(res.before), verifC30DumpString(res.after))
			}
			for k, v := range res.before {
				if res.after[k] != v {
					r.Violationf(ck, key+"|failed-but-modified", c, "init failed (%v) but changed file %s", res.err, k)
				}
			}
			return
		}

		if res.err != nil {
			r.Violationf(ck, key+"|refused", c, "init failed although no config/key/snapshot exists and the version is supported: %v", res.err)
			return
		}
		// pre-existing files untouched
		for k, v := range res.before {
			if res.after[k] != v {
				r.Violationf(ck, key+"|overwrote", c, "init changed or removed pre-existing file %s", k)
			}
		}
		var added []string
		for k := range res.after {
			if _, ok := res.before[k]; !ok {
				added = append(added, k)
			}
		}
		sort.Strings(added)
		nCfg, nKey := 0, 0
		for _, a := range added {
			switch {
			case strings.HasPrefix(a, "config/"):
				nCfg++
			case strings.HasPrefix(a, "key/"):
				nKey++
			}
		}
		if nCfg != 1 || nKey != 1 || len(added) != 2 {
			r.Violationf(ck, key+"|added", c, "successful init added %v, expected exactly one config and one key", added)
			return
		}
		// the password opens it, another one does not
		repo2, err := repository.New(res.be, repository.Options{})
		if err != nil {
			t.Fatal(err)
		}
		if err := repo2.SearchKey(ctx, verifC30Password, 0, ""); err != nil {
			r.Violationf(ck, key+"|open", c, "the repository created by init cannot be opened with the given password: %v", err)
			return
		}
		repo3, _ := repository.New(res.be, repository.Options{})
		if err := repo3.SearchKey(ctx, verifC30Password+"x", 0, ""); err == nil {
			r.Violationf(ck, key+"|open-wrong-password", c, "the repository created by init opens with a wrong password")
		}
		cfg := repo2.Config()
		if cfg.Version != wantVersion {
			r.Violationf(ck, key+"|version", c, "config version %d, requested %d", cfg.Version, wantVersion)
		}
		if wantPol != nil && cfg.ChunkerPolynomial != *wantPol {
			r.Violationf(ck, key+"|polynomial-given", c, "config polynomial %v, given %v", cfg.ChunkerPolynomial, *wantPol)
		}
		if cfg.ChunkerPolynomial.Deg() != 53 || !verifC30Irreducible(uint64(cfg.ChunkerPolynomial)) {
			r.Violationf(ck, key+"|polynomial", c, "config polynomial %v is not an irreducible polynomial of degree 53", cfg.ChunkerPolynomial)
		}
		if len(cfg.ID) != 64 || strings.Trim(cfg.ID, "0123456789abcdef") != "" {
			r.Violationf(ck, key+"|id-format", c, "repository ID %q is not 64 hex digits", cfg.ID)
		}
		if prev, ok := seenIDs[cfg.ID]; ok {
			r.Violationf(ck, key+"|id-reused", c, "repository ID %s was already produced by %s", cfg.ID, prev)
		}
		seenIDs[cfg.ID] = key
	}

	givenPol := donorCfg.ChunkerPolynomial

	for mask := 0; mask < 32; mask++ {
		ms := verifC30MaskString(mask)

		ck := "repo|" + ms
		if r.Case(ck) {
			for version := uint(0); version <= 3; version++ {
				for _, given := range []bool{false, true} {
					var pol *chunker.Pol
					ps := "random"
					if given {
						p := givenPol
						pol = &p
						ps = "given"
					}
					c := verifC30Case{Driver: "repo", Mask: ms, Version: fmt.Sprint(version), Pol: ps}
					versionOK := version == 1 || version == 2
					for rep := 0; rep < 2; rep++ {
						var res result
						if p, msg := vh.NoPanic(func() { res = runRepo(mask, version, pol) }); p {
							r.Violationf(ck, fmt.Sprintf("C30|repo|pre=%s|v=%d|pol=%s|panic", ms, version, ps), c, "Init panicked: %s", msg)
							break
						}
						r.Transition(1)
						check(ck, c, mask, version, versionOK, pol, res)
						if res.err != nil {
							break // the second run only serves the "IDs differ" check
						}
					}
				}
			}
		}

		ck = "cli|" + ms
		if r.Case(ck) {
			for _, vs := range []string{"0", "1", "2", "3", "stable", "latest"} {
				for _, cp := range []bool{false, true} {
					var pol *chunker.Pol
					ps := "random"
					if cp {
						p := givenPol
						pol = &p
						ps = "copied"
					}
					var wantVersion uint
					versionOK := true
					switch vs {
					case "1":
						wantVersion = 1
					case "2", "stable", "latest":
						wantVersion = 2
					default:
						versionOK = false
					}
					c := verifC30Case{Driver: "cli", Mask: ms, Version: vs, Pol: ps}
					for rep := 0; rep < 2; rep++ {
						var res result
						if p, msg := vh.NoPanic(func() { res = runCLI(mask, vs, cp) }); p {
							r.Violationf(ck, fmt.Sprintf("C30|cli|pre=%s|v=%s|pol=%s|panic", ms, vs, ps), c, "runInit panicked: %s", msg)
							break
						}
						r.Transition(1)
						check(ck, c, mask, wantVersion, versionOK, pol, res)
						if res.err != nil {
							break
						}
					}
				}
			}
			// the secondary repository must never be modified by init
			if d := verifC30Dump(t, donorBE); verifC30DumpString(d) != verifC30DumpString(donorBefore) {
				r.Violationf(ck, "C30|cli|secondary-modified", ms, "init --copy-chunker-params modified the secondary repository: before [%s] after [%s]", verifC30DumpString(donorBefore), verifC30DumpString(d))
			}
		}
	}
}

package main

// C23: forget never removes a whole group and removes only what it reports.
//
// Space (complete over the stated alphabets).  Snapshot "types" = hosts {h1,h2}
// x paths {/p,/q} x tags {none,[a]} (8 types).  A repository shape is a
// sequence of types; snapshot i of the shape has time base + i*40min (all in
// the past, all distinct).  Shapes: quick = all sequences of length 2, two of
// length 1 and five hand-picked ones of length 5; thorough = all sequences of
// length <= 3 plus the same five.  Snapshots are forged with data.SaveSnapshot
// (no backup run); the repository is restored to the forged state before every
// run by writing the saved snapshot files back into <repo>/snapshots.
// For every shape the real runForget is executed for
//   policy mode:  group-by {host+paths (default), '' , tags}
//                 x policy {keep-last 1, keep-tag zz (keeps nothing), keep-tag a,
//                           keep-within 1h} x filter F
//                 + empty policy x --unsafe-allow-remove-all {off,on} x filter F x group-by
//                 + keep-tag zz with --unsafe-allow-remove-all x filter F
//                 with F = {none, --host h1} (quick) / {none, --host h1, --tag a} (thorough),
//                 --json output;
//   ID mode:      args {oldest full ID; unique short prefix of newest; oldest+newest
//                 (the same ID twice when there is only one snapshot); unknown prefix;
//                 oldest + unknown prefix; "latest"; oldest ID together with --host h1},
//                 text output at verbosity 3;
// each first with --dry-run and then, on the unchanged repository, for real.
//
// Oracle.
//  (a) observation = names and bytes of the files in <repo>/snapshots before and
//      after; deleted = before \ after; nothing is ever added or rewritten;
//  (b) dry-run deletes nothing;
//  (c) deleted == reported: the union of the "remove" lists of the --json output
//      (policy mode) / the "removed snapshot/<id>" lines (ID mode); the dry run
//      reports what the real run reports;
//  (d) statement: with a non-empty policy no group (independent partition model
//      over host / paths / sorted tags as selected by --group-by, restricted to
//      the snapshots matching the filter) loses all its snapshots; an empty
//      policy deletes nothing unless unsafe && filter != none; ID mode deletes
//      only named snapshots;
//  (e) documentation (doc/060_forget.rst): independent model of the four simple
//      policies: if some group would keep nothing (or the policy is empty
//      without unsafe+filter) the command fails and deletes nothing; otherwise it
//      succeeds and deletes exactly the union of group \ keep; unsafe + filter +
//      empty policy deletes exactly the matching snapshots; ID mode with only
//      resolvable IDs succeeds and deletes exactly the named snapshots.
//      With an unresolvable argument (or IDs combined with a filter) only
//      deleted ⊆ named and (c) are demanded.
//
// Deviations from DESIGN: repositories are all type sequences up to length 2
// (quick) / 3 (thorough) plus five fixed shapes of length 5 instead of "all
// repositories with <= 5 snapshots" (8^5 shapes x 90 runs is out of budget);
// keep-tag a and "latest" / ID+filter argument lists were added; every
// configuration is run as dry-run and real run back to back.

import (
	"bytes"
	"context"
	"encoding/json"
	"fmt"
	"os"
	"path/filepath"
	"regexp"
	"sort"
	"strings"
	"testing"
	"time"

	"github.com/restic/restic/internal/data"
	"github.com/restic/restic/internal/global"
	"github.com/restic/restic/internal/repository"
	"github.com/restic/restic/internal/restic"
	"github.com/restic/restic/internal/ui/progress"
	"github.com/restic/restic/internal/verifshim/vh"
)

type verifC23Snap struct {
	Idx   int
	Type  int
	Host  string
	Path  string
	Tags  []string
	Time  time.Time
	ID    string
	bytes []byte
}

func verifC23TypeOf(k int) (host, path string, tags []string) {
	host = []string{"h1", "h2"}[k&1]
	path = []string{"/p", "/q"}[(k>>1)&1]
	if k&4 != 0 {
		tags = []string{"a"}
	}
	return
}

type verifC23Cfg struct {
	GroupBy string // "host,paths" | "" | "tags"
	Policy  string // "none" | "last1" | "tagzz" | "taga" | "within1h"
	Filter  string // "none" | "host" | "tag"
	Unsafe  bool
	Args    string // "" (policy mode) | "oldest" | "prefix" | "two" | "unknown" | "oldest+unknown" | "latest" | "oldest+hostfilter"
}

func (c verifC23Cfg) key() string {
	if c.Args != "" {
		return "ids=" + c.Args
	}
	return fmt.Sprintf("group-by=%s|policy=%s|filter=%s|unsafe=%v", c.GroupBy, c.Policy, c.Filter, c.Unsafe)
}

func verifC23Configs(thorough bool) []verifC23Cfg {
	var res []verifC23Cfg
	filters := []string{"none", "host"}
	if thorough {
		filters = append(filters, "tag")
	}
	groups := []string{"host,paths", "", "tags"}
	for _, g := range groups {
		for _, f := range filters {
			for _, p := range []string{"last1", "tagzz", "taga", "within1h"} {
				res = append(res, verifC23Cfg{GroupBy: g, Policy: p, Filter: f})
			}
			for _, u := range []bool{false, true} {
				res = append(res, verifC23Cfg{GroupBy: g, Policy: "none", Filter: f, Unsafe: u})
			}
		}
	}
	for _, f := range filters {
		res = append(res, verifC23Cfg{GroupBy: "host,paths", Policy: "tagzz", Filter: f, Unsafe: true})
	}
	for _, a := range []string{"oldest", "prefix", "two", "unknown", "oldest+unknown", "latest", "oldest+hostfilter"} {
		res = append(res, verifC23Cfg{Args: a})
	}
	return res
}

func verifC23Shapes(thorough bool) [][]int {
	var res [][]int
	if thorough {
		for a := 0; a < 8; a++ {
			res = append(res, []int{a})
			for b := 0; b < 8; b++ {
				res = append(res, []int{a, b})
				for c := 0; c < 8; c++ {
					res = append(res, []int{a, b, c})
				}
			}
		}
	} else {
		res = append(res, []int{0}, []int{7})
		for a := 0; a < 8; a++ {
			for b := 0; b < 8; b++ {
				res = append(res, []int{a, b})
			}
		}
	}
	res = append(res, []int{0, 0, 0, 0, 0}, []int{0, 1, 2, 3, 4}, []int{0, 0, 4, 4, 7}, []int{4, 4, 4, 0, 0}, []int{0, 2, 4, 6, 0})
	return res
}

func verifC23ShapeKey(s []int) string {
	var p []string
	for _, x := range s {
		p = append(p, fmt.Sprint(x))
	}
	return "shape=" + strings.Join(p, ".")
}

// ---- independent model

func (c verifC23Cfg) matches(s *verifC23Snap) bool {
	switch c.Filter {
	case "host":
		return s.Host == "h1"
	case "tag":
		return len(s.Tags) == 1 && s.Tags[0] == "a"
	}
	return true
}

func (c verifC23Cfg) groupKey(s *verifC23Snap) string {
	switch c.GroupBy {
	case "host,paths":
		return s.Host + "|" + s.Path
	case "tags":
		return "tags:" + strings.Join(s.Tags, ",")
	}
	return "all"
}

func (c verifC23Cfg) groups(snaps []*verifC23Snap) map[string][]*verifC23Snap {
	g := map[string][]*verifC23Snap{}
	for _, s := range snaps {
		if c.matches(s) {
			g[c.groupKey(s)] = append(g[c.groupKey(s)], s)
		}
	}
	return g
}

// keep returns the snapshots of one group the policy keeps (policy != none)
func (c verifC23Cfg) keep(group []*verifC23Snap) map[string]bool {
	keep := map[string]bool{}
	var newest *verifC23Snap
	for _, s := range group {
		if newest == nil || s.Time.After(newest.Time) {
			newest = s
		}
	}
	for _, s := range group {
		switch c.Policy {
		case "last1":
			if s == newest {
				keep[s.ID] = true
			}
		case "tagzz":
		case "taga":
			if len(s.Tags) == 1 && s.Tags[0] == "a" {
				keep[s.ID] = true
			}
		case "within1h":
			if s.Time.After(newest.Time.Add(-time.Hour)) {
				keep[s.ID] = true
			}
		}
	}
	return keep
}

type verifC23Expect struct {
	exact     bool            // model (e) applies: wantErr / remove are demanded
	wantErr   bool            // command must fail (and delete nothing)
	remove    map[string]bool // exactly these are deleted by a successful real run
	mayDelete map[string]bool // upper bound when !exact
}

func (c verifC23Cfg) expect(snaps []*verifC23Snap, unknown string) (verifC23Expect, []string, data.SnapshotFilter) {
	var e verifC23Expect
	e.remove = map[string]bool{}
	var args []string
	var filter data.SnapshotFilter
	switch c.Filter {
	case "host":
		filter.Hosts = []string{"h1"}
	case "tag":
		filter.Tags = data.TagLists{data.TagList{"a"}}
	}
	if c.Args == "" {
		e.exact = true
		if c.Policy == "none" {
			if c.Unsafe && c.Filter != "none" {
				for _, s := range snaps {
					if c.matches(s) {
						e.remove[s.ID] = true
					}
				}
			} else {
				e.wantErr = true
			}
			return e, nil, filter
		}
		for _, g := range c.groups(snaps) {
			keep := c.keep(g)
			if len(keep) == 0 {
				e.wantErr = true
			}
			for _, s := range g {
				if !keep[s.ID] {
					e.remove[s.ID] = true
				}
			}
		}
		if e.wantErr {
			e.remove = map[string]bool{}
		}
		return e, nil, filter
	}
	// ID mode
	oldest, newest := snaps[0], snaps[len(snaps)-1]
	prefix := ""
	for n := 8; n <= 64; n++ {
		prefix = newest.ID[:n]
		uniq := true
		for _, s := range snaps {
			if s != newest && strings.HasPrefix(s.ID, prefix) {
				uniq = false
			}
		}
		if uniq {
			break
		}
	}
	e.exact = true
	switch c.Args {
	case "oldest":
		args = []string{oldest.ID}
		e.remove[oldest.ID] = true
	case "prefix":
		args = []string{prefix}
		e.remove[newest.ID] = true
	case "two":
		args = []string{oldest.ID, newest.ID}
		e.remove[oldest.ID], e.remove[newest.ID] = true, true
	case "latest":
		args = []string{"latest"}
		e.remove[newest.ID] = true
	case "unknown":
		args = []string{unknown}
		e.exact = false
		e.mayDelete = map[string]bool{}
	case "oldest+unknown":
		args = []string{oldest.ID, unknown}
		e.exact = false
		e.mayDelete = map[string]bool{oldest.ID: true}
	case "oldest+hostfilter":
		args = []string{oldest.ID}
		filter.Hosts = []string{"h1"}
		e.exact = false
		e.mayDelete = map[string]bool{oldest.ID: true}
	}
	return e, args, filter
}

func (c verifC23Cfg) options(dry bool, filter data.SnapshotFilter) ForgetOptions {
	o := ForgetOptions{DryRun: dry, UnsafeAllowRemoveAll: c.Unsafe}
	o.Hosts, o.Tags, o.Paths = filter.Hosts, filter.Tags, filter.Paths
	o.GroupBy = data.SnapshotGroupByOptions{Host: true, Path: true}
	if c.Args == "" {
		switch c.GroupBy {
		case "":
			o.GroupBy = data.SnapshotGroupByOptions{}
		case "tags":
			o.GroupBy = data.SnapshotGroupByOptions{Tag: true}
		}
		switch c.Policy {
		case "last1":
			o.Last = 1
		case "tagzz":
			o.KeepTags = data.TagLists{data.TagList{"zz"}}
		case "taga":
			o.KeepTags = data.TagLists{data.TagList{"a"}}
		case "within1h":
			o.Within = data.Duration{Hours: 1}
		}
	}
	return o
}

// ---- repository handling

type verifC23Env struct {
	t    *testing.T
	env  *testEnvironment
	repo *repository.Repository
	ctx  context.Context
	tree restic.ID
	dir  string
}

func (e *verifC23Env) listFiles() map[string][]byte {
	ents, err := os.ReadDir(e.dir)
	if err != nil {
		e.t.Fatalf("C23: %v", err)
	}
	res := map[string][]byte{}
	for _, de := range ents {
		if _, err := restic.ParseID(de.Name()); err != nil {
			continue
		}
		buf, err := os.ReadFile(filepath.Join(e.dir, de.Name()))
		if err != nil {
			e.t.Fatalf("C23: %v", err)
		}
		res[de.Name()] = buf
	}
	return res
}

func (e *verifC23Env) forge(shape []int) []*verifC23Snap {
	for name := range e.listFiles() {
		if err := os.Remove(filepath.Join(e.dir, name)); err != nil {
			e.t.Fatalf("C23: %v", err)
		}
	}
	if stale, _ := filepath.Glob(filepath.Join(e.env.cache, "*", "snapshots", "*")); len(stale) > 0 {
		for _, f := range stale {
			_ = os.RemoveAll(f)
		}
	}
	base := time.Date(2021, 5, 6, 7, 8, 9, 0, time.UTC)
	var res []*verifC23Snap
	for i, k := range shape {
		host, path, tags := verifC23TypeOf(k)
		tree := e.tree
		sn := &data.Snapshot{Time: base.Add(time.Duration(i) * 40 * time.Minute), Tree: &tree, Paths: []string{path},
			Hostname: host, Username: "verif", Tags: tags, ProgramVersion: "restic verif-C23"}
		id, err := data.SaveSnapshot(e.ctx, e.repo, sn)
		if err != nil {
			e.t.Fatalf("C23 forge: %v", err)
		}
		buf, err := os.ReadFile(filepath.Join(e.dir, id.String()))
		if err != nil {
			e.t.Fatalf("C23 forge: %v", err)
		}
		res = append(res, &verifC23Snap{Idx: i, Type: k, Host: host, Path: path, Tags: tags, Time: sn.Time, ID: id.String(), bytes: buf})
	}
	return res
}

func (e *verifC23Env) restore(snaps []*verifC23Snap) {
	have := e.listFiles()
	want := map[string]bool{}
	for _, s := range snaps {
		want[s.ID] = true
		if b, ok := have[s.ID]; !ok || !bytes.Equal(b, s.bytes) {
			p := filepath.Join(e.dir, s.ID)
			_ = os.Remove(p)
			if err := os.WriteFile(p, s.bytes, 0o600); err != nil {
				e.t.Fatalf("C23 restore: %v", err)
			}
		}
	}
	for name := range have {
		if !want[name] {
			_ = os.Remove(filepath.Join(e.dir, name))
		}
	}
}

var verifC23Removed = regexp.MustCompile(`removed snapshot/([0-9a-f]{64})`)

func verifC23Sorted(m map[string]bool) []string {
	var l []string
	for k := range m {
		l = append(l, k[:8])
	}
	sort.Strings(l)
	return l
}

func verifC23Eq(a, b map[string]bool) bool {
	if len(a) != len(b) {
		return false
	}
	for k := range a {
		if !b[k] {
			return false
		}
	}
	return true
}

func TestVerif_C23(t *testing.T) {
	r := vh.Start(t, "C23")
	defer r.Finish()
	r.Rule("every repository shape (sequence of snapshot types host x path x tag, distinct times) x every forget configuration (group-by x policy x filter x unsafe; explicit ID argument lists), each as --dry-run and then for real through the real runForget; non-trivial = a run that deleted at least one snapshot or was refused because a group would have been emptied / the policy was empty")
	r.Assume("the four policies of the alphabet (keep-last 1, keep-tag, keep-within 1h) are modelled exactly; all snapshot times are distinct and in the past",
		"reported set = 'remove' lists of forget --json (policy mode) or 'removed snapshot/<id>' lines at verbosity 3 (ID mode)")

	env, cleanup := withTestEnvironment(t)
	defer cleanup()
	testRunInit(t, env.gopts)

	hg := env.gopts
	hg.BackendTestHook = nil
	hg.NoCache = true
	err := withTermStatus(t, hg, func(ctx context.Context, hg global.Options) error {
		printer := progress.NewTerminalPrinter(false, 0, hg.Term)
		repo, err := global.OpenRepository(ctx, hg, printer)
		if err != nil {
			return err
		}
		e := &verifC23Env{t: t, env: env, repo: repo, ctx: ctx, dir: filepath.Join(env.repo, "snapshots")}
		if err := repo.WithBlobUploader(ctx, func(ctx context.Context, up restic.BlobSaverWithAsync) error {
			e.tree = data.TestSaveNodes(t, ctx, up, nil)
			return nil
		}); err != nil {
			return err
		}
		cfgs := verifC23Configs(r.Thorough())
		for _, shape := range verifC23Shapes(r.Thorough()) {
			ck := verifC23ShapeKey(shape)
			if !r.Case(ck) {
				continue
			}
			if r.Expired() {
				break
			}
			snaps := e.forge(shape)
			byID := map[string]*verifC23Snap{}
			for _, s := range snaps {
				byID[s.ID] = s
			}
			unknown := ""
			for _, cand := range []string{"ffffffff", "eeeeeeee", "dddddddd", "cccccccc", "bbbbbbbb", "aaaaaaaa"} {
				ok := true
				for _, s := range snaps {
					if strings.HasPrefix(s.ID, cand) {
						ok = false
					}
				}
				if ok {
					unknown = cand
					break
				}
			}
			r.State(ck)
			for _, c := range cfgs {
				exp, args, filter := c.expect(snaps, unknown)
				var reportedDry map[string]bool
				for _, dry := range []bool{true, false} {
					e.restore(snaps)
					before := e.listFiles()
					gopts := env.gopts
					if c.Args == "" {
						gopts.JSON = true
					} else {
						gopts.Quiet, gopts.Verbose, gopts.Verbosity = false, 2, 3
					}
					opts := c.options(dry, filter)
					var stdout, stderr *bytes.Buffer
					var rerr error
					pan, msg := vh.NoPanic(func() {
						stdout, stderr, rerr = withCaptureStdoutStderr(t, gopts, func(ctx context.Context, gopts global.Options) error {
							return runForget(ctx, opts, PruneOptions{MaxUnused: "5%"}, gopts, gopts.Term, args)
						})
					})
					r.Eval(1)
					r.Transition(1)
					vk := fmt.Sprintf("%s|dry=%v|%s", c.key(), dry, ck)
					detail := map[string]any{"shape": shape, "snapshots": snaps, "config": c, "args": args, "dry_run": dry}
					if pan {
						r.Violationf(ck, "C23|panic|"+vk, detail, "runForget panicked: %s", msg)
						continue
					}
					after := e.listFiles()
					deleted := map[string]bool{}
					for id := range before {
						if _, ok := after[id]; !ok {
							deleted[id] = true
						}
					}
					for id, b := range after {
						if ob, ok := before[id]; !ok || !bytes.Equal(ob, b) {
							r.Violationf(ck, "C23|added-or-rewritten|"+vk, detail, "forget added or rewrote snapshot file %s", id[:8])
						}
					}
					reported := map[string]bool{}
					if c.Args == "" {
						for _, line := range strings.Split(stdout.String(), "\n") {
							line = strings.TrimSpace(line)
							if !strings.HasPrefix(line, "[") {
								continue
							}
							var groups []struct {
								Remove []struct {
									ID string `json:"id"`
								} `json:"remove"`
							}
							if err := json.Unmarshal([]byte(line), &groups); err != nil {
								r.Violationf(ck, "C23|json|"+vk, detail, "forget --json output does not parse: %v", err)
								continue
							}
							for _, g := range groups {
								for _, s := range g.Remove {
									reported[s.ID] = true
								}
							}
						}
					} else {
						for _, m := range verifC23Removed.FindAllStringSubmatch(stdout.String()+"\n"+stderr.String(), -1) {
							reported[m[1]] = true
						}
					}
					errs := "ok"
					if rerr != nil {
						errs = "error"
					}
					r.Outcome(fmt.Sprintf("%s|dry=%v|%s|deleted=%d|reported=%d", c.Policy+c.Args, dry, errs, len(deleted), len(reported)))
					if len(deleted) > 0 || (rerr != nil && exp.exact && exp.wantErr) {
						r.Nontrivial(vk)
					}
					desc := fmt.Sprintf("forget %s dry-run=%v on %s: err=%v deleted=%v reported=%v", c.key(), dry, ck, rerr, verifC23Sorted(deleted), verifC23Sorted(reported))

					// (b) dry-run deletes nothing
					if dry && len(deleted) > 0 {
						r.Violationf(ck, "C23|dry-run-deleted|"+vk, detail, "--dry-run deleted snapshots: %s", desc)
					}
					// (c) deleted == reported
					if !dry && !verifC23Eq(deleted, reported) {
						r.Violationf(ck, "C23|deleted-vs-reported|"+vk, detail, "deleted snapshot files differ from the reported ones: %s", desc)
					}
					if dry {
						reportedDry = reported
					} else if c.Args == "" && !verifC23Eq(reportedDry, reported) {
						r.Violationf(ck, "C23|dry-vs-real-report|"+vk, detail, "--dry-run reported %v, the real run reported %v (%s)", verifC23Sorted(reportedDry), verifC23Sorted(reported), desc)
					}
					// (d) statement
					if c.Args == "" {
						if c.Policy != "none" {
							for gk, g := range c.groups(snaps) {
								all := true
								for _, s := range g {
									if !deleted[s.ID] {
										all = false
									}
								}
								if all {
									r.Violationf(ck, "C23|group-emptied|"+vk, detail, "group %q lost all its %d snapshots: %s", gk, len(g), desc)
								}
							}
						} else if !(c.Unsafe && c.Filter != "none") && len(deleted) > 0 {
							r.Violationf(ck, "C23|empty-policy-deleted|"+vk, detail, "empty policy deleted snapshots: %s", desc)
						}
						for id := range deleted {
							if s := byID[id]; s != nil && !c.matches(s) {
								r.Violationf(ck, "C23|deleted-outside-filter|"+vk, detail, "deleted a snapshot that does not match the filter: %s", desc)
							}
						}
					}
					// (e) model
					if exp.exact {
						if (rerr != nil) != exp.wantErr {
							r.Violationf(ck, "C23|error-expectation|"+vk, detail, "expected failure=%v: %s", exp.wantErr, desc)
						}
						if !dry && !verifC23Eq(deleted, exp.remove) {
							r.Violationf(ck, "C23|wrong-set-deleted|"+vk, detail, "expected to delete %v: %s", verifC23Sorted(exp.remove), desc)
						}
						if dry && c.Args == "" && rerr == nil && !verifC23Eq(reported, exp.remove) {
							r.Violationf(ck, "C23|wrong-set-reported|"+vk, detail, "expected the dry run to report %v: %s", verifC23Sorted(exp.remove), desc)
						}
					} else {
						for id := range deleted {
							if !exp.mayDelete[id] {
								r.Violationf(ck, "C23|deleted-unnamed|"+vk, detail, "deleted a snapshot that was not named: %s", desc)
							}
						}
					}
					if !dry {
						r.Trace(1)
						if len(shape) == 5 && shape[1] == 0 && shape[2] == 4 && (c.Policy == "taga" || c.Args == "two") && c.Filter == "none" {
							r.Sample(map[string]any{"shape": shape, "config": c.key(), "error": fmt.Sprint(rerr), "deleted": verifC23Sorted(deleted), "reported": verifC23Sorted(reported)})
						}
					}
				}
			}
		}
		return nil
	})
	if err != nil {
		t.Fatalf("C23 harness: %v", err)
	}
}

//go:build linux

package main

// C01: backup then restore reproduces the source tree exactly.
//
// Driver: real runInit / runBackup / runRestore on real directory trees in the
// scratch directory (we run as root: mknod, chown, xattrs work).  The source
// tree "src" is backed up by relative name from its parent, so its own
// metadata is part of the snapshot; it is restored into an empty target.
//
// Space.  Trees are built from the alphabets of DESIGN:
//   kind  {empty file, 1-byte file, 512 KiB zeros, 512 KiB zeros + last byte 1,
//          1.3 MiB LCG data, sparse (1 MiB hole + 4 KiB + 1 MiB hole), symlink,
//          symlink with non-UTF-8 target, fifo, char device 1:3, block device
//          7:0 (if mknod permits), hard-link pair, hard-link triple across
//          directories, empty dir, nested dir}
//   name  {a, \xff\xfe, q"uote, back\slash, ctl\x01\n, "u ", " lead", -dash,
//          255-byte name}
//   meta  mode {0644, 0000, 04755, 01777}, mtime {0, 1 ns, 1969-12-31T23:59:59.5,
//          2038-01-19T03:14:08, 2262-04-11T23:47:16.854775807 (= max int64 ns),
//          2024 with ns; thorough: + 2300-01-01 and 9999-12-31 when the scratch
//          filesystem stores them}, owner {0:0, 1234:1234, 0:1234}, xattrs
//          {none, user.a=b, user.bin=\x00\xff, empty value, two attrs,
//          trusted.t if permitted} - one factor at a time on a base file, a
//          base directory and a base symlink (owner + mtime only).
//   quick:    kind x {a} and 1-byte file x names as single-entry trees; per
//             kind one tree holding that kind under all 9 names; the one-factor
//             meta trees; one rich tree (all kinds, odd names, meta) under all
//             54 configurations  (version {1,2} x compression {off,auto,max} x
//             pack size {4,16,128} MiB x read concurrency {1,2,8}).
//   both:     one tree with multi-MiB compressible files (9 MiB constant byte, 6
//             MiB period 251: chunk plaintext above the 4 MiB pack size, ciphertext
//             tiny) x version x compression x pack size {4,16} MiB.
//   thorough: every single-entry tree kind x name; every ordered pair of kinds
//             in one directory; every kind nested two deep; meta; 6
//             representative trees x 54 configurations.
//
// Oracle: lstat-level equality of src and restored src: set of relative paths
// (name bytes), type, permission+setuid/setgid/sticky bits, size and SHA-256
// of regular files, symlink target bytes, rdev of devices, mtime (s, ns) of
// every entry incl. directories and symlinks, uid, gid, xattr map
// (llistxattr/lgetxattr), and the hard-link partition (classes of paths with
// equal (dev, ino)).  Not compared: atime, ctime, inode numbers, block
// allocation of sparse files.  A failing backup or restore command is a
// violation too.
//
// Deviation from DESIGN: quick uses the "all names in one tree" trees instead
// of all 126 single-entry trees to stay near 160 backup/restore pairs (the
// single-entry product runs in the thorough tier); the DeviceID mutant of
// DESIGN needs two filesystems and is replaced by other mutants.

import (
	"context"
	"crypto/sha256"
	"encoding/hex"
	"fmt"
	"os"
	"path/filepath"
	"sort"
	"strings"
	"testing"
	"time"

	"github.com/restic/restic/internal/data"
	"github.com/restic/restic/internal/global"
	"github.com/restic/restic/internal/repository"
	rtest "github.com/restic/restic/internal/test"
	"github.com/restic/restic/internal/verifshim/vh"
	"golang.org/x/sys/unix"
)

type verifC01Time struct{ Sec, Nsec int64 }

type verifC01Meta struct {
	Mode   *uint32 // permission + special bits (07777)
	Mtime  *verifC01Time
	UID    *int
	GID    *int
	Xattrs map[string]string
}

// verifC01Builder creates a tree below root and remembers the metadata to apply at the end.
type verifC01Builder struct {
	t     *testing.T
	root  string
	paths []string                // creation order (relative to root), one per inode
	meta  map[string]verifC01Meta // explicit metadata per path
	isDir map[string]bool
	isLnk map[string]bool
}

func (b *verifC01Builder) abs(rel string) string { return filepath.Join(b.root, rel) }

func (b *verifC01Builder) fatal(err error) {
	if err != nil {
		b.t.Fatalf("C01 fixture: %v", err)
	}
}

func (b *verifC01Builder) note(rel string, dir, lnk bool) {
	b.paths = append(b.paths, rel)
	b.isDir[rel] = dir
	b.isLnk[rel] = lnk
}

func (b *verifC01Builder) dir(rel string) {
	b.fatal(os.Mkdir(b.abs(rel), 0o755))
	b.note(rel, true, false)
}

func (b *verifC01Builder) file(rel string, content []byte) {
	b.fatal(os.WriteFile(b.abs(rel), content, 0o644))
	b.note(rel, false, false)
}

func verifC01LCG(n int, seed uint32) []byte {
	out := make([]byte, n)
	x := seed
	for i := range out {
		x = x*1664525 + 1013904223
		out[i] = byte(x >> 24)
	}
	return out
}

// verifC01Short makes room for a suffix in names that are at the 255 byte limit.
func verifC01Short(name string) string {
	if len(name) > 200 {
		return name[:200]
	}
	return name
}

// verifC01Stem is the stem for kinds that need several names derived from one.
func verifC01Stem(name string) string {
	if len(name) > 250 {
		return name[:250]
	}
	return name
}

var verifC01Kinds = []string{"empty", "byte1", "zeros512k", "zeros512k1", "lcg1300k", "sparse", "symlink", "symlink-raw", "fifo", "chardev",
	"hardlink2", "hardlink3", "emptydir", "nesteddir"}

var verifC01Names = []string{"a", "\xff\xfe", `q"uote`, `back\slash`, "ctl\x01\n", "u ", " lead", "-dash", strings.Repeat("N", 250) + "\xc3\xa9255"}

// kind creates one instance of kind named name inside directory dirRel and
// returns the relative path of its first inode (for metadata).
func (b *verifC01Builder) kind(dirRel, kind, name string) string {
	p := filepath.Join(dirRel, name)
	switch kind {
	case "empty":
		b.file(p, nil)
	case "byte1":
		b.file(p, []byte{'x'})
	case "zeros512k":
		b.file(p, make([]byte, 512*1024))
	case "zeros512k1":
		c := make([]byte, 512*1024)
		c[len(c)-1] = 1
		b.file(p, c)
	case "lcg1300k":
		b.file(p, verifC01LCG(1300*1024+17, uint32(len(name))+7))
	case "sparse":
		f, err := os.Create(b.abs(p))
		b.fatal(err)
		_, err = f.WriteAt(verifC01LCG(4096, 99), 1<<20)
		b.fatal(err)
		b.fatal(f.Truncate(2<<20 + 4096))
		b.fatal(f.Close())
		b.note(p, false, false)
	case "symlink":
		b.fatal(os.Symlink("t\xc3\xa4rget/of link", b.abs(p)))
		b.note(p, false, true)
	case "symlink-raw":
		b.fatal(os.Symlink("\xff\xfe/x", b.abs(p)))
		b.note(p, false, true)
	case "fifo":
		b.fatal(unix.Mkfifo(b.abs(p), 0o644))
		b.note(p, false, false)
	case "chardev":
		b.fatal(unix.Mknod(b.abs(p), unix.S_IFCHR|0o644, int(unix.Mkdev(1, 3))))
		b.note(p, false, false)
	case "blockdev":
		b.fatal(unix.Mknod(b.abs(p), unix.S_IFBLK|0o644, int(unix.Mkdev(7, 0))))
		b.note(p, false, false)
	case "hardlink2":
		s := filepath.Join(dirRel, verifC01Stem(name))
		b.file(s+"1", []byte("hardlink pair "+kind))
		b.fatal(os.Link(b.abs(s+"1"), b.abs(s+"2")))
		return s + "1"
	case "hardlink3":
		s := filepath.Join(dirRel, verifC01Stem(name))
		b.file(s+"1", []byte("hardlink triple"))
		b.dir(s + "d1")
		b.dir(s + "d2")
		b.fatal(os.Link(b.abs(s+"1"), b.abs(filepath.Join(s+"d1", name))))
		b.fatal(os.Link(b.abs(s+"1"), b.abs(filepath.Join(s+"d2", name))))
		// a second, independent pair with the same names so that classes can be mixed up
		b.file(filepath.Join(s+"d1", "other"), []byte("hardlink triple"))
		b.fatal(os.Link(b.abs(filepath.Join(s+"d1", "other")), b.abs(filepath.Join(s+"d2", "other"))))
		return s + "1"
	case "emptydir":
		b.dir(p)
	case "nesteddir":
		b.dir(p)
		b.dir(filepath.Join(p, name))
		b.file(filepath.Join(p, name, name), []byte{'n'})
	default:
		b.t.Fatalf("unknown kind %q", kind)
	}
	return p
}

func (b *verifC01Builder) setMeta(rel string, m verifC01Meta) { b.meta[rel] = m }

// finish applies metadata: explicit values, otherwise deterministic defaults.
func (b *verifC01Builder) finish() {
	for i, rel := range b.paths {
		m := b.meta[rel]
		abs := b.abs(rel)
		if m.UID != nil || m.GID != nil {
			uid, gid := 0, 0
			if m.UID != nil {
				uid = *m.UID
			}
			if m.GID != nil {
				gid = *m.GID
			}
			b.fatal(os.Lchown(abs, uid, gid))
		}
		for k, v := range m.Xattrs {
			b.fatal(unix.Lsetxattr(abs, k, []byte(v), 0))
		}
		if m.Mode != nil && !b.isLnk[rel] {
			b.fatal(unix.Chmod(abs, *m.Mode))
		}
		_ = i
	}
	// timestamps last (creating entries changed directory mtimes)
	for i, rel := range b.paths {
		mt := verifC01Time{1614834367 + int64(i)*3, 8 + int64(i)*1001}
		if m := b.meta[rel]; m.Mtime != nil {
			mt = *m.Mtime
		}
		ts := []unix.Timespec{{Sec: 1577836800, Nsec: 5}, {Sec: mt.Sec, Nsec: mt.Nsec}}
		b.fatal(unix.UtimesNanoAt(unix.AT_FDCWD, b.abs(rel), ts, unix.AT_SYMLINK_NOFOLLOW))
	}
}

// ---- observation ----

type verifC01Stat struct {
	Type   string            `json:"type"`
	Mode   uint32            `json:"mode"`
	Size   int64             `json:"size,omitempty"`
	SHA    string            `json:"sha256,omitempty"`
	Link   string            `json:"link,omitempty"`
	Rdev   uint64            `json:"rdev,omitempty"`
	Mtime  verifC01Time      `json:"mtime"`
	UID    uint32            `json:"uid"`
	GID    uint32            `json:"gid"`
	Xattrs map[string]string `json:"xattrs,omitempty"`
	ino    [2]uint64
}

func verifC01Xattrs(path string) (map[string]string, error) {
	sz, err := unix.Llistxattr(path, nil)
	if err != nil {
		if err == unix.ENOTSUP || err == unix.EOPNOTSUPP {
			return nil, nil
		}
		return nil, err
	}
	if sz == 0 {
		return nil, nil
	}
	buf := make([]byte, sz+256)
	sz, err = unix.Llistxattr(path, buf)
	if err != nil {
		return nil, err
	}
	out := map[string]string{}
	for _, name := range strings.Split(strings.TrimSuffix(string(buf[:sz]), "\x00"), "\x00") {
		if name == "" {
			continue
		}
		vs, err := unix.Lgetxattr(path, name, nil)
		if err != nil {
			return nil, err
		}
		val := make([]byte, vs+16)
		if vs > 0 {
			vs, err = unix.Lgetxattr(path, name, val)
			if err != nil {
				return nil, err
			}
		}
		out[name] = string(val[:vs])
	}
	return out, nil
}

func verifC01Observe(root string) (map[string]verifC01Stat, error) {
	out := map[string]verifC01Stat{}
	var walk func(rel string) error
	walk = func(rel string) error {
		abs := filepath.Join(root, rel)
		var st unix.Stat_t
		if err := unix.Lstat(abs, &st); err != nil {
			return err
		}
		s := verifC01Stat{Mode: st.Mode & 0o7777, Mtime: verifC01Time{st.Mtim.Sec, st.Mtim.Nsec}, UID: st.Uid, GID: st.Gid, ino: [2]uint64{st.Dev, st.Ino}}
		var err error
		if s.Xattrs, err = verifC01Xattrs(abs); err != nil {
			return err
		}
		switch st.Mode & unix.S_IFMT {
		case unix.S_IFREG:
			s.Type = "file"
			s.Size = st.Size
			buf, err := os.ReadFile(abs)
			if err != nil {
				return err
			}
			h := sha256.Sum256(buf)
			s.SHA = hex.EncodeToString(h[:])
		case unix.S_IFDIR:
			s.Type = "dir"
		case unix.S_IFLNK:
			s.Type = "symlink"
			s.Mode = 0
			if s.Link, err = os.Readlink(abs); err != nil {
				return err
			}
		case unix.S_IFIFO:
			s.Type = "fifo"
		case unix.S_IFCHR:
			s.Type = "chardev"
			s.Rdev = st.Rdev
		case unix.S_IFBLK:
			s.Type = "blockdev"
			s.Rdev = st.Rdev
		case unix.S_IFSOCK:
			s.Type = "socket"
		}
		out[rel] = s
		if s.Type == "dir" {
			ents, err := os.ReadDir(abs)
			if err != nil {
				return err
			}
			for _, e := range ents {
				if err := walk(filepath.Join(rel, e.Name())); err != nil {
					return err
				}
			}
		}
		return nil
	}
	return out, walk(".")
}

// verifC01Partition returns the hard-link classes (of non-directories) as a canonical string list.
func verifC01Partition(m map[string]verifC01Stat) []string {
	cl := map[[2]uint64][]string{}
	for p, s := range m {
		if s.Type != "dir" {
			cl[s.ino] = append(cl[s.ino], p)
		}
	}
	var out []string
	for _, l := range cl {
		if len(l) > 1 {
			sort.Strings(l)
			out = append(out, fmt.Sprintf("%q", l))
		}
	}
	sort.Strings(out)
	return out
}

// verifC01Diff lists the differences as (field, path, description).
func verifC01Diff(src, dst map[string]verifC01Stat) [][3]string {
	var d [][3]string
	var paths []string
	for p := range src {
		paths = append(paths, p)
	}
	sort.Strings(paths)
	for _, p := range paths {
		a := src[p]
		b, ok := dst[p]
		if !ok {
			d = append(d, [3]string{"missing", p, fmt.Sprintf("%s %q not restored", a.Type, p)})
			continue
		}
		add := func(f string, x, y any) {
			d = append(d, [3]string{f, p, fmt.Sprintf("%s of %s %q: source %v, restored %v", f, a.Type, p, x, y)})
		}
		if a.Type != b.Type {
			add("type", a.Type, b.Type)
			continue
		}
		if a.Mode != b.Mode {
			add("mode", fmt.Sprintf("%04o", a.Mode), fmt.Sprintf("%04o", b.Mode))
		}
		if a.Size != b.Size {
			add("size", a.Size, b.Size)
		}
		if a.SHA != b.SHA {
			add("content", a.SHA, b.SHA)
		}
		if a.Link != b.Link {
			add("linktarget", fmt.Sprintf("%q", a.Link), fmt.Sprintf("%q", b.Link))
		}
		if a.Rdev != b.Rdev {
			add("rdev", a.Rdev, b.Rdev)
		}
		if a.Mtime != b.Mtime {
			add("mtime", fmt.Sprintf("%d.%09d", a.Mtime.Sec, a.Mtime.Nsec), fmt.Sprintf("%d.%09d", b.Mtime.Sec, b.Mtime.Nsec))
		}
		if a.UID != b.UID || a.GID != b.GID {
			add("owner", fmt.Sprintf("%d:%d", a.UID, a.GID), fmt.Sprintf("%d:%d", b.UID, b.GID))
		}
		if fmt.Sprintf("%q", a.Xattrs) != fmt.Sprintf("%q", b.Xattrs) {
			add("xattrs", fmt.Sprintf("%q", a.Xattrs), fmt.Sprintf("%q", b.Xattrs))
		}
	}
	for p, b := range dst {
		if _, ok := src[p]; !ok {
			d = append(d, [3]string{"extra", p, fmt.Sprintf("%s %q restored but not in source", b.Type, p)})
		}
	}
	if pa, pb := verifC01Partition(src), verifC01Partition(dst); strings.Join(pa, ";") != strings.Join(pb, ";") {
		d = append(d, [3]string{"hardlinks", ".", fmt.Sprintf("hard-link classes: source %v, restored %v", pa, pb)})
	}
	return d
}

// ---- configurations ----

type verifC01Config struct {
	Version     string
	Compression repository.CompressionMode
	CompName    string
	PackMiB     uint
	ReadConc    uint
}

func (c verifC01Config) String() string {
	return fmt.Sprintf("v%s-%s-pack%d-rc%d", c.Version, c.CompName, c.PackMiB, c.ReadConc)
}

var verifC01Default = verifC01Config{"2", repository.CompressionAuto, "auto", 0, 0}

func verifC01Configs() []verifC01Config {
	var out []verifC01Config
	for _, v := range []string{"1", "2"} {
		for _, c := range []struct {
			m repository.CompressionMode
			n string
		}{{repository.CompressionOff, "off"}, {repository.CompressionAuto, "auto"}, {repository.CompressionMax, "max"}} {
			for _, p := range []uint{4, 16, 128} {
				for _, rc := range []uint{1, 2, 8} {
					out = append(out, verifC01Config{v, c.m, c.n, p, rc})
				}
			}
		}
	}
	return out
}

// ---- tree specifications ----

type verifC01Tree struct {
	ID    string
	NT    bool // non-trivial: something else than plain ASCII-named small regular files
	Build func(b *verifC01Builder)
}

func verifC01U32(v uint32) *uint32 { return &v }
func verifC01Int(v int) *int       { return &v }

type verifC01MetaCase struct {
	name string
	m    verifC01Meta
	only string // "" all bases, "nolink" not for symlinks
}

func verifC01MetaCases(thorough bool, probe func(sec int64) bool, trusted bool) []verifC01MetaCase {
	tm := func(s, n int64) *verifC01Time { return &verifC01Time{s, n} }
	cs := []verifC01MetaCase{
		{"mode=0644", verifC01Meta{Mode: verifC01U32(0o644)}, "nolink"},
		{"mode=0000", verifC01Meta{Mode: verifC01U32(0)}, "nolink"},
		{"mode=04755", verifC01Meta{Mode: verifC01U32(0o4755)}, "nolink"},
		{"mode=01777", verifC01Meta{Mode: verifC01U32(0o1777)}, "nolink"},
		{"mode=02750", verifC01Meta{Mode: verifC01U32(0o2750)}, "nolink"},
		{"mtime=0", verifC01Meta{Mtime: tm(0, 0)}, ""},
		{"mtime=1ns", verifC01Meta{Mtime: tm(0, 1)}, ""},
		{"mtime=1969-12-31T23:59:59.5", verifC01Meta{Mtime: tm(-1, 500000000)}, ""},
		{"mtime=1901-12-13", verifC01Meta{Mtime: tm(-2147483648, 999999999)}, ""},
		{"mtime=2038-01-19T03:14:08", verifC01Meta{Mtime: tm(2147483648, 0)}, ""},
		{"mtime=2262-04-11T23:47:16.854775807", verifC01Meta{Mtime: tm(9223372036, 854775807)}, ""},
		{"mtime=2024-05-06T07:08:09.123456789", verifC01Meta{Mtime: tm(1714979289, 123456789)}, ""},
		{"owner=1234:1234", verifC01Meta{UID: verifC01Int(1234), GID: verifC01Int(1234)}, ""},
		{"owner=0:1234", verifC01Meta{GID: verifC01Int(1234)}, ""},
		{"owner=65534:0+mode=04755", verifC01Meta{UID: verifC01Int(65534), Mode: verifC01U32(0o4755)}, "nolink"},
		{"xattr=user.a", verifC01Meta{Xattrs: map[string]string{"user.a": "b"}}, "nolink"},
		{"xattr=user.bin", verifC01Meta{Xattrs: map[string]string{"user.bin": "\x00\xff"}}, "nolink"},
		{"xattr=empty-value", verifC01Meta{Xattrs: map[string]string{"user.empty": ""}}, "nolink"},
		{"xattr=two", verifC01Meta{Xattrs: map[string]string{"user.a": "b", "user.\xc3\xa4 x": strings.Repeat("v", 300)}}, "nolink"},
	}
	if trusted {
		cs = append(cs, verifC01MetaCase{"xattr=trusted.t", verifC01Meta{Xattrs: map[string]string{"trusted.t": "1"}}, ""})
	}
	if thorough {
		for _, c := range []struct {
			n string
			s int64
		}{{"mtime=beyond-2262:2262-04-11T23:47:17", 9223372037}, {"mtime=beyond-2262:2300-01-01", 10413792000}, {"mtime=beyond-2262:9999-12-31", 253402214400}} {
			if probe(c.s) {
				cs = append(cs, verifC01MetaCase{c.n, verifC01Meta{Mtime: tm(c.s, 0)}, ""})
			}
		}
	}
	return cs
}

func verifC01Trees(thorough bool, kinds []string, metas []verifC01MetaCase) (trees []verifC01Tree, rich []verifC01Tree, big []verifC01Tree) {
	plain := func(kind, name string) bool {
		return (kind == "empty" || kind == "byte1") && name == "a"
	}
	single := func(kind, name string) verifC01Tree {
		return verifC01Tree{ID: fmt.Sprintf("single|%s|%q", kind, name), NT: !plain(kind, name), Build: func(b *verifC01Builder) { b.kind(".", kind, name) }}
	}
	if thorough {
		for _, k := range kinds {
			for _, n := range verifC01Names {
				trees = append(trees, single(k, n))
			}
		}
	} else {
		for _, k := range kinds {
			trees = append(trees, single(k, "a"))
		}
		for _, n := range verifC01Names[1:] {
			trees = append(trees, single("byte1", n))
		}
	}
	// one tree per kind with all names
	for _, k := range kinds {
		k := k
		trees = append(trees, verifC01Tree{ID: "allnames|" + k, NT: true, Build: func(b *verifC01Builder) {
			for _, n := range verifC01Names {
				b.kind(".", k, n)
			}
		}})
	}
	// one-factor metadata on a base file, directory, symlink
	for _, base := range []string{"byte1", "emptydir", "symlink-raw"} {
		for _, mc := range metas {
			if mc.only == "nolink" && base == "symlink-raw" {
				continue
			}
			base, mc := base, mc
			trees = append(trees, verifC01Tree{ID: "meta|" + mc.name + "|" + base, NT: true, Build: func(b *verifC01Builder) {
				b.kind(".", "byte1", "sibling")
				p := b.kind(".", base, "base")
				b.setMeta(p, mc.m)
			}})
		}
	}
	// metadata on the backed-up top directory itself and on a hard-linked file
	for _, mc := range metas {
		if !strings.HasPrefix(mc.name, "mode=0") && !strings.HasPrefix(mc.name, "owner=1234") && mc.name != "mtime=1ns" && mc.name != "xattr=user.a" {
			continue
		}
		mc := mc
		trees = append(trees, verifC01Tree{ID: "meta|" + mc.name + "|top", NT: true, Build: func(b *verifC01Builder) {
			b.kind(".", "byte1", "f")
			b.setMeta(".", mc.m)
		}})
		if mc.name != "mode=0644" {
			trees = append(trees, verifC01Tree{ID: "meta|" + mc.name + "|hardlink2", NT: true, Build: func(b *verifC01Builder) {
				p := b.kind(".", "hardlink2", "h")
				b.setMeta(p, mc.m)
			}})
		}
	}
	if thorough {
		for i, k1 := range kinds {
			for j, k2 := range kinds {
				k1, k2, i, j := k1, k2, i, j
				trees = append(trees, verifC01Tree{ID: "pair|" + k1 + "|" + k2, NT: true, Build: func(b *verifC01Builder) {
					b.kind(".", k1, verifC01Short(verifC01Names[i%len(verifC01Names)])+"A")
					b.kind(".", k2, verifC01Short(verifC01Names[(j+3)%len(verifC01Names)])+"B")
				}})
			}
		}
		for i, k := range kinds {
			k, i := k, i
			trees = append(trees, verifC01Tree{ID: "nested2|" + k, NT: true, Build: func(b *verifC01Builder) {
				n := verifC01Names[(i+1)%len(verifC01Names)]
				b.dir("o")
				b.dir(filepath.Join("o", verifC01Short(n)+"i"))
				b.kind(filepath.Join("o", verifC01Short(n)+"i"), k, n)
			}})
		}
	}

	// representative trees for the configuration product (without the mtimes beyond
	// 2262, which have their own one-factor trees)
	allMetas := metas
	metas = nil
	for _, m := range allMetas {
		if !strings.HasPrefix(m.name, "mtime=beyond-2262") {
			metas = append(metas, m)
		}
	}
	richAll := verifC01Tree{ID: "rich|all", NT: true, Build: func(b *verifC01Builder) {
		b.dir("d\xff sub")
		for i, k := range kinds {
			n := verifC01Names[i%len(verifC01Names)]
			p := b.kind(".", k, verifC01Short(n)+fmt.Sprintf("%02d", i))
			q := b.kind("d\xff sub", k, verifC01Short(n)+fmt.Sprintf("%02d", i))
			// user.* xattrs exist only on regular files and directories; modes not on symlinks
			ok := func(m verifC01MetaCase) bool {
				switch k {
				case "symlink", "symlink-raw":
					return m.only == ""
				case "fifo", "chardev", "blockdev":
					for n := range m.m.Xattrs {
						if strings.HasPrefix(n, "user.") {
							return false
						}
					}
				}
				return true
			}
			if m := metas[i%len(metas)]; ok(m) {
				b.setMeta(p, m.m)
			}
			if m2 := metas[(i+7)%len(metas)]; ok(m2) {
				b.setMeta(q, m2.m)
			}
		}
	}}
	rich = append(rich, richAll)
	big = append(big, verifC01Tree{ID: "big|compressible", NT: true, Build: func(b *verifC01Builder) {
		// chunks whose plaintext exceeds the smallest pack size while their compressed form is tiny:
		// a constant non-zero byte (no chunk boundary before the 8 MiB maximum) and a short period
		c := make([]byte, 9<<20)
		for i := range c {
			c[i] = 'A'
		}
		b.file("const9m", c)
		p := make([]byte, 6<<20)
		for i := range p {
			p[i] = byte(i % 251)
		}
		b.file("period6m\xff", p)
		b.kind(".", "byte1", "small")
	}})
	if thorough {
		rich = append(rich,
			verifC01Tree{ID: "rich|data", NT: true, Build: func(b *verifC01Builder) {
				for i, k := range []string{"zeros512k", "zeros512k1", "lcg1300k", "sparse", "lcg1300k", "empty", "byte1"} {
					b.kind(".", k, fmt.Sprintf("f%d\xfe", i))
				}
			}},
			verifC01Tree{ID: "rich|names-xattrs", NT: true, Build: func(b *verifC01Builder) {
				for i, n := range verifC01Names {
					p := b.kind(".", "byte1", n)
					b.setMeta(p, verifC01Meta{Xattrs: map[string]string{"user.n": n, "user.i": fmt.Sprint(i)}})
				}
			}},
			verifC01Tree{ID: "rich|links-specials", NT: true, Build: func(b *verifC01Builder) {
				for i, k := range []string{"hardlink2", "hardlink3", "symlink", "symlink-raw", "fifo", "chardev", "hardlink2"} {
					b.kind(".", k, fmt.Sprintf("%s%d", verifC01Names[(i+1)%8], i))
				}
			}},
			verifC01Tree{ID: "rich|nested-meta", NT: true, Build: func(b *verifC01Builder) {
				p := "."
				for i := 0; i < 5; i++ {
					p = filepath.Join(p, fmt.Sprintf("lvl%d %s", i, verifC01Names[i+1]))
					b.dir(p)
					b.setMeta(p, metas[(i*3)%len(metas)].m)
					q := b.kind(p, "byte1", "f")
					b.setMeta(q, metas[(i*3+1)%len(metas)].m)
				}
			}},
			verifC01Tree{ID: "rich|many-small", NT: true, Build: func(b *verifC01Builder) {
				for i := 0; i < 60; i++ {
					b.file(fmt.Sprintf("s%02d\xff", i), verifC01LCG(100+i*37, uint32(i)))
				}
				b.kind(".", "lcg1300k", "big")
			}},
		)
	}
	return trees, rich, big
}

// verifC01Pair runs one backup/restore pair and reports differences.
func verifC01Pair(t *testing.T, r *vh.Run, base global.Options, ck string, tree verifC01Tree, cfg verifC01Config, seq int) {
	work := filepath.Join(r.Scratch, fmt.Sprintf("p%d", seq))
	defer func() {
		// restored/source trees may contain mode-0000 directories; root can still remove them
		_ = os.RemoveAll(work)
	}()
	if err := os.MkdirAll(filepath.Join(work, "in"), 0o755); err != nil {
		t.Fatal(err)
	}
	srcRoot := filepath.Join(work, "in", "src")
	if err := os.Mkdir(srcRoot, 0o755); err != nil {
		t.Fatal(err)
	}
	tm := time.Now()
	lap := func(name string) {
		r.Count("ms_"+name, time.Since(tm).Milliseconds())
		tm = time.Now()
	}
	b := &verifC01Builder{t: t, root: srcRoot, meta: map[string]verifC01Meta{}, isDir: map[string]bool{}, isLnk: map[string]bool{}}
	b.note(".", true, false)
	tree.Build(b)
	b.finish()
	src, err := verifC01Observe(srcRoot)
	if err != nil {
		t.Fatalf("C01: observing the source tree: %v", err)
	}

	gopts := base
	gopts.Repo = filepath.Join(work, "repo")
	gopts.Compression = cfg.Compression
	gopts.PackSize = cfg.PackMiB
	detail := map[string]any{"tree": tree.ID, "config": cfg.String(), "source": src}
	r.Eval(1)
	lap("build_tree")
	fail := func(step string, err error) {
		r.Violationf(ck, fmt.Sprintf("C01|%s-failed|%s|%s", step, tree.ID, cfg), detail, "%s of tree %s under %s failed: %v", step, tree.ID, cfg, err)
	}
	if err := withTermStatus(t, gopts, func(ctx context.Context, gopts global.Options) error {
		return runInit(ctx, InitOptions{RepositoryVersion: cfg.Version}, gopts, nil, gopts.Term)
	}); err != nil {
		t.Fatalf("C01: init: %v", err)
	}
	lap("init")
	back := rtest.Chdir(t, filepath.Join(work, "in"))
	err = withTermStatus(t, gopts, func(ctx context.Context, gopts global.Options) error {
		opts := BackupOptions{ReadConcurrency: cfg.ReadConc, GroupBy: data.SnapshotGroupByOptions{Host: true, Path: true}, Host: "verif"}
		return runBackup(ctx, opts, gopts, gopts.Term, []string{"src"})
	})
	back()
	lap("backup")
	if err != nil {
		fail("backup", err)
		return
	}
	target := filepath.Join(work, "out")
	err = withTermStatus(t, gopts, func(ctx context.Context, gopts global.Options) error {
		return runRestore(ctx, RestoreOptions{Target: target}, gopts, gopts.Term, []string{"latest"})
	})
	if err != nil {
		fail("restore", err)
		return
	}
	lap("restore")
	r.Transition(3)
	r.Trace(1)
	// the source must not have been modified by the backup
	src2, err := verifC01Observe(srcRoot)
	if err != nil {
		t.Fatalf("C01: observing the source tree: %v", err)
	}
	if d := verifC01Diff(src, src2); len(d) > 0 {
		t.Fatalf("C01: source tree changed during the run: %v", d)
	}
	dst, err := verifC01Observe(filepath.Join(target, "src"))
	if err != nil {
		r.Violationf(ck, fmt.Sprintf("C01|unreadable-restore|%s|%s", tree.ID, cfg), detail, "restored tree of %s under %s cannot be read: %v", tree.ID, cfg, err)
		return
	}
	if tree.NT {
		r.Nontrivial(tree.ID + "|" + cfg.String())
	}
	diffs := verifC01Diff(src, dst)
	lap("observe_compare")
	seen := map[string]bool{}
	for _, d := range diffs {
		if seen[d[0]] {
			continue
		}
		seen[d[0]] = true
		key := fmt.Sprintf("C01|%s|%s|%s", d[0], tree.ID, cfg)
		if cfg == verifC01Default {
			key = fmt.Sprintf("C01|%s|%s", d[0], tree.ID)
		}
		detail["restored"] = dst
		detail["differences"] = diffs
		r.Violationf(ck, key, detail, "tree %s under %s: %s", tree.ID, cfg, d[2])
	}
	if len(diffs) == 0 {
		r.Outcome("equal|entries=" + fmt.Sprint(len(src)))
	} else {
		r.Outcome("differs")
	}
	if tree.ID == "allnames|symlink-raw" || tree.ID == "meta|mode=04755|byte1" {
		r.Sample(map[string]any{"tree": tree.ID, "config": cfg.String(), "entries": len(src), "differences": len(diffs), "source": src})
	}
}

func TestVerif_C01(t *testing.T) {
	r := vh.Start(t, "C01")
	defer r.Finish()
	r.Rule("trees enumerated from kind x name x one-factor metadata alphabets (see header), each backed up by the real runBackup and restored by the real runRestore into an empty directory, lstat-level comparison; plus representative trees under all 54 configurations; non-trivial = tree holds at least one entry that is not a plain ASCII-named small regular file")
	if os.Geteuid() != 0 {
		t.Skip("C01 needs root (mknod, chown, trusted xattrs)")
	}
	env, cleanup := withTestEnvironment(t)
	defer cleanup()
	base := env.gopts
	base.NoCache = true
	base.BackendTestHook = nil

	// probes
	probeDir := filepath.Join(r.Scratch, "probe")
	if err := os.MkdirAll(probeDir, 0o755); err != nil {
		t.Fatal(err)
	}
	kinds := append([]string{}, verifC01Kinds...)
	if err := unix.Mknod(filepath.Join(probeDir, "blk"), unix.S_IFBLK|0o600, int(unix.Mkdev(7, 0))); err == nil {
		kinds = append(kinds, "blockdev")
		r.Note("block device nodes can be created: kind blockdev included")
	} else {
		r.Note("block device nodes cannot be created (%v): kind blockdev dropped", err)
	}
	pf := filepath.Join(probeDir, "f")
	if err := os.WriteFile(pf, []byte("x"), 0o644); err != nil {
		t.Fatal(err)
	}
	if err := unix.Lsetxattr(pf, "user.probe", []byte("1"), 0); err != nil {
		t.Fatalf("C01: scratch filesystem does not support user xattrs: %v", err)
	}
	trusted := unix.Lsetxattr(pf, "trusted.probe", []byte("1"), 0) == nil
	r.Note("trusted.* xattrs permitted: %v", trusted)
	probe := func(sec int64) bool {
		ts := []unix.Timespec{{Sec: 0, Nsec: 0}, {Sec: sec, Nsec: 0}}
		if err := unix.UtimesNanoAt(unix.AT_FDCWD, pf, ts, 0); err != nil {
			r.Note("scratch filesystem rejects mtime %d: %v", sec, err)
			return false
		}
		var st unix.Stat_t
		if err := unix.Lstat(pf, &st); err != nil || st.Mtim.Sec != sec {
			r.Note("scratch filesystem does not store mtime %d (reads back %d): value dropped", sec, st.Mtim.Sec)
			return false
		}
		return true
	}
	metas := verifC01MetaCases(r.Thorough(), probe, trusted)
	trees, rich, big := verifC01Trees(r.Thorough(), kinds, metas)
	_ = os.RemoveAll(probeDir)

	seq := 0
	start := time.Now()
	for _, tr := range trees {
		ck := tr.ID + "|default"
		if !r.Case(ck) {
			continue
		}
		if r.Expired() {
			return
		}
		seq++
		verifC01Pair(t, r, base, ck, tr, verifC01Default, seq)
	}
	for _, tr := range rich {
		for _, cfg := range verifC01Configs() {
			ck := tr.ID + "|" + cfg.String()
			if !r.Case(ck) {
				continue
			}
			if r.Expired() {
				return
			}
			seq++
			verifC01Pair(t, r, base, ck, tr, cfg, seq)
		}
	}
	for _, tr := range big {
		for _, cfg := range verifC01Configs() {
			// multi-MiB trees: pack sizes 4 and 16 MiB, one read concurrency
			if cfg.ReadConc != 2 || cfg.PackMiB == 128 {
				continue
			}
			ck := tr.ID + "|" + cfg.String()
			if !r.Case(ck) {
				continue
			}
			if r.Expired() {
				return
			}
			seq++
			verifC01Pair(t, r, base, ck, tr, cfg, seq)
		}
	}
	r.Extra("pairs_per_second_this_shard", float64(seq)/time.Since(start).Seconds())
}

package main

// C27: rewrite --exclude / --include (and the case-insensitive variants)
// removes exactly the matching paths.
//
// Driven at command level: every snapshot tree is forged (data blobs, trees
// with varied node metadata, snapshot file with a summary) into its own tiny
// repository on the in-memory gatebe store (ungated); every element of the
// space runs the real runRewrite (cmd/restic/cmd_rewrite.go: gatherInclude/
// ExcludeFilters, walker.NewSnapshotSizeRewriter, TreeRewriter.RewriteTree,
// filterAndReplaceSnapshot) on a private copy of that store, selecting the
// snapshot by ID.  Afterwards the store is opened as a fresh repository and the
// snapshot files and the complete new tree are read back.
//
// Space (explicit, enumerated completely):
//   trees: hand-made trees over the names {a, b, ab, A}, depth <= 3 (files of 0,
//     1 and 2 blobs, symlinks, directories, empty directories, directories all of
//     whose children match some pattern of the alphabet, an empty tree, a tree
//     with two identical sub-trees at different paths (same tree ID), a snapshot
//     without summary, a single file); quick 7, thorough 13;
//     thorough additionally the family of ALL trees with at most 3 entries over
//     the names {a, b, A}, depth <= 3 (leaf = file or empty directory)
//   pattern sets (C20 alphabet): every single pattern of P = {a, /a, a/b, /a/b,
//     *, a*, **/b, /a/**, /*/b, b, A, ab, /b/a, ?b, a/**/b}; pairs (p, n) with n
//     in the negated patterns {!a/b, !/a/a, !b, !**/b, !A}; quick a fixed list
//     of positive pairs, thorough all ordered positive pairs and (n, p) pairs
//     (the family: single patterns and the pairs (p, !a/b), (p, !b))
//   modes: --include, --exclude, --iinclude, --iexclude, and for sets of two patterns the first
//     pattern as --include/--exclude and the second as --iinclude/--iexclude;
//     the family: --include, --exclude, --iexclude)
//
// Reference model (independent of restic's selection code; only the single
// pattern matcher filter.Match - the subject of C28 - is used as primitive):
//   listMatch(list, p): in order, a regular pattern that matches sets matched, a
//     "!" pattern that matches clears it; insensitive lists lower-case pattern
//     and path; match(p) = some list matches
//   exclude: an entry is kept iff neither it nor one of its ancestors matches
//     (the matching entries disappear with their contents; a directory that
//     loses all children stays as an empty directory - it did not match)
//   include: an entry is kept iff it matches or it is an ancestor of a matching
//     entry (a matching directory covers its descendants through the prefix
//     semantics of the patterns; a matching empty directory is kept; a
//     non-matching directory that holds no matching entry disappears)
// Oracle:
//   (a) the old snapshot file is still present, byte-identical;
//   (b) model tree == old tree  =>  no new snapshot ("a rewrite that matches
//       nothing leaves the snapshot unchanged"); an include list that matches
//       no entry at all also leaves the snapshot unchanged.  Two-sided: a new
//       snapshot with the identical tree whose only purpose is an updated
//       summary (different TotalFilesProcessed/TotalBytesProcessed within the
//       allowed range, e.g. for the snapshot forged without summary) is accepted.
//       One corner of this rule fails on the unchanged tree and is reported under
//       the fixed key C27|include-matches-nothing|root-path-matches|empty-snapshot-saved
//       (see findings/C27.md): the include list matches no entry but does match
//       the path "/" of the snapshot root;
//   (c) otherwise exactly one new snapshot; its tree, read completely from a
//       fresh repository, contains exactly the kept paths, and every kept node
//       is byte-identical (JSON) to the old node, the sub-tree reference of
//       directories aside (compared recursively instead);
//   (d) new snapshot metadata: time, hostname, username, paths as before, tags =
//       old tags + "rewrite", original = old snapshot ID;
//   (e) summary: TotalBytesProcessed = sum of the sizes of the kept regular
//       files; regular files <= TotalFilesProcessed <= regular files + symlinks
//       (the documentation does not say whether symlinks are "files").
//
// Deviations from DESIGN: trees are a fixed list plus (thorough) the complete
// family of trees with <= 3 entries instead of "trees as in C20" only; the
// quick tier runs 7 trees; --forget / --dry-run / metadata options are not
// varied here (C26, C39).

import (
	"context"
	"encoding/json"
	"fmt"
	"os"
	"path"
	"sort"
	"strings"
	"testing"
	"time"

	"github.com/restic/restic/internal/backend"
	"github.com/restic/restic/internal/data"
	"github.com/restic/restic/internal/filter"
	"github.com/restic/restic/internal/global"
	"github.com/restic/restic/internal/repository"
	"github.com/restic/restic/internal/restic"
	"github.com/restic/restic/internal/verifshim/gatebe"
	"github.com/restic/restic/internal/verifshim/oracle"
	"github.com/restic/restic/internal/verifshim/vh"
)

// ---- trees

type verifC27Tree struct {
	Name      string
	Entries   map[string]byte // "/a/b" -> 'f' file, 'd' directory, 'l' symlink
	Twin      bool            // node metadata and content depend on (name, depth) only: equal sub-trees get equal IDs
	NoSummary bool            // snapshot forged without summary
	Family    bool
}

// verifC27MkTree: "a/b" file, "ab/" (empty) directory, "a/A@" symlink.
func verifC27MkTree(name string, specs ...string) verifC27Tree {
	t := verifC27Tree{Name: name, Entries: map[string]byte{}}
	for _, s := range specs {
		kind := byte('f')
		switch {
		case strings.HasSuffix(s, "/"):
			kind = 'd'
		case strings.HasSuffix(s, "@"):
			kind = 'l'
		}
		p := "/" + strings.Trim(s, "/@")
		t.Entries[p] = kind
		for d := path.Dir(p); d != "/"; d = path.Dir(d) {
			t.Entries[d] = 'd'
		}
	}
	return t
}

func verifC27Trees(thorough bool) []verifC27Tree {
	twin := verifC27MkTree("TWIN", "a/b/a", "a/b/b", "a/ab", "b/b/a", "b/b/b", "b/ab", "ab/b/a", "ab/b/b", "A")
	twin.Twin = true
	nosum := verifC27MkTree("NOSUM", "a/b", "b", "ab/a", "A/")
	nosum.NoSummary = true
	l := []verifC27Tree{
		verifC27MkTree("T1", "a/b", "a/ab", "a/a/b", "b", "ab/a", "A"),
		verifC27MkTree("T3", "a/b/a", "a/b/b", "b/a/b", "ab/", "a/A@"),
		verifC27MkTree("ALLB", "ab/b", "ab/A/b", "A/b/b", "A/b/a", "a@", "b/"),
		twin,
		nosum,
		verifC27MkTree("EMPTY"),
		verifC27MkTree("T8", "b"),
	}
	if thorough {
		l = append(l,
			verifC27MkTree("T2", "a", "b/a", "b/b/a", "b/b/b", "A/b", "ab/"),
			verifC27MkTree("T4", "a", "b", "ab", "A"),
			verifC27MkTree("T5", "a/a/a", "a/a/b", "a/b/", "A/a/b", "b"),
			verifC27MkTree("T6", "b/b", "ab/b/a", "A/ab", "a/"),
			verifC27MkTree("T7", "a/b", "A/A/b", "ab/ab/ab", "A/a@", "ab/b@"),
			verifC27MkTree("T9", "a/a/", "a/b/", "b/a/a", "A/a", "A/A/", "ab/ab/"),
		)
	}
	return l
}

// verifC27Family enumerates every tree with 1..maxEntries entries over names, nesting depth <= depth.
func verifC27Family(names []string, maxEntries, depth int) []verifC27Tree {
	type forest []string // specs
	// forests(d, n): all forests with exactly n entries and depth <= d, children names increasing
	var forests func(d, n, from int) []forest
	forests = func(d, n, from int) []forest {
		if n == 0 {
			return []forest{nil}
		}
		if d == 0 {
			return nil
		}
		var res []forest
		for i := from; i < len(names); i++ {
			name := names[i]
			// first child: file, or directory with k entries below; the rest of the forest uses later names
			for k := 0; k <= n-1; k++ {
				for _, sub := range forests(d-1, k, 0) {
					for _, rest := range forests(d, n-1-k, i+1) {
						var f forest
						if k == 0 {
							f = append(f, name+"/")
						} else {
							for _, s := range sub {
								f = append(f, name+"/"+s)
							}
						}
						f = append(f, rest...)
						res = append(res, f)
					}
				}
			}
			for _, rest := range forests(d, n-1, i+1) {
				f := forest{name}
				f = append(f, rest...)
				res = append(res, f)
			}
		}
		return res
	}
	var out []verifC27Tree
	for n := 1; n <= maxEntries; n++ {
		for _, f := range forests(depth, n, 0) {
			t := verifC27MkTree("F["+strings.Join(f, ",")+"]", f...)
			t.Family = true
			out = append(out, t)
		}
	}
	return out
}

func (t verifC27Tree) sorted() []string {
	l := make([]string, 0, len(t.Entries))
	for p := range t.Entries {
		l = append(l, p)
	}
	sort.Strings(l)
	return l
}

// ---- forging

var verifC27Time = time.Date(2019, 3, 4, 5, 6, 7, 0, time.UTC)

func verifC27Hash(s string) uint64 { return vh.Hash("C27", s) }

func (t verifC27Tree) node(p string, kind byte, up restic.BlobSaver, ctx context.Context) (*data.Node, error) {
	seed := p
	if t.Twin {
		seed = fmt.Sprintf("%s@%d", path.Base(p), strings.Count(p, "/"))
	}
	h := verifC27Hash(seed)
	mt := verifC27Time.Add(time.Duration(h%100000)*time.Second + time.Duration(h%999983)*time.Nanosecond)
	n := &data.Node{Name: path.Base(p), ModTime: mt, AccessTime: mt.Add(time.Hour), ChangeTime: mt.Add(time.Minute),
		UID: uint32(h % 3 * 500), GID: uint32(h % 5 * 100), Inode: 1000 + h%100000, Links: 1}
	if h%3 != 0 {
		n.User, n.Group = fmt.Sprintf("u%d", h%3), fmt.Sprintf("g%d", h%5)
	}
	if h%4 == 0 {
		n.ExtendedAttributes = []data.ExtendedAttribute{{Name: "user.verif", Value: []byte{byte(h), byte(h >> 8), 0, 0xff}}}
	}
	switch kind {
	case 'f':
		n.Type = data.NodeTypeFile
		n.Mode = []os.FileMode{0o644, 0o600, 0o755, 0o444}[h%4]
		n.Content = restic.IDs{}
		var sizes []int
		switch (h / 7) % 3 {
		case 1:
			sizes = []int{1 + int(h%60)}
		case 2:
			sizes = []int{40 + int(h%25), 1 + int(h%17)}
		}
		for i, sz := range sizes {
			id, _, _, err := up.SaveBlob(ctx, restic.DataBlob, oracle.LCG(h+uint64(i), sz), restic.ID{}, false)
			if err != nil {
				return nil, err
			}
			n.Content = append(n.Content, id)
			n.Size += uint64(sz)
		}
	case 'l':
		n.Type = data.NodeTypeSymlink
		n.Mode = os.ModeSymlink | 0o777
		n.LinkTarget = "../target-" + path.Base(p)
	case 'd':
		n.Type = data.NodeTypeDir
		n.Mode = os.ModeDir | []os.FileMode{0o755, 0o700}[h%2]
	}
	return n, nil
}

func (t verifC27Tree) saveDir(ctx context.Context, up restic.BlobSaver, dir string) (restic.ID, error) {
	var children []string
	for p := range t.Entries {
		if path.Dir(p) == dir {
			children = append(children, p)
		}
	}
	sort.Strings(children) // same parent: order by base name
	tw := data.NewTreeWriter(up)
	for _, p := range children {
		n, err := t.node(p, t.Entries[p], up, ctx)
		if err != nil {
			return restic.ID{}, err
		}
		if t.Entries[p] == 'd' {
			sub, err := t.saveDir(ctx, up, p)
			if err != nil {
				return restic.ID{}, err
			}
			n.Subtree = &sub
		}
		if err := tw.AddNode(n); err != nil {
			return restic.ID{}, err
		}
	}
	return tw.Finalize(ctx)
}

type verifC27Fixture struct {
	tree    verifC27Tree
	state   gatebe.State
	snapID  restic.ID
	snap    *data.Snapshot
	treeID  restic.ID
	nodes   map[string]string // path -> node JSON (sub-tree reference blanked)
	kinds   map[string]data.NodeType
	sizes   map[string]uint64
	subtree map[string]restic.ID
}

// verifC27Walk reads a complete tree: path -> node JSON without the sub-tree reference.
func verifC27Walk(ctx context.Context, repo restic.BlobLoader, id restic.ID, prefix string, nodes map[string]string, kinds map[string]data.NodeType, sizes map[string]uint64, subtree map[string]restic.ID, depth int) error {
	if depth > 16 {
		return fmt.Errorf("tree nesting too deep at %q", prefix)
	}
	it, err := data.LoadTree(ctx, repo, id)
	if err != nil {
		return fmt.Errorf("load tree %v (%q): %w", id.Str(), prefix, err)
	}
	type sub struct {
		p  string
		id restic.ID
	}
	var subs []sub
	for item := range it {
		if item.Error != nil {
			return fmt.Errorf("tree %v (%q): %w", id.Str(), prefix, item.Error)
		}
		n := *item.Node
		p := prefix + "/" + n.Name
		if _, dup := nodes[p]; dup {
			return fmt.Errorf("tree %v: duplicate entry %q", id.Str(), p)
		}
		if n.Type == data.NodeTypeDir {
			if n.Subtree == nil {
				return fmt.Errorf("directory %q has no subtree", p)
			}
			subs = append(subs, sub{p, *n.Subtree})
			subtree[p] = *n.Subtree
			n.Subtree = nil
		}
		buf, err := json.Marshal(&n)
		if err != nil {
			return err
		}
		nodes[p] = string(buf)
		kinds[p] = n.Type
		sizes[p] = n.Size
	}
	for _, s := range subs {
		if err := verifC27Walk(ctx, repo, s.id, s.p, nodes, kinds, sizes, subtree, depth+1); err != nil {
			return err
		}
	}
	return nil
}

func verifC27Forge(t *testing.T, ctx context.Context, initState gatebe.State, tree verifC27Tree) *verifC27Fixture {
	store := gatebe.NewStoreFrom(initState, nil)
	be := &gatebe.Backend{S: store, Proc: "setup", Conns: 2, AtomicReplace: true}
	repo, err := oracle.OpenOn(ctx, be, repository.Options{})
	if err != nil {
		t.Fatalf("C27 forge %s: %v", tree.Name, err)
	}
	if err := repo.LoadIndex(ctx, restic.NoopTerminalCounterFactory); err != nil {
		t.Fatalf("C27 forge %s: %v", tree.Name, err)
	}
	fx := &verifC27Fixture{tree: tree, nodes: map[string]string{}, kinds: map[string]data.NodeType{}, sizes: map[string]uint64{}, subtree: map[string]restic.ID{}}
	err = repo.WithBlobUploader(ctx, func(ctx context.Context, up restic.BlobSaverWithAsync) error {
		var err error
		fx.treeID, err = tree.saveDir(ctx, up, "/")
		return err
	})
	if err != nil {
		t.Fatalf("C27 forge %s: %v", tree.Name, err)
	}
	if err := verifC27Walk(ctx, repo, fx.treeID, "", fx.nodes, fx.kinds, fx.sizes, fx.subtree, 0); err != nil {
		t.Fatalf("C27 forge %s: %v", tree.Name, err)
	}
	if len(fx.nodes) != len(tree.Entries) {
		t.Fatalf("C27 forge %s: forged %d entries, want %d", tree.Name, len(fx.nodes), len(tree.Entries))
	}
	treeID := fx.treeID
	sn := &data.Snapshot{Time: verifC27Time.Add(48 * time.Hour), Tree: &treeID, Paths: []string{"/src", "/other"}, Hostname: "verifhost", Username: "verif",
		UID: 1000, GID: 1000, Tags: []string{"t1", "t2"}, Excludes: []string{"*.tmp"}, ProgramVersion: "restic verif-C27"}
	if !tree.NoSummary {
		var files uint
		var bytes uint64
		for p, k := range fx.kinds {
			if k == data.NodeTypeFile {
				files++
				bytes += fx.sizes[p]
			}
		}
		sn.Summary = &data.SnapshotSummary{BackupStart: sn.Time, BackupEnd: sn.Time.Add(3 * time.Second), FilesNew: files, DirsNew: 2, DataBlobs: 3, TreeBlobs: 2,
			DataAdded: 1234, DataAddedPacked: 1000, TotalFilesProcessed: files, TotalBytesProcessed: bytes}
	}
	fx.snapID, err = data.SaveSnapshot(ctx, repo, sn)
	if err != nil {
		t.Fatalf("C27 forge %s: %v", tree.Name, err)
	}
	fx.snap = sn
	fx.state = store.Snapshot()
	return fx
}

// ---- pattern sets and modes

type verifC27List struct {
	pats   []string
	insens bool
}

type verifC27Mode struct {
	name    string
	exclude bool
	set     func(o *RewriteOptions, pats []string)
	lists   func(pats []string) []verifC27List
}

func verifC27Modes() map[string]verifC27Mode {
	one := func(insens bool) func([]string) []verifC27List {
		return func(p []string) []verifC27List { return []verifC27List{{p, insens}} }
	}
	split := func(p []string) []verifC27List {
		if len(p) < 2 {
			return []verifC27List{{p, false}}
		}
		return []verifC27List{{p[:1], false}, {p[1:], true}}
	}
	l := []verifC27Mode{
		{"include", false, func(o *RewriteOptions, p []string) { o.Includes = p }, one(false)},
		{"exclude", true, func(o *RewriteOptions, p []string) { o.Excludes = p }, one(false)},
		{"iinclude", false, func(o *RewriteOptions, p []string) { o.InsensitiveIncludes = p }, one(true)},
		{"iexclude", true, func(o *RewriteOptions, p []string) { o.InsensitiveExcludes = p }, one(true)},
		{"include+iinclude", false, func(o *RewriteOptions, p []string) {
			o.Includes = p[:1]
			if len(p) > 1 {
				o.InsensitiveIncludes = p[1:]
			}
		}, split},
		{"exclude+iexclude", true, func(o *RewriteOptions, p []string) {
			o.Excludes = p[:1]
			if len(p) > 1 {
				o.InsensitiveExcludes = p[1:]
			}
		}, split},
	}
	m := map[string]verifC27Mode{}
	for _, x := range l {
		m[x.name] = x
	}
	return m
}

var verifC27P = []string{"a", "/a", "a/b", "/a/b", "*", "a*", "**/b", "/a/**", "/*/b", "b", "A", "ab", "/b/a", "?b", "a/**/b"}
var verifC27N = []string{"!a/b", "!/a/a", "!b", "!**/b", "!A"}

func verifC27PatternSets(thorough, family bool) [][]string {
	var sets [][]string
	for _, p := range verifC27P {
		sets = append(sets, []string{p})
	}
	if family {
		for _, p := range verifC27P {
			sets = append(sets, []string{p, "!a/b"}, []string{p, "!b"})
		}
		return sets
	}
	for _, p := range verifC27P {
		for _, n := range verifC27N {
			sets = append(sets, []string{p, n})
		}
	}
	if thorough {
		for _, p := range verifC27P {
			for _, q := range verifC27P {
				if p != q {
					sets = append(sets, []string{p, q})
				}
			}
		}
		for _, n := range verifC27N {
			for _, p := range verifC27P[:6] {
				sets = append(sets, []string{n, p})
			}
		}
	} else {
		for _, pq := range [][2]string{{"/a/b", "b"}, {"a*", "/b/a"}, {"**/b", "A"}, {"/a/**", "ab"}, {"a/b", "/*/b"}, {"?b", "/a"}, {"A", "a"}, {"*", "a"}, {"/b/a", "/a/b"}, {"b", "/a/b"}, {"ab", "/a/a"}} {
			sets = append(sets, []string{pq[0], pq[1]})
		}
	}
	return sets
}

func verifC27ModeNames(thorough, family bool) []string {
	if family {
		return []string{"include", "exclude", "iexclude"}
	}
	if thorough {
		return []string{"include", "exclude", "iinclude", "iexclude", "include+iinclude", "exclude+iexclude"}
	}
	// quick: the mixed modes too (they only differ from the plain ones for sets of two patterns, see the caller)
	return []string{"include", "exclude", "iinclude", "iexclude", "include+iinclude", "exclude+iexclude"}
}

// ---- reference model

func verifC27ListMatch(l verifC27List, p string) bool {
	matched := false
	for _, pat := range l.pats {
		neg := strings.HasPrefix(pat, "!")
		if neg {
			pat = pat[1:]
		}
		s := p
		if l.insens {
			pat, s = strings.ToLower(pat), strings.ToLower(s)
		}
		m, err := filter.Match(pat, s)
		if err != nil {
			panic(err)
		}
		if m {
			matched = !neg
		}
	}
	return matched
}

func verifC27AnyMatch(lists []verifC27List, p string) bool {
	for _, l := range lists {
		if verifC27ListMatch(l, p) {
			return true
		}
	}
	return false
}

// verifC27Kept returns the set of entries the new tree must contain, and the number of entries that match.
func verifC27Kept(entries []string, lists []verifC27List, exclude bool) (kept map[string]bool, matching int) {
	kept = map[string]bool{}
	match := map[string]bool{}
	for _, p := range entries {
		if verifC27AnyMatch(lists, p) {
			match[p] = true
			matching++
		}
	}
	for _, p := range entries {
		if exclude {
			gone := false
			for q := p; q != "/"; q = path.Dir(q) {
				if match[q] {
					gone = true
				}
			}
			if !gone {
				kept[p] = true
			}
			continue
		}
		if match[p] {
			kept[p] = true
			for q := path.Dir(p); q != "/"; q = path.Dir(q) {
				kept[q] = true
			}
		}
	}
	return kept, matching
}

// ---- the check

func TestVerif_C27(t *testing.T) {
	r := vh.Start(t, "C27")
	defer r.Finish()
	r.Rule("every (forged snapshot tree x pattern set x option kind) of the stated alphabets through the real runRewrite on a private in-memory copy of the tree's repository; the new snapshot file and the complete new tree are read back from a fresh repository and compared with an independent selection model; non-trivial = the model keeps a proper, non-empty subset of the entries")
	r.Assume("filter.Match (single pattern vs path) is the trusted primitive (C28)", "paths seen by the filters are /<name>/... relative to the snapshot root",
		"TotalFilesProcessed may or may not count symlinks (two-sided)")
	ctx := context.Background()
	oracle.LowKDF()

	// one initialised repository; every tree gets a private copy of it
	_, initStore, err := oracle.NewRepo(ctx, 2, repository.Options{})
	if err != nil {
		t.Fatalf("C27: %v", err)
	}
	initState := initStore.Snapshot()

	var curBE backend.Backend
	gopts := verifGopts(t, r.Scratch, nil, oracle.Password)
	gopts.BackendTestHook = func(_ backend.Backend) (backend.Backend, error) { return curBE, nil }

	modes := verifC27Modes()
	trees := verifC27Trees(r.Thorough())
	if r.Thorough() {
		trees = append(trees, verifC27Family([]string{"a", "b", "A"}, 3, 3)...)
	}
	nFamily := 0

	for _, tree := range trees {
		if tree.Family {
			nFamily++
		}
		sets := verifC27PatternSets(r.Thorough(), tree.Family)
		var mine [][]string
		if tree.Family {
			// the family is sharded per tree
			if r.Case(tree.Name) {
				mine = sets
			}
		} else {
			for _, ps := range sets {
				if r.Case(tree.Name + "|" + strings.Join(ps, " ")) {
					mine = append(mine, ps)
				}
			}
		}
		if len(mine) == 0 {
			continue
		}
		if r.Expired() {
			break
		}
		fx := verifC27Forge(t, ctx, initState, tree)
		entries := tree.sorted()
		r.State(tree.Name)

		for _, ps := range mine {
			ck := tree.Name
			if !tree.Family {
				ck = tree.Name + "|" + strings.Join(ps, " ")
			}
			if r.Expired() {
				break
			}
			for _, mname := range verifC27ModeNames(r.Thorough(), tree.Family) {
				if strings.Contains(mname, "+") && len(ps) < 2 {
					continue // identical to the plain mode
				}
				mode := modes[mname]
				lists := mode.lists(ps)
				kept, matching := verifC27Kept(entries, lists, mode.exclude)
				vid := fmt.Sprintf("%s|%s|%s", mode.name, strings.Join(ps, " "), tree.Name)
				detail := map[string]any{"tree": entries, "kinds": verifC27Kinds(tree), "patterns": ps, "mode": mode.name, "model_kept": verifC27Sorted(kept), "twin_metadata": tree.Twin, "snapshot_has_summary": !tree.NoSummary}

				store := gatebe.NewStoreFrom(fx.state, nil)
				curBE = &gatebe.Backend{S: store, Proc: "rewrite", Conns: 3, AtomicReplace: true}
				opts := RewriteOptions{}
				mode.set(&opts, ps)
				var rerr error
				panicked, pmsg := vh.NoPanic(func() {
					rerr = verifRun(t, ctx, gopts, func(ctx context.Context, gopts global.Options) error {
						return runRewrite(ctx, opts, gopts, []string{fx.snapID.String()}, gopts.Term)
					})
				})
				r.Eval(1)
				r.Trace(1)
				if panicked {
					r.Violationf(ck, "C27|panic|"+vid, detail, "runRewrite panicked: %s", pmsg)
					continue
				}
				if rerr != nil {
					r.Violationf(ck, "C27|error|"+vid, detail, "runRewrite failed: %v", rerr)
					continue
				}
				if len(kept) > 0 && len(kept) < len(entries) {
					r.Nontrivial(vid)
				}
				verifC27Compare(ctx, r, ck, vid, detail, fx, store.Snapshot(), kept, matching, mode.exclude, verifC27AnyMatch(lists, "/"))
			}
		}
	}
	r.Extra("family_trees", nFamily)

	// part 2: one rewrite run over SEVERAL snapshots (no snapshot argument): every snapshot of the run must get the
	// tree and the summary statistics of its own filtered tree, whatever was rewritten before it in the same run
	if r.Case("multi-snapshot-run") && !r.Expired() {
		verifC27Multi(t, ctx, r, initState, gopts, &curBE, modes, trees)
	}
}

func verifC27Multi(t *testing.T, ctx context.Context, r *vh.Run, initState gatebe.State, gopts global.Options, curBE *backend.Backend, modes map[string]verifC27Mode, trees []verifC27Tree) {
	var pick []verifC27Tree
	for _, tr := range trees {
		if !tr.Family && !tr.NoSummary && !tr.Twin && len(tr.Entries) >= 5 && len(pick) < 3 {
			pick = append(pick, tr)
		}
	}
	if len(pick) < 2 {
		return
	}
	ck := "multi-snapshot-run"
	var fxs []*verifC27Fixture
	state := initState
	for _, tr := range pick {
		fx := verifC27Forge(t, ctx, state, tr)
		state = fx.state
		fxs = append(fxs, fx)
	}
	r.State("multi")
	sets := [][]string{{"zzz-matches-nothing"}, {"b"}, {"a"}, {"/a/b"}, {"*b"}, {"ab"}}
	for _, ps := range sets {
		for _, mname := range []string{"exclude", "include"} {
			mode := modes[mname]
			lists := mode.lists(ps)
			vid := fmt.Sprintf("%s|%s", mode.name, strings.Join(ps, " "))
			detail := map[string]any{"patterns": ps, "mode": mode.name, "snapshots_in_run": len(fxs)}
			store := gatebe.NewStoreFrom(state, nil)
			*curBE = &gatebe.Backend{S: store, Proc: "rewrite", Conns: 3, AtomicReplace: true}
			opts := RewriteOptions{}
			mode.set(&opts, ps)
			var rerr error
			panicked, pmsg := vh.NoPanic(func() {
				rerr = verifRun(t, ctx, gopts, func(ctx context.Context, gopts global.Options) error {
					return runRewrite(ctx, opts, gopts, nil, gopts.Term)
				})
			})
			r.Eval(1)
			r.Trace(1)
			if panicked || rerr != nil {
				r.Violationf(ck, "C27|multi|error|"+vid, detail, "runRewrite over all snapshots failed: %v %s", rerr, pmsg)
				continue
			}
			after := store.Snapshot()
			repo, _, err := oracle.Open(ctx, after, oracle.Password)
			if err == nil {
				err = repo.LoadIndex(ctx, restic.NoopTerminalCounterFactory)
			}
			if err != nil {
				r.Violationf(ck, "C27|multi|reopen|"+vid, detail, "the repository cannot be opened after rewrite: %v", err)
				continue
			}
			// new snapshots by the snapshot they were made from
			byOrig := map[restic.ID][]*data.Snapshot{}
			old := map[restic.ID]bool{}
			for _, fx := range fxs {
				old[fx.snapID] = true
			}
			for k := range after {
				if k.Type != backend.SnapshotFile {
					continue
				}
				id, err := restic.ParseID(k.Name)
				if err != nil || old[id] {
					continue
				}
				sn, err := data.LoadSnapshot(ctx, repo, id)
				if err != nil || sn.Tree == nil || sn.Original == nil {
					r.Violationf(ck, "C27|multi|new-snapshot-unreadable|"+vid, detail, "new snapshot %v unreadable, without tree or without original: %v", id.Str(), err)
					continue
				}
				byOrig[*sn.Original] = append(byOrig[*sn.Original], sn)
			}
			for i, fx := range fxs {
				entries := fx.tree.sorted()
				kept, matching := verifC27Kept(entries, lists, mode.exclude)
				sub := fmt.Sprintf("%s|#%d:%s", vid, i, fx.tree.Name)
				if _, ok := after[gatebe.FileKey{Type: backend.SnapshotFile, Name: fx.snapID.String()}]; !ok {
					r.Violationf(ck, "C27|multi|old-snapshot-removed|"+sub, detail, "rewrite without --forget removed the original snapshot")
				}
				unchangedExpected := len(kept) == len(fx.nodes) || (!mode.exclude && matching == 0)
				news := byOrig[fx.snapID]
				if unchangedExpected {
					if len(news) == 0 {
						r.Outcome("multi-unchanged")
					} else {
						r.Outcome("VIOLATION multi-unexpected-new-snapshot")
						r.Violationf(ck, "C27|multi|unexpected-new-snapshot|"+sub, detail, "nothing is removed from snapshot #%d of the run, yet a new snapshot was saved for it (tree %v, old tree %v)", i, news[0].Tree.Str(), fx.treeID.Str())
					}
					continue
				}
				if len(news) != 1 {
					r.Violationf(ck, "C27|multi|new-snapshot-count|"+sub, detail, "the model removes %d of %d entries of snapshot #%d of the run; %d new snapshots were saved for it", len(fx.nodes)-len(kept), len(fx.nodes), i, len(news))
					continue
				}
				r.Nontrivial("multi|" + sub)
				sn := news[0]
				nodes, kinds, sizes, subtree := map[string]string{}, map[string]data.NodeType{}, map[string]uint64{}, map[string]restic.ID{}
				if err := verifC27Walk(ctx, repo, *sn.Tree, "", nodes, kinds, sizes, subtree, 0); err != nil {
					r.Violationf(ck, "C27|multi|new-tree-unreadable|"+sub, detail, "the new tree cannot be read: %v", err)
					continue
				}
				okTree := len(nodes) == len(kept)
				for p, j := range nodes {
					if !kept[p] || (kinds[p] != data.NodeTypeDir && j != fx.nodes[p]) {
						okTree = false
					}
				}
				if !okTree {
					r.Outcome("VIOLATION multi-tree")
					r.Violationf(ck, "C27|multi|tree|"+sub, detail, "snapshot #%d of the run: new tree has entries %v, the model keeps %v", i, verifC27SortedKeys(nodes), verifC27Sorted(kept))
					continue
				}
				var wantFiles, wantLinks uint
				var wantBytes uint64
				for p := range kept {
					switch fx.kinds[p] {
					case data.NodeTypeFile:
						wantFiles++
						wantBytes += fx.sizes[p]
					case data.NodeTypeSymlink:
						wantLinks++
					}
				}
				if sn.Summary == nil || sn.Summary.TotalBytesProcessed != wantBytes || sn.Summary.TotalFilesProcessed < wantFiles || sn.Summary.TotalFilesProcessed > wantFiles+wantLinks {
					var gf uint
					var gb uint64
					if sn.Summary != nil {
						gf, gb = sn.Summary.TotalFilesProcessed, sn.Summary.TotalBytesProcessed
					}
					r.Outcome("VIOLATION multi-summary")
					r.Violationf(ck, "C27|multi|summary|"+sub, detail, "snapshot #%d of the run: summary TotalFilesProcessed=%d TotalBytesProcessed=%d; its kept tree has %d regular files (+%d symlinks) with %d bytes", i, gf, gb, wantFiles, wantLinks, wantBytes)
					continue
				}
				r.Outcome("multi-ok")
			}
		}
	}
}

func verifC27SortedKeys(m map[string]string) []string {
	l := make([]string, 0, len(m))
	for k := range m {
		l = append(l, k)
	}
	sort.Strings(l)
	return l
}

func verifC27Kinds(t verifC27Tree) map[string]string {
	m := map[string]string{}
	for p, k := range t.Entries {
		m[p] = string(k)
	}
	return m
}

func verifC27Sorted(m map[string]bool) []string {
	l := make([]string, 0, len(m))
	for k := range m {
		l = append(l, k)
	}
	sort.Strings(l)
	return l
}

func verifC27Compare(ctx context.Context, r *vh.Run, ck, vid string, detail map[string]any, fx *verifC27Fixture, after gatebe.State, kept map[string]bool, matching int, exclude, rootMatches bool) {
	// (a) old snapshot untouched; new snapshot files
	oldKey := gatebe.FileKey{Type: backend.SnapshotFile, Name: fx.snapID.String()}
	if buf, ok := after[oldKey]; !ok || string(buf) != string(fx.state[oldKey]) {
		r.Violationf(ck, "C27|old-snapshot-touched|"+vid, detail, "rewrite without --forget removed or changed the original snapshot file")
	}
	var newIDs []restic.ID
	for k := range after {
		if k.Type == backend.SnapshotFile && k != oldKey {
			id, err := restic.ParseID(k.Name)
			if err != nil {
				r.Violationf(ck, "C27|bad-snapshot-name|"+vid, detail, "snapshot file with a bad name %q", k.Name)
				return
			}
			newIDs = append(newIDs, id)
		}
	}
	unchangedExpected := len(kept) == len(fx.nodes) || (!exclude && matching == 0)

	var wantFiles, wantLinks uint
	var wantBytes uint64
	for p := range kept {
		switch fx.kinds[p] {
		case data.NodeTypeFile:
			wantFiles++
			wantBytes += fx.sizes[p]
		case data.NodeTypeSymlink:
			wantLinks++
		}
	}

	if len(newIDs) == 0 {
		if unchangedExpected {
			r.Outcome("unchanged")
		} else {
			r.Outcome("VIOLATION no-new-snapshot")
			r.Violationf(ck, "C27|no-new-snapshot|"+vid, detail, "the model removes %d of %d entries but rewrite saved no new snapshot", len(fx.nodes)-len(kept), len(fx.nodes))
		}
		return
	}
	if len(newIDs) > 1 {
		r.Violationf(ck, "C27|several-new-snapshots|"+vid, detail, "rewrite of one snapshot saved %d new snapshots", len(newIDs))
		return
	}
	repo, _, err := oracle.Open(ctx, after, oracle.Password)
	if err == nil {
		err = repo.LoadIndex(ctx, restic.NoopTerminalCounterFactory)
	}
	if err != nil {
		r.Violationf(ck, "C27|reopen|"+vid, detail, "the repository cannot be opened after rewrite: %v", err)
		return
	}
	sn, err := data.LoadSnapshot(ctx, repo, newIDs[0])
	if err != nil || sn.Tree == nil {
		r.Violationf(ck, "C27|new-snapshot-unreadable|"+vid, detail, "new snapshot %v unreadable or without tree: %v", newIDs[0].Str(), err)
		return
	}
	var gotFiles uint
	var gotBytes uint64
	if sn.Summary != nil {
		gotFiles, gotBytes = sn.Summary.TotalFilesProcessed, sn.Summary.TotalBytesProcessed
	}
	summaryOK := sn.Summary != nil && gotBytes == wantBytes && gotFiles >= wantFiles && gotFiles <= wantFiles+wantLinks

	if unchangedExpected {
		// two-sided: a new snapshot that only carries an updated summary is acceptable
		summaryDiffers := fx.snap.Summary == nil || fx.snap.Summary.TotalFilesProcessed != gotFiles || fx.snap.Summary.TotalBytesProcessed != gotBytes
		if *sn.Tree == fx.treeID && len(kept) == len(fx.nodes) && summaryOK && summaryDiffers {
			r.Outcome("summary-only")
		} else {
			r.Outcome("VIOLATION unexpected-new-snapshot")
			why := "nothing matches"
			if !exclude && matching > 0 {
				why = "everything is selected"
			}
			if !exclude && matching == 0 && rootMatches && len(fx.nodes) > 0 {
				// one root cause, one key (findings/C27.md): the include list selects no entry, but the path "/" of the
				// snapshot root itself matches the list (e.g. '*' followed by a negation), so KeepEmptyDirectory("/")
				// keeps the emptied root and an empty snapshot is saved instead of leaving the snapshot unchanged
				r.Count("include_nothing_root_matches", 1)
				r.Violationf(ck, "C27|include-matches-nothing|root-path-matches|empty-snapshot-saved", detail,
					"the include list matches no entry of the snapshot, yet rewrite saved a new snapshot %v with tree %v (old tree %v): the root path \"/\" matches the list (e.g. --include '*' --include '!b' on a snapshot holding only b)", newIDs[0].Str(), sn.Tree.Str(), fx.treeID.Str())
				return
			}
			r.Violationf(ck, "C27|unexpected-new-snapshot|"+vid, detail, "%s, yet rewrite saved a new snapshot %v (tree %v, old tree %v, summary files=%d bytes=%d)", why, newIDs[0].Str(), sn.Tree.Str(), fx.treeID.Str(), gotFiles, gotBytes)
			return
		}
	}

	// (c) the complete new tree
	nodes, kinds, sizes, subtree := map[string]string{}, map[string]data.NodeType{}, map[string]uint64{}, map[string]restic.ID{}
	if err := verifC27Walk(ctx, repo, *sn.Tree, "", nodes, kinds, sizes, subtree, 0); err != nil {
		r.Violationf(ck, "C27|new-tree-unreadable|"+vid, detail, "the new tree cannot be read: %v", err)
		return
	}
	var extra, missing, changed []string
	for p := range nodes {
		if !kept[p] {
			extra = append(extra, p)
		} else if nodes[p] != fx.nodes[p] {
			changed = append(changed, p)
		}
	}
	for p := range kept {
		if _, ok := nodes[p]; !ok {
			missing = append(missing, p)
		}
	}
	sort.Strings(extra)
	sort.Strings(missing)
	sort.Strings(changed)
	bad := false
	if len(extra) > 0 {
		bad = true
		kind := "matching-entry-kept"
		if !exclude {
			kind = "unselected-entry-kept"
			if fx.kinds[extra[0]] == data.NodeTypeDir {
				kind = "unselected-directory-kept"
			}
		}
		d := verifC27Detail(detail, "unexpected", extra, "new_tree", verifC27Keys(nodes))
		r.Violationf(ck, "C27|"+kind+"|"+vid, d, "the new tree contains %v which the model removes (new tree %v)", extra, verifC27Keys(nodes))
	}
	if len(missing) > 0 {
		bad = true
		kind := "kept-entry-missing"
		if fx.kinds[missing[0]] == data.NodeTypeDir {
			kind = "kept-directory-missing"
		}
		d := verifC27Detail(detail, "missing", missing, "new_tree", verifC27Keys(nodes))
		r.Violationf(ck, "C27|"+kind+"|"+vid, d, "the new tree lacks %v which the model keeps (new tree %v)", missing, verifC27Keys(nodes))
	}
	if len(changed) > 0 {
		bad = true
		d := verifC27Detail(detail, "changed", changed, "old_node", fx.nodes[changed[0]], "new_node", nodes[changed[0]])
		r.Violationf(ck, "C27|node-changed|"+vid, d, "kept node %s is not byte-identical: old %s new %s", changed[0], fx.nodes[changed[0]], nodes[changed[0]])
	}
	// directories whose content is completely kept must keep their sub-tree ID (content addressed)
	if !bad {
		for p, id := range subtree {
			full := true
			for q := range fx.nodes {
				if strings.HasPrefix(q, p+"/") && !kept[q] {
					full = false
				}
			}
			if old := fx.subtree[p]; full && id != old {
				bad = true
				r.Violationf(ck, "C27|subtree-id-changed|"+vid, detail, "directory %s keeps all its content but its sub-tree ID changed from %v to %v", p, old.Str(), id.Str())
			}
		}
	}

	// (d) snapshot metadata
	var md []string
	if !sn.Time.Equal(fx.snap.Time) {
		md = append(md, fmt.Sprintf("time %v != %v", sn.Time, fx.snap.Time))
	}
	if sn.Hostname != fx.snap.Hostname || sn.Username != fx.snap.Username {
		md = append(md, fmt.Sprintf("host/user %s/%s", sn.Hostname, sn.Username))
	}
	if strings.Join(sn.Paths, "|") != strings.Join(fx.snap.Paths, "|") {
		md = append(md, fmt.Sprintf("paths %v", sn.Paths))
	}
	wantTags := append(append([]string{}, fx.snap.Tags...), "rewrite")
	if strings.Join(sn.Tags, "|") != strings.Join(wantTags, "|") {
		md = append(md, fmt.Sprintf("tags %v, want %v", sn.Tags, wantTags))
	}
	if sn.Original == nil || *sn.Original != fx.snapID {
		md = append(md, fmt.Sprintf("original %v, want %v", sn.Original, fx.snapID.Str()))
	}
	if len(md) > 0 {
		bad = true
		r.Violationf(ck, "C27|snapshot-metadata|"+vid, verifC27Detail(detail, "differences", md), "new snapshot metadata: %s", strings.Join(md, "; "))
	}

	// (e) summary
	if !summaryOK {
		bad = true
		kind := "summary-counts"
		if sn.Summary == nil {
			kind = "summary-missing"
		}
		d := verifC27Detail(detail, "want_files", wantFiles, "want_symlinks", wantLinks, "want_bytes", wantBytes, "got_files", gotFiles, "got_bytes", gotBytes)
		r.Violationf(ck, "C27|"+kind+"|"+vid, d, "summary of the new snapshot: TotalFilesProcessed=%d TotalBytesProcessed=%d; the kept tree has %d regular files (+%d symlinks) with %d bytes", gotFiles, gotBytes, wantFiles, wantLinks, wantBytes)
	}
	if !bad && !unchangedExpected {
		r.Outcome(fmt.Sprintf("changed|kept=%d/%d|exclude=%v", len(kept), len(fx.nodes), exclude))
		if fx.tree.Name == "ALLB" && len(detail["patterns"].([]string)) == 1 && detail["patterns"].([]string)[0] == "**/b" {
			r.Sample(map[string]any{"tree": fx.tree.sorted(), "mode": detail["mode"], "patterns": detail["patterns"], "new_tree": verifC27Keys(nodes), "summary_files": gotFiles, "summary_bytes": gotBytes})
		}
	}
}

func verifC27Keys(m map[string]string) []string {
	l := make([]string, 0, len(m))
	for k := range m {
		l = append(l, k)
	}
	sort.Strings(l)
	return l
}

func verifC27Detail(base map[string]any, kv ...any) map[string]any {
	m := map[string]any{}
	for k, v := range base {
		m[k] = v
	}
	for i := 0; i+1 < len(kv); i += 2 {
		m[kv[i].(string)] = kv[i+1]
	}
	return m
}

package main

// C55: backups that skip source items are reported as incomplete (exit status
// 3), the snapshot is still saved with every readable item; items that vanished
// between the directory listing and opening never change the status.
//
// Engine: fault enumeration.  The real runBackup runs on a real scratch tree
// through a fault-injecting fs.FS that wraps fs.Local and is installed with the
// existing backupFSTestHook variable.  Tree (6 items):
//   src/f1  src/d1/  src/d1/f2  src/d1/d2/  src/d1/d2/f3  src/l1 -> f1
// Faults per item
//   file   : became-symlink (the O_NOFOLLOW open for reading fails with ELOOP: the
//            file was replaced by a symlink after lstat; the item still exists),
//            open-eacces (MakeReadable fails with EACCES), read-mid (Read fails
//            with EIO after half of the file), vanish-open (OpenFile -> ENOENT),
//            vanish-stat (lstat -> ENOENT), vanish-late (MakeReadable ->
//            ENOENT), type-change (regular at lstat, not regular after open)
//   dir    : open-eacces, readdir (Readdirnames fails), readdir-partial (it returns
//            half of the names together with EIO, as os.File does), vanish-open,
//            vanish-stat, type-change
//   symlink: vanish-open, vanish-stat
// Space: all assignments with 0, 1 or 2 faulted items (401) x mode
//   "full"   : backup --force (no parent; every file is opened and read)
//   "parent" : backup --parent <clean snapshot of the same tree> (unchanged
//              files are not opened, so faults that only strike when a file is
//              opened or read are inert there)
//   "again-skip-if-unchanged" / "again-dry-run" (single faults): the faulted
//              backup is repeated with the first snapshot as parent and
//              --skip-if-unchanged resp. --dry-run (no snapshot may be written;
//              the status must be the same)
// Quick tier: all single faults in both modes, pairs in mode "full" over a
// representative subset of the fault kinds; thorough: everything.
// plus, for the exit-code mapping of main(), one child process per single fault
// on f1 / d1 / l1 and one without fault: the test binary re-executes itself and
// its TestMain calls the real main() with os.Args "restic backup ..." and the
// same fault FS installed, so the exit status is that of the (possibly
// mutated) code under test.
//
// Oracle (static, from the fault assignment; an item is "reached" when no
// ancestor directory is faulted):
//   - runBackup returns nil or ErrInvalidSourceData, never another error, and a
//     snapshot is saved in every case;
//   - it returns ErrInvalidSourceData  <=>  some reached item has an effective
//     non-vanish fault (open-eacces, became-symlink, read-mid, readdir, readdir-partial, type-change);
//     vanish-open / vanish-stat never change the status.  vanish-late (the file
//     is still there at lstat but gone at open) is left open: the statement's
//     "between directory listing and opening" and the code comments ("ignore if
//     file disappeared since it was returned by readdir") differ there, so
//     either status is accepted and the observed one is recorded;
//   - the snapshot contains every fault-free reached item (files with exactly
//     the source content) and nothing else, except that a type-changed item
//     may or may not be present;
//   - child processes: exit status 0 resp. 3 accordingly.

import (
	"bytes"
	"context"
	"crypto/sha256"
	"encoding/json"
	"errors"
	"fmt"
	"os"
	"os/exec"
	"path/filepath"
	"sort"
	"strings"
	"sync"
	"syscall"
	"testing"

	"github.com/restic/restic/internal/backend/layout"
	"github.com/restic/restic/internal/data"
	"github.com/restic/restic/internal/fs"
	"github.com/restic/restic/internal/global"
	"github.com/restic/restic/internal/restic"
	"github.com/restic/restic/internal/verifshim/vh"
)

// ---- fault-injecting FS ------------------------------------------------------

type verifC55FS struct {
	fs.FS
	faults map[string]string // absolute clean path -> fault kind
}

func (m *verifC55FS) fault(name string) string {
	abs, err := filepath.Abs(name)
	if err != nil {
		return ""
	}
	return m.faults[filepath.Clean(abs)]
}

func verifC55Err(op, name string, errno syscall.Errno) error {
	return &os.PathError{Op: op, Path: name, Err: errno}
}

func (m *verifC55FS) OpenFile(name string, flag int, metadataOnly bool) (fs.File, error) {
	k := m.fault(name)
	if k == "vanish-open" {
		return nil, verifC55Err("open", name, syscall.ENOENT)
	}
	if !metadataOnly {
		switch k {
		case "open-eacces":
			return nil, verifC55Err("open", name, syscall.EACCES)
		case "became-symlink":
			return nil, verifC55Err("open", name, syscall.ELOOP)
		case "vanish-stat", "vanish-late":
			return nil, verifC55Err("open", name, syscall.ENOENT)
		}
	}
	f, err := m.FS.OpenFile(name, flag, metadataOnly)
	if err != nil || k == "" {
		return f, err
	}
	return &verifC55File{File: f, name: name, kind: k, readable: !metadataOnly}, nil
}

func (m *verifC55FS) Lstat(name string) (*fs.ExtendedFileInfo, error) {
	switch m.fault(name) {
	case "vanish-open", "vanish-stat":
		return nil, verifC55Err("lstat", name, syscall.ENOENT)
	}
	return m.FS.Lstat(name)
}

type verifC55File struct {
	fs.File
	name     string
	kind     string
	readable bool
	read     int64
}

func (f *verifC55File) MakeReadable() error {
	switch f.kind {
	case "open-eacces":
		return verifC55Err("open", f.name, syscall.EACCES)
	case "became-symlink":
		// the regular file was replaced by a symlink between lstat and the O_NOFOLLOW open for reading: the item still exists
		return verifC55Err("open", f.name, syscall.ELOOP)
	case "vanish-late":
		return verifC55Err("open", f.name, syscall.ENOENT)
	}
	err := f.File.MakeReadable()
	if err == nil {
		f.readable = true
	}
	return err
}

func (f *verifC55File) changed(fi *fs.ExtendedFileInfo) *fs.ExtendedFileInfo {
	c := *fi
	if fi.Mode.IsDir() {
		c.Mode = fi.Mode &^ os.ModeType // now a regular file
	} else {
		c.Mode = (fi.Mode &^ os.ModeType) | os.ModeNamedPipe
	}
	return &c
}

func (f *verifC55File) Stat() (*fs.ExtendedFileInfo, error) {
	if f.kind == "vanish-stat" {
		return nil, verifC55Err("lstat", f.name, syscall.ENOENT)
	}
	fi, err := f.File.Stat()
	if err == nil && f.kind == "type-change" && f.readable {
		return f.changed(fi), nil
	}
	return fi, err
}

func (f *verifC55File) ToNode(ign bool, warnf func(string, ...any)) (*data.Node, error) {
	if f.kind == "vanish-stat" {
		return nil, verifC55Err("lstat", f.name, syscall.ENOENT)
	}
	node, err := f.File.ToNode(ign, warnf)
	if node != nil && f.kind == "type-change" && f.readable {
		if node.Type == data.NodeTypeDir {
			node.Type = data.NodeTypeFile
		} else {
			node.Type = data.NodeTypeFifo
		}
		node.Mode = f.changed(&fs.ExtendedFileInfo{Mode: node.Mode}).Mode
	}
	return node, err
}

func (f *verifC55File) Read(p []byte) (int, error) {
	if f.kind == "read-mid" {
		fi, err := f.File.Stat()
		if err != nil {
			return 0, err
		}
		limit := fi.Size / 2
		if f.read >= limit {
			return 0, verifC55Err("read", f.name, syscall.EIO)
		}
		if int64(len(p)) > limit-f.read {
			p = p[:limit-f.read]
		}
	}
	n, err := f.File.Read(p)
	f.read += int64(n)
	return n, err
}

func (f *verifC55File) Readdirnames(n int) ([]string, error) {
	if f.kind == "readdir" {
		return nil, verifC55Err("readdirent", f.name, syscall.EIO)
	}
	if f.kind == "readdir-partial" {
		// the listing breaks off midway: os.File.Readdirnames returns the names read so far AND the error
		names, err := f.File.Readdirnames(n)
		if err != nil {
			return names, err
		}
		sort.Strings(names)
		return names[:(len(names)+1)/2], verifC55Err("readdirent", f.name, syscall.EIO)
	}
	return f.File.Readdirnames(n)
}

// ---- child mode: run the real main() -----------------------------------------

type verifC55Child struct {
	Faults map[string]string `json:"faults"`
	Args   []string          `json:"args"`
}

func TestMain(m *testing.M) {
	if spec := os.Getenv("VERIF_C55_CHILD"); spec != "" {
		var c verifC55Child
		if err := json.Unmarshal([]byte(spec), &c); err != nil {
			fmt.Fprintln(os.Stderr, "C55 child: bad spec:", err)
			os.Exit(99)
		}
		layout.TestDisablePackSubdirs(nil)
		backupFSTestHook = func(inner fs.FS) fs.FS { return &verifC55FS{FS: inner, faults: c.Faults} }
		os.Args = append([]string{"restic"}, c.Args...)
		main() // exits
		os.Exit(98)
	}
	os.Exit(m.Run())
}

// ---- tree, faults, expectations ------------------------------------------------

type verifC55Item struct {
	Rel  string
	Kind byte // 'f', 'd', 'l'
}

var verifC55Items = []verifC55Item{
	{"f1", 'f'}, {"d1", 'd'}, {"d1/f2", 'f'}, {"d1/d2", 'd'}, {"d1/d2/f3", 'f'}, {"l1", 'l'},
}

var verifC55Faults = map[byte][]string{
	'f': {"open-eacces", "read-mid", "vanish-open", "vanish-stat", "vanish-late", "type-change", "became-symlink"},
	'd': {"open-eacces", "readdir", "readdir-partial", "vanish-open", "vanish-stat", "type-change"},
	'l': {"vanish-open", "vanish-stat"},
}

func verifC55Content(rel string) []byte {
	n := map[string]int{"f1": 1500, "d1/f2": 3000, "d1/d2/f3": 700}[rel]
	b := make([]byte, n)
	for i := range b {
		b[i] = byte(len(rel)*31 + i%251)
	}
	return b
}

func verifC55MakeTree(t *testing.T, root string) {
	if err := os.MkdirAll(root, 0o755); err != nil {
		t.Fatalf("C55: create tree: %v", err)
	}
	for _, it := range verifC55Items {
		p := filepath.Join(root, filepath.FromSlash(it.Rel))
		var err error
		switch it.Kind {
		case 'd':
			err = os.MkdirAll(p, 0o755)
		case 'f':
			err = os.WriteFile(p, verifC55Content(it.Rel), 0o644)
		case 'l':
			err = os.Symlink("f1", p)
		}
		if err != nil {
			t.Fatalf("C55: create tree: %v", err)
		}
	}
}

type verifC55Assignment map[string]string // rel path -> fault

func (a verifC55Assignment) String() string {
	keys := make([]string, 0, len(a))
	for k, v := range a {
		keys = append(keys, k+"="+v)
	}
	sort.Strings(keys)
	if len(keys) == 0 {
		return "none"
	}
	return strings.Join(keys, ",")
}

type verifC55Expect struct {
	mustFail bool
	mayFail  bool
	must     map[string]bool // rel paths that must be in the snapshot
	may      map[string]bool // rel paths that may be in the snapshot in addition
}

func verifC55Expectation(a verifC55Assignment, withParent bool) verifC55Expect {
	e := verifC55Expect{must: map[string]bool{}, may: map[string]bool{}}
	for _, it := range verifC55Items {
		reached := true
		for dir := filepath.ToSlash(filepath.Dir(it.Rel)); dir != "."; dir = filepath.ToSlash(filepath.Dir(dir)) {
			if a[dir] != "" {
				reached = false
			}
		}
		if !reached {
			continue
		}
		k := a[it.Rel]
		// with a parent snapshot an unchanged file is not opened: faults that
		// strike at open/read time have no effect
		if withParent && it.Kind == 'f' && (k == "open-eacces" || k == "read-mid" || k == "vanish-late" || k == "type-change" || k == "became-symlink") {
			k = ""
		}
		switch k {
		case "":
			e.must[it.Rel] = true
		case "vanish-open", "vanish-stat":
		case "vanish-late":
			e.mayFail = true
		case "type-change":
			e.mustFail = true
			e.may[it.Rel] = true
		default:
			e.mustFail = true
		}
	}
	return e
}

// ---- running and inspecting ----------------------------------------------------

type verifC55Env struct {
	t     *testing.T
	gopts global.Options
	src   string
}

// backup runs the real runBackup and returns its error and the ID of the saved
// snapshot ("" if none was saved).
func (e *verifC55Env) backup(a verifC55Assignment, opts BackupOptions) (error, string, string) {
	faults := map[string]string{}
	for rel, k := range a {
		faults[filepath.Join(e.src, filepath.FromSlash(rel))] = k
	}
	backupFSTestHook = func(inner fs.FS) fs.FS { return &verifC55FS{FS: inner, faults: faults} }
	defer func() { backupFSTestHook = nil }()
	gopts := e.gopts
	gopts.JSON = true
	opts.GroupBy = data.SnapshotGroupByOptions{Host: true, Path: true}
	opts.Host = "verif"
	stdout, stderr, err := withCaptureStdoutStderr(e.t, gopts, func(ctx context.Context, gopts global.Options) error {
		return runBackup(ctx, opts, gopts, gopts.Term, []string{e.src})
	})
	id := ""
	for _, line := range strings.Split(stdout.String(), "\n") {
		var msg struct {
			MessageType string `json:"message_type"`
			SnapshotID  string `json:"snapshot_id"`
		}
		if json.Unmarshal([]byte(line), &msg) == nil && msg.MessageType == "summary" {
			id = msg.SnapshotID
		}
	}
	return err, id, stderr.String()
}

// contents returns rel path -> "type:sha256(content)" of the snapshot below src.
func (e *verifC55Env) contents(snapshotID string) (map[string]string, error) {
	out := map[string]string{}
	err := withTermStatus(e.t, e.gopts, func(ctx context.Context, gopts global.Options) error {
		printer := restic.NewNoopPrinter()
		ctx, repo, unlock, err := openWithReadLock(ctx, gopts, true, printer)
		if err != nil {
			return err
		}
		defer unlock()
		if err := repo.LoadIndex(ctx, printer); err != nil {
			return err
		}
		id, err := restic.ParseID(snapshotID)
		if err != nil {
			return err
		}
		sn, err := data.LoadSnapshot(ctx, repo, id)
		if err != nil {
			return err
		}
		sub, err := data.FindTreeDirectory(ctx, repo, sn.Tree, filepath.ToSlash(e.src))
		if err != nil {
			return err
		}
		var walk func(id restic.ID, prefix string) error
		walk = func(id restic.ID, prefix string) error {
			it, err := data.LoadTree(ctx, repo, id)
			if err != nil {
				return err
			}
			for item := range it {
				if item.Error != nil {
					return item.Error
				}
				n := item.Node
				rel := prefix + n.Name
				switch n.Type {
				case data.NodeTypeFile:
					h := sha256.New()
					for _, bid := range n.Content {
						buf, err := repo.LoadBlob(ctx, restic.BlobHandle{Type: restic.DataBlob, ID: bid}, nil)
						if err != nil {
							return fmt.Errorf("%s: %w", rel, err)
						}
						h.Write(buf)
					}
					out[rel] = fmt.Sprintf("file:%x", h.Sum(nil))
				case data.NodeTypeDir:
					out[rel] = "dir"
					if n.Subtree == nil {
						return fmt.Errorf("%s: dir without subtree", rel)
					}
					if err := walk(*n.Subtree, rel+"/"); err != nil {
						return err
					}
				case data.NodeTypeSymlink:
					out[rel] = "symlink:" + n.LinkTarget
				default:
					out[rel] = string(n.Type)
				}
			}
			return nil
		}
		return walk(*sub, "")
	})
	return out, err
}

func verifC55Want(rel string) string {
	for _, it := range verifC55Items {
		if it.Rel == rel {
			switch it.Kind {
			case 'f':
				return fmt.Sprintf("file:%x", sha256.Sum256(verifC55Content(rel)))
			case 'd':
				return "dir"
			case 'l':
				return "symlink:f1"
			}
		}
	}
	return "?"
}

func TestVerif_C55(t *testing.T) {
	r := vh.Start(t, "C55")
	defer r.Finish()
	r.Rule("all assignments of 0..2 faults to the 6 items of a scratch tree (faults per item kind, see header) x {full (--force), with parent (quick: single faults)} through the real runBackup with a fault-injecting FS installed via backupFSTestHook; plus child processes running the real main() for the exit status; non-trivial = at least one fault is effective (a reached item with a fault that is not inert in that mode)")
	r.Assume("the fault FS (harness) wraps fs.Local faithfully; EACCES/EIO/ENOENT are returned as *os.PathError exactly as the os package does",
		"vanish-late (ENOENT at open after a successful lstat) is not decided by the property statement; both statuses are accepted there")

	env, cleanup := withTestEnvironment(t)
	defer cleanup()
	env.gopts.BackendTestHook = nil
	testRunInit(t, env.gopts)
	src := filepath.Join(r.Scratch, "src")
	verifC55MakeTree(t, src)
	e := &verifC55Env{t: t, gopts: env.gopts, src: src}

	// all assignments with <= 2 faults
	var assignments []verifC55Assignment
	assignments = append(assignments, verifC55Assignment{})
	for i, it := range verifC55Items {
		for _, k := range verifC55Faults[it.Kind] {
			assignments = append(assignments, verifC55Assignment{it.Rel: k})
			for _, jt := range verifC55Items[i+1:] {
				for _, k2 := range verifC55Faults[jt.Kind] {
					assignments = append(assignments, verifC55Assignment{it.Rel: k, jt.Rel: k2})
				}
			}
		}
	}

	cleanID := ""
	var cleanOnce sync.Once
	clean := func() string {
		cleanOnce.Do(func() {
			err, id, stderr := e.backup(verifC55Assignment{}, BackupOptions{Force: true})
			if err != nil || id == "" {
				t.Fatalf("C55: clean backup failed: %v %s", err, stderr)
			}
			cleanID = id
		})
		return cleanID
	}

	// quick tier: pairs only over a representative subset of the fault kinds
	quickPair := map[string]bool{"open-eacces": true, "read-mid": true, "vanish-stat": true, "readdir": true, "readdir-partial": true, "vanish-open": true}
	for _, a := range assignments {
		for _, mode := range []string{"full", "parent"} {
			if !r.Thorough() && len(a) > 1 {
				skip := mode == "parent"
				for rel, k := range a {
					if !quickPair[k] || (k == "open-eacces" && rel == "d1") || (k == "vanish-open" && strings.HasPrefix(rel, "f")) {
						skip = true
					}
				}
				if skip {
					continue
				}
			}
			ck := mode + "|" + a.String()
			if !r.Case(ck) {
				continue
			}
			if r.Expired() {
				return
			}
			key := "C55|" + ck
			detail := map[string]any{"faults": a, "mode": mode}
			opts := BackupOptions{Force: true}
			if mode == "parent" {
				opts = BackupOptions{Parent: clean()}
			}
			var err error
			var id, stderr string
			if p, msg := vh.NoPanic(func() { err, id, stderr = e.backup(a, opts) }); p {
				r.Violationf(ck, key+"|panic", detail, "runBackup panicked: %s", msg)
				continue
			}
			r.Eval(1)
			r.Trace(1)
			r.Transition(int64(len(a)))
			exp := verifC55Expectation(a, mode == "parent")
			if exp.mustFail || exp.mayFail || len(exp.must) < len(verifC55Items) {
				r.Nontrivial(key)
			}
			status := "other"
			switch {
			case err == nil:
				status = "0"
			case err == ErrInvalidSourceData:
				status = "3"
			}
			r.Outcome(fmt.Sprintf("status=%s:snapshot=%v", status, id != ""))
			if len(a) == 2 && a["d1"] == "readdir" && a["f1"] == "vanish-stat" {
				r.Sample(map[string]any{"case": detail, "status": status, "snapshot_saved": id != "", "must_contain": len(exp.must)})
			}
			if status == "other" {
				r.Violationf(ck, key+"|fatal", detail, "runBackup returned %v instead of nil / ErrInvalidSourceData; stderr: %s", err, verifC55Tail(stderr))
				continue
			}
			if id == "" {
				r.Violationf(ck, key+"|no-snapshot", detail, "runBackup returned status %s but no snapshot was saved", status)
				continue
			}
			switch {
			case exp.mustFail && status != "3":
				r.Violationf(ck, key+"|status-success", detail, "an existing item could not be read but runBackup returned success; stderr: %s", verifC55Tail(stderr))
			case !exp.mustFail && !exp.mayFail && status != "0":
				r.Violationf(ck, key+"|status-incomplete", detail, "every existing item was read (only vanished items were skipped) but runBackup returned ErrInvalidSourceData; stderr: %s", verifC55Tail(stderr))
			case exp.mayFail && !exp.mustFail:
				r.Outcome("vanish-late:status=" + status)
			}
			got, cerr := e.contents(id)
			if cerr != nil {
				r.Violationf(ck, key+"|snapshot-unreadable", detail, "the saved snapshot cannot be read back: %v", cerr)
				continue
			}
			for rel := range exp.must {
				if got[rel] != verifC55Want(rel) {
					r.Violationf(ck, key+"|missing|"+rel, detail, "readable item %s is missing or wrong in the snapshot: got %q, want %q", rel, got[rel], verifC55Want(rel))
				}
			}
			for rel := range got {
				if !exp.must[rel] && !exp.may[rel] {
					r.Violationf(ck, key+"|unexpected|"+rel, detail, "the snapshot contains %s (%s) which could not be read / does not exist", rel, got[rel])
				}
			}
		}
	}

	// the same fault again in a follow-up run that may skip the snapshot: every single fault is backed up
	// twice, the second time with --skip-if-unchanged and the first snapshot as parent (the nightly job with
	// a persistently unreadable file), and with --dry-run.  The status must not depend on whether a snapshot
	// was written.
	for _, a := range assignments {
		if len(a) != 1 {
			continue
		}
		for _, mode := range []string{"again-skip-if-unchanged", "again-dry-run"} {
			ck := mode + "|" + a.String()
			if !r.Case(ck) {
				continue
			}
			if r.Expired() {
				return
			}
			key := "C55|" + ck
			detail := map[string]any{"faults": a, "mode": mode}
			err1, id1, stderr1 := e.backup(a, BackupOptions{Force: true})
			if id1 == "" || (err1 != nil && err1 != ErrInvalidSourceData) {
				r.Violationf(ck, key+"|first-run", detail, "first run: err=%v snapshot=%q stderr: %s", err1, id1, verifC55Tail(stderr1))
				continue
			}
			opts := BackupOptions{Parent: id1, SkipIfUnchanged: true}
			if mode == "again-dry-run" {
				opts = BackupOptions{Parent: id1, DryRun: true}
			}
			var err2 error
			var id2, stderr2 string
			if p, msg := vh.NoPanic(func() { err2, id2, stderr2 = e.backup(a, opts) }); p {
				r.Violationf(ck, key+"|panic", detail, "runBackup panicked: %s", msg)
				continue
			}
			r.Eval(2)
			r.Trace(1)
			// the parent is the first run's snapshot, which lacks the faulted item: that item is new
			// for the second run and is opened and read again, so the fault is as effective as without a parent
			exp := verifC55Expectation(a, false)
			if exp.mustFail {
				r.Nontrivial(key)
			}
			status := "other"
			switch {
			case err2 == nil:
				status = "0"
			case err2 == ErrInvalidSourceData:
				status = "3"
			}
			r.Outcome(fmt.Sprintf("%s:status=%s:snapshot=%v", mode, status, id2 != ""))
			detail["second_run_snapshot"] = id2
			switch {
			case status == "other":
				r.Violationf(ck, key+"|fatal", detail, "second run returned %v instead of nil / ErrInvalidSourceData; stderr: %s", err2, verifC55Tail(stderr2))
			case exp.mustFail && status != "3":
				r.Violationf(ck, key+"|status-success", detail, "an existing item could not be read in the second run (%s) but runBackup returned success; stderr: %s", mode, verifC55Tail(stderr2))
			case !exp.mustFail && !exp.mayFail && status != "0":
				r.Violationf(ck, key+"|status-incomplete", detail, "every existing item was read in the second run (%s) but runBackup returned ErrInvalidSourceData; stderr: %s", mode, verifC55Tail(stderr2))
			}
		}
	}

	// exit status of the real main()
	self, err := os.Executable()
	if err != nil {
		t.Fatal(err)
	}
	for _, it := range []verifC55Item{{"", 0}, verifC55Items[0], verifC55Items[1], verifC55Items[5]} {
		kinds := verifC55Faults[it.Kind]
		if it.Rel == "" {
			kinds = []string{""}
		}
		for _, k := range kinds {
			a := verifC55Assignment{}
			if k != "" {
				a[it.Rel] = k
			}
			ck := "exit|" + a.String()
			if !r.Case(ck) {
				continue
			}
			key := "C55|" + ck
			faults := map[string]string{}
			for rel, kk := range a {
				faults[filepath.Join(src, filepath.FromSlash(rel))] = kk
			}
			spec, _ := json.Marshal(verifC55Child{Faults: faults, Args: []string{"backup", "--force", "--no-cache", "--quiet", "-r", env.gopts.Repo, src}})
			cmd := exec.Command(self, "-test.run=^$")
			cmd.Env = append(os.Environ(), "VERIF_C55_CHILD="+string(spec), "RESTIC_PASSWORD="+env.gopts.Password, "RESTIC_CACHE_DIR="+env.cache)
			var out bytes.Buffer
			cmd.Stdout, cmd.Stderr = &out, &out
			runErr := cmd.Run()
			code := 0
			if runErr != nil {
				var ee *exec.ExitError
				if !errors.As(runErr, &ee) {
					t.Fatalf("C55: cannot run child: %v", runErr)
				}
				code = ee.ExitCode()
			}
			r.Eval(1)
			r.Trace(1)
			r.Outcome(fmt.Sprintf("exit=%d", code))
			exp := verifC55Expectation(a, false)
			if exp.mustFail {
				r.Nontrivial(key)
			}
			detail := map[string]any{"faults": a, "args": "backup --force", "output": verifC55Tail(out.String())}
			switch {
			case exp.mustFail && code != 3:
				r.Violationf(ck, key+"|exit", detail, "restic backup exited with %d, expected 3 (incomplete snapshot)", code)
			case !exp.mustFail && !exp.mayFail && code != 0:
				r.Violationf(ck, key+"|exit", detail, "restic backup exited with %d, expected 0", code)
			case exp.mayFail && code != 0 && code != 3:
				r.Violationf(ck, key+"|exit", detail, "restic backup exited with %d, expected 0 or 3", code)
			}
		}
	}
}

func verifC55Tail(s string) string {
	if len(s) > 600 {
		return "..." + s[len(s)-600:]
	}
	return s
}

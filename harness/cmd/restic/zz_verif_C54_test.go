package main

// C54: stats restore-size reports what a restore would write.
//
// Space (complete).  A tree is a multiset R of leaf kinds in the root plus,
// optionally, one sub-directory holding a multiset S of leaf kinds, with at
// most N nodes in total (the directory counts): quick N = 4, thorough N = 5.
// Leaf kinds:
//   f0, f1, f1000   regular files of size 0 / 1 / 1000, Links 1, own inode
//   A2, A3          members of hard-link group A (inode 100, device 1, size
//                   1000) with Links 2 resp. 3
//   B2              member of group B (inode 100, device 2 - same inode number
//                   on another device - size 1), Links 2
//   Z2              file of size 1000 with Links 2 but inode 0 (no inode
//                   information)
//   l               symlink
// All trees, the data blobs and the snapshots are forged (SaveBlob,
// data.SaveSnapshot).  For every tree T the real runStats (restore-size mode,
// --json) is run on: [T]; [T, T'] with T' a second snapshot of the same tree,
// selected through --host; [T, P2] and [T, P3] with two fixed partner trees that
// contain members of the groups A, B and Z (explicit IDs).
//
// Oracle: independent count.  total_file_count = number of nodes (files,
// symlinks and directories) summed over the selected snapshots;
// snapshots_count = number of selected snapshots; total_size = sum over the
// snapshots of the sizes of the regular files, every (device, inode) group with
// inode != 0 counted once per snapshot.  Left open (two-sided): several Z2
// nodes in one snapshot may be counted once or each (stats counts each, the
// restorer links them).  Cross-check against the real restorer: for trees of
// at most N-1 nodes without several Z2 nodes the snapshot is restored with the
// real runRestore and total_size must equal the sum of the sizes of the
// distinct (device, inode) regular files on disk, total_file_count the number
// of restored entries.
//
// Deviations from DESIGN: the quick tier stops at 4 nodes (thorough: 5); two
// snapshots are always T plus a partner (itself or one of two fixed trees)
// instead of all pairs of trees.

import (
	"context"
	"encoding/json"
	"fmt"
	"os"
	"path/filepath"
	"strings"
	"syscall"
	"testing"
	"time"

	"github.com/restic/restic/internal/data"
	"github.com/restic/restic/internal/global"
	"github.com/restic/restic/internal/repository"
	"github.com/restic/restic/internal/restic"
	"github.com/restic/restic/internal/ui/progress"
	"github.com/restic/restic/internal/verifshim/vh"
)

var verifC54Kinds = []string{"f0", "f1", "f1000", "A2", "A3", "B2", "Z2", "l"}

type verifC54Tree struct {
	Root []string `json:"root"`
	Sub  []string `json:"sub"` // nil: no sub-directory
}

func (t verifC54Tree) key() string {
	s := "root[" + strings.Join(t.Root, ",") + "]"
	if t.Sub != nil {
		s += " sub[" + strings.Join(t.Sub, ",") + "]"
	}
	return s
}

func (t verifC54Tree) nodes() int {
	n := len(t.Root)
	if t.Sub != nil {
		n += 1 + len(t.Sub)
	}
	return n
}

func verifC54Multisets(n int) [][]string {
	// all non-decreasing index sequences of length n
	var res [][]string
	var rec func(start int, cur []string)
	rec = func(start int, cur []string) {
		if len(cur) == n {
			res = append(res, append([]string{}, cur...))
			return
		}
		for i := start; i < len(verifC54Kinds); i++ {
			rec(i, append(cur, verifC54Kinds[i]))
		}
	}
	rec(0, nil)
	return res
}

func verifC54Trees(maxNodes int) []verifC54Tree {
	var res []verifC54Tree
	for r := 0; r <= maxNodes; r++ {
		for _, R := range verifC54Multisets(r) {
			res = append(res, verifC54Tree{Root: R})
			for s := 0; r+1+s <= maxNodes; s++ {
				for _, S := range verifC54Multisets(s) {
					if S == nil {
						S = []string{}
					}
					res = append(res, verifC54Tree{Root: R, Sub: S})
				}
			}
		}
	}
	return res
}

// model
func (t verifC54Tree) model() (entries int, sizeMin, sizeMax uint64, multiZ bool) {
	entries = t.nodes()
	groups := map[string]bool{}
	z := 0
	for _, k := range append(append([]string{}, t.Root...), t.Sub...) {
		switch k {
		case "f1":
			sizeMin++
		case "f1000":
			sizeMin += 1000
		case "A2", "A3":
			if !groups["A"] {
				groups["A"] = true
				sizeMin += 1000
			}
		case "B2":
			if !groups["B"] {
				groups["B"] = true
				sizeMin++
			}
		case "Z2":
			z++
		}
	}
	sizeMax = sizeMin
	if z > 0 {
		sizeMin += 1000
		sizeMax += uint64(z) * 1000
	}
	return entries, sizeMin, sizeMax, z > 1
}

type verifC54Env struct {
	t     *testing.T
	env   *testEnvironment
	repo  *repository.Repository
	ctx   context.Context
	b1    restic.ID
	b1000 restic.ID
	nsnap int
}

var verifC54Time = time.Date(2018, 2, 3, 4, 5, 6, 0, time.UTC)

func (e *verifC54Env) leaf(name, kind string, ino *uint64) *data.Node {
	n := &data.Node{Name: name, Type: data.NodeTypeFile, Mode: 0o644, ModTime: verifC54Time, AccessTime: verifC54Time, ChangeTime: verifC54Time,
		Links: 1, DeviceID: 1, Content: restic.IDs{}}
	*ino++
	n.Inode = *ino
	switch kind {
	case "f0":
	case "f1":
		n.Size, n.Content = 1, restic.IDs{e.b1}
	case "f1000":
		n.Size, n.Content = 1000, restic.IDs{e.b1000}
	case "A2":
		n.Size, n.Content, n.Links, n.Inode = 1000, restic.IDs{e.b1000}, 2, 100
	case "A3":
		n.Size, n.Content, n.Links, n.Inode = 1000, restic.IDs{e.b1000}, 3, 100
	case "B2":
		n.Size, n.Content, n.Links, n.Inode, n.DeviceID = 1, restic.IDs{e.b1}, 2, 100, 2
	case "Z2":
		n.Size, n.Content, n.Links, n.Inode = 1000, restic.IDs{e.b1000}, 2, 0
	case "l":
		n.Type, n.Mode, n.LinkTarget, n.Content = data.NodeTypeSymlink, os.ModeSymlink|0o777, "t", nil
	default:
		e.t.Fatalf("C54: unknown kind %q", kind)
	}
	return n
}

func (e *verifC54Env) saveTree(t verifC54Tree, up restic.BlobSaver) restic.ID {
	ino := uint64(1000)
	var nodes []*data.Node
	for i, k := range t.Root {
		nodes = append(nodes, e.leaf(fmt.Sprintf("n%d", i), k, &ino))
	}
	if t.Sub != nil {
		var sub []*data.Node
		for i, k := range t.Sub {
			sub = append(sub, e.leaf(fmt.Sprintf("s%d", i), k, &ino))
		}
		id := data.TestSaveNodes(e.t, e.ctx, up, sub)
		nodes = append(nodes, &data.Node{Name: "d", Type: data.NodeTypeDir, Mode: os.ModeDir | 0o755, ModTime: verifC54Time, AccessTime: verifC54Time,
			ChangeTime: verifC54Time, Subtree: &id})
	}
	return data.TestSaveNodes(e.t, e.ctx, up, nodes)
}

func (e *verifC54Env) snapshot(tree restic.ID, host string) string {
	e.nsnap++
	sn := &data.Snapshot{Time: verifC54Time.Add(time.Duration(e.nsnap) * time.Minute), Tree: &tree, Paths: []string{"/data"}, Hostname: host, Username: "verif"}
	id, err := data.SaveSnapshot(e.ctx, e.repo, sn)
	if err != nil {
		e.t.Fatalf("C54 forge: %v", err)
	}
	return id.String()
}

type verifC54Stats struct {
	TotalSize      uint64 `json:"total_size"`
	TotalFileCount uint64 `json:"total_file_count"`
	SnapshotsCount int    `json:"snapshots_count"`
}

func (e *verifC54Env) stats(args []string, hosts []string) (*verifC54Stats, string, error) {
	gopts := e.env.gopts
	gopts.JSON = true
	gopts.NoLock = true
	var out string
	var rerr error
	pan, msg := vh.NoPanic(func() {
		buf, err := withCaptureStdout(e.t, gopts, func(ctx context.Context, gopts global.Options) error {
			opts := StatsOptions{countMode: countModeRestoreSize}
			opts.Hosts = hosts
			return runStats(ctx, opts, gopts, args, gopts.Term)
		})
		out, rerr = buf.String(), err
	})
	if pan {
		return nil, out, fmt.Errorf("panic: %s", msg)
	}
	if rerr != nil {
		return nil, out, rerr
	}
	for _, l := range strings.Split(out, "\n") {
		l = strings.TrimSpace(l)
		if strings.HasPrefix(l, "{") && strings.Contains(l, "snapshots_count") {
			var s verifC54Stats
			if err := json.Unmarshal([]byte(l), &s); err != nil {
				return nil, out, err
			}
			return &s, out, nil
		}
	}
	return nil, out, fmt.Errorf("no statistics line in output")
}

// restoredSize restores the snapshot with the real restorer and measures what is on disk.
func (e *verifC54Env) restored(id string, dir string) (entries int, size uint64, err error) {
	gopts := e.env.gopts
	gopts.NoLock = true
	err = withTermStatus(e.t, gopts, func(ctx context.Context, gopts global.Options) error {
		return runRestore(ctx, RestoreOptions{Target: dir}, gopts, gopts.Term, []string{id})
	})
	if err != nil {
		return 0, 0, err
	}
	type key struct{ dev, ino uint64 }
	seen := map[key]bool{}
	err = filepath.Walk(dir, func(p string, fi os.FileInfo, err error) error {
		if err != nil {
			return err
		}
		if p == dir {
			return nil
		}
		entries++
		if fi.Mode().IsRegular() {
			st := fi.Sys().(*syscall.Stat_t)
			k := key{uint64(st.Dev), uint64(st.Ino)}
			if !seen[k] {
				seen[k] = true
				size += uint64(fi.Size())
			}
		}
		return nil
	})
	return entries, size, err
}

func TestVerif_C54(t *testing.T) {
	r := vh.Start(t, "C54")
	defer r.Finish()
	maxNodes := vh.Pick(r, 4, 5)
	r.Rule(fmt.Sprintf("every tree of at most %d nodes (root multiset + optional sub-directory multiset over 8 leaf kinds incl. hard-link groups on two devices and an inode-0 file) x snapshot selections {T; T twice via --host; T+P2; T+P3 by ID} through the real runStats --mode restore-size --json; trees of at most %d nodes are also restored with the real runRestore and measured; non-trivial = the tree contains at least two members of one hard-link group, or two snapshots are selected", maxNodes, maxNodes-1))
	r.Assume("non-file nodes carry size 0 and directories Links 0, as written by the archiver", "several inode-0 files with Links 2 in one snapshot: counted once or each (left open)")

	env, cleanup := withTestEnvironment(t)
	defer cleanup()
	testRunInit(t, env.gopts)

	hg := env.gopts
	hg.BackendTestHook = nil
	hg.NoCache = true
	err := withTermStatus(t, hg, func(ctx context.Context, hg global.Options) error {
		printer := progress.NewTerminalPrinter(false, 0, hg.Term)
		repo, err := global.OpenRepository(ctx, hg, printer)
		if err != nil {
			return err
		}
		e := &verifC54Env{t: t, env: env, repo: repo, ctx: ctx}
		partners := []verifC54Tree{{Root: []string{"f1000", "A2", "A3", "B2"}}, {Root: []string{"Z2", "l"}, Sub: []string{"f0", "A2", "B2"}}}

		var mine []verifC54Tree
		for _, tr := range verifC54Trees(maxNodes) {
			if r.Case(tr.key()) {
				mine = append(mine, tr)
			}
		}
		// forge: blobs and all trees of this shard in one upload
		treeIDs := map[string]restic.ID{}
		big := make([]byte, 1000)
		for i := range big {
			big[i] = byte(i * 7)
		}
		if err := repo.WithBlobUploader(ctx, func(ctx context.Context, up restic.BlobSaverWithAsync) error {
			var err error
			if e.b1, _, _, err = up.SaveBlob(ctx, restic.DataBlob, []byte("x"), restic.ID{}, false); err != nil {
				return err
			}
			if e.b1000, _, _, err = up.SaveBlob(ctx, restic.DataBlob, big, restic.ID{}, false); err != nil {
				return err
			}
			for _, tr := range append(append([]verifC54Tree{}, partners...), mine...) {
				treeIDs[tr.key()] = e.saveTree(tr, up)
			}
			return nil
		}); err != nil {
			return err
		}
		pIDs := []string{e.snapshot(treeIDs[partners[0].key()], "partner"), e.snapshot(treeIDs[partners[1].key()], "partner")}

		for ci, tr := range mine {
			if r.Expired() {
				break
			}
			ck := tr.key()
			host := fmt.Sprintf("case-%d", ci)
			id1 := e.snapshot(treeIDs[ck], host)
			id2 := e.snapshot(treeIDs[ck], host)
			_, _, _, multiZ := tr.model()
			r.State(ck)
			grp := map[string]int{}
			for _, k := range append(append([]string{}, tr.Root...), tr.Sub...) {
				switch k {
				case "A2", "A3":
					grp["A"]++
				case "B2":
					grp["B"]++
				case "Z2":
					grp["Z"]++
				}
			}
			hasGroup := grp["A"] > 1 || grp["B"] > 1 || grp["Z"] > 1

			type sel struct {
				name  string
				args  []string
				hosts []string
				trees []verifC54Tree
			}
			sels := []sel{
				{"single", []string{id1}, nil, []verifC54Tree{tr}},
				{"twice-by-host", nil, []string{host}, []verifC54Tree{tr, tr}},
				{"with-P2", []string{id1, pIDs[0]}, nil, []verifC54Tree{tr, partners[0]}},
				{"with-P3", []string{pIDs[1], id2}, nil, []verifC54Tree{partners[1], tr}},
			}
			for _, s := range sels {
				var wantEnt int
				var wantMin, wantMax uint64
				for _, x := range s.trees {
					en, mi, ma, _ := x.model()
					wantEnt += en
					wantMin += mi
					wantMax += ma
				}
				st, out, err := e.stats(s.args, s.hosts)
				r.Eval(1)
				r.Transition(1)
				vk := fmt.Sprintf("%s|%s", s.name, ck)
				detail := map[string]any{"tree": tr, "selection": s.name, "partner_trees": partners, "expected_entries": wantEnt, "expected_size_min": wantMin, "expected_size_max": wantMax}
				if err != nil {
					r.Violationf(ck, "C54|error|"+vk, detail, "runStats failed on %s: %v (output %q)", vk, err, out)
					continue
				}
				r.Trace(1)
				if hasGroup || len(s.trees) > 1 {
					r.Nontrivial(vk)
				}
				r.Outcome(fmt.Sprintf("%d|%d|%d", st.TotalSize, st.TotalFileCount, st.SnapshotsCount))
				if st.SnapshotsCount != len(s.trees) {
					r.Violationf(ck, "C54|snapshots-count|"+vk, detail, "%s: snapshots_count=%d, selected %d", vk, st.SnapshotsCount, len(s.trees))
				}
				if int(st.TotalFileCount) != wantEnt {
					r.Violationf(ck, "C54|entries|"+vk, detail, "%s: total_file_count=%d, the selected snapshots contain %d entries", vk, st.TotalFileCount, wantEnt)
				}
				if st.TotalSize < wantMin || st.TotalSize > wantMax {
					kind := "size"
					if st.TotalSize < wantMin && len(s.trees) > 1 {
						kind = "size-too-small-multi-snapshot"
					} else if st.TotalSize > wantMax && hasGroup {
						kind = "size-hardlinks-counted-twice"
					}
					r.Violationf(ck, "C54|"+kind+"|"+vk, detail, "%s: total_size=%d, expected %d (hard-link groups once per snapshot; upper bound %d)", vk, st.TotalSize, wantMin, wantMax)
				}
				if s.name == "single" && tr.nodes() <= maxNodes-1 && !multiZ {
					dir := filepath.Join(r.Scratch, fmt.Sprintf("restore-%d", ci))
					en, sz, err := e.restored(id1, dir)
					_ = os.RemoveAll(dir)
					r.Count("restores_compared", 1)
					if err != nil {
						r.Note("restore of %s failed: %v", ck, err)
						r.Count("restores_failed", 1)
					} else {
						if uint64(en) != st.TotalFileCount {
							r.Violationf(ck, "C54|entries-vs-restore|"+vk, detail, "%s: total_file_count=%d but the restore created %d entries", vk, st.TotalFileCount, en)
						}
						if sz != st.TotalSize {
							r.Violationf(ck, "C54|size-vs-restore|"+vk, detail, "%s: total_size=%d but the restored regular files occupy %d bytes (distinct inodes)", vk, st.TotalSize, sz)
						}
					}
				}
				if ck == "root[f1,A2,A3] sub[A2]" || ck == "root[A2,A2,B2]" {
					r.Sample(map[string]any{"tree": ck, "selection": s.name, "stats": st, "expected_entries": wantEnt, "expected_size": wantMin})
				}
			}
			// drop this case's snapshots again
			_ = os.Remove(filepath.Join(env.repo, "snapshots", id1))
			_ = os.Remove(filepath.Join(env.repo, "snapshots", id2))
		}
		return nil
	})
	if err != nil {
		t.Fatalf("C54 harness: %v", err)
	}
}

package main

// C14: readers never see a snapshot whose data is not yet indexed.
//
// Engine GATE with two "processes" in one synctest bubble: a writer (the real
// runBackup of a scratch directory) and a reader (a real reading command:
// restore latest / stats over all snapshots / ls latest / diff of the two
// newest), each with its own Repository object over ONE shared gated store —
// they share no memory, backend operations are their only interaction.
// Explored: all interleavings of the two processes' backend operations within
// the preemption bound (switching away from a process that could continue is a
// preemption; within one process the oldest parked operation is the default and
// any other order costs one deviation as well).
//
// Two further scenarios let one upload of a writer's index file fail while
// every index counts as "full" (index.Full hook), i.e. preliminary index files
// are written during the backup as in large repositories: the writer may then
// fail, but a reader still must not see a snapshot whose data is not indexed.
//
// Oracle: the reader command never fails (no faults are injected, the writer
// only ever adds files), and what `restore latest` wrote equals the content of
// one of the snapshots that existed at some point (old or new).  The writer
// must succeed as well.

import (
	"context"
	"crypto/sha256"
	"encoding/hex"
	"fmt"
	"io/fs"
	"os"
	"path/filepath"
	"sort"
	"strings"
	"testing"
	"time"

	"github.com/restic/restic/internal/backend"
	"github.com/restic/restic/internal/data"
	"github.com/restic/restic/internal/global"
	"github.com/restic/restic/internal/repository"
	"github.com/restic/restic/internal/repository/index"
	"github.com/restic/restic/internal/verifshim/detrand"
	"github.com/restic/restic/internal/verifshim/gatebe"
	"github.com/restic/restic/internal/verifshim/oracle"
	"github.com/restic/restic/internal/verifshim/vh"
	"github.com/restic/restic/internal/verifshim/vx"
	"github.com/restic/restic/internal/verifshim/xplore"
)

type verifC14Reader struct {
	name string
	run  func(ctx context.Context, gopts global.Options, target string, x *xplore.Exec) error
}

// verifC14ExtraReaders is filled by platform-specific files (the in-process mount reader).
var verifC14ExtraReaders []verifC14Reader

type verifC14Exec struct {
	store              *gatebe.Store
	werr, rerr         error
	wdone, rdone       bool
	target             string
	restore            func()
	writerMutsAtReader int
	faulted            bool
}

func verifC14TreeSig(root string) (string, error) {
	var l []string
	err := filepath.WalkDir(root, func(p string, d fs.DirEntry, err error) error {
		if err != nil {
			return err
		}
		rel, _ := filepath.Rel(root, p)
		if d.IsDir() {
			l = append(l, "d:"+rel)
			return nil
		}
		b, err := os.ReadFile(p)
		if err != nil {
			return err
		}
		h := sha256.Sum256(b)
		l = append(l, "f:"+rel+":"+hex.EncodeToString(h[:8]))
		return nil
	})
	sort.Strings(l)
	return strings.Join(l, "\n"), err
}

func TestVerif_C14(t *testing.T) {
	r := vh.Start(t, "C14")
	defer r.Finish()
	r.Rule("GATE, two processes (writer = real runBackup, reader = real restore/stats/ls/diff) over one shared gated store; all interleavings of their backend operations within the preemption bound. non-trivial = execution in which the reader issued at least one backend operation after the writer's first and before the writer's last mutation (a real overlap). states = distinct complete schedules.")
	r.Assume("processes interact only through backend operations", "lock files are not gated (locking is C12)", "goroutine interleaving inside one process between two backend events is the Go runtime's choice")
	ctx := context.Background()
	oracle.LowKDF()

	// source directories: old (already backed up) and new (backed up by the writer)
	// (the source directory is backed up by absolute path: every path component becomes a tree, so the
	// writer's sequence of backend operations depends on the depth of the scratch directory - the driver
	// gives shards, confirmation lanes and replays scratch paths of identical shape)
	src := filepath.Join(r.Scratch, "src")
	mk := func(files map[string][]byte) {
		_ = os.RemoveAll(src)
		for n, b := range files {
			p := filepath.Join(src, n)
			_ = os.MkdirAll(filepath.Dir(p), 0o755)
			if err := os.WriteFile(p, b, 0o644); err != nil {
				t.Fatal(err)
			}
		}
	}
	oldFiles := map[string][]byte{"a": oracle.LCG(51, 3000), "d/b": oracle.LCG(52, 5000), "common": oracle.LCG(53, 2000)}
	newFiles := map[string][]byte{"a": oracle.LCG(54, 3000), "d/b": oracle.LCG(52, 5000), "common": oracle.LCG(53, 2000), "d/e/new": oracle.LCG(55, 7000), "n2": oracle.LCG(56, 6000)}

	// fixture: repository with the old snapshot (made by the real backup command, ungated)
	_, store0, err := oracle.NewRepo(ctx, 2, repository.Options{})
	if err != nil {
		t.Fatal(err)
	}
	mk(oldFiles)
	backupOpts := BackupOptions{Host: "verifhost", GroupBy: data.SnapshotGroupByOptions{Host: true, Path: true}, TimeStamp: "2021-06-06 06:06:06"}
	{
		be := &gatebe.Backend{S: store0, Proc: "setup", Conns: 3, AtomicReplace: true}
		gopts := verifGopts(t, r.Scratch, be, oracle.Password)
		gopts.PackSize = 0
		if err := verifRun(t, ctx, gopts, func(ctx context.Context, gopts global.Options) error {
			return runBackup(ctx, backupOpts, gopts, gopts.Term, []string{src})
		}); err != nil {
			t.Fatalf("fixture backup: %v", err)
		}
	}
	base := store0.Snapshot()
	oldSig, _ := verifC14TreeSig(src)
	mk(newFiles)
	newSig, _ := verifC14TreeSig(src)
	backupOpts.TimeStamp = "2021-06-06 07:07:07"

	type reader = verifC14Reader
	readers := []reader{
		{"restore-latest", func(ctx context.Context, gopts global.Options, target string, _ *xplore.Exec) error {
			return runRestore(ctx, RestoreOptions{Target: target}, gopts, gopts.Term, []string{"latest"})
		}},
		{"stats-all", func(ctx context.Context, gopts global.Options, _ string, _ *xplore.Exec) error {
			return runStats(ctx, StatsOptions{countMode: countModeRawData}, gopts, nil, gopts.Term)
		}},
		{"ls-latest", func(ctx context.Context, gopts global.Options, _ string, _ *xplore.Exec) error {
			return runLs(ctx, LsOptions{Recursive: true}, gopts, []string{"latest"}, gopts.Term)
		}},
	}
	readers = append(readers, verifC14ExtraReaders...)
	bound := vh.Pick(r, 2, 3)
	execNo := 0
	type scenario struct {
		rd     verifC14Reader
		faulty bool // the upload of one of the writer's index files may fail (every index counts as full: it is uploaded right after its pack)
	}
	var scens []scenario
	for _, rd := range readers {
		scens = append(scens, scenario{rd, false})
	}
	scens = append(scens, scenario{readers[1], true}, scenario{readers[2], true}) // (not restore: its error path leaves a progress goroutine behind, which a bubble cannot end with)
	for _, scn := range scens {
		rd, faulty := scn.rd, scn.faulty
		name := "backup||" + rd.name
		if faulty {
			name = "backup(index-upload-may-fail)||" + rd.name
		}
		sc := xplore.Scenario{
			Start: func(x *xplore.Exec) {
				execNo++
				st := &verifC14Exec{store: gatebe.NewStoreFrom(base, nil), target: filepath.Join(r.Scratch, fmt.Sprintf("restore-%d", execNo))}
				x.Data = st
				st.restore = detrand.Install(7)
				ungated := map[backend.FileType]bool{backend.LockFile: true}
				wbe := &gatebe.Backend{S: st.store, Proc: "writer", Conns: 2, AtomicReplace: true, X: func() *xplore.Exec { return x }, Ungated: ungated}
				if faulty {
					// preliminary index files are written during the backup (in real repositories after 50000
					// blobs or 10 minutes); one of the writer's index uploads may fail
					wbe.Conns = 1 // uploads one after the other: the k-th index upload is the same file in every replay
					oldFull := index.Full
					index.Full = func(*index.Index) bool { return true }
					fullRestore := st.restore
					st.restore = func() { index.Full = oldFull; fullRestore() }
					wbe.Alts = func(op *gatebe.Op) []string {
						if op.Kind == "Save" && op.Key.Type == backend.IndexFile {
							return []string{"ok", "err"}
						}
						return []string{"ok"}
					}
					wbe.Observe = func(op *gatebe.Op, ans string, err error) {
						if ans == "err" {
							st.faulted = true
						}
					}
				}
				rbe := &gatebe.Backend{S: st.store, Proc: "reader", Conns: 2, AtomicReplace: true, X: func() *xplore.Exec { return x }, Ungated: ungated}
				wopts := verifGopts(t, filepath.Join(r.Scratch, "w"), wbe, oracle.Password)
				ropts := verifGopts(t, filepath.Join(r.Scratch, "r"), rbe, oracle.Password)
				x.Go("writer", func() {
					st.werr = verifRun(t, x.Ctx, wopts, func(ctx context.Context, gopts global.Options) error {
						return runBackup(ctx, backupOpts, gopts, gopts.Term, []string{src})
					})
					st.wdone = true
				})
				x.Go("reader", func() {
					st.rerr = verifRun(t, x.Ctx, ropts, func(ctx context.Context, gopts global.Options) error {
						return rd.run(ctx, gopts, st.target, x)
					})
					st.rdone = true
				})
			},
		}
		check := func(x *xplore.Exec) {
			st := x.Data.(*verifC14Exec)
			st.restore()
			defer os.RemoveAll(st.target)
			r.State(strings.Join(x.Trace, ">"))
			// overlap: a reader event between the first and the last writer mutation
			firstW, lastW := -1, -1
			for i, k := range x.Trace {
				if strings.HasPrefix(k, "writer:Save") {
					if firstW < 0 {
						firstW = i
					}
					lastW = i
				}
			}
			for i, k := range x.Trace {
				if strings.HasPrefix(k, "reader:") && i > firstW && i < lastW && firstW >= 0 {
					r.Nontrivial(strings.Join(x.Trace, ">"))
					break
				}
			}
			if len(x.Panics) > 0 {
				vx.Violation(r, name, x, "C14|panic|"+name, x.Panics[0], nil)
				return
			}
			if x.Deadlock {
				vx.Violation(r, name, x, "C14|deadlock|"+name, "writer/reader blocked forever", nil)
				return
			}
			if st.wdone && st.werr != nil && !st.faulted {
				vx.Violation(r, name, x, "C14|writer-failed|"+name, fmt.Sprintf("the backup failed although no fault was injected: %v", st.werr), nil)
			}
			if st.rdone && st.rerr != nil {
				vx.Violation(r, name, x, "C14|reader-failed|"+rd.name, fmt.Sprintf("the reading command failed while a backup was running concurrently: %v", st.rerr), nil)
				r.Outcome(rd.name + ":reader-error")
				return
			}
			if rd.name == "restore-latest" && st.rdone {
				got, err := verifC14TreeSig(filepath.Join(st.target, src))
				switch {
				case err != nil:
					vx.Violation(r, name, x, "C14|restore-incomplete|"+rd.name, fmt.Sprintf("restore reported success but the restored tree is unreadable: %v", err), nil)
				case got == oldSig:
					r.Outcome(rd.name + ":saw-old-snapshot")
				case got == newSig:
					r.Outcome(rd.name + ":saw-new-snapshot")
				default:
					vx.Violation(r, name, x, "C14|restore-wrong-content|"+rd.name, "restore of 'latest' succeeded but the restored tree equals neither the old nor the new snapshot", nil)
				}
			} else {
				r.Outcome(rd.name + ":ok")
			}
			if len(x.Trace) > 10 {
				r.Sample(map[string]any{"scenario": name, "schedule_len": len(x.Trace), "events": x.Labels[:10]})
			}
		}
		st := vx.Explore(r, t, name, sc, xplore.Options{Policy: xplore.Preempt, Bound: bound, MaxSteps: 800, IdleTimeout: time.Hour}, check)
		r.Note("%s: execs(this shard)=%d", name, st.Execs)
	}
	r.Extra("preemption_bound", bound)
}

// TestVerifRace_C14 runs every scenario body free (gates answer at once, no oracle) under the race detector.
func TestVerifRace_C14(t *testing.T) {
	xplore.Free = 2
	defer func() { xplore.Free = 0 }()
	TestVerif_C14(t)
}

package main

// Shared by the command-level GATE harnesses: global options that make the real
// run* command functions open the repository held in a gatebe store.

import (
	"context"
	"fmt"
	"os"
	"path/filepath"
	"sync/atomic"
	"testing"

	"github.com/restic/restic/internal/backend"
	"github.com/restic/restic/internal/backend/all"
	"github.com/restic/restic/internal/backend/local"
	"github.com/restic/restic/internal/global"
	"github.com/restic/restic/internal/options"
	"github.com/restic/restic/internal/repository"
	"github.com/restic/restic/internal/verifshim/oracle"
)

var verifGoptsCounter atomic.Int64

// verifGopts returns options whose repository is the given backend: the location names an empty local
// directory (so that the normal open path is taken), and the test hook placed ABOVE the retry layer swaps
// in be — an injected failure is therefore final for the command, as a failure that outlasts the retries.
func verifGopts(t testing.TB, scratch string, be backend.Backend, password string) global.Options {
	oracle.LowKDF()
	repository.TestSetLockTimeout(t, 0)
	dir := filepath.Join(scratch, "emptyrepo")
	if err := os.MkdirAll(dir, 0o700); err != nil {
		t.Fatal(err)
	}
	return global.Options{
		Repo:        dir,
		Quiet:       true,
		NoCache:     true,
		Password:    password,
		Extended:    make(options.Options),
		Compression: repository.CompressionAuto,
		Backends:    all.Backends(),
		BackendTestHook: func(_ backend.Backend) (backend.Backend, error) {
			return be, nil
		},
	}
}

// verifRun runs one command function with a terminal, as the integration tests do.
func verifRun(t testing.TB, ctx context.Context, gopts global.Options, fn func(ctx context.Context, gopts global.Options) error) error {
	return withTermStatus(t, gopts, func(_ context.Context, gopts global.Options) error {
		return fn(ctx, gopts)
	})
}

// verifGoptsRouted is verifGopts for commands that open two repositories (copy): every named backend gets
// its own empty local directory as location, and the test hook swaps in the backend registered for the
// directory the command opened.  The returned options have Repo set to the directory of `primary`.
func verifGoptsRouted(t testing.TB, scratch string, routes map[string]backend.Backend, primary, password string) (global.Options, map[string]string) {
	dirs := map[string]string{}
	byDir := map[string]backend.Backend{}
	for name, be := range routes {
		dir := filepath.Join(scratch, "emptyrepo-"+name)
		if err := os.MkdirAll(dir, 0o700); err != nil {
			t.Fatal(err)
		}
		dirs[name] = dir
		byDir[dir] = be
	}
	gopts := verifGopts(t, scratch, nil, password)
	gopts.Repo = dirs[primary]
	gopts.BackendTestHook = func(opened backend.Backend) (backend.Backend, error) {
		l := backend.AsBackend[*local.Local](opened)
		if l == nil {
			return nil, fmt.Errorf("verif: unexpected backend type %T", opened)
		}
		be, ok := byDir[l.Path]
		if !ok {
			return nil, fmt.Errorf("verif: no backend registered for %v", l.Path)
		}
		return be, nil
	}
	return gopts, dirs
}

package main

// C26: snapshot rewrites (tag, rewrite, rewrite --new-host, repair snapshots [--forget]) never lose the
// snapshot at any crash point or under any single failing backend operation.
//
// Engine GATE (crashx) on the real runTag / runRewrite command functions: the
// repository lives in the gated in-memory store (lock files pass ungated);
// every completion order and every single injected failure within the
// deviation bound; every scheduler step + every subset of in-flight mutations
// is a crash state.
//
// State oracle: for each original snapshot S, either S is still present and
// byte-identical, or a successor (a snapshot whose `original` field is S or
// S's own original) is present whose content equals the expected transformed
// content; the repository passes check --read-data.
// End oracle (command succeeded, no fault injected): the successor exists for
// every selected snapshot, its `original` is S (or S's original), the old file
// is gone (tag, rewrite --forget), time/paths/host are preserved unless the
// command changes them.

import (
	"context"
	"fmt"
	"strings"
	"testing"
	"time"

	"github.com/restic/restic/internal/backend"
	"github.com/restic/restic/internal/data"
	"github.com/restic/restic/internal/filter"
	"github.com/restic/restic/internal/global"
	"github.com/restic/restic/internal/repository"
	"github.com/restic/restic/internal/restic"
	"github.com/restic/restic/internal/verifshim/crashx"
	"github.com/restic/restic/internal/verifshim/gatebe"
	"github.com/restic/restic/internal/verifshim/oracle"
	"github.com/restic/restic/internal/verifshim/vh"
	"github.com/restic/restic/internal/verifshim/xplore"
)

type verifC26Snap struct {
	id       restic.ID
	content  oracle.Content
	original *restic.ID
	host     string
	time     time.Time
}

type verifC26Op struct {
	name      string
	run       func(ctx context.Context, gopts global.Options) error
	transform func(c oracle.Content) oracle.Content // expected content of the successor
	oldGone   bool                                  // the original file must be gone after success
	newHost   string
}

func verifC26Without(c oracle.Content, sub string) oracle.Content {
	o := oracle.Content{}
	for p, v := range c {
		if strings.Contains(p, sub) {
			continue
		}
		o[p] = v
	}
	return o
}

func TestVerif_C26(t *testing.T) {
	r := vh.Start(t, "C26")
	defer r.Finish()
	r.Rule("GATE: every completion order and every single injected backend failure of the real runTag / runRewrite within the deviation bound; crash states = every scheduler step + every subset of in-flight mutations. non-trivial = crash state that differs from the initial state (a successor already saved and/or an original already removed).")
	r.Assume("backend Save/Remove are atomic (C36)", "lock files are not gated in this scenario (locking is C12/C13)")
	ctx := context.Background()
	oracle.LowKDF()

	// fixture: two snapshots; the second one already carries an `original` (it was tagged before)
	repo, store, err := oracle.NewRepo(ctx, 2, repository.Options{})
	if err != nil {
		t.Fatal(err)
	}
	var snaps []verifC26Snap
	forge := func(spec oracle.Spec, tag string, sec int) {
		tm := time.Date(2021, 3, 3, 3, 3, sec, 0, time.UTC)
		id, model, err := oracle.Forge(ctx, repo, spec, oracle.ForgeOpts{Tags: []string{tag}, Time: tm, Host: "hostA"})
		if err != nil {
			t.Fatal(err)
		}
		snaps = append(snaps, verifC26Snap{id: id, content: model, host: "hostA", time: tm})
	}
	forge(oracle.Spec{"a": oracle.LCG(31, 2000), "dir/skipme": oracle.LCG(32, 1500), "dir/keep": oracle.LCG(33, 1800)}, "t1", 1)
	forge(oracle.Spec{"a": oracle.LCG(31, 2000), "other/skipme": oracle.LCG(34, 900), "z": oracle.LCG(35, 700)}, "t2", 2)
	// give the second snapshot a history: re-save it with an `original` and drop the old file
	{
		sn, err := data.LoadSnapshot(ctx, repo, snaps[1].id)
		if err != nil {
			t.Fatal(err)
		}
		orig := snaps[1].id
		sn.Original = &orig
		sn.Tags = append(sn.Tags, "earlier")
		nid, err := data.SaveSnapshot(ctx, repo, sn)
		if err != nil {
			t.Fatal(err)
		}
		store.Del("setup", gatebe.FileKey{Type: backend.SnapshotFile, Name: orig.String()})
		snaps[1].id = nid
		snaps[1].original = &orig
	}
	base := store.Snapshot()
	sem := oracle.SemNamer(repo.Key())

	ops := []verifC26Op{
		{name: "tag-add", oldGone: true, transform: func(c oracle.Content) oracle.Content { return c },
			run: func(ctx context.Context, gopts global.Options) error {
				return runTag(ctx, TagOptions{AddTags: data.TagLists{data.TagList{"added"}}}, gopts, gopts.Term, nil)
			}},
		{name: "tag-set", oldGone: true, transform: func(c oracle.Content) oracle.Content { return c },
			run: func(ctx context.Context, gopts global.Options) error {
				return runTag(ctx, TagOptions{SetTags: data.TagLists{data.TagList{"only"}}}, gopts, gopts.Term, nil)
			}},
		{name: "rewrite-exclude-forget", oldGone: true, transform: func(c oracle.Content) oracle.Content { return verifC26Without(c, "skipme") },
			run: func(ctx context.Context, gopts global.Options) error {
				return runRewrite(ctx, RewriteOptions{Forget: true, ExcludePatternOptions: filter.ExcludePatternOptions{Excludes: []string{"skipme"}}}, gopts, nil, gopts.Term)
			}},
		{name: "rewrite-exclude-keep", oldGone: false, transform: func(c oracle.Content) oracle.Content { return verifC26Without(c, "skipme") },
			run: func(ctx context.Context, gopts global.Options) error {
				return runRewrite(ctx, RewriteOptions{ExcludePatternOptions: filter.ExcludePatternOptions{Excludes: []string{"skipme"}}}, gopts, nil, gopts.Term)
			}},
		{name: "rewrite-new-host-forget", oldGone: true, newHost: "hostB", transform: func(c oracle.Content) oracle.Content { return c },
			run: func(ctx context.Context, gopts global.Options) error {
				return runRewrite(ctx, RewriteOptions{Forget: true, Metadata: snapshotMetadataArgs{Hostname: "hostB"}}, gopts, nil, gopts.Term)
			}},
	}

	// listSnaps loads all snapshots of a state
	type loaded struct {
		id restic.ID
		sn *data.Snapshot
	}
	listSnaps := func(ctx context.Context, st gatebe.State) (*repository.Repository, []loaded, []string) {
		rp, _, err := oracle.Open(ctx, st, oracle.Password)
		if err != nil {
			return nil, nil, []string{"open: " + err.Error()}
		}
		if err := rp.LoadIndex(ctx, restic.NoopTerminalCounterFactory); err != nil {
			return nil, nil, []string{"LoadIndex: " + err.Error()}
		}
		var out []loaded
		var probs []string
		for k := range st {
			if k.Type != backend.SnapshotFile {
				continue
			}
			id, err := restic.ParseID(k.Name)
			if err != nil {
				continue
			}
			sn, err := data.LoadSnapshot(ctx, rp, id)
			if err != nil {
				probs = append(probs, fmt.Sprintf("snapshot %v unreadable: %v", id.Str(), err))
				continue
			}
			out = append(out, loaded{id, sn})
		}
		return rp, out, probs
	}
	// survives: S itself or a valid successor is present
	survives := func(ctx context.Context, rp *repository.Repository, all []loaded, s verifC26Snap, op verifC26Op) string {
		var why []string
		for _, l := range all {
			isSelf := l.id == s.id
			isSucc := l.sn.Original != nil && (*l.sn.Original == s.id || (s.original != nil && *l.sn.Original == *s.original)) && !isSelf
			if !isSelf && !isSucc {
				continue
			}
			if l.sn.Tree == nil {
				why = append(why, l.id.Str()+": no tree")
				continue
			}
			got, err := oracle.Walk(ctx, rp, *l.sn.Tree)
			if err != nil {
				why = append(why, l.id.Str()+": "+err.Error())
				continue
			}
			want := s.content
			if isSucc {
				want = op.transform(s.content)
			}
			if ok, d := want.Equal(got); !ok {
				// a successor of the *other* snapshot sharing the same original chain is not ours
				why = append(why, l.id.Str()+": "+d)
				continue
			}
			return ""
		}
		return fmt.Sprintf("neither snapshot %v nor a complete successor is present (%s)", s.id.Str(), strings.Join(why, "; "))
	}

	bound := vh.Pick(r, 1, 2)
	seen := map[string]bool{}
	for _, op := range ops {
		op := op
		sc := crashx.Scenario{
			Property: "C26", Name: op.name, Base: base, Sem: sem,
			Backend: func(be *gatebe.Backend) { be.Ungated = map[backend.FileType]bool{backend.LockFile: true} },
			Op: func(ctx context.Context, run *crashx.Run, _ any) error {
				be := run.Data.(*gatebe.Backend)
				gopts := verifGopts(t, r.Scratch, be, oracle.Password)
				return verifRun(t, ctx, gopts, op.run)
			},
			Prepare: func(ctx context.Context, run *crashx.Run, be *gatebe.Backend) (any, error) {
				run.Data = be
				return nil, nil
			},
			NoFaultFailureIsViolation: true,
			StateOracle: func(ctx context.Context, c crashx.Crash) []string {
				rp, all, probs := listSnaps(ctx, c.State)
				if rp == nil {
					return probs
				}
				for _, s := range snaps {
					if why := survives(ctx, rp, all, s, op); why != "" {
						probs = append(probs, "missing: "+why)
					}
				}
				cr := oracle.Check(ctx, rp, true)
				for _, e := range cr.Errors {
					probs = append(probs, "check: "+e)
				}
				return probs
			},
			EndOracle: func(ctx context.Context, run *crashx.Run) []string {
				if !run.Done || run.Err != nil || run.Faulted {
					return nil
				}
				st := run.Store.Snapshot()
				rp, all, probs := listSnaps(ctx, st)
				if rp == nil {
					return probs
				}
				for _, s := range snaps {
					var succ *loaded
					for i, l := range all {
						if l.id != s.id && l.sn.Original != nil && (*l.sn.Original == s.id || (s.original != nil && *l.sn.Original == *s.original)) {
							succ = &all[i]
						}
					}
					if succ == nil {
						probs = append(probs, fmt.Sprintf("snapshot: command succeeded but no successor of %v exists", s.id.Str()))
						continue
					}
					wantOrig := s.id
					if s.original != nil && strings.HasPrefix(op.name, "tag") {
						wantOrig = *s.original // tag keeps the first ID; rewrite always records its direct predecessor
					}
					if *succ.sn.Original != wantOrig {
						probs = append(probs, fmt.Sprintf("snapshot: successor %v has original %v, want %v", succ.id.Str(), succ.sn.Original.Str(), wantOrig.Str()))
					}
					_, oldPresent := st[gatebe.FileKey{Type: backend.SnapshotFile, Name: s.id.String()}]
					if op.oldGone && oldPresent {
						probs = append(probs, fmt.Sprintf("snapshot: original %v still present after a successful %s", s.id.Str(), op.name))
					}
					if !op.oldGone && !oldPresent {
						probs = append(probs, fmt.Sprintf("snapshot: original %v removed although not requested", s.id.Str()))
					}
					if !succ.sn.Time.Equal(s.time) {
						probs = append(probs, fmt.Sprintf("snapshot: successor %v changed the time", succ.id.Str()))
					}
					wantHost := s.host
					if op.newHost != "" {
						wantHost = op.newHost
					}
					if succ.sn.Hostname != wantHost {
						probs = append(probs, fmt.Sprintf("snapshot: successor %v has host %q, want %q", succ.id.Str(), succ.sn.Hostname, wantHost))
					}
				}
				return probs
			},
		}
		crashx.Explore(r, t, sc, bound, seen)
	}
	// ---- repair snapshots (the third command of the statement): a repository with two healthy snapshots
	// (S1, S2), a healthy snapshot whose root tree is empty (S3: what `rewrite --exclude` of everything leaves
	// behind) and a damaged one (S4: file f = [stored blob, missing blob], file g intact).  At every crash
	// state: S1, S2, S3 are present and untouched; S4 or a successor (original = S4, f reduced to the stored
	// blob, g intact) is present.  After success: the successor exists; S4 is gone iff --forget.
	{
		store2 := gatebe.NewStoreFrom(base, nil)
		be2 := &gatebe.Backend{S: store2, Proc: "setup", Conns: 2, AtomicReplace: true}
		repo2, err := oracle.OpenOn(ctx, be2, repository.Options{})
		if err != nil {
			t.Fatal(err)
		}
		if err := repo2.LoadIndex(ctx, restic.NoopTerminalCounterFactory); err != nil {
			t.Fatal(err)
		}
		xbuf, gbuf := oracle.LCG(41, 1200), oracle.LCG(42, 800)
		missing := restic.Hash([]byte("C26: a data blob that is in no pack"))
		var emptyTree, badTree restic.ID
		err = repo2.WithBlobUploader(ctx, func(ctx context.Context, up restic.BlobSaverWithAsync) error {
			xid, _, _, err := up.SaveBlob(ctx, restic.DataBlob, xbuf, restic.ID{}, false)
			if err != nil {
				return err
			}
			gid, _, _, err := up.SaveBlob(ctx, restic.DataBlob, gbuf, restic.ID{}, false)
			if err != nil {
				return err
			}
			tb := data.NewTreeJSONBuilder()
			buf, err := tb.Finalize()
			if err != nil {
				return err
			}
			if emptyTree, _, _, err = up.SaveBlob(ctx, restic.TreeBlob, buf, restic.ID{}, false); err != nil {
				return err
			}
			tb = data.NewTreeJSONBuilder()
			for _, n := range []*data.Node{
				{Name: "f", Type: data.NodeTypeFile, Mode: 0o644, Size: uint64(len(xbuf) + 500), Content: restic.IDs{xid, missing}},
				{Name: "g", Type: data.NodeTypeFile, Mode: 0o644, Size: uint64(len(gbuf)), Content: restic.IDs{gid}},
			} {
				if err := tb.AddNode(n); err != nil {
					return err
				}
			}
			if buf, err = tb.Finalize(); err != nil {
				return err
			}
			badTree, _, _, err = up.SaveBlob(ctx, restic.TreeBlob, buf, restic.ID{}, false)
			return err
		})
		if err != nil {
			t.Fatal(err)
		}
		save := func(tree restic.ID, tag string, sec int) restic.ID {
			tr := tree
			sn := &data.Snapshot{Time: time.Date(2021, 3, 3, 3, 4, sec, 0, time.UTC), Tree: &tr, Paths: []string{"/forged"}, Hostname: "hostA", Username: "verif", Tags: []string{tag}}
			id, err := data.SaveSnapshot(ctx, repo2, sn)
			if err != nil {
				t.Fatal(err)
			}
			return id
		}
		s3 := save(emptyTree, "empty-root", 3)
		s4 := save(badTree, "damaged", 4)
		base2 := store2.Snapshot()
		repaired := oracle.Content{"/f": oracle.FileDesc(xbuf), "/g": oracle.FileDesc(gbuf)}
		untouched := []restic.ID{snaps[0].id, snaps[1].id, s3}

		repairState := func(ctx context.Context, st gatebe.State, done, forget bool) []string {
			rp, all, probs := listSnaps(ctx, st)
			if rp == nil {
				return probs
			}
			for _, id := range untouched {
				k := gatebe.FileKey{Type: backend.SnapshotFile, Name: id.String()}
				if string(st[k]) != string(base2[k]) || len(st[k]) == 0 {
					probs = append(probs, fmt.Sprintf("missing: healthy snapshot %v was removed or changed by repair snapshots", id.Str()))
				}
			}
			for _, l := range all {
				if l.sn.Original != nil {
					for _, id := range untouched {
						if *l.sn.Original == id {
							probs = append(probs, fmt.Sprintf("snapshot: healthy snapshot %v got a successor %v", id.Str(), l.id.Str()))
						}
					}
				}
			}
			_, oldPresent := st[gatebe.FileKey{Type: backend.SnapshotFile, Name: s4.String()}]
			var succ *loaded
			for i, l := range all {
				if l.sn.Original != nil && *l.sn.Original == s4 {
					succ = &all[i]
				}
			}
			succOK := ""
			if succ != nil {
				got, err := oracle.Walk(ctx, rp, *succ.sn.Tree)
				if err != nil {
					succOK = err.Error()
				} else if ok, d := repaired.Equal(got); !ok {
					succOK = d
				}
			}
			switch {
			case succ == nil && !oldPresent:
				probs = append(probs, fmt.Sprintf("missing: neither the damaged snapshot %v nor a repaired successor is present", s4.Str()))
			case succ != nil && succOK != "":
				probs = append(probs, fmt.Sprintf("missing: the successor %v of the damaged snapshot is not the repaired content: %s", succ.id.Str(), succOK))
			}
			if done {
				if succ == nil {
					probs = append(probs, "snapshot: repair snapshots succeeded but the damaged snapshot has no successor")
				}
				if forget && oldPresent {
					probs = append(probs, "snapshot: repair snapshots --forget succeeded but the damaged snapshot is still present")
				}
				if !forget && !oldPresent {
					probs = append(probs, "snapshot: repair snapshots (without --forget) removed the damaged snapshot")
				}
			}
			return probs
		}
		for _, forget := range []bool{false, true} {
			forget := forget
			name := "repair-snapshots"
			if forget {
				name += "-forget"
			}
			sc := crashx.Scenario{
				Property: "C26", Name: name, Base: base2, Sem: sem,
				Backend: func(be *gatebe.Backend) {
					be.Ungated = map[backend.FileType]bool{backend.LockFile: true}
					// Downloads do not fail here (they may be interrupted and repeated): to `repair snapshots` a
					// tree that cannot be loaded IS a damaged tree, and a snapshot whose root is unreadable is
					// removed by design - a failing Load would turn a healthy snapshot into a damaged one, which
					// is outside the statement (interruption points of the save/remove sequence).
					be.Alts = func(op *gatebe.Op) []string {
						switch op.Kind {
						case "Save", "Remove":
							return []string{"ok", "err", "err-after"}
						case "Load":
							return []string{"ok", "retried"}
						}
						return []string{"ok", "err"}
					}
				},
				Prepare: func(ctx context.Context, run *crashx.Run, be *gatebe.Backend) (any, error) {
					run.Data = be
					return nil, nil
				},
				Op: func(ctx context.Context, run *crashx.Run, _ any) error {
					be := run.Data.(*gatebe.Backend)
					gopts := verifGopts(t, r.Scratch, be, oracle.Password)
					return verifRun(t, ctx, gopts, func(ctx context.Context, gopts global.Options) error {
						return runRepairSnapshots(ctx, gopts, RepairOptions{Forget: forget}, nil, gopts.Term)
					})
				},
				NoFaultFailureIsViolation: true,
				StateOracle: func(ctx context.Context, c crashx.Crash) []string {
					return repairState(ctx, c.State, false, forget)
				},
				EndOracle: func(ctx context.Context, run *crashx.Run) []string {
					if !run.Done || run.Err != nil || run.Faulted {
						return nil
					}
					return repairState(ctx, run.Store.Snapshot(), true, forget)
				},
			}
			crashx.Explore(r, t, sc, bound, seen)
		}
	}
	r.Extra("deviation_bound", bound)
}

// TestVerifRace_C26 runs every scenario body free (gates answer at once, no oracle) under the race detector.
func TestVerifRace_C26(t *testing.T) {
	xplore.Free = 2
	defer func() { xplore.Free = 0 }()
	TestVerif_C26(t)
}

package main

// C52: check --read-data-subset n/t buckets partition all packs; percentage /
// size subsets select at least one pack when packs exist.
//
// Space (complete): every option string "n/t" with n, t in 0..258 is passed
// through the real checkFlags; for every accepted t the real filter built by
// buildPacksFilter for every n in 1..t is applied to a pack set that contains
// every possible first byte (the only byte the bucket function reads) twice
// (with differing tails).  Oracle: the selected sets are pairwise disjoint and
// their union is the whole pack set; t beyond the number of distinct first
// bytes must be rejected (otherwise some bucket could never be covered).  The
// same for six sparse pack sets (0, 1, 3, 4 and 6 packs: most buckets are empty).
// Percentages and sizes: a grid over the accepted range x pack counts 0..300.

import (
	"fmt"
	"testing"

	"github.com/restic/restic/internal/restic"
	"github.com/restic/restic/internal/verifshim/vh"
)

func verifC52Packs() map[restic.ID]int64 {
	packs := map[restic.ID]int64{}
	for b := 0; b < 256; b++ {
		for v := 0; v < 2; v++ {
			var id restic.ID
			id[0] = byte(b)
			id[1] = byte(v * 0x5a)
			id[31] = byte(b ^ 0xff)
			packs[id] = int64(1000 + b)
		}
	}
	return packs
}

// verifC52SparseSets: small repositories (some buckets stay empty for most t).
func verifC52SparseSets() map[string]map[restic.ID]int64 {
	mk := func(first ...int) map[restic.ID]int64 {
		m := map[restic.ID]int64{}
		for i, b := range first {
			var id restic.ID
			id[0] = byte(b)
			id[1] = byte(i)
			id[31] = 0x11
			m[id] = int64(500 + i)
		}
		return m
	}
	return map[string]map[restic.ID]int64{
		"empty":      mk(),
		"one":        mk(0x9c),
		"four-low":   mk(0, 1, 2, 3),
		"three-far":  mk(7, 77, 200),
		"same-byte":  mk(255, 255, 255),
		"six-spread": mk(0, 51, 102, 153, 204, 255),
	}
}

func TestVerif_C52(t *testing.T) {
	r := vh.Start(t, "C52")
	defer r.Finish()
	r.Rule("complete enumeration of (n,t) in 0..258 x 0..258 through checkFlags + buildPacksFilter over a pack set containing every first byte; non-trivial = accepted t >= 2 (more than one bucket); percentage/size grid x pack counts")
	all := verifC52Packs()
	printer := restic.NewNoopPrinter()

	for tt := 0; tt <= 258; tt++ {
		ck := fmt.Sprintf("t=%d", tt)
		if !r.Case(ck) {
			continue
		}
		seen := map[restic.ID]int{}
		accepted := 0
		for n := 0; n <= 258; n++ {
			s := fmt.Sprintf("%d/%d", n, tt)
			opts := CheckOptions{ReadDataSubset: s}
			err := checkFlags(opts)
			r.Eval(1)
			wantOK := n >= 1 && tt >= 1 && n <= tt && tt <= 256
			if (err == nil) != wantOK {
				r.Violationf(ck, "C52|checkFlags|"+s, s, "checkFlags(%q) accepted=%v, expected accepted=%v (t must not exceed the 256 distinct values of the byte the bucket function reads)", s, err == nil, wantOK)
				continue
			}
			if err != nil {
				continue
			}
			accepted++
			filter, err := buildPacksFilter(opts, printer, false)
			if err != nil || filter == nil {
				r.Violationf(ck, "C52|buildPacksFilter|"+s, s, "buildPacksFilter(%q) failed: %v", s, err)
				continue
			}
			in := make(map[restic.ID]int64, len(all))
			for k, v := range all {
				in[k] = v
			}
			sel := filter(in)
			r.Transition(1)
			for id, sz := range sel {
				if all[id] != sz {
					r.Violationf(ck, "C52|foreign|"+s, s, "subset %s selected a pack/size not in the repository", s)
				}
				seen[id]++
			}
		}
		if accepted == 0 {
			continue
		}
		if tt >= 2 {
			r.NontrivialByConstruction(1)
		}
		r.State(ck)
		missing, dup := 0, 0
		for id := range all {
			switch c := seen[id]; {
			case c == 0:
				missing++
			case c > 1:
				dup++
			}
		}
		if missing > 0 || dup > 0 || accepted != tt {
			r.Violationf(ck, fmt.Sprintf("C52|partition|t=%d", tt), tt, "t=%d: buckets 1..t do not partition the packs: %d packs in no bucket, %d packs in several buckets, %d accepted n", tt, missing, dup, accepted)
		}
		if tt == 3 {
			r.Sample(map[string]any{"t": tt, "accepted_n": accepted, "packs": len(all), "covered_once": len(all) - missing - dup})
		}
		// sparse repositories: few packs, so that some buckets are empty for this t
		if tt >= 1 && tt <= 256 {
			for name, sparse := range verifC52SparseSets() {
				seenS := map[restic.ID]int{}
				for n := 1; n <= tt; n++ {
					s := fmt.Sprintf("%d/%d", n, tt)
					filter, err := buildPacksFilter(CheckOptions{ReadDataSubset: s}, printer, false)
					if err != nil || filter == nil {
						continue // reported above
					}
					in := make(map[restic.ID]int64, len(sparse))
					for k, v := range sparse {
						in[k] = v
					}
					r.Eval(1)
					for id, sz := range filter(in) {
						if sparse[id] != sz {
							r.Violationf(ck, "C52|foreign|sparse|"+s, s, "subset %s selected a pack/size not in the repository (%s)", s, name)
						}
						seenS[id]++
					}
				}
				missing, dup := 0, 0
				for id := range sparse {
					switch c := seenS[id]; {
					case c == 0:
						missing++
					case c > 1:
						dup++
					}
				}
				if missing > 0 || dup > 0 {
					r.Violationf(ck, fmt.Sprintf("C52|partition|sparse=%s|t=%d", name, tt), tt, "t=%d, pack set %s (%d packs): buckets 1..t do not partition the packs: %d packs in no bucket, %d packs in several buckets", tt, name, len(sparse), missing, dup)
				}
			}
		}
	}

	// percentage and size subsets: at least one pack when packs exist, never more than all, only existing packs
	percents := []string{"0.0001%", "0.1%", "1%", "10%", "33.3%", "50%", "99.9%", "100%"}
	sizes := []string{"1b", "1K", "512K", "1M", "1G", "1T"}
	for cnt := 0; cnt <= 300; cnt++ {
		ck := fmt.Sprintf("count=%d", cnt)
		if !r.Case(ck) {
			continue
		}
		packs := map[restic.ID]int64{}
		for i := 0; i < cnt; i++ {
			var id restic.ID
			id[0], id[1], id[2] = byte(i), byte(i>>8), 7
			packs[id] = int64(4096 + i)
		}
		for _, s := range append(append([]string{}, percents...), sizes...) {
			opts := CheckOptions{ReadDataSubset: s}
			r.Eval(1)
			if err := checkFlags(opts); err != nil {
				r.Violationf(ck, "C52|subset-rejected|"+s, s, "checkFlags rejects documented subset %q: %v", s, err)
				continue
			}
			filter, err := buildPacksFilter(opts, printer, false)
			if err != nil || filter == nil {
				r.Violationf(ck, "C52|subset-filter|"+s, s, "buildPacksFilter(%q): %v", s, err)
				continue
			}
			in := make(map[restic.ID]int64, len(packs))
			for k, v := range packs {
				in[k] = v
			}
			var sel map[restic.ID]int64
			if p, msg := vh.NoPanic(func() { sel = filter(in) }); p {
				r.Violationf(ck, fmt.Sprintf("C52|subset-panic|%s|%d", s, cnt), []any{s, cnt}, "subset %q on %d packs panicked: %s", s, cnt, msg)
				continue
			}
			r.Transition(1)
			if cnt > 0 {
				r.NontrivialByConstruction(1)
			}
			bad := false
			for id, sz := range sel {
				if packs[id] != sz {
					bad = true
				}
			}
			if bad || (cnt > 0 && len(sel) == 0) || len(sel) > cnt {
				r.Violationf(ck, fmt.Sprintf("C52|subset|%s|%d", s, cnt), []any{s, cnt}, "subset %q on %d packs selected %d packs (foreign=%v)", s, cnt, len(sel), bad)
			}
			if cnt == 7 && s == "10%" {
				r.Sample(map[string]any{"subset": s, "packs": cnt, "selected": len(sel)})
			}
		}
	}
	r.Trace(1)
}

package main

// C09: prune never loses data still referenced by a remaining snapshot — at
// every crash point, under every completion order (within the deviation
// bound) and under every single failing backend operation.
//
// Engine GATE.  The real runPruneWithRepo runs inside a synctest bubble on a
// repository whose backend is the gated in-memory store: no Save/Load/Remove/
// List completes unless the explorer releases it, optionally with an injected
// error.  At every scheduler step the current store state plus every subset of
// the in-flight mutations is a crash state; each distinct crash state is
// handed to the RepoOracle (fresh repository, check --read-data semantics,
// every remaining snapshot read completely and compared with the content
// recorded before the prune), and then a second, uninterrupted prune is run on
// it and the oracle is evaluated again.

import (
	"bytes"
	"context"
	"fmt"
	"sort"
	"strings"
	"testing"
	"time"

	"github.com/restic/restic/internal/backend"
	"github.com/restic/restic/internal/data"
	"github.com/restic/restic/internal/global"
	"github.com/restic/restic/internal/repository"
	"github.com/restic/restic/internal/repository/pack"
	"github.com/restic/restic/internal/restic"
	"github.com/restic/restic/internal/verifshim/gatebe"
	"github.com/restic/restic/internal/verifshim/oracle"
	"github.com/restic/restic/internal/verifshim/vh"
	"github.com/restic/restic/internal/verifshim/vx"
	"github.com/restic/restic/internal/verifshim/xplore"
)

type verifC09Fixture struct {
	name    string
	state   gatebe.State
	expect  oracle.Expect
	sem     func(k gatebe.FileKey, data []byte, lookup func(gatebe.FileKey) string) string
	version uint
	// skipCheck: the fixture deliberately contains an indexed pack that is missing (check reports it); crash
	// states are judged by snapshot contents only, completed prunes by the full oracle
	skipCheck bool
}

const verifC09PackSize = 8 * 1024

func verifC09Trees() (t1, t2, t3 oracle.Spec) {
	common := oracle.LCG(1, 3000)
	t1 = oracle.Spec{"a": oracle.LCG(2, 3100), "b": oracle.LCG(3, 2100), "d/c": oracle.LCG(4, 4200), "common": common, "d/empty": {}}
	t2 = oracle.Spec{"a": oracle.LCG(5, 3100), "common": common, "e": oracle.LCG(6, 5000), "d/c": oracle.LCG(4, 4200)}
	t3 = oracle.Spec{"z": oracle.LCG(7, 9000), "common": common}
	return
}

// verifC09Build builds the history prefix of a fixture on an ungated store.
func verifC09Build(t *testing.T, name string) *verifC09Fixture {
	ctx := context.Background()
	version := uint(2)
	if strings.HasSuffix(name, "-v1") {
		version = 1
	}
	repo, store, err := oracle.NewRepo(ctx, version, repository.Options{})
	if err != nil {
		t.Fatalf("fixture %s: %v", name, err)
	}
	repository.VerifSetPackSize(repo, verifC09PackSize)
	t1, t2, t3 := verifC09Trees()
	fx := &verifC09Fixture{name: name, expect: oracle.Expect{}, version: version}
	forge := func(spec oracle.Spec, tag string, sec int) restic.ID {
		id, model, err := oracle.Forge(ctx, repo, spec, oracle.ForgeOpts{Tags: []string{tag}, Time: time.Date(2021, 1, 1, 0, 0, sec, 0, time.UTC)})
		if err != nil {
			t.Fatalf("fixture %s: forge: %v", name, err)
		}
		fx.expect[id] = model
		return id
	}
	forget := func(id restic.ID) {
		store.Del("setup", gatebe.FileKey{Type: backend.SnapshotFile, Name: id.String()})
		delete(fx.expect, id)
	}
	base := strings.TrimSuffix(name, "-v1")
	switch base {
	case "forget-oldest": // s1, s2, forget s1: data only s1 used becomes garbage inside partly used packs
		s1 := forge(t1, "s1", 1)
		forge(t2, "s2", 2)
		forget(s1)
	case "forget-middle": // three snapshots, middle one forgotten
		forge(t1, "s1", 1)
		s2 := forge(t2, "s2", 2)
		forge(t3, "s3", 3)
		forget(s2)
	case "duplicates": // kept blobs additionally stored a second time in another pack (as after an interrupted prune)
		forge(t1, "s1", 1)
		s2 := forge(t2, "s2", 2)
		if err := repo.LoadIndex(ctx, restic.NoopTerminalCounterFactory); err != nil {
			t.Fatal(err)
		}
		err := repo.WithBlobUploader(ctx, func(ctx context.Context, up restic.BlobSaverWithAsync) error {
			for _, b := range [][]byte{t1["common"][:1024], t1["a"][:1024], t2["e"][1024:2048]} {
				if _, _, _, err := up.SaveBlob(ctx, restic.DataBlob, b, restic.ID{}, true); err != nil {
					return err
				}
			}
			return nil
		})
		if err != nil {
			t.Fatal(err)
		}
		forget(s2)
	case "dup-partly-unused-pack-missing":
		// as dup-pack-missing, but the lost pack also holds blobs that no snapshot needs any more, so it
		// does not consist of duplicates only and the copy-selection of prune depends on iteration order
		s1 := forge(t1, "s1", 1)
		s2 := forge(t2, "s2", 2)
		forget(s1)
		if err := repo.LoadIndex(ctx, restic.NoopTerminalCounterFactory); err != nil {
			t.Fatal(err)
		}
		sn2, err := data.LoadSnapshot(ctx, repo, s2)
		if err != nil {
			t.Fatal(err)
		}
		used := restic.NewBlobSet()
		if err := data.FindUsedBlobs(ctx, repo, restic.IDs{*sn2.Tree}, used, restic.NoopCounter); err != nil {
			t.Fatal(err)
		}
		var victim gatebe.FileKey
		var dupBlobs []restic.BlobHandle
		for _, k := range store.Keys(backend.PackFile) {
			buf, _ := store.Get(k)
			blobs, _, err := pack.List(repo.Key(), bytes.NewReader(buf), int64(len(buf)))
			if err != nil || len(blobs) < 2 || blobs[0].Type != restic.DataBlob {
				continue
			}
			var u []restic.BlobHandle
			for _, b := range blobs {
				if used.Has(b.BlobHandle) {
					u = append(u, b.BlobHandle)
				}
			}
			if len(u) > 0 && len(u) < len(blobs) {
				victim, dupBlobs = k, u
				break
			}
		}
		if victim.Name == "" {
			t.Fatal("no partly used data pack found")
		}
		err = repo.WithBlobUploader(ctx, func(ctx context.Context, up restic.BlobSaverWithAsync) error {
			for _, h := range dupBlobs {
				buf, err := repo.LoadBlob(ctx, h, nil)
				if err != nil {
					return err
				}
				if _, _, _, err := up.SaveBlob(ctx, h.Type, buf, h.ID, true); err != nil {
					return err
				}
			}
			_, _, _, err := up.SaveBlob(ctx, restic.DataBlob, oracle.LCG(998, 700), restic.ID{}, false)
			return err
		})
		if err != nil {
			t.Fatal(err)
		}
		store.Del("setup", victim)
		fx.skipCheck = true
	case "dup-pack-missing":
		// every blob of one data pack also exists in a second pack (as after `repair packs`/an interrupted
		// prune), then the ORIGINAL pack file is lost while the index still lists it: all data is still
		// available, prune must not drop the last copy
		forge(t1, "s1", 1)
		if err := repo.LoadIndex(ctx, restic.NoopTerminalCounterFactory); err != nil {
			t.Fatal(err)
		}
		var victim gatebe.FileKey
		var victimBlobs []restic.BlobHandle
		for _, k := range store.Keys(backend.PackFile) {
			buf, _ := store.Get(k)
			blobs, _, err := pack.List(repo.Key(), bytes.NewReader(buf), int64(len(buf)))
			if err != nil || len(blobs) < 2 || blobs[0].Type != restic.DataBlob {
				continue
			}
			victim = k
			for _, b := range blobs {
				victimBlobs = append(victimBlobs, b.BlobHandle)
			}
			break
		}
		if victim.Name == "" {
			t.Fatal("no data pack found")
		}
		err := repo.WithBlobUploader(ctx, func(ctx context.Context, up restic.BlobSaverWithAsync) error {
			for _, h := range victimBlobs {
				buf, err := repo.LoadBlob(ctx, h, nil)
				if err != nil {
					return err
				}
				if _, _, _, err := up.SaveBlob(ctx, h.Type, buf, h.ID, true); err != nil {
					return err
				}
			}
			// an unused blob so that the pack holding the duplicates is only partly used
			_, _, _, err := up.SaveBlob(ctx, restic.DataBlob, oracle.LCG(999, 700), restic.ID{}, false)
			return err
		})
		if err != nil {
			t.Fatal(err)
		}
		store.Del("setup", victim)
		fx.skipCheck = true
	case "unreferenced": // all snapshots kept, plus an unindexed (orphaned) pack and a fully unused indexed pack
		forge(t1, "s1", 1)
		s3 := forge(t3, "s3", 3)
		forget(s3)
	default:
		t.Fatalf("unknown fixture %s", name)
	}
	fx.state = store.Snapshot()
	fx.sem = oracle.SemNamer(repo.Key())
	// sanity: the fixture itself must satisfy the oracle
	if probs := oracle.Verify(ctx, fx.state, oracle.Password, fx.expect, oracle.VerifyOpts{ReadData: true, SkipCheck: fx.skipCheck}); len(probs) > 0 {
		t.Fatalf("fixture %s is not consistent before prune: %v", name, probs)
	}
	return fx
}

type verifC09Opt struct {
	name string
	opts PruneOptions
}

func verifC09Options(thorough bool) []verifC09Opt {
	l := []verifC09Opt{
		{"max-unused-0", PruneOptions{MaxUnused: "0"}},
		{"unlimited", PruneOptions{MaxUnused: "unlimited"}},
		{"default-5pct", PruneOptions{MaxUnused: "5%"}},
		{"cacheable-only", PruneOptions{MaxUnused: "0", RepackCacheableOnly: true}},
	}
	if thorough {
		l = append(l,
			verifC09Opt{"max-repack-0", PruneOptions{MaxUnused: "0", MaxRepackSize: "0"}},
			verifC09Opt{"max-repack-6k", PruneOptions{MaxUnused: "0", MaxRepackSize: "6K"}},
			verifC09Opt{"repack-uncompressed", PruneOptions{MaxUnused: "unlimited", RepackUncompressed: true}},
			verifC09Opt{"repack-smaller-4k", PruneOptions{MaxUnused: "unlimited", SmallPackSize: "4K"}},
		)
	}
	return l
}

type verifC09Crash struct {
	key   string
	state gatebe.State
	desc  string
	nt    bool
}

type verifC09Exec struct {
	store   *gatebe.Store
	crashes []verifC09Crash
	err     error
	done    bool
	faulted bool
}

func TestVerif_C09(t *testing.T) {
	r := vh.Start(t, "C09")
	defer r.Finish()
	r.Rule("GATE: every completion order of pending backend operations and every single injected failure (Save/Remove/Load/List) of the real runPruneWithRepo within the deviation bound; at every scheduler step the store state plus every subset of in-flight mutations is a crash state. states = distinct crash states (semantic file names) evaluated by the RepoOracle, each followed by a second uninterrupted prune and a second evaluation. non-trivial = crash state in which at least one new pack/index already exists or one old file is already gone.")
	r.Assume("backend Save/Remove are atomic (discharged for the local backend by C36)",
		"goroutine interleaving between two backend events is the Go runtime's choice (one per explored event order)",
		"--unsafe-recover-no-free-space is excluded (documented as unsafe under interruption)")
	oracle.LowKDF()
	fixtures := []string{"forget-oldest", "duplicates", "unreferenced", "forget-oldest-v1", "dup-pack-missing", "dup-partly-unused-pack-missing"}
	if r.Thorough() {
		fixtures = append(fixtures, "forget-middle", "duplicates-v1", "forget-middle-v1")
	}
	bound := vh.Pick(r, 1, 2)
	seen := map[string]bool{}
	ctx := context.Background()
	for _, fname := range fixtures {
		var fx *verifC09Fixture
		for _, po := range verifC09Options(r.Thorough()) {
			name := fname + "/" + po.name
			if po.opts.RepackUncompressed && strings.HasSuffix(fname, "-v1") {
				continue
			}
			if fx == nil {
				fx = verifC09Build(t, fname)
			}
			fx := fx
			popts := po.opts
			if err := verifyPruneOptions(&popts); err != nil {
				t.Fatalf("options %s: %v", po.name, err)
			}
			sc := xplore.Scenario{
				Start: func(x *xplore.Exec) {
					st := &verifC09Exec{store: gatebe.NewStoreFrom(fx.state, fx.sem)}
					x.Data = st
					armed := false
					be := &gatebe.Backend{S: st.store, Proc: "prune", Conns: 3, AtomicReplace: true,
						X: func() *xplore.Exec {
							if armed {
								return x
							}
							return nil
						},
						Alts: func(op *gatebe.Op) []string { return []string{"ok", "err"} },
						Observe: func(op *gatebe.Op, ans string, err error) {
							if ans == "err" {
								st.faulted = true
							}
						},
					}
					repo, err := oracle.OpenOn(x.Ctx, be, repository.Options{})
					if err != nil {
						t.Fatalf("open: %v", err)
					}
					repository.VerifSetPackSize(repo, verifC09PackSize)
					armed = true
					x.Go("prune", func() {
						st.err = runPruneWithRepo(x.Ctx, popts, global.Options{}, repo, restic.NewIDSet(), restic.NewNoopPrinter())
						st.done = true
					})
				},
				OnStep: func(x *xplore.Exec) {
					st := x.Data.(*verifC09Exec)
					verifC09Collect(st, fx, seen)
				},
				OnEnd: func(x *xplore.Exec) {
					st := x.Data.(*verifC09Exec)
					verifC09Collect(st, fx, seen)
				},
			}
			check := func(x *xplore.Exec) {
				st := x.Data.(*verifC09Exec)
				if len(x.Panics) > 0 {
					vx.Violation(r, name, x, "C09|panic|"+name, "prune panicked: "+x.Panics[0], nil)
				}
				if x.Deadlock {
					vx.Violation(r, name, x, "C09|deadlock|"+name, "prune blocked forever: unfinished but no pending backend operation", nil)
				}
				if st.done && st.err != nil && !st.faulted && !fx.skipCheck {
					vx.Violation(r, name, x, "C09|prune-failed|"+name, fmt.Sprintf("prune failed without any injected fault: %v", st.err), nil)
				}
				r.Outcome(fmt.Sprintf("%s err=%v", name, st.err != nil))
				for _, c := range st.crashes {
					r.State(c.key)
					if c.nt {
						r.Nontrivial(c.key)
					}
					r.Count("oracle_evaluations", 1)
					if probs := oracle.Verify(ctx, c.state, oracle.Password, fx.expect, oracle.VerifyOpts{ReadData: true, SkipCheck: fx.skipCheck}); len(probs) > 0 {
						vx.Violation(r, name, x, "C09|crash-state|"+name+"|"+verifC09Kind(probs), fmt.Sprintf("crash state %s violates the oracle:\n  %s\nfiles: %s", c.desc, strings.Join(probs, "\n  "), strings.Join(st.store.Describe(c.state), " ")), map[string]any{"crash": c.desc})
						continue
					}
					// the user re-runs prune on the partial state
					after, err := verifC09SecondPrune(ctx, c.state, popts)
					r.Count("second_prunes", 1)
					if err != nil && fx.skipCheck {
						continue // refusing to prune a repository with a missing pack is fine
					}
					if err != nil {
						vx.Violation(r, name, x, "C09|second-prune-failed|"+name, fmt.Sprintf("re-running prune on crash state %s failed: %v", c.desc, err), map[string]any{"crash": c.desc})
						continue
					}
					if probs := oracle.Verify(ctx, after, oracle.Password, fx.expect, oracle.VerifyOpts{ReadData: true}); len(probs) > 0 {
						vx.Violation(r, name, x, "C09|after-second-prune|"+name+"|"+verifC09Kind(probs), fmt.Sprintf("after re-running prune on crash state %s:\n  %s", c.desc, strings.Join(probs, "\n  ")), map[string]any{"crash": c.desc})
					}
				}
				if len(x.Trace) > 0 && len(st.crashes) > 0 {
					r.Sample(map[string]any{"scenario": name, "schedule_len": len(x.Trace), "first_events": firstN(x.Labels, 8), "new_crash_states": len(st.crashes), "example_crash": st.crashes[len(st.crashes)-1].desc})
				}
			}
			stt := vx.Explore(r, t, name, sc, xplore.Options{Policy: xplore.FIFO, Bound: bound, MaxSteps: 600}, check)
			r.Note("%s: execs=%d maxpending=%d", name, stt.Execs, stt.MaxPending)
		}
	}
	r.Extra("deviation_bound", bound)
}

func firstN(l []string, n int) []string {
	if len(l) > n {
		return l[:n]
	}
	return l
}

func verifC09Kind(probs []string) string {
	p := probs[0]
	for _, k := range []string{"open:", "LoadIndex", "check: packs", "check: tree", "check: read-data", "check: index", "check:", "content", "snapshot"} {
		if strings.Contains(p, k) {
			return strings.TrimSuffix(strings.ReplaceAll(k, " ", "-"), ":")
		}
	}
	return "other"
}

// verifC09Collect records every not yet seen crash state reachable at this step:
// current state plus each subset of the in-flight mutations.
func verifC09Collect(st *verifC09Exec, fx *verifC09Fixture, seen map[string]bool) {
	base := st.store.Snapshot()
	infl := st.store.InFlight()
	if len(infl) > 6 {
		infl = infl[:6]
	}
	for mask := 0; mask < 1<<len(infl); mask++ {
		s := base
		var applied []string
		if mask != 0 {
			s = base.Clone()
			for i, m := range infl {
				if mask&(1<<i) != 0 {
					m.Apply(s)
					applied = append(applied, m.String())
				}
			}
		}
		key := fx.name + "|" + st.store.StateKey(s)
		if seen[key] {
			continue
		}
		seen[key] = true
		nt := false
		for k := range s {
			if _, ok := fx.state[k]; !ok {
				nt = true
			}
		}
		for k := range fx.state {
			if _, ok := s[k]; !ok {
				nt = true
			}
		}
		desc := fmt.Sprintf("after %d completed mutations", st.store.LogLen())
		if len(applied) > 0 {
			sort.Strings(applied)
			desc += " + in-flight{" + strings.Join(applied, ", ") + "}"
		}
		st.crashes = append(st.crashes, verifC09Crash{key: key, state: s, desc: desc, nt: nt})
	}
}

func verifC09SecondPrune(ctx context.Context, state gatebe.State, popts PruneOptions) (gatebe.State, error) {
	store := gatebe.NewStoreFrom(state, nil)
	be := &gatebe.Backend{S: store, Proc: "prune2", Conns: 3, AtomicReplace: true}
	repo, err := oracle.OpenOn(ctx, be, repository.Options{})
	if err != nil {
		return nil, err
	}
	repository.VerifSetPackSize(repo, verifC09PackSize)
	if err := runPruneWithRepo(ctx, popts, global.Options{}, repo, restic.NewIDSet(), restic.NewNoopPrinter()); err != nil {
		return nil, err
	}
	return store.Snapshot(), nil
}

// TestVerifRace_C09 runs every scenario body free (gates answer at once, no oracle) under the race detector.
func TestVerifRace_C09(t *testing.T) {
	xplore.Free = 2
	defer func() { xplore.Free = 0 }()
	TestVerif_C09(t)
}

//go:build darwin || freebsd || linux

package main

// C14, reader variant "mount": the sequence of `restic mount` (open with read
// lock, LoadIndex, fuse.NewRoot, list the root) followed by accesses to the
// mount point driven in-process (FUSE itself cannot be mounted here): every
// snapshot directory that the file system lists must be readable down to its
// leaves.  A second access follows 61 virtual seconds later so that the
// periodic snapshot refresh path runs as well.

import (
	"context"
	"fmt"
	"time"

	"github.com/anacrolix/fuse/fs"

	"github.com/restic/restic/internal/fuse"
	"github.com/restic/restic/internal/global"
	"github.com/restic/restic/internal/restic"
	"github.com/restic/restic/internal/verifshim/xplore"
)

func init() {
	verifC14ExtraReaders = append(verifC14ExtraReaders, verifC14Reader{"mount-browse", verifC14Mount})
}

func verifC14WalkDir(ctx context.Context, node fs.Node, path string, depth int) error {
	d, ok := node.(fs.HandleReadDirAller)
	if !ok || depth > 8 {
		return nil
	}
	entries, err := d.ReadDirAll(ctx)
	if err != nil {
		return fmt.Errorf("reading directory %s: %w", path, err)
	}
	lk, ok := node.(fs.NodeStringLookuper)
	if !ok {
		return nil
	}
	for _, e := range entries {
		if e.Name == "." || e.Name == ".." || e.Name == "latest" {
			continue
		}
		child, err := lk.Lookup(ctx, e.Name)
		if err != nil {
			return fmt.Errorf("lookup of listed entry %s/%s: %w", path, e.Name, err)
		}
		if err := verifC14WalkDir(ctx, child, path+"/"+e.Name, depth+1); err != nil {
			return err
		}
	}
	return nil
}

func verifC14Mount(ctx context.Context, gopts global.Options, _ string, x *xplore.Exec) error {
	printer := restic.NewNoopPrinter()
	ctx, repo, unlock, err := openWithReadLock(ctx, gopts, gopts.NoLock, printer)
	if err != nil {
		return err
	}
	defer unlock()
	if err := repo.LoadIndex(ctx, printer); err != nil {
		return err
	}
	root := fuse.NewRoot(repo, fuse.Config{TimeTemplate: time.RFC3339})
	if _, err := root.ReadDirAll(ctx); err != nil {
		return err
	}
	for access := 1; access <= 2; access++ {
		// the mount point is accessed whenever the user gets to it: the scheduler decides when
		x.Gate(xplore.Event{Key: fmt.Sprintf("reader:mountpoint-access-%d", access), Proc: "reader", Kind: "access", Yield: true})
		ids, err := root.Lookup(ctx, "ids")
		if err != nil {
			return fmt.Errorf("access %d: %w", access, err)
		}
		if err := verifC14WalkDir(ctx, ids, "ids", 0); err != nil {
			return fmt.Errorf("access %d: %w", access, err)
		}
		time.Sleep(61 * time.Second) // beyond the snapshot refresh interval
	}
	return nil
}

package main

// C03: any corruption of repository data is reported, never silently used.
//
// Fixture.  A small repository written by the real repository code (Init,
// SaveBlob, TreeWriter, SaveSnapshot, index flush): two "backups" of a forged
// directory tree d/{a,b,sub/c} and d/{a,b',e,sub/c} that share data blobs
// (forged trees instead of the archiver so that the repository is the same in
// every shard process: crypto/rand.Reader is replaced by a deterministic
// stream while the fixture is written, uploads are sequential).  Files: 2 data
// packs, 2 tree packs, 2 index files, 2 snapshots, 1 key, config.
//   quick:    repository v2
//   thorough: v1, v2, v2 with larger files, v2 + a third pack/index holding a
//             duplicate of a referenced blob; plus all pairs out of a 64-site subset
//
// Space.  For EVERY stored file: flip bit 0 and flip bit 7 of every byte,
// truncate at every length (0..len-1), delete the file.  Every state is a
// read-only overlay of one damaged file over the pristine file set.
//
// Oracle per state.
//  (1) `check --read-data` semantics, driven exactly as cmd_check.go drives
//      the checker (LoadSnapshots, LoadIndex, Packs, Structure, ReadPacks; the
//      same classification of hints/orphaned packs as non-errors): >= 1 error,
//      or the repository does not open.  Demanded for every site except the
//      deletion of a snapshot file (nothing left depends on a deleted snapshot)
//      and the two files of the dup variant that no snapshot depends on (the
//      pack holding only the duplicate copy and the index file listing it).
//      The same is demanded of the real command function runCheck (--read-data,
//      --no-lock) run on the state: its result must be an error (non-zero exit).
//  (2) reads never return other bytes: every blob the pristine repository holds
//      is loaded through LoadBlob -> an error or exactly the pristine plaintext;
//      every snapshot that still loads is walked (LoadSnapshot, LoadTree,
//      LoadBlob per content ID) -> every file read without an error has exactly
//      the content that was backed up, and a walk that met no error at all
//      yields exactly the original set of paths.
//  (3) the real restorer (file content through LoadBlobsFromPack / the pack
//      streamer and its fallbacks), driven as cmd_restore.go drives it: a
//      in a restore of a still loadable snapshot that does not fail as a whole,
//      every file that is missing or differs from what was backed up must be
//      covered by an error reported for it or for a parent directory.
//  No panic.
// Non-trivial: the site lies in a file a snapshot depends on (all but deleted
// snapshot files and, in the dup variant, the pack holding only the duplicate).

import (
	"bytes"
	"context"
	"crypto/rand"
	"errors"
	"fmt"
	"hash"
	"io"
	"os"
	"path/filepath"
	"runtime"
	"runtime/debug"
	"sort"
	"strings"
	"sync"
	"testing"
	"time"

	"github.com/restic/restic/internal/backend"
	"github.com/restic/restic/internal/backend/mem"
	"github.com/restic/restic/internal/checker"
	"github.com/restic/restic/internal/data"
	"github.com/restic/restic/internal/global"
	"github.com/restic/restic/internal/repository"
	"github.com/restic/restic/internal/restic"
	"github.com/restic/restic/internal/restorer"
	rtest "github.com/restic/restic/internal/test"
	"github.com/restic/restic/internal/verifshim/vh"
)

// ------------------------------------------------------------ helper backends

type verifC03Rand struct {
	mu sync.Mutex
	x  uint64
}

func (r *verifC03Rand) Read(p []byte) (int, error) {
	r.mu.Lock()
	defer r.mu.Unlock()
	for i := range p {
		r.x ^= r.x << 13
		r.x ^= r.x >> 7
		r.x ^= r.x << 17
		p[i] = byte(r.x >> 24)
	}
	return len(p), nil
}

type verifC03SeqBE struct{ backend.Backend }

func (b verifC03SeqBE) Properties() backend.Properties {
	p := b.Backend.Properties()
	p.Connections = 1
	return p
}

var verifC03ErrNotExist = errors.New("verifC03: file does not exist")

// verifC03BE serves a fixed file set read-only, with one file overridden or deleted.
type verifC03BE struct {
	files map[backend.Handle][]byte
	ovH   backend.Handle
	ovBuf []byte
	ovDel bool
	ovSet bool
}

func (b *verifC03BE) norm(h backend.Handle) backend.Handle {
	h.IsMetadata = false
	if h.Type == backend.ConfigFile {
		h.Name = ""
	}
	return h
}
func (b *verifC03BE) get(h backend.Handle) ([]byte, bool) {
	h = b.norm(h)
	if b.ovSet && h == b.ovH {
		if b.ovDel {
			return nil, false
		}
		return b.ovBuf, true
	}
	buf, ok := b.files[h]
	return buf, ok
}
func (b *verifC03BE) Properties() backend.Properties { return backend.Properties{Connections: 2} }
func (b *verifC03BE) Hasher() hash.Hash              { return nil }
func (b *verifC03BE) Close() error                   { return nil }
func (b *verifC03BE) IsNotExist(err error) bool      { return errors.Is(err, verifC03ErrNotExist) }
func (b *verifC03BE) IsPermanentError(err error) bool {
	return err != nil
}
func (b *verifC03BE) Delete(context.Context) error { return errors.New("read-only") }
func (b *verifC03BE) Remove(context.Context, backend.Handle) error {
	return errors.New("read-only")
}
func (b *verifC03BE) Save(context.Context, backend.Handle, backend.RewindReader) error {
	return errors.New("read-only")
}
func (b *verifC03BE) Warmup(context.Context, []backend.Handle) ([]backend.Handle, error) {
	return nil, nil
}
func (b *verifC03BE) WarmupWait(context.Context, []backend.Handle) error { return nil }
func (b *verifC03BE) Stat(_ context.Context, h backend.Handle) (backend.FileInfo, error) {
	buf, ok := b.get(h)
	if !ok {
		return backend.FileInfo{}, verifC03ErrNotExist
	}
	return backend.FileInfo{Name: h.Name, Size: int64(len(buf))}, nil
}
func (b *verifC03BE) List(ctx context.Context, t backend.FileType, fn func(backend.FileInfo) error) error {
	var names []string
	for h := range b.files {
		if h.Type == t {
			names = append(names, h.Name)
		}
	}
	sort.Strings(names)
	for _, n := range names {
		buf, ok := b.get(backend.Handle{Type: t, Name: n})
		if !ok {
			continue
		}
		if err := fn(backend.FileInfo{Name: n, Size: int64(len(buf))}); err != nil {
			return err
		}
		if ctx.Err() != nil {
			return ctx.Err()
		}
	}
	return nil
}
func (b *verifC03BE) Load(ctx context.Context, h backend.Handle, length int, offset int64, fn func(rd io.Reader) error) error {
	buf, ok := b.get(h)
	if !ok {
		return verifC03ErrNotExist
	}
	if offset < 0 || length < 0 || offset+int64(length) > int64(len(buf)) {
		return fmt.Errorf("verifC03: file too small (%d bytes) for range %d+%d", len(buf), offset, length)
	}
	buf = buf[offset:]
	if length > 0 {
		buf = buf[:length]
	}
	if ctx.Err() != nil {
		return ctx.Err()
	}
	return fn(bytes.NewReader(buf))
}

var _ backend.Backend = &verifC03BE{}

// -------------------------------------------------------------------- fixture

type verifC03Dir map[string]any // [][]byte = file given as its blobs, verifC03Dir = directory

func verifC03Bytes(seed uint64, n int) []byte {
	buf := make([]byte, n)
	x := seed*0x9E3779B97F4A7C15 + 77
	for i := range buf {
		x ^= x << 13
		x ^= x >> 7
		x ^= x << 17
		buf[i] = byte(x >> 16)
	}
	return buf
}

type verifC03File struct {
	role string // stable symbolic name
	h    backend.Handle
	data []byte
}

type verifC03Fixture struct {
	name       string
	files      []verifC03File // sorted by role
	byHandle   map[backend.Handle][]byte
	blobs      map[restic.BlobHandle][]byte    // pristine plaintext of every indexed blob
	snapshots  map[restic.ID]map[string][]byte // snapshot -> path -> content
	snapIDs    []restic.ID                     // in backup order
	unrefPack  map[backend.Handle]bool         // files no snapshot depends on (dup variant: extra pack + its index)
	restoreDir string                          // scratch directory for oracle (2c); "" = restorer not run
	tb         testing.TB                      // set together with restoreDir: the real check command is run too
}

func verifC03SaveDir(t testing.TB, ctx context.Context, up restic.BlobSaver, dir verifC03Dir, prefix string, truth map[string][]byte) restic.ID {
	var nodes []*data.Node
	ts := time.Date(2020, 3, 4, 5, 6, 7, 0, time.UTC)
	names := make([]string, 0, len(dir))
	for name := range dir {
		names = append(names, name)
	}
	sort.Strings(names)
	for _, name := range names {
		v := dir[name]
		n := &data.Node{Name: name, Mode: 0o644, ModTime: ts, AccessTime: ts, ChangeTime: ts, UID: 1000, GID: 1000, User: "u", Group: "g"}
		switch v := v.(type) {
		case [][]byte:
			n.Type = data.NodeTypeFile
			n.Content = restic.IDs{}
			var all []byte
			for _, blob := range v {
				id, _, _, err := up.SaveBlob(ctx, restic.DataBlob, blob, restic.ID{}, false)
				rtest.OK(t, err)
				n.Content = append(n.Content, id)
				all = append(all, blob...)
			}
			n.Size = uint64(len(all))
			truth[prefix+name] = all
		case verifC03Dir:
			n.Type = data.NodeTypeDir
			n.Mode = 0o755 | os.ModeDir
			id := verifC03SaveDir(t, ctx, up, v, prefix+name+"/", truth)
			n.Subtree = &id
		default:
			t.Fatalf("bad fixture entry %T", v)
		}
		nodes = append(nodes, n)
	}
	return data.TestSaveNodes(t, ctx, up, nodes)
}

func verifC03Build(t testing.TB, name string, version uint, scale int, dup bool) *verifC03Fixture {
	ctx := context.Background()
	oldRand := rand.Reader
	rand.Reader = &verifC03Rand{x: 0x1234567890abcdef}
	defer func() { rand.Reader = oldRand }()

	membe := mem.New()
	repo, _ := repository.TestRepositoryWithBackend(t, verifC03SeqBE{membe}, version, repository.Options{})
	f := &verifC03Fixture{name: name, byHandle: map[backend.Handle][]byte{}, blobs: map[restic.BlobHandle][]byte{},
		snapshots: map[restic.ID]map[string][]byte{}, unrefPack: map[backend.Handle]bool{}}

	A, B1, B2, S, C := verifC03Bytes(1, 100*scale), verifC03Bytes(2, 200*scale), verifC03Bytes(3, 200*scale), verifC03Bytes(4, 80*scale), bytes.Repeat([]byte("restic check "), 3*scale)
	trees := []verifC03Dir{
		{"d": verifC03Dir{"a": [][]byte{A}, "b": [][]byte{B1, S}, "sub": verifC03Dir{"c": [][]byte{C}}}},
		{"d": verifC03Dir{"a": [][]byte{A}, "b": [][]byte{B2, S}, "e": [][]byte{S}, "sub": verifC03Dir{"c": [][]byte{C}}}},
	}
	known := map[backend.Handle]string{}
	role := func(kind string) {
		// name the files that appeared since the last call by kind and order of appearance
		for _, ft := range []backend.FileType{backend.PackFile, backend.IndexFile, backend.SnapshotFile, backend.KeyFile} {
			rtest.OK(t, membe.List(ctx, ft, func(fi backend.FileInfo) error {
				h := backend.Handle{Type: ft, Name: fi.Name}
				if _, ok := known[h]; !ok {
					known[h] = kind
				}
				return nil
			}))
		}
	}
	role("init")
	for i, tree := range trees {
		truth := map[string][]byte{}
		var root restic.ID
		rtest.OK(t, repo.WithBlobUploader(ctx, func(ctx context.Context, up restic.BlobSaverWithAsync) error {
			root = verifC03SaveDir(t, ctx, up, tree, "/", truth)
			return nil
		}))
		sn := &data.Snapshot{Time: time.Date(2021, 1, 1+i, 0, 0, 0, 0, time.UTC), Tree: &root, Paths: []string{"/d"}, Hostname: "host", Username: "user"}
		id, err := data.SaveSnapshot(ctx, repo, sn)
		rtest.OK(t, err)
		f.snapshots[id] = truth
		f.snapIDs = append(f.snapIDs, id)
		role(fmt.Sprintf("b%d", i+1))
	}
	if dup {
		rtest.OK(t, repo.WithBlobUploader(ctx, func(ctx context.Context, up restic.BlobSaverWithAsync) error {
			_, _, _, err := up.SaveBlob(ctx, restic.DataBlob, S, restic.ID{}, true)
			return err
		}))
		role("dup")
	}

	// collect files and give them roles
	packType := map[restic.ID]restic.BlobType{}
	rtest.OK(t, repo.ListBlobs(ctx, func(pb restic.PackBlob) { packType[pb.PackID()] = pb.Handle().Type }))
	for _, ft := range []backend.FileType{backend.PackFile, backend.IndexFile, backend.SnapshotFile, backend.KeyFile, backend.ConfigFile} {
		rtest.OK(t, membe.List(ctx, ft, func(fi backend.FileInfo) error {
			h := backend.Handle{Type: ft, Name: fi.Name}
			var buf []byte
			err := membe.Load(ctx, h, 0, 0, func(rd io.Reader) (err error) { buf, err = io.ReadAll(rd); return err })
			if err != nil {
				return err
			}
			if ft == backend.ConfigFile {
				h.Name = ""
			}
			r := ft.String()
			switch ft {
			case backend.PackFile:
				id, _ := restic.ParseID(fi.Name)
				r = fmt.Sprintf("pack-%s-%v", known[h], packType[id])
				if known[h] == "dup" {
					f.unrefPack[h] = true
				}
			case backend.IndexFile, backend.SnapshotFile:
				r = fmt.Sprintf("%v-%s", ft, known[h])
				if known[h] == "dup" {
					// the index file that only lists the pack with the duplicate copy
					f.unrefPack[h] = true
				}
			}
			f.files = append(f.files, verifC03File{role: r, h: h, data: buf})
			f.byHandle[h] = buf
			return nil
		}))
	}
	sort.Slice(f.files, func(i, j int) bool { return f.files[i].role < f.files[j].role })
	for i := 1; i < len(f.files); i++ {
		if f.files[i].role == f.files[i-1].role {
			t.Fatalf("fixture %s: two files with role %s", name, f.files[i].role)
		}
	}

	// pristine blobs and a sanity check of the oracle on the undamaged repository
	be := &verifC03BE{files: f.byHandle}
	st := verifC03Run(f, be, true)
	if !st.opened || st.reported || len(st.fails) > 0 {
		t.Fatalf("fixture %s: pristine repository: opened=%v reported=%v (%v) fails=%v", name, st.opened, st.reported, st.errors, st.fails)
	}
	if len(f.blobs) < 8 {
		t.Fatalf("fixture %s: only %d blobs", name, len(f.blobs))
	}
	return f
}

// ---------------------------------------------------------------- one state

type verifC03State struct {
	opened                bool
	reported              bool
	errors                []string
	fails                 []string // oracle (2) failures, "kind: text"
	readOK                int
	readErr               int
	cmdRan                bool
	cmdErr                error // what `restic check --read-data` returned (nil = exit status 0)
	restoreOK, restoreErr int
	restoredFiles         int
}

func verifC03Walk(ctx context.Context, repo *repository.Repository, tree restic.ID, prefix string, out map[string][]byte, depth int) (clean bool) {
	clean = true
	if depth > 8 {
		return false
	}
	it, err := data.LoadTree(ctx, repo, tree)
	if err != nil {
		return false
	}
	for item := range it {
		if item.Error != nil {
			return false
		}
		n := item.Node
		switch n.Type {
		case data.NodeTypeFile:
			var all []byte
			ok := true
			for _, id := range n.Content {
				buf, err := repo.LoadBlob(ctx, restic.BlobHandle{Type: restic.DataBlob, ID: id}, nil)
				if err != nil {
					ok = false
					break
				}
				all = append(all, buf...)
			}
			if ok {
				if all == nil {
					all = []byte{}
				}
				out[prefix+n.Name] = all
			} else {
				clean = false
			}
		case data.NodeTypeDir:
			if n.Subtree == nil {
				clean = false
				continue
			}
			if !verifC03Walk(ctx, repo, *n.Subtree, prefix+n.Name+"/", out, depth+1) {
				clean = false
			}
		}
	}
	return clean
}

// verifC03Run opens the repository on be, runs check --read-data like cmd_check.go and reads everything.
func verifC03Run(f *verifC03Fixture, be backend.Backend, pristine bool) (st verifC03State) {
	ctx := context.Background()
	report := func(format string, a ...any) {
		st.reported = true
		if len(st.errors) < 6 {
			st.errors = append(st.errors, fmt.Sprintf(format, a...))
		}
	}
	repo, err := repository.New(be, repository.Options{})
	if err != nil {
		return st
	}
	if err := repo.SearchKey(ctx, rtest.TestPassword, 20, ""); err != nil {
		return st
	}
	st.opened = true

	func() {
		chkr := checker.New(repo, false)
		if err := chkr.LoadSnapshots(ctx, &data.SnapshotFilter{}, nil); err != nil {
			report("LoadSnapshots: %v", err)
			return
		}
		hints, errs := chkr.LoadIndex(ctx, restic.NoopTerminalCounterFactory)
		for _, hint := range hints {
			switch hint.(type) {
			case *repository.ErrDuplicatePacks, *repository.ErrMixedPack:
			default:
				report("hint: %v", hint)
			}
		}
		if len(errs) > 0 {
			report("LoadIndex: %v", errs)
			return // cmd_check stops here with "repository contains errors"
		}
		errChan := make(chan error)
		go chkr.Packs(ctx, errChan)
		for err := range errChan {
			var pe *repository.ErrPackMetadata
			if errors.As(err, &pe) && pe.Orphaned {
				continue
			}
			report("Packs: %v", err)
		}
		errChan = make(chan error)
		go chkr.Structure(ctx, restic.NoopCounter, errChan)
		for err := range errChan {
			report("Structure: %v", err)
		}
		errChan = make(chan error)
		go chkr.ReadPacks(ctx, func(p map[restic.ID]int64) map[restic.ID]int64 { return p }, restic.NewNoopPrinter(), errChan)
		for err := range errChan {
			report("ReadPacks: %v", err)
		}
	}()

	// (1b) the verdict of the real command: `restic check --read-data --no-lock` on this state (the
	// classification above re-states cmd_check.go; the exit status is decided by runCheck itself)
	if f.tb != nil {
		gopts := verifGopts(f.tb, f.restoreDir, be, rtest.TestPassword)
		gopts.NoLock = true
		st.cmdRan = true
		st.cmdErr = verifRun(f.tb, ctx, gopts, func(ctx context.Context, gopts global.Options) error {
			_, err := runCheck(ctx, CheckOptions{ReadData: true}, gopts, nil, gopts.Term)
			return err
		})
	}

	// (2a) every blob
	if pristine {
		_ = repo.ListBlobs(ctx, func(pb restic.PackBlob) { f.blobs[pb.Handle()] = nil })
		for h := range f.blobs {
			buf, err := repo.LoadBlob(ctx, h, nil)
			if err != nil || restic.Hash(buf) != h.ID {
				st.fails = append(st.fails, fmt.Sprintf("fixture: pristine LoadBlob(%v): %v", h, err))
				continue
			}
			f.blobs[h] = append([]byte{}, buf...)
		}
	}
	for h, want := range f.blobs {
		buf, err := repo.LoadBlob(ctx, h, nil)
		switch {
		case err != nil:
			st.readErr++
		case !bytes.Equal(buf, want):
			st.fails = append(st.fails, fmt.Sprintf("blob-wrong-bytes: LoadBlob(%v) returned %d bytes that are not the stored plaintext, without an error", h, len(buf)))
		default:
			st.readOK++
		}
	}
	// (2b) every snapshot that still loads
	for _, id := range f.snapIDs {
		sn, err := data.LoadSnapshot(ctx, repo, id)
		if err != nil || sn.Tree == nil {
			st.readErr++
			continue
		}
		got := map[string][]byte{}
		clean := verifC03Walk(ctx, repo, *sn.Tree, "/", got, 0)
		want := f.snapshots[id]
		for p, c := range got {
			w, ok := want[p]
			switch {
			case !ok:
				st.fails = append(st.fails, fmt.Sprintf("file-foreign: snapshot %d yields a file %q that was never backed up", verifC03SnapIdx(f, id), p))
			case !bytes.Equal(c, w):
				st.fails = append(st.fails, fmt.Sprintf("file-wrong-bytes: snapshot %d file %q read without error but with %d bytes differing from the %d bytes backed up", verifC03SnapIdx(f, id), p, len(c), len(w)))
			}
		}
		if clean && len(got) != len(want) {
			st.fails = append(st.fails, fmt.Sprintf("file-missing: snapshot %d was walked without any error but yields %d of %d files", verifC03SnapIdx(f, id), len(got), len(want)))
		}
		if !clean {
			st.readErr++
		}
	}
	// (2c) the real restorer (it reads file content through LoadBlobsFromPack / the pack streamer with its
	// own fallbacks, not through LoadBlob): driven as cmd_restore.go does - per-file errors are counted and
	// the restore goes on; `restore` fails (non-zero exit) iff an error was counted or RestoreTo failed.
	// A restore that reports nothing must have produced exactly the backed-up files.
	if f.restoreDir != "" {
		for _, id := range f.snapIDs {
			sn, err := data.LoadSnapshot(ctx, repo, id)
			if err != nil || sn.Tree == nil {
				continue
			}
			target := filepath.Join(f.restoreDir, fmt.Sprintf("t%d", verifC03SnapIdx(f, id)))
			_ = os.RemoveAll(target)
			var locs []string
			res := restorer.NewRestorer(repo, sn, restorer.Options{})
			res.Error = func(location string, _ error) error { locs = append(locs, location); return nil }
			_, rerr := res.RestoreTo(ctx, target)
			if rerr != nil {
				// the whole restore failed: nothing is claimed about what was written so far
				st.restoreErr++
				_ = os.RemoveAll(target)
				continue
			}
			if len(locs) > 0 {
				st.restoreErr++
			} else {
				st.restoreOK++
			}
			// "fail for the affected data": a file that is missing or differs must be covered by an error
			// reported for it or for one of its parent directories
			covered := func(p string) bool {
				for _, l := range locs {
					l = strings.TrimSuffix(filepath.ToSlash(l), "/")
					if l == "" || l == p || strings.HasPrefix(p, l+"/") {
						return true
					}
				}
				return false
			}
			for p, w := range f.snapshots[id] {
				got, err := os.ReadFile(filepath.Join(target, p))
				if (err == nil && bytes.Equal(got, w)) || covered(p) {
					if err == nil && bytes.Equal(got, w) {
						st.restoredFiles++
					}
					continue
				}
				if err != nil {
					st.fails = append(st.fails, fmt.Sprintf("restore-missing: restore of snapshot %d did not restore %q (%v) and reported no error for it (errors were reported for %v)", verifC03SnapIdx(f, id), p, err, locs))
				} else {
					st.fails = append(st.fails, fmt.Sprintf("restore-wrong-bytes: restore of snapshot %d wrote %q with %d bytes differing from the %d bytes backed up and reported no error for it (errors were reported for %v)", verifC03SnapIdx(f, id), p, len(got), len(w), locs))
				}
			}
			_ = os.RemoveAll(target)
		}
	}
	return st
}

func verifC03SnapIdx(f *verifC03Fixture, id restic.ID) int {
	for i, s := range f.snapIDs {
		if s == id {
			return i + 1
		}
	}
	return 0
}

// -------------------------------------------------------------------- driver

type verifC03Site struct {
	file int
	op   string // "flip0", "flip7", "trunc", "delete"
	off  int
}

func (s verifC03Site) apply(f *verifC03Fixture, be *verifC03BE) {
	file := f.files[s.file]
	be.ovSet, be.ovH, be.ovDel = true, file.h, false
	switch s.op {
	case "flip0", "flip7":
		buf := append([]byte{}, file.data...)
		if s.op == "flip0" {
			buf[s.off] ^= 0x01
		} else {
			buf[s.off] ^= 0x80
		}
		be.ovBuf = buf
	case "trunc":
		be.ovBuf = file.data[:s.off]
	case "delete":
		be.ovDel, be.ovBuf = true, nil
	}
}

func TestVerif_C03(t *testing.T) {
	r := vh.Start(t, "C03")
	defer r.Finish()
	// Every state allocates 2 x 4 MiB stream buffers (ReadPacks workers) and forces a GC
	// (LoadIndex).  A never-touched ballast raises the heap goal so that the runtime keeps
	// those spans mapped instead of returning and re-faulting them ~10^4 times.
	ballast := make([]byte, 512<<20)
	defer runtime.KeepAlive(ballast)
	defer debug.SetGCPercent(debug.SetGCPercent(400))
	r.Rule("every stored file of small repositories written by the real code x {flip bit 0, flip bit 7 of every byte; truncate at every length; delete}; each state = check --read-data (checker driven as cmd_check.go does) + LoadBlob of every blob + walk of every snapshot; non-trivial = the damaged file is one a snapshot depends on")
	r.Assume("the fixture uses forged trees written through SaveBlob/TreeWriter/SaveSnapshot (not the archiver) and a deterministic crypto/rand stream so that all shards enumerate the same repository", "the backend is an in-memory read-only overlay; a range request beyond the end of a truncated file fails like the mem/local backends do")

	type variant struct {
		name    string
		version uint
		scale   int
		dup     bool
	}
	variants := []variant{{"v2", 2, 1, false}}
	if r.Thorough() {
		variants = append(variants, variant{"v1", 1, 1, false}, variant{"v2big", 2, 4, false}, variant{"v2dup", 2, 1, true})
	}
	const chunk = 48

	for _, v := range variants {
		var fix *verifC03Fixture
		get := func() *verifC03Fixture {
			if fix == nil {
				fix = verifC03Build(t, v.name, v.version, v.scale, v.dup)
				total := 0
				for _, f := range fix.files {
					total += len(f.data)
				}
				r.Extra("fixture_"+v.name, fmt.Sprintf("%d files, %d bytes, %d blobs", len(fix.files), total, len(fix.blobs)))
			}
			return fix
		}
		// the set of files and their sizes must be known to enumerate case keys: build once per shard
		f := get()
		f.restoreDir = filepath.Join(r.Scratch, "restore-"+v.name)
		f.tb = t
		if st := verifC03Run(f, &verifC03BE{files: f.byHandle}, false); st.restoreOK != len(f.snapIDs) || len(st.fails) > 0 || st.cmdErr != nil {
			t.Fatalf("fixture %s: pristine repository: restores ok=%d fails=%v, `check --read-data` returned %v", v.name, st.restoreOK, st.fails, st.cmdErr)
		}
		evalSite := func(ck string, sites []verifC03Site, label string) {
			be := &verifC03BE{files: f.byHandle}
			needReport := true
			depends := true
			var names []string
			for i, s := range sites {
				if i == 0 {
					s.apply(f, be)
				} else {
					// second site: apply on top of the first (same or other file)
					first := sites[0]
					if s.file == first.file {
						buf := append([]byte{}, be.ovBuf...)
						if s.off < len(buf) {
							buf[s.off] ^= 0x01
						}
						be.ovBuf = buf
					} else {
						// two files: chain overlays
						inner := *be
						files2 := map[backend.Handle][]byte{}
						for h, b := range f.byHandle {
							files2[h] = b
						}
						files2[inner.ovH] = inner.ovBuf
						be = &verifC03BE{files: files2}
						s.apply(f, be)
					}
				}
				file := f.files[s.file]
				if s.op == "delete" && file.h.Type == backend.SnapshotFile {
					needReport, depends = false, false
				}
				if f.unrefPack[file.h] {
					// no snapshot depends on the extra pack / its index file of the dup variant:
					// the statement demands nothing for them (oracle (2) still applies)
					depends = false
					if len(sites) == 1 {
						needReport = false
					}
				}
				names = append(names, fmt.Sprintf("%s:%s@%d", file.role, s.op, s.off))
			}
			var st verifC03State
			panicked, msg := vh.NoPanic(func() { st = verifC03Run(f, be, false) })
			r.Eval(1)
			r.Trace(1)
			r.Transition(int64(len(sites)))
			key := fmt.Sprintf("%s|%s", v.name, strings.Join(names, "+"))
			if panicked {
				r.Violationf(ck, "C03|"+key+"|panic", key, "panic: %s", msg)
				return
			}
			if depends {
				r.NontrivialByConstruction(1)
			}
			r.Outcome(fmt.Sprintf("%s|opened=%v|reported=%v|readErr=%v|restoreFailed=%v", f.files[sites[0].file].h.Type, st.opened, st.reported, st.readErr > 0, st.restoreErr > 0))
			r.Count("restores_without_error_compared", int64(st.restoreOK))
			r.Count("restores_that_reported_errors", int64(st.restoreErr))
			r.Count("restored_files_compared_equal", int64(st.restoredFiles))
			if needReport && st.cmdRan && st.cmdErr == nil {
				r.Violationf(ck, "C03|"+key+"|unreported-by-command", map[string]any{"variant": v.name, "sites": names},
					"%s: `restic check --read-data` exits with status 0 although a stored file was damaged (%s) [%s]", label, strings.Join(names, "+"), key)
			}
			if needReport && st.opened && !st.reported {
				r.Violationf(ck, "C03|"+key+"|unreported", map[string]any{"variant": v.name, "sites": names},
					"%s: the repository opens and check --read-data reports no error although a stored file was damaged (%s) [%s]", label, strings.Join(names, "+"), key)
			}
			for _, fl := range st.fails {
				kind := fl[:strings.Index(fl, ":")]
				r.Violationf(ck, "C03|"+key+"|"+kind, map[string]any{"variant": v.name, "sites": names}, "%s [%s]", fl, key)
			}
			if len(sites) == 1 && sites[0].op == "flip7" && sites[0].off == 17 {
				r.Sample(map[string]any{"site": key, "opened": st.opened, "reported": st.reported, "errors": st.errors, "reads_ok": st.readOK, "reads_err": st.readErr})
			}
		}

		for fi, file := range f.files {
			ck := fmt.Sprintf("%s|%s|delete", v.name, file.role)
			if r.Case(ck) {
				evalSite(ck, []verifC03Site{{file: fi, op: "delete"}}, "delete")
			}
			nChunks := (len(file.data) + chunk - 1) / chunk
			for c := 0; c < nChunks; c++ {
				ck := fmt.Sprintf("%s|%s|bytes=%d", v.name, file.role, c*chunk)
				if !r.Case(ck) {
					continue
				}
				if r.Expired() {
					return
				}
				for off := c * chunk; off < (c+1)*chunk && off < len(file.data); off++ {
					for _, op := range []string{"flip0", "flip7", "trunc"} {
						evalSite(ck, []verifC03Site{{file: fi, op: op, off: off}}, op)
					}
				}
			}
		}

		// thorough: all pairs out of a 64-site subset (bit 0 flips): first/last/middle
		// bytes of every file plus evenly spaced bytes of the packs and index files
		if r.Thorough() && v.name == "v2" {
			var subset []verifC03Site
			for fi, file := range f.files {
				n := len(file.data)
				offs := []int{0, n / 2, n - 1}
				if file.h.Type == backend.PackFile || file.h.Type == backend.IndexFile {
					for k := 1; k <= 4; k++ {
						offs = append(offs, k*n/6, n-1-4*k)
					}
				}
				for _, o := range offs {
					if o >= 0 && o < n && len(subset) < 64 {
						subset = append(subset, verifC03Site{file: fi, op: "flip0", off: o})
					}
				}
			}
			for i := range subset {
				ck := fmt.Sprintf("%s|pairs|first=%d", v.name, i)
				if !r.Case(ck) {
					continue
				}
				if r.Expired() {
					return
				}
				for j := i + 1; j < len(subset); j++ {
					if subset[i].file == subset[j].file && subset[i].off == subset[j].off {
						continue
					}
					evalSite(ck, []verifC03Site{subset[i], subset[j]}, "pair")
				}
			}
		}
	}
}

package main

// C34: repair packs and repair snapshots salvage all intact data.
//
// Fixture: a repository on the local backend created by the real `init` and two
// real `backup` runs of a tiny directory (d/a, d/b = 3 MiB random => several
// chunks, d/e empty, d/sub/c; second backup: a changed, f added).  quick: repository
// v2; thorough: v1 and v2.
//
// Space.  For every pack file P of the repository (quick: the data pack and the tree
// pack of the first backup; thorough: all packs) every site of
//   flip   : first / middle / last byte of every blob, first / middle / last byte of the
//            encrypted header, lowest byte of the header length field
//   trunc  : at every blob boundary and +-1 byte, to 0 bytes, by one byte
// Each site: fresh copy of the pristine repository directory, damage applied to the
// file on disk, then `restic repair packs <P>`, `restic repair snapshots --forget`,
// `restic check --read-data` - the real command functions, no cache.
//
// Two damaged packs in one run: a fixture variant with a third pack that holds a second
// copy of one data blob (plus an unrelated blob); every pair (middle of a blob or header
// of the first data pack) x (middle of a blob or header of the duplicate's pack), both
// packs named in ONE `repair packs` run.
//
// Oracle (ground truth computed by the harness from the damaged file's bytes: a blob
// of P is salvageable iff its range (from the pristine header) lies inside the file and
// it decrypts, decompresses and hashes to its ID with the repository key):
//   * repair packs / repair snapshots succeed; P is gone from the backend afterwards;
//   * every salvageable blob of P, and every blob of the other packs, is in the index
//     afterwards and LoadBlob returns its original plaintext;
//   * check --read-data reports no error;
//   * every snapshot is still there (itself, or a repaired successor whose `original`
//     field names it) unless its root tree was lost; walking it meets no error and
//     yields no path that was not backed up;
//   * every file whose data blobs are all still available and whose directory chain is
//     available has exactly its original content; a file that lost data is either
//     absent or consists of exactly its remaining blobs in order (documented "removed
//     missing content"); files below a lost tree are absent.
// Non-trivial: at least one blob of P was lost, or the header was damaged (i.e. the
// repair had something to do beyond copying).

import (
	"bytes"
	"context"
	"crypto/sha256"
	"fmt"
	"os"
	"path/filepath"
	"sort"
	"strings"
	"testing"

	"github.com/klauspost/compress/zstd"
	"github.com/restic/restic/internal/backend/local"
	"github.com/restic/restic/internal/data"
	"github.com/restic/restic/internal/global"
	"github.com/restic/restic/internal/repository"
	"github.com/restic/restic/internal/repository/crypto"
	"github.com/restic/restic/internal/repository/pack"
	"github.com/restic/restic/internal/restic"
	rtest "github.com/restic/restic/internal/test"
	"github.com/restic/restic/internal/ui/progress"
	"github.com/restic/restic/internal/verifshim/vh"
)

type verifC34Blob struct {
	name   string // stable identity: "<snapshot>:<path>#<chunk>" / "<snapshot>:tree:<path>"
	h      restic.BlobHandle
	offset uint
	length uint
	ulen   uint
	plain  []byte
}

type verifC34Pack struct {
	role  string
	id    restic.ID
	path  string // relative to the repository directory
	size  int64
	blobs []verifC34Blob // sorted by offset
}

type verifC34File struct {
	blobs restic.IDs
	trees restic.IDs // directory chain (root first)
	data  []byte
}

type verifC34Snap struct {
	id    restic.ID
	root  restic.ID
	files map[string]*verifC34File
}

type verifC34Fixture struct {
	version uint
	env     *testEnvironment
	packs   []*verifC34Pack
	blobs   map[restic.BlobHandle][]byte // every blob's plaintext
	where   map[restic.BlobHandle]restic.ID
	locs    map[restic.BlobHandle][]restic.ID // every pack that holds the blob (the dup variant stores one blob twice)
	snaps   []*verifC34Snap
	key     *crypto.Key
}

func verifC34Rand(seed uint64, n int) []byte {
	buf := make([]byte, n+8)
	x := seed*0x9E3779B97F4A7C15 + 31
	for i := 0; i < n; i += 8 {
		x ^= x << 13
		x ^= x >> 7
		x ^= x << 17
		for k := 0; k < 8; k++ {
			buf[i+k] = byte(x >> (8 * k))
		}
	}
	return buf[:n]
}

func verifC34CopyDir(t testing.TB, src, dst string) {
	err := filepath.Walk(src, func(p string, fi os.FileInfo, err error) error {
		if err != nil {
			return err
		}
		rel, _ := filepath.Rel(src, p)
		target := filepath.Join(dst, rel)
		if fi.IsDir() {
			return os.MkdirAll(target, 0o700)
		}
		buf, err := os.ReadFile(p)
		if err != nil {
			return err
		}
		return os.WriteFile(target, buf, 0o600)
	})
	if err != nil {
		t.Fatalf("copying repository: %v", err)
	}
}

func verifC34WithRepo(t testing.TB, gopts global.Options, fn func(ctx context.Context, repo *repository.Repository) error) error {
	return verifC34WithRepoMode(t, gopts, false, fn)
}

// verifC34WithRepoMode: write=false opens without lock (restic then puts the repository in dry-run mode).
func verifC34WithRepoMode(t testing.TB, gopts global.Options, write bool, fn func(ctx context.Context, repo *repository.Repository) error) error {
	return withTermStatus(t, gopts, func(ctx context.Context, gopts global.Options) error {
		printer := progress.NewTerminalPrinter(false, gopts.Verbosity, gopts.Term)
		open := func() (context.Context, *repository.Repository, func(), error) {
			if write {
				return openWithAppendLock(ctx, gopts, false, printer)
			}
			return openWithReadLock(ctx, gopts, true, printer)
		}
		ctx, repo, unlock, err := open()
		if err != nil {
			return err
		}
		defer unlock()
		if err := repo.LoadIndex(ctx, printer); err != nil {
			return err
		}
		return fn(ctx, repo)
	})
}

// verifC34Walk reads a whole snapshot tree; ok=false if anything failed to load.
func verifC34Walk(ctx context.Context, repo restic.BlobLoader, tree restic.ID, prefix string, chain restic.IDs, out map[string]*verifC34File, treePaths map[restic.ID]string) (ok bool) {
	ok = true
	if treePaths != nil {
		if _, seen := treePaths[tree]; !seen {
			treePaths[tree] = prefix
		}
	}
	chain = append(append(restic.IDs{}, chain...), tree)
	it, err := data.LoadTree(ctx, repo, tree)
	if err != nil {
		return false
	}
	for item := range it {
		if item.Error != nil {
			return false
		}
		n := item.Node
		switch n.Type {
		case data.NodeTypeFile:
			f := &verifC34File{blobs: n.Content, trees: chain, data: []byte{}}
			good := true
			for _, id := range n.Content {
				buf, err := repo.LoadBlob(ctx, restic.BlobHandle{Type: restic.DataBlob, ID: id}, nil)
				if err != nil {
					good = false
					break
				}
				f.data = append(f.data, buf...)
			}
			if !good {
				ok = false
				continue
			}
			out[prefix+n.Name] = f
		case data.NodeTypeDir:
			if n.Subtree == nil || !verifC34Walk(ctx, repo, *n.Subtree, prefix+n.Name+"/", chain, out, treePaths) {
				ok = false
			}
		}
	}
	return ok
}

func verifC34Build(t *testing.T, version uint, dup bool) *verifC34Fixture {
	env, _ := withTestEnvironment(t) // removed with the shard scratch / by t.Cleanup below
	t.Cleanup(func() { _ = os.RemoveAll(env.base) })
	env.gopts.BackendTestHook = nil
	env.gopts.NoCache = true
	f := &verifC34Fixture{version: version, env: env, blobs: map[restic.BlobHandle][]byte{}, where: map[restic.BlobHandle]restic.ID{}, locs: map[restic.BlobHandle][]restic.ID{}}

	repository.TestUseLowSecurityKDFParameters(t)
	restic.TestDisableCheckPolynomial(t)
	repository.TestSetLockTimeout(t, 0)
	// not runInit: it draws a random chunker polynomial, the fixture must be the same in every shard
	lbe, err := local.Create(context.Background(), local.Config{Path: env.repo, Connections: 2}, t.Logf)
	rtest.OK(t, err)
	repository.TestRepositoryWithBackend(t, lbe, version, repository.Options{})
	rtest.OK(t, lbe.Close())

	d := filepath.Join(env.testdata, "d")
	rtest.OK(t, os.MkdirAll(filepath.Join(d, "sub"), 0o755))
	rtest.OK(t, os.WriteFile(filepath.Join(d, "a"), verifC34Rand(1, 100), 0o644))
	rtest.OK(t, os.WriteFile(filepath.Join(d, "b"), verifC34Rand(2, 3<<20), 0o644))
	rtest.OK(t, os.WriteFile(filepath.Join(d, "e"), nil, 0o644))
	rtest.OK(t, os.WriteFile(filepath.Join(d, "sub", "c"), bytes.Repeat([]byte("restic repair "), 5), 0o644))
	seen := map[string]string{}
	mark := func(role string) {
		_ = filepath.Walk(filepath.Join(env.repo, "data"), func(p string, fi os.FileInfo, err error) error {
			if err == nil && !fi.IsDir() && len(fi.Name()) == 64 {
				if _, ok := seen[fi.Name()]; !ok {
					seen[fi.Name()] = role
				}
			}
			return nil
		})
	}
	testRunBackup(t, env.testdata, []string{"d"}, BackupOptions{}, env.gopts)
	mark("b1")
	rtest.OK(t, os.WriteFile(filepath.Join(d, "a"), verifC34Rand(3, 120), 0o644))
	rtest.OK(t, os.WriteFile(filepath.Join(d, "f"), verifC34Rand(4, 80), 0o644))
	testRunBackup(t, env.testdata, []string{"d"}, BackupOptions{}, env.gopts)
	mark("b2")
	if dup {
		// a third pack holding a second copy of the first chunk of d/b (as concurrent or interrupted backups
		// leave behind) next to an unrelated blob
		rtest.OK(t, verifC34WithRepoMode(t, env.gopts, true, func(ctx context.Context, repo *repository.Repository) error {
			var first restic.ID
			var trees []restic.ID
			err := data.ForAllSnapshots(ctx, repo, repo, nil, func(id restic.ID, sn *data.Snapshot, err error) error {
				if err == nil {
					trees = append(trees, *sn.Tree)
				}
				return err
			})
			if err != nil {
				return err
			}
			files := map[string]*verifC34File{}
			if !verifC34Walk(ctx, repo, trees[0], "/", nil, files, nil) || files["/d/b"] == nil {
				return fmt.Errorf("dup fixture: cannot walk the first snapshot")
			}
			first = files["/d/b"].blobs[0]
			plain, err := repo.LoadBlob(ctx, restic.BlobHandle{Type: restic.DataBlob, ID: first}, nil)
			if err != nil {
				return err
			}
			return repo.WithBlobUploader(ctx, func(ctx context.Context, up restic.BlobSaverWithAsync) error {
				if _, _, _, err := up.SaveBlob(ctx, restic.DataBlob, plain, first, true); err != nil {
					return err
				}
				_, _, _, err := up.SaveBlob(ctx, restic.DataBlob, verifC34Rand(9, 500), restic.ID{}, false)
				return err
			})
		}))
		mark("dup")
	}

	rtest.OK(t, verifC34WithRepo(t, env.gopts, func(ctx context.Context, repo *repository.Repository) error {
		f.key = repo.Key()
		packs := map[restic.ID]*verifC34Pack{}
		err := repo.ListBlobs(ctx, func(pb restic.PackBlob) {
			p := packs[pb.PackID()]
			if p == nil {
				name := pb.PackID().String()
				p = &verifC34Pack{id: pb.PackID(), role: fmt.Sprintf("%s-%v", seen[name], pb.Handle().Type)}
				packs[pb.PackID()] = p
			}
			f.where[pb.Handle()] = pb.PackID()
			f.locs[pb.Handle()] = append(f.locs[pb.Handle()], pb.PackID())
		})
		if err != nil {
			return err
		}
		for h := range f.where {
			buf, err := repo.LoadBlob(ctx, h, nil)
			if err != nil {
				return err
			}
			f.blobs[h] = append([]byte{}, buf...)
		}
		// header contents: via the raw file, independent of the index
		for id, p := range packs {
			_ = filepath.Walk(filepath.Join(env.repo, "data"), func(path string, fi os.FileInfo, err error) error {
				if err == nil && fi.Name() == id.String() {
					p.path, _ = filepath.Rel(env.repo, path)
					p.size = fi.Size()
				}
				return nil
			})
			raw, err := os.ReadFile(filepath.Join(env.repo, p.path))
			if err != nil {
				return err
			}
			entries, _, err := pack.List(repo.Key(), bytes.NewReader(raw), int64(len(raw)))
			if err != nil {
				return err
			}
			for _, e := range entries {
				p.blobs = append(p.blobs, verifC34Blob{h: e.BlobHandle, offset: e.Offset, length: e.Length, ulen: e.UncompressedLength, plain: f.blobs[e.BlobHandle]})
			}
			sort.Slice(p.blobs, func(i, j int) bool { return p.blobs[i].offset < p.blobs[j].offset })
			f.packs = append(f.packs, p)
		}
		sort.Slice(f.packs, func(i, j int) bool { return f.packs[i].role < f.packs[j].role })
		// snapshots
		var sns []*data.Snapshot
		err = data.ForAllSnapshots(ctx, repo, repo, nil, func(id restic.ID, sn *data.Snapshot, err error) error {
			if err != nil {
				return err
			}
			sns = append(sns, sn)
			return nil
		})
		if err != nil {
			return err
		}
		sort.Slice(sns, func(i, j int) bool { return sns[i].Time.Before(sns[j].Time) })
		treePaths := []map[restic.ID]string{{}, {}, {}}
		for _, sn := range sns {
			s := &verifC34Snap{id: *sn.ID(), root: *sn.Tree, files: map[string]*verifC34File{}}
			if !verifC34Walk(ctx, repo, *sn.Tree, "/", nil, s.files, treePaths[len(f.snaps)]) {
				return fmt.Errorf("pristine snapshot %v cannot be walked", sn.ID().Str())
			}
			f.snaps = append(f.snaps, s)
		}
		// stable blob names
		names := map[restic.BlobHandle]string{}
		for i, s := range f.snaps {
			for tid, path := range treePaths[i] {
				h := restic.BlobHandle{Type: restic.TreeBlob, ID: tid}
				if _, ok := names[h]; !ok {
					names[h] = fmt.Sprintf("s%d:tree:%s", i+1, path)
				}
			}
			for path, file := range s.files {
				for k, id := range file.blobs {
					h := restic.BlobHandle{Type: restic.DataBlob, ID: id}
					if _, ok := names[h]; !ok {
						names[h] = fmt.Sprintf("s%d:%s#%d", i+1, path, k)
					}
				}
			}
		}
		for _, p := range f.packs {
			for i := range p.blobs {
				p.blobs[i].name = names[p.blobs[i].h]
				if p.blobs[i].name == "" {
					if !dup {
						return fmt.Errorf("blob %v in pack %s belongs to no snapshot", p.blobs[i].h, p.role)
					}
					p.blobs[i].name = fmt.Sprintf("extra#%d", i)
				}
			}
		}
		return nil
	}))
	if len(f.snaps) != 2 || len(f.packs) < 4 {
		t.Fatalf("fixture: %d snapshots, %d packs", len(f.snaps), len(f.packs))
	}
	for i := 1; i < len(f.packs); i++ {
		if f.packs[i].role == f.packs[i-1].role {
			t.Fatalf("fixture: two packs with role %s", f.packs[i].role)
		}
	}
	if b := f.snaps[0].files["/d/b"]; b == nil || len(b.blobs) < 2 || !bytes.Equal(b.data, verifC34Rand(2, 3<<20)) {
		t.Fatalf("fixture: file /d/b is not a multi-blob file")
	}
	return f
}

type verifC34Site struct {
	op  string // "flip" | "trunc" | "idx" (off = number of the blob whose index entry is damaged)
	off int64
	tag string
}

func verifC34Sites(p *verifC34Pack) []verifC34Site {
	var sites []verifC34Site
	last := p.blobs[len(p.blobs)-1]
	hdrStart := int64(last.offset + last.length)
	for _, b := range p.blobs {
		o, l := int64(b.offset), int64(b.length)
		sites = append(sites,
			verifC34Site{"flip", o, b.name + ".first"},
			verifC34Site{"flip", o + l/2, b.name + ".middle"},
			verifC34Site{"flip", o + l - 1, b.name + ".last"})
	}
	sites = append(sites,
		verifC34Site{"flip", hdrStart, "header.first"},
		verifC34Site{"flip", (hdrStart + p.size - 4) / 2, "header.middle"},
		verifC34Site{"flip", p.size - 5, "header.last"},
		verifC34Site{"flip", p.size - 4, "header.length"})
	sites = append(sites, verifC34Site{"trunc", 0, "to0"}, verifC34Site{"trunc", p.size - 1, "by1"})
	// a damaged index over an intact pack: the entry of the first / last blob is one byte short
	sites = append(sites, verifC34Site{"idx", 0, p.blobs[0].name + ".index-entry-short"})
	if len(p.blobs) > 1 {
		sites = append(sites, verifC34Site{"idx", int64(len(p.blobs) - 1), p.blobs[len(p.blobs)-1].name + ".index-entry-short"})
	}
	for _, b := range p.blobs {
		end := int64(b.offset + b.length)
		for _, d := range []int64{-1, 0, 1} {
			if end+d > 0 && end+d < p.size-1 {
				sites = append(sites, verifC34Site{"trunc", end + d, fmt.Sprintf("%s.end%+d", b.name, d)})
			}
		}
	}
	return sites
}

type verifC34Damage struct {
	p    *verifC34Pack
	site verifC34Site
}

func verifC34Case(t *testing.T, r *vh.Run, f *verifC34Fixture, p *verifC34Pack, site verifC34Site, workdir string) (fails []string, outcome string, nontrivial bool) {
	return verifC34CaseN(t, r, f, []verifC34Damage{{p, site}}, workdir)
}

// verifC34CaseN damages one site in each of the given packs and repairs all of them in ONE `repair packs` run.
func verifC34CaseN(t *testing.T, r *vh.Run, f *verifC34Fixture, dams []verifC34Damage, workdir string) (fails []string, outcome string, nontrivial bool) {
	fail := func(kind, format string, a ...any) { fails = append(fails, kind+": "+fmt.Sprintf(format, a...)) }
	repoDir := filepath.Join(workdir, "repo")
	cwd := filepath.Join(workdir, "cwd")
	rtest.OK(t, os.MkdirAll(cwd, 0o700))
	verifC34CopyDir(t, f.env.repo, repoDir)
	gopts := f.env.gopts
	gopts.Repo = repoDir

	// damage
	damaged := map[restic.ID]bool{}
	var packPaths []string
	var packIDs []string
	bufs := map[restic.ID][]byte{}
	for _, d := range dams {
		packPath := filepath.Join(repoDir, d.p.path)
		buf, err := os.ReadFile(packPath)
		rtest.OK(t, err)
		switch d.site.op {
		case "flip":
			buf[d.site.off] ^= 0x01
		case "trunc":
			buf = buf[:d.site.off]
		case "idx":
			// the pack file stays intact; the index entry of its blob number `off` gets a wrong length
			b := d.p.blobs[d.site.off]
			rtest.OK(t, verifC34WithRepoMode(t, gopts, true, func(ctx context.Context, repo *repository.Repository) error {
				return repository.VerifBreakIndexEntry(ctx, repo, d.p.id, b.h, -1)
			}))
		}
		rtest.OK(t, os.WriteFile(packPath, buf, 0o600))
		damaged[d.p.id] = true
		bufs[d.p.id] = buf
		packPaths = append(packPaths, packPath)
		packIDs = append(packIDs, d.p.id.String())
	}

	// ground truth: a blob is available iff some copy lies in an undamaged pack or can still be decoded
	// from the damaged bytes of a damaged pack
	key := f.key
	dec, _ := zstd.NewReader(nil)
	defer dec.Close()
	avail := map[restic.BlobHandle]bool{}
	for h, pks := range f.locs {
		for _, pk := range pks {
			if !damaged[pk] {
				avail[h] = true
			}
		}
	}
	lost := 0
	for _, d := range dams {
		buf := bufs[d.p.id]
		for _, b := range d.p.blobs {
			ok := false
			if int(b.offset+b.length) <= len(buf) {
				ct := buf[b.offset : b.offset+b.length]
				plain, err := key.Open(nil, ct[:16], ct[16:], nil)
				if err == nil && b.ulen != 0 {
					plain, err = dec.DecodeAll(plain, nil)
				}
				if err == nil && restic.ID(sha256.Sum256(plain)) == b.h.ID {
					ok = true
				}
			}
			if ok {
				avail[b.h] = true
			}
		}
	}
	for h := range f.locs {
		if !avail[h] {
			lost++
		}
	}
	nontrivial = lost > 0 || len(dams) > 1
	for _, d := range dams {
		if strings.HasPrefix(d.site.tag, "header") {
			nontrivial = true
		}
	}

	// the repairs
	cleanupChdir := rtest.Chdir(t, cwd)
	_, stderr, err := testRunRepairPacks(t, gopts, packIDs)
	cleanupChdir()
	if err != nil {
		fail("repair-packs-failed", "repair packs returned %v (%s)", err, strings.TrimSpace(stderr))
		return fails, "repair-packs-failed", nontrivial
	}
	err = withTermStatus(t, gopts, func(ctx context.Context, gopts global.Options) error {
		return runRepairSnapshots(ctx, gopts, RepairOptions{Forget: true}, nil, gopts.Term)
	})
	if err != nil {
		fail("repair-snapshots-failed", "repair snapshots --forget returned %v", err)
		return fails, "repair-snapshots-failed", nontrivial
	}
	for _, packPath := range packPaths {
		if _, err := os.Stat(packPath); err == nil {
			fail("damaged-pack-kept", "the damaged pack file still exists after repair packs")
		}
	}
	_, chkErr, err := testRunCheckOutput(t, gopts, false)
	if err != nil {
		msg := strings.TrimSpace(chkErr)
		if len(msg) > 400 {
			msg = msg[:400]
		}
		fail("check-fails", "check --read-data after the repairs: %v: %s", err, msg)
	}

	// blobs and snapshots afterwards
	kept, repaired, removed := 0, 0, 0
	err = verifC34WithRepo(t, gopts, func(ctx context.Context, repo *repository.Repository) error {
		for h, want := range f.blobs {
			if !avail[h] {
				continue
			}
			got, err := repo.LoadBlob(ctx, h, nil)
			if err != nil {
				fail("salvageable-blob-lost", "blob %v (%s, still decodable from the damaged pack: %v) cannot be loaded after the repair: %v", h.ID.Str(), h.Type, damaged[f.where[h]], err)
			} else if !bytes.Equal(got, want) {
				fail("blob-wrong-bytes", "blob %v loads with different content after the repair", h.ID.Str())
			}
		}
		for h := range f.blobs {
			for _, pb := range repo.LookupBlob(h) {
				if damaged[pb.PackID()] {
					fail("index-lists-removed-pack", "the index still lists blob %v in the removed pack", h.ID.Str())
				}
			}
		}
		current := map[restic.ID]*data.Snapshot{}
		byOriginal := map[restic.ID]*data.Snapshot{}
		err := data.ForAllSnapshots(ctx, repo, repo, nil, func(id restic.ID, sn *data.Snapshot, err error) error {
			if err != nil {
				fail("snapshot-unreadable", "snapshot %v does not load after the repair: %v", id.Str(), err)
				return nil
			}
			current[id] = sn
			if sn.Original != nil {
				byOriginal[*sn.Original] = sn
			}
			return nil
		})
		if err != nil {
			return err
		}
		for i, s := range f.snaps {
			sn := current[s.id]
			if sn == nil {
				sn = byOriginal[s.id]
				if sn != nil {
					repaired++
				}
			} else {
				kept++
			}
			if sn == nil {
				removed++
				if avail[restic.BlobHandle{Type: restic.TreeBlob, ID: s.root}] {
					fail("snapshot-lost", "snapshot %d has no successor although its root tree is available", i+1)
				}
				continue
			}
			got := map[string]*verifC34File{}
			if sn.Tree == nil || !verifC34Walk(ctx, repo, *sn.Tree, "/", nil, got, nil) {
				fail("repaired-snapshot-unreadable", "snapshot %d: the snapshot left after the repair cannot be read completely", i+1)
			}
			for path := range got {
				if s.files[path] == nil {
					fail("file-foreign", "snapshot %d: file %q appears after the repair but was never backed up", i+1, path)
				}
			}
			for path, of := range s.files {
				chainOK := true
				for _, tid := range of.trees {
					if !avail[restic.BlobHandle{Type: restic.TreeBlob, ID: tid}] {
						chainOK = false
					}
				}
				var remaining []byte
				complete := true
				for _, id := range of.blobs {
					h := restic.BlobHandle{Type: restic.DataBlob, ID: id}
					if avail[h] {
						remaining = append(remaining, f.blobs[h]...)
					} else {
						complete = false
					}
				}
				g := got[path]
				switch {
				case chainOK && complete:
					if g == nil {
						fail("intact-file-removed", "snapshot %d: file %q whose data is fully available is missing after the repair", i+1, path)
					} else if !bytes.Equal(g.data, of.data) {
						fail("intact-file-changed", "snapshot %d: file %q whose data is fully available has different content after the repair (%d vs %d bytes)", i+1, path, len(g.data), len(of.data))
					}
				case !chainOK:
					if g != nil {
						fail("file-below-lost-tree", "snapshot %d: file %q is present although a tree on its path was lost", i+1, path)
					}
				default:
					if g != nil && !bytes.Equal(g.data, remaining) {
						fail("damaged-file-content", "snapshot %d: file %q lost data and now has %d bytes that are not its remaining blobs in order (%d bytes)", i+1, path, len(g.data), len(remaining))
					}
				}
			}
		}
		return nil
	})
	if err != nil {
		fail("reopen-failed", "the repository cannot be opened/indexed after the repairs: %v", err)
	}
	outcome = fmt.Sprintf("lost=%v|kept=%d|repaired=%d|removed=%d", lost > 0, kept, repaired, removed)
	return fails, outcome, nontrivial
}

func TestVerif_C34(t *testing.T) {
	r := vh.Start(t, "C34")
	defer r.Finish()
	r.Rule("every pack of a small real repository x {flip first/middle/last byte of every blob and of the header, header length byte; truncate at every blob boundary +-1, to 0, by 1}; plus pairs of sites in two packs sharing a duplicated blob repaired in one run; each site = fresh repository copy + real repair packs + repair snapshots --forget + check --read-data + full read-back; non-trivial = a blob of the pack was lost or its header was damaged")
	versions := []uint{2}
	if r.Thorough() {
		versions = []uint{1, 2}
	}
	n := 0
	// two damaged packs that share a blob, repaired in one run: fixture with a third pack holding a second
	// copy of one data blob; every pair (middle of a blob / header of the first data pack) x (middle of a
	// blob of the duplicate's pack)
	for _, version := range versions {
		fd := verifC34Build(t, version, true)
		var pa, pd *verifC34Pack
		for _, p := range fd.packs {
			switch p.role {
			case "b1-data":
				pa = p
			case "dup-data":
				pd = p
			}
		}
		if pa == nil || pd == nil || len(pd.blobs) != 2 {
			var roles []string
			for _, p := range fd.packs {
				roles = append(roles, fmt.Sprintf("%s(%d blobs)", p.role, len(p.blobs)))
			}
			t.Fatalf("dup fixture: packs %v", roles)
		}
		mid := func(p *verifC34Pack) (out []verifC34Site) {
			for _, st := range verifC34Sites(p) {
				if st.op == "flip" && (strings.HasSuffix(st.tag, ".middle") || st.tag == "header.first") {
					out = append(out, st)
				}
			}
			return out
		}
		for _, sa := range mid(pa) {
			for _, sd := range mid(pd) {
				ck := fmt.Sprintf("v%d|dup|b1-data:%s+dup-data:%s", version, sa.tag, sd.tag)
				if !r.Case(ck) {
					continue
				}
				if r.Expired() {
					return
				}
				n++
				workdir := filepath.Join(r.Scratch, fmt.Sprintf("case%d", n))
				var fails []string
				var outcome string
				var nt bool
				panicked, msg := vh.NoPanic(func() {
					fails, outcome, nt = verifC34CaseN(t, r, fd, []verifC34Damage{{pa, sa}, {pd, sd}}, workdir)
				})
				_ = os.RemoveAll(workdir)
				r.Eval(1)
				r.Trace(1)
				r.Transition(3)
				if panicked {
					r.Violationf(ck, "C34|"+ck+"|panic", ck, "panic: %s", msg)
					continue
				}
				r.Outcome("two-packs|" + outcome)
				if nt {
					r.NontrivialByConstruction(1)
				}
				for _, fl := range fails {
					kind := fl[:strings.Index(fl, ":")]
					r.Violationf(ck, "C34|"+ck+"|"+kind, map[string]any{"version": version, "packs": "b1-data + dup-data", "sites": sa.tag + " + " + sd.tag}, "%s [%s]", fl, ck)
				}
			}
		}
	}
	for _, version := range versions {
		f := verifC34Build(t, version, false)
		for _, p := range f.packs {
			if !r.Thorough() && !strings.HasPrefix(p.role, "b1-") {
				continue
			}
			for _, site := range verifC34Sites(p) {
				ck := fmt.Sprintf("v%d|%s|%s@%s", version, p.role, site.op, site.tag)
				if !r.Case(ck) {
					continue
				}
				if r.Expired() {
					return
				}
				n++
				workdir := filepath.Join(r.Scratch, fmt.Sprintf("case%d", n))
				var fails []string
				var outcome string
				var nt bool
				panicked, msg := vh.NoPanic(func() { fails, outcome, nt = verifC34Case(t, r, f, p, site, workdir) })
				_ = os.RemoveAll(workdir)
				r.Eval(1)
				r.Trace(1)
				r.Transition(3)
				if panicked {
					r.Violationf(ck, "C34|"+ck+"|panic", ck, "panic: %s", msg)
					continue
				}
				r.Outcome(p.role[3:] + "|" + outcome)
				if nt {
					r.NontrivialByConstruction(1)
				}
				for _, fl := range fails {
					kind := fl[:strings.Index(fl, ":")]
					r.Violationf(ck, "C34|"+ck+"|"+kind, map[string]any{"version": version, "pack": p.role, "op": site.op, "site": site.tag, "offset": site.off}, "%s [%s]", fl, ck)
				}
				if strings.HasSuffix(site.tag, "/d/a#0.middle") {
					r.Sample(map[string]any{"case": ck, "outcome": outcome})
				}
			}
		}
	}
}

package main

// C20 part 2: --delete when the tree of a snapshot directory cannot be loaded.
//
// "With --delete, exactly the pre-existing entries that are selected but not
// part of the snapshot are removed": restore reports the unreadable tree
// through its error callback and (as cmd/restic does) continues; for that
// directory it does not know which entries are part of the snapshot, so no
// pre-existing entry that IS part of the snapshot may be removed there.
//
// Fixture without forging: three real backups of a growing source
//   backup 0: T/a/b/a                     -> tree pack TP0 holds the tree of /a/b
//   backup 1: T/a/a, T/a/b/a              -> tree pack TP1 holds the tree of /a
//   backup 2: + T/b, T/ab/a               -> tree pack TP2 holds the root of T
// (deduplication keeps the old trees in their first pack).  A damage variant
// removes TP0 (tree of /a/b unloadable) or TP1 (tree of /a unloadable) from
// the repository directory, then the third snapshot's T is restored into a
// target that holds every snapshot entry (content "PRE:") plus one extra file
// per directory, for every option set of a small list x {--delete, no --delete}.
//
// Oracle: (1) no pre-existing entry whose path is in the snapshot is missing
// afterwards; (2) selected snapshot files outside the damaged subtree carry the
// snapshot content (the restore continued); (3) extras outside the damaged
// subtree follow the deletion rule of part 1 (selected + directory restored).

import (
	"context"
	"fmt"
	"os"
	"path"
	"path/filepath"
	"sort"
	"strings"
	"testing"

	"github.com/restic/restic/internal/data"
	"github.com/restic/restic/internal/global"
	"github.com/restic/restic/internal/repository"
	"github.com/restic/restic/internal/restic"
	"github.com/restic/restic/internal/ui/progress"
	"github.com/restic/restic/internal/verifshim/vh"
)

func verifC20WithRepo(t testing.TB, gopts global.Options, fn func(ctx context.Context, repo *repository.Repository) error) error {
	return withTermStatus(t, gopts, func(ctx context.Context, gopts global.Options) error {
		printer := progress.NewTerminalPrinter(false, gopts.Verbosity, gopts.Term)
		ctx, repo, unlock, err := openWithReadLock(ctx, gopts, true, printer)
		if err != nil {
			return err
		}
		defer unlock()
		if err := repo.LoadIndex(ctx, printer); err != nil {
			return err
		}
		return fn(ctx, repo)
	})
}

type verifC20DamagedOpt struct {
	name    string
	include []string
	exclude []string
}

func verifC20Damaged(t *testing.T, r *vh.Run) {
	if !r.Case("damaged-subtree") {
		return
	}
	r.Rule("part 2: restore [--delete] of a snapshot in which the tree of one directory (/a or /a/b) cannot be loaded (its pack file is gone), into a target that holds all snapshot entries and one extra per directory, 7 option sets: no pre-existing entry that is part of the snapshot may be removed; the rest of the restore follows part 1's model")

	snapEntries := map[string]bool{"/a": true, "/a/a": false, "/a/b": true, "/a/b/a": false, "/b": false, "/ab": true, "/ab/a": false}
	extras := map[string]bool{"/x": false, "/a/x": false, "/a/b/x": false, "/ab/x": false}
	opts := []verifC20DamagedOpt{
		{name: "all"},
		{name: "include:/a", include: []string{"/a"}},
		{name: "include:a", include: []string{"a"}},
		{name: "include:/a/b", include: []string{"/a/b"}},
		{name: "include:x", include: []string{"x"}},
		{name: "exclude:/b", exclude: []string{"/b"}},
		{name: "exclude:x", exclude: []string{"x"}},
	}

	for _, damaged := range []string{"/a", "/a/b"} {
		func() {
			env, cleanup := withTestEnvironment(t)
			defer cleanup()
			testRunInit(t, env.gopts)
			src := filepath.Join(env.testdata, "src", "T")
			dataDir := filepath.Join(env.repo, "data")
			packs := func() map[string]bool {
				m := map[string]bool{}
				_ = filepath.Walk(dataDir, func(p string, fi os.FileInfo, err error) error {
					if err == nil && fi.Mode().IsRegular() {
						m[p] = true
					}
					return nil
				})
				return m
			}
			stages := []map[string]bool{
				{"/a/b/a": false},
				{"/a/a": false},
				{"/b": false, "/ab/a": false},
			}
			for _, st := range stages {
				verifC20Write(t, src, st, "SNAP:")
				testRunBackup(t, "", []string{src}, BackupOptions{}, env.gopts)
			}
			ids := testListSnapshots(t, env.gopts, 3)
			// the newest snapshot is the one with three top-level entries; find it and the pack of the damaged tree
			var snapID string
			var victim restic.ID
			err := verifC20WithRepo(t, env.gopts, func(ctx context.Context, repo *repository.Repository) error {
				for _, id := range ids {
					sn, err := data.LoadSnapshot(ctx, repo, id)
					if err != nil {
						return err
					}
					tid, err := data.FindTreeDirectory(ctx, repo, sn.Tree, filepath.ToSlash(src))
					if err != nil {
						return err
					}
					n := 0
					it, err := data.LoadTree(ctx, repo, *tid)
					if err != nil {
						return err
					}
					for item := range it {
						if item.Error != nil {
							return item.Error
						}
						n++
					}
					if n != 3 {
						continue
					}
					snapID = id.String()
					did, err := data.FindTreeDirectory(ctx, repo, sn.Tree, filepath.ToSlash(src)+damaged)
					if err != nil {
						return err
					}
					pbs := repo.LookupBlob(restic.BlobHandle{Type: restic.TreeBlob, ID: *did})
					if len(pbs) != 1 {
						return fmt.Errorf("tree of %s is in %d packs", damaged, len(pbs))
					}
					victim = pbs[0].PackID()
					// the root of T must not be in the same pack
					rbs := repo.LookupBlob(restic.BlobHandle{Type: restic.TreeBlob, ID: *tid})
					for _, pb := range rbs {
						if pb.PackID() == victim {
							return fmt.Errorf("root tree shares the pack of %s", damaged)
						}
					}
				}
				return nil
			})
			if err != nil || snapID == "" {
				r.Violationf("damaged-subtree", "C20|harness|fixture", nil, "fixture: %v (snapshot %q)", err, snapID)
				return
			}
			removed := 0
			for p := range packs() {
				if filepath.Base(p) == victim.String() {
					if err := os.Remove(p); err != nil {
						t.Fatal(err)
					}
					removed++
				}
			}
			if removed != 1 {
				r.Violationf("damaged-subtree", "C20|harness|fixture", nil, "pack %v of the tree of %s not found in %s", victim, damaged, dataDir)
				return
			}
			env.gopts.NoLock = true
			env.gopts.NoCache = true // tree packs are in the local cache otherwise
			snap := snapID + ":" + filepath.ToSlash(src)

			pre := map[string]bool{}
			for p, d := range snapEntries {
				pre[p] = d
			}
			for p, d := range extras {
				pre[p] = d
			}
			inDamaged := func(p string) bool { return p == damaged || strings.HasPrefix(p, damaged+"/") }

			n := 0
			for _, o := range opts {
				for _, del := range []bool{true, false} {
					n++
					target := filepath.Join(env.base, fmt.Sprintf("dtarget%d", n))
					if err := os.MkdirAll(target, 0o755); err != nil {
						t.Fatal(err)
					}
					verifC20Write(t, target, pre, "PRE:")
					ropts := RestoreOptions{Target: target, Delete: del}
					ropts.Includes = o.include
					ropts.Excludes = o.exclude
					var rerr error
					panicked, pmsg := vh.NoPanic(func() { rerr = testRunRestoreAssumeFailure(t, snap, ropts, env.gopts) })
					got := verifC20Listing(target)
					_ = os.RemoveAll(target)
					r.Eval(1)
					r.Trace(1)
					r.NontrivialByConstruction(1)
					vid := fmt.Sprintf("damaged=%s|%s|delete=%v", damaged, o.name, del)
					detail := map[string]any{"damaged_tree": damaged, "options": o.name, "delete": del, "restore_error": fmt.Sprint(rerr)}
					if panicked {
						r.Violationf("damaged-subtree", "C20|damaged|panic|"+vid, detail, "runRestore panicked: %s", pmsg)
						continue
					}
					var lists []verifC20List
					exclude := len(o.exclude) > 0
					if len(o.include) > 0 {
						lists = []verifC20List{{pats: o.include}}
					} else if exclude {
						lists = []verifC20List{{pats: o.exclude}}
					}
					selected := func(p string) bool {
						if len(lists) == 0 {
							return true
						}
						return verifC20Selected(lists, exclude, p)
					}
					bad := false
					var paths []string
					for p := range pre {
						paths = append(paths, p)
					}
					sort.Strings(paths)
					for _, p := range paths {
						_, inSnap := snapEntries[p]
						g, present := got[p]
						switch {
						case inSnap && !present:
							bad = true
							where := "outside the unreadable directory"
							if inDamaged(p) {
								where = "in the directory whose tree could not be loaded"
							}
							r.Violationf("damaged-subtree", "C20|damaged|snapshot-entry-removed|"+vid, verifC20Detail(detail, "path", p),
								"tree of %s unloadable, %s, delete=%v: pre-existing %s is part of the snapshot (%s) but was removed; restore returned %v", damaged, o.name, del, p, where, rerr)
						case inSnap && !inDamaged(p) && !snapEntries[p] && selected(p) && g != "file:SNAP:"+p:
							bad = true
							r.Violationf("damaged-subtree", "C20|damaged|selected-file-not-restored|"+vid, verifC20Detail(detail, "path", p, "got", g),
								"tree of %s unloadable, %s, delete=%v: selected snapshot file %s outside the unreadable directory has %q", damaged, o.name, del, p, g)
						case inSnap && !snapEntries[p] && !selected(p) && g != "file:PRE:"+p:
							bad = true
							r.Violationf("damaged-subtree", "C20|damaged|unselected-file-written|"+vid, verifC20Detail(detail, "path", p, "got", g),
								"tree of %s unloadable, %s, delete=%v: unselected %s has %q", damaged, o.name, del, p, g)
						case !inSnap && !present && (!del || !selected(p)):
							bad = true
							r.Violationf("damaged-subtree", "C20|damaged|extra-removed|"+vid, verifC20Detail(detail, "path", p),
								"tree of %s unloadable, %s, delete=%v: pre-existing %s is not selected for deletion but was removed", damaged, o.name, del, p)
						case !inSnap && present && del && selected(p) && !inDamaged(path.Dir(p)) && path.Dir(p) != "/" && selected(path.Dir(p)):
							// its directory is selected, readable and restored: part 1's rule applies
							bad = true
							r.Violationf("damaged-subtree", "C20|damaged|delete-missed|"+vid, verifC20Detail(detail, "path", p),
								"tree of %s unloadable, %s, --delete: pre-existing %s is selected and not in the snapshot, its directory was restored, but it was kept", damaged, o.name, p)
						}
					}
					if rerr == nil && selected(damaged) {
						// informational only: not part of C20
						r.Count("damaged_restore_reported_success", 1)
					}
					if !bad {
						r.Outcome(fmt.Sprintf("damaged-ok|%s|err=%v", vid, rerr != nil))
					}
				}
			}
		}()
	}
}

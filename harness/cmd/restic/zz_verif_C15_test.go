package main

// C15: `check` reports no errors on any repository restic itself produced —
// over operation histories and crash points.
//
// Space: all histories of length <= 2 (quick) / <= 3 (thorough; length 3 only
// with a fixed first operation "backup1") over the alphabet of real command
// functions {backup src1, backup src2, forget keep-last 1, prune max-unused 0,
// prune default, tag --add, rewrite --exclude --forget, repair index, key add,
// unlock, (v1 start only) migrate upgrade_repo_v2}.  The prefix runs to
// completion on an ungated store; the LAST operation runs under the GATE
// explorer: deviation bound 0 quick (the default schedule, all of its crash
// states incl. in-flight subsets), bound 1 thorough (every single reorder /
// injected failure in addition).
//
// Oracle, for every distinct crash state and for every final state: as a user
// would after a crash, `unlock --remove-all`, then the real `runCheck
// --read-data`; it must return no error and summary.NumErrors == 0 (hints such
// as orphaned packs are allowed by runCheck itself).

import (
	"context"
	"fmt"
	"os"
	"path/filepath"
	"strings"
	"testing"

	"github.com/restic/restic/internal/backend"
	"github.com/restic/restic/internal/data"
	"github.com/restic/restic/internal/filter"
	"github.com/restic/restic/internal/global"
	"github.com/restic/restic/internal/repository"
	"github.com/restic/restic/internal/verifshim/crashx"
	"github.com/restic/restic/internal/verifshim/gatebe"
	"github.com/restic/restic/internal/verifshim/oracle"
	"github.com/restic/restic/internal/verifshim/vh"
	"github.com/restic/restic/internal/verifshim/xplore"
)

type verifC15Op struct {
	name string
	run  func(ctx context.Context, gopts global.Options) error
	// mayFail: the command may legitimately refuse (e.g. nothing to do); then the state must be unchanged-consistent anyway
}

// verifC15Check is the state oracle.  The order in which check's parallel index loader hands the index
// files to the master index is the runtime's choice and the merged index may depend on it, so for states
// with several index files the loader's completion order is explored as well: index loads are gated and
// every order within the deviation bound (quick 1, thorough 2 departures from arrival order) is executed.
func verifC15Check(t *testing.T, ctx context.Context, scratch string, st gatebe.State, orderBound int) []string {
	nIdx := 0
	for k := range st {
		if k.Type == backend.IndexFile {
			nIdx++
		}
	}
	if nIdx < 2 {
		store := gatebe.NewStoreFrom(st, nil)
		return verifC15CheckOn(t, ctx, scratch, &gatebe.Backend{S: store, Proc: "check", Conns: 3, AtomicReplace: true})
	}
	var probs []string
	orders := 0
	sc := xplore.Scenario{
		Start: func(x *xplore.Exec) {
			store := gatebe.NewStoreFrom(st, nil)
			be := &gatebe.Backend{S: store, Proc: "check", Conns: 3, AtomicReplace: true, X: func() *xplore.Exec { return x },
				Filter: func(op *gatebe.Op) bool { return op.Kind == "Load" && op.Key.Type == backend.IndexFile }}
			x.Go("check", func() { x.Data = verifC15CheckOn(t, x.Ctx, scratch, be) })
		},
	}
	xplore.Explore(t, sc, xplore.Options{Policy: xplore.FIFO, Bound: orderBound, MaxSteps: 400, RootOwner: true}, func(x *xplore.Exec) {
		orders++
		switch {
		case len(x.Panics) > 0:
			probs = append(probs, "check panicked: "+x.Panics[0])
		case x.Deadlock:
			probs = append(probs, "check blocked forever")
		default:
			if p, _ := x.Data.([]string); len(p) > 0 && len(probs) == 0 {
				probs = append(probs, fmt.Sprintf("%s [index files handed to the master index in the order %s]", strings.Join(p, "; "), strings.Join(x.Labels, " ")))
			}
		}
	})
	verifC15Orders += int64(orders)
	return probs
}

var verifC15Orders int64

func verifC15CheckOn(t testing.TB, ctx context.Context, scratch string, be *gatebe.Backend) []string {
	gopts := verifGopts(t, scratch, be, oracle.Password)
	if err := verifRun(t, ctx, gopts, func(ctx context.Context, gopts global.Options) error {
		return runUnlock(ctx, UnlockOptions{RemoveAll: true}, gopts, gopts.Term)
	}); err != nil {
		return []string{"unlock --remove-all failed: " + err.Error()}
	}
	var summary checkSummary
	err := verifRun(t, ctx, gopts, func(ctx context.Context, gopts global.Options) error {
		var err error
		summary, err = runCheck(ctx, CheckOptions{ReadData: true}, gopts, nil, gopts.Term)
		return err
	})
	if err != nil || summary.NumErrors != 0 {
		return []string{fmt.Sprintf("check: `check --read-data` reports errors (err=%v, num_errors=%d, broken_packs=%v)", err, summary.NumErrors, summary.BrokenPacks)}
	}
	return nil
}

func TestVerif_C15(t *testing.T) {
	r := vh.Start(t, "C15")
	defer r.Finish()
	r.Rule("all histories up to the length bound over 10-11 real command functions; prefix run to completion, last operation under the GATE explorer (deviation bound 0 quick / 1 thorough); every scheduler step + in-flight subsets is a crash state; oracle = real unlock --remove-all + runCheck --read-data, for states with several index files once per completion order of the parallel index loader within its own deviation bound. non-trivial = crash state that differs from the state before the last operation.")
	r.Assume("backend Save/Remove are atomic (C36)", "lock files are not gated")
	ctx := context.Background()
	oracle.LowKDF()

	src1, src2 := filepath.Join(r.Scratch, "src1"), filepath.Join(r.Scratch, "src2")
	write := func(dir string, files map[string][]byte) {
		for n, b := range files {
			p := filepath.Join(dir, n)
			_ = os.MkdirAll(filepath.Dir(p), 0o755)
			if err := os.WriteFile(p, b, 0o644); err != nil {
				t.Fatal(err)
			}
		}
	}
	write(src1, map[string][]byte{"a": oracle.LCG(61, 3000), "d/skipme": oracle.LCG(62, 2000), "d/b": oracle.LCG(63, 2500)})
	write(src2, map[string][]byte{"a": oracle.LCG(61, 3000), "c": oracle.LCG(64, 4000), "d/skipme": oracle.LCG(65, 1000)})
	bopts := BackupOptions{Host: "verifhost", GroupBy: data.SnapshotGroupByOptions{Host: true, Path: true}}

	ops := []verifC15Op{
		{"backup1", func(ctx context.Context, g global.Options) error {
			return runBackup(ctx, bopts, g, g.Term, []string{src1})
		}},
		{"backup2", func(ctx context.Context, g global.Options) error {
			return runBackup(ctx, bopts, g, g.Term, []string{src2})
		}},
		{"forget-last1", func(ctx context.Context, g global.Options) error {
			return runForget(ctx, ForgetOptions{Last: 1, GroupBy: data.SnapshotGroupByOptions{Host: true}}, PruneOptions{MaxUnused: "5%"}, g, g.Term, nil)
		}},
		{"prune0", func(ctx context.Context, g global.Options) error {
			return runPrune(ctx, PruneOptions{MaxUnused: "0"}, g, g.Term)
		}},
		{"prune5", func(ctx context.Context, g global.Options) error {
			return runPrune(ctx, PruneOptions{MaxUnused: "5%"}, g, g.Term)
		}},
		{"tag-add", func(ctx context.Context, g global.Options) error {
			return runTag(ctx, TagOptions{AddTags: data.TagLists{data.TagList{"x"}}}, g, g.Term, nil)
		}},
		{"rewrite-exclude", func(ctx context.Context, g global.Options) error {
			return runRewrite(ctx, RewriteOptions{Forget: true, ExcludePatternOptions: filter.ExcludePatternOptions{Excludes: []string{"skipme"}}}, g, nil, g.Term)
		}},
		{"repair-index", func(ctx context.Context, g global.Options) error {
			return runRebuildIndex(ctx, RepairIndexOptions{}, g, g.Term)
		}},
		{"key-add", func(ctx context.Context, g global.Options) error {
			testKeyNewPassword = "verif-second"
			defer func() { testKeyNewPassword = "" }()
			return runKeyAdd(ctx, g, KeyAddOptions{}, nil, g.Term)
		}},
		{"unlock", func(ctx context.Context, g global.Options) error {
			return runUnlock(ctx, UnlockOptions{}, g, g.Term)
		}},
	}
	migrate := verifC15Op{"migrate-v2", func(ctx context.Context, g global.Options) error {
		return runMigrate(ctx, MigrateOptions{}, g, []string{"upgrade_repo_v2"}, g.Term)
	}}

	maxLen := 2
	bound := vh.Pick(r, 0, 1)
	orderBound := vh.Pick(r, 1, 2)
	type hist struct {
		version uint
		ops     []verifC15Op
	}
	var hists []hist
	for _, version := range []uint{2, 1} {
		alphabet := ops
		if version == 1 {
			if !r.Thorough() {
				// quick: v1 only for the histories that involve the migration
				for _, first := range []verifC15Op{ops[0], migrate} {
					hists = append(hists, hist{1, []verifC15Op{first, migrate}})
					hists = append(hists, hist{1, []verifC15Op{migrate, first}})
				}
				continue
			}
			alphabet = append(append([]verifC15Op{}, ops...), migrate)
		}
		for _, a := range alphabet {
			hists = append(hists, hist{version, []verifC15Op{a}})
			for _, b := range alphabet {
				hists = append(hists, hist{version, []verifC15Op{a, b}})
				if r.Thorough() && a.name == "backup1" && maxLen >= 2 {
					for _, c := range alphabet {
						hists = append(hists, hist{version, []verifC15Op{a, b, c}})
					}
				}
			}
		}
	}

	if !r.Thorough() {
		// quick: two fixed deeper histories whose last operation repacks (duplicate blobs, rewritten index)
		hists = append(hists, hist{1, []verifC15Op{ops[0], migrate, ops[3]}})
		hists = append(hists, hist{2, []verifC15Op{ops[0], ops[1], ops[2], ops[3]}})
	}

	bases := map[uint]gatebe.State{}
	for _, v := range []uint{1, 2} {
		_, store, err := oracle.NewRepo(ctx, v, repository.Options{})
		if err != nil {
			t.Fatal(err)
		}
		bases[v] = store.Snapshot()
	}
	seen := map[string]bool{}
	prefixCache := map[string]gatebe.State{}
	for _, h := range hists {
		name := fmt.Sprintf("v%d", h.version)
		for _, o := range h.ops {
			name += "/" + o.name
		}
		// prefix, ungated, cached
		st := bases[h.version]
		pname := fmt.Sprintf("v%d", h.version)
		for _, o := range h.ops[:len(h.ops)-1] {
			pname += "/" + o.name
			if c, ok := prefixCache[pname]; ok {
				st = c
				continue
			}
			store := gatebe.NewStoreFrom(st, nil)
			be := &gatebe.Backend{S: store, Proc: "setup", Conns: 3, AtomicReplace: true}
			gopts := verifGopts(t, r.Scratch, be, oracle.Password)
			_ = verifRun(t, ctx, gopts, o.run) // a refusing command leaves the state as it is
			st = store.Snapshot()
			prefixCache[pname] = st
			if !seen["final|"+store.StateKey(st)] {
				seen["final|"+store.StateKey(st)] = true
				if probs := verifC15Check(t, ctx, r.Scratch, st, orderBound); len(probs) > 0 {
					r.Violation(name, "C15|after-completed|"+pname, fmt.Sprintf("after the completed history %s: %s", pname, strings.Join(probs, "; ")), map[string]any{"history": pname})
				}
			}
		}
		last := h.ops[len(h.ops)-1]
		base := st
		sc := crashx.Scenario{
			Property: "C15", Name: name, Base: base,
			Backend: func(be *gatebe.Backend) { be.Ungated = map[backend.FileType]bool{backend.LockFile: true} },
			Prepare: func(ctx context.Context, run *crashx.Run, be *gatebe.Backend) (any, error) {
				run.Data = be
				return nil, nil
			},
			Op: func(ctx context.Context, run *crashx.Run, _ any) error {
				gopts := verifGopts(t, r.Scratch, run.Data.(*gatebe.Backend), oracle.Password)
				return verifRun(t, ctx, gopts, last.run)
			},
			StateOracle: func(ctx context.Context, c crashx.Crash) []string {
				return verifC15Check(t, ctx, r.Scratch, c.State, orderBound)
			},
		}
		crashx.Explore(r, t, sc, bound, seen)
	}
	r.Extra("history_length_bound", vh.Pick(r, 2, 3))
	r.Extra("deviation_bound_last_operation", bound)
	r.Extra("histories", len(hists))
	r.Extra("index_load_order_bound", orderBound)
	r.Count("check_runs_over_index_load_orders", verifC15Orders)
}

// TestVerifRace_C15 runs every scenario body free (gates answer at once, no oracle) under the race detector.
func TestVerifRace_C15(t *testing.T) {
	xplore.Free = 2
	defer func() { xplore.Free = 0 }()
	TestVerif_C15(t)
}

package main

// C04: repository contents leak no plaintext and never reuse a nonce.
//
// Driver: histories of real command lines (real cobra command tree) on a local
// repository.  A recording backend (gopts.BackendTestHook) captures the bytes
// of EVERY file ever saved - also lock files and files that prune / forget /
// rewrite delete later - so the whole history is inspected, not only the final
// directory (which is additionally compared against the capture).
// crypto/rand.Reader is replaced by a deterministic tagged stream (SHA-256 in
// counter mode, seeded by the case key) that remembers every 16-byte read.
//
// Space: histories = "init, backup A" followed by every sequence of length
// 0..2 (thorough; quick: 6 chosen sequences) over the operations
//   {backup A again, backup B (modified tree), forget --keep-last 1,
//    prune --max-unused 0, key add --user/--host, tag --add, rewrite
//    --exclude --forget}
// x repository version {1, 2} x --compression {off, auto, max}.
// The source tree carries distinctive 24-byte markers in: compressible file
// content, incompressible file content (four files of 0.5-1.3 MiB, marker embedded every 64 KiB), a tiny
// file, file names, directory names, the backup path, a symlink target, an
// xattr value, the snapshot host name, tags, key user/host names, and the
// repository password.
//
// Oracle.
//  (1) No marker (nor its first 12 bytes) occurs in any saved byte sequence.
//      Only exception (per the statement): the username/hostname/created
//      fields of key files, which are removed before scanning key files.
//  (2) Every ciphertext - each blob of each pack (located through the pack
//      header parsed with the master key by pack.List), each pack header,
//      each unpacked file (config, snapshot, index, lock), each key file's
//      "data" - starts with a 16-byte nonce that is not all-zero, is a run of
//      16 bytes handed out by the random stream (in reads of any size), and
//      occurs exactly once in the whole history.  Pack bytes must be fully accounted for by
//      blobs + header + length field.
//
//  (3) Freshness under concurrency (blob savers seal concurrently): 2 (quick)
//      / 3 (thorough) goroutines call crypto.NewRandomNonce three times each;
//      every read of the random source and every mutex acquisition inside the
//      crypto package is a scheduling point; all schedules within the
//      preemption bound are executed; all nonces handed out must be pairwise
//      distinct, non-zero runs of the random stream.
//
// Non-trivial: the history stored >= 2 blobs, >= 2 pack headers and >= 2
// unpacked files.

import (
	"bytes"
	"context"
	"crypto/rand"
	"crypto/sha256"
	"encoding/base64"
	"encoding/binary"
	"encoding/hex"
	"encoding/json"
	"fmt"
	"io"
	"io/fs"
	"os"
	"path/filepath"
	"runtime/debug"
	"sort"
	"strings"
	"sync"
	"testing"

	"github.com/restic/restic/internal/backend"
	"github.com/restic/restic/internal/backend/all"
	"github.com/restic/restic/internal/global"
	"github.com/restic/restic/internal/repository/crypto"
	"github.com/restic/restic/internal/repository/pack"
	"github.com/restic/restic/internal/restic"
	"github.com/restic/restic/internal/ui/termstatus"
	"github.com/restic/restic/internal/verifshim/vh"
	"github.com/restic/restic/internal/verifshim/vx"
	"github.com/restic/restic/internal/verifshim/xplore"
	"golang.org/x/sys/unix"
)

// ---- deterministic tagged random stream ----

type verifC04Stream struct {
	mu      sync.Mutex
	seed    [32]byte
	ctr     uint64
	buf     []byte
	reads16 map[[16]byte]int
	all     []byte // every byte handed out so far
}

func verifC04NewStream(seed string) *verifC04Stream {
	return &verifC04Stream{seed: sha256.Sum256([]byte("verif-C04|" + seed)), reads16: map[[16]byte]int{}}
}

// delivered reports whether n is a contiguous run of bytes this stream has handed out.
func (s *verifC04Stream) delivered(n []byte) bool {
	s.mu.Lock()
	defer s.mu.Unlock()
	return bytes.Contains(s.all, n)
}

func (s *verifC04Stream) Read(p []byte) (int, error) {
	s.mu.Lock()
	defer s.mu.Unlock()
	for len(s.buf) < len(p) {
		var c [8]byte
		binary.LittleEndian.PutUint64(c[:], s.ctr)
		s.ctr++
		h := sha256.Sum256(append(s.seed[:], c[:]...))
		s.buf = append(s.buf, h[:]...)
	}
	copy(p, s.buf[:len(p)])
	s.all = append(s.all, p...)
	s.buf = s.buf[len(p):]
	if len(p) == 16 {
		var k [16]byte
		copy(k[:], p)
		s.reads16[k]++
	}
	return len(p), nil
}

// ---- recording backend ----

type verifC04Saved struct {
	Type string
	Name string
	Data []byte
	Step int
}

type verifC04Log struct {
	mu    sync.Mutex
	saved []verifC04Saved
	step  int
}

type verifC04Rec struct {
	backend.Backend
	log *verifC04Log
}

func (b *verifC04Rec) Save(ctx context.Context, h backend.Handle, rd backend.RewindReader) error {
	buf, err := io.ReadAll(rd)
	if err != nil {
		return err
	}
	if err := rd.Rewind(); err != nil {
		return err
	}
	b.log.mu.Lock()
	b.log.saved = append(b.log.saved, verifC04Saved{h.Type.String(), h.Name, buf, b.log.step})
	b.log.mu.Unlock()
	return b.Backend.Save(ctx, h, rd)
}

func (b *verifC04Rec) Unwrap() backend.Backend { return b.Backend }

func verifC04CLI(log *verifC04Log, args ...string) (stdout, stderr string, err error) {
	var o, e bytes.Buffer
	gopts := global.Options{Backends: all.Backends()}
	if log != nil {
		gopts.BackendTestHook = func(be backend.Backend) (backend.Backend, error) { return &verifC04Rec{Backend: be, log: log}, nil }
	}
	term, cancel := termstatus.Setup(io.NopCloser(strings.NewReader("")), &o, &e, false)
	gopts.Term = term
	ctx, cancelCtx := context.WithCancel(context.Background())
	root := newRootCommand(&gopts)
	root.SetArgs(args)
	root.SetOut(&o)
	root.SetErr(&e)
	err = root.ExecuteContext(ctx)
	cancelCtx()
	cancel()
	if err == ErrOK {
		err = nil
	}
	return o.String(), e.String(), err
}

// ---- markers ----

var verifC04Markers = map[string]string{
	"content-compressible":   "MKC1qZ7compressibleXw9Kp",
	"content-incompressible": "MKC2rY8incompressiblVu3J",
	"content-tiny":           "MKC3sX9tinyfilecontentT4",
	"content-appended":       "MKC4tW1appendedlaterRs5H",
	"filename-1":             "MKN1uV2filenameoneQq6Gz7",
	"filename-2":             "MKN2vU3filenametwoPp7Fy8",
	"filename-3":             "MKN3wT4filenamethreeOo8E",
	"dirname":                "MKD1xS5directorynameNn9D",
	"backup-path":            "MKP1yR6backuppathMm1Cx2b",
	"symlink-target":         "MKL1zQ7symlinktargetLl2B",
	"xattr-value":            "MKX1aP8xattrvalueKk3Aw4c",
	"snapshot-host":          "MKH1bO9snapshothostJj4Zv",
	"tag-1":                  "MKT1cN1tagnumberoneIi5Yu",
	"tag-2":                  "MKT2dM2tagnumbertwoHh6Xt",
	"tag-3":                  "MKT3eL3tagaddedlaterGg7W",
	"key-user":               "MKU1fK4keyusernameFf8Vs9",
	"key-host":               "MKU2gJ5keyhostnameEe9Ur1",
	"password":               "MKW1hI6repopasswordDd1Tq",
	"password-2":             "MKW2iH7secondpasswdCc2Sp",
}

func verifC04LCG(n int, seed uint32) []byte {
	b := make([]byte, n)
	x := seed
	for i := range b {
		x = x*1664525 + 1013904223
		b[i] = byte(x >> 24)
	}
	return b
}

func verifC04WriteTree(t *testing.T, root string, stage int) {
	m := verifC04Markers
	must := func(err error) {
		if err != nil {
			t.Fatalf("C04 fixture: %v", err)
		}
	}
	d := filepath.Join(root, "d-"+m["dirname"])
	must(os.MkdirAll(d, 0o755))
	var comp bytes.Buffer
	for i := 0; i < 600; i++ {
		fmt.Fprintf(&comp, "line %04d %s lorem ipsum dolor sit amet\n", i%7, m["content-compressible"])
	}
	if stage > 0 {
		for i := 0; i < 200; i++ {
			fmt.Fprintf(&comp, "more %s\n", m["content-appended"])
		}
	}
	must(os.WriteFile(filepath.Join(d, "name-"+m["filename-1"]+".txt"), comp.Bytes(), 0o644))
	inc := verifC04LCG(600*1024, 5)
	for off := 1000; off+24 < len(inc); off += 64 * 1024 {
		copy(inc[off:], m["content-incompressible"])
	}
	must(os.WriteFile(filepath.Join(d, "bin-"+m["filename-2"]), inc, 0o644))
	// further incompressible files of more than the minimal chunk size: several blobs whose ciphertext is
	// at least 512 KiB are sealed one after the other in one process (buffers of that size class are the ones
	// an implementation might recycle)
	for i, n := range []int{700 * 1024, 1300 * 1024, 560 * 1024} {
		big := verifC04LCG(n, uint32(11+i))
		for off := 2000; off+24 < len(big); off += 64 * 1024 {
			copy(big[off:], m["content-incompressible"])
		}
		must(os.WriteFile(filepath.Join(d, fmt.Sprintf("big%d", i)), big, 0o644))
	}
	must(os.WriteFile(filepath.Join(d, "tiny"), []byte(m["content-tiny"]), 0o644))
	_ = os.Remove(filepath.Join(d, "link"))
	must(os.Symlink("/nowhere/"+m["symlink-target"], filepath.Join(d, "link")))
	must(unix.Lsetxattr(filepath.Join(d, "tiny"), "user.verif", []byte(m["xattr-value"]), 0))
	if stage > 0 {
		must(os.WriteFile(filepath.Join(root, "new-"+m["filename-3"]), verifC04LCG(30*1024, 9), 0o644))
	}
}

// ---- analysis ----

// verifC04Find reports whether data contains the marker raw, its first 12
// bytes, or its base64 encoding at any of the three alignments.
func verifC04Find(data []byte, marker string) bool {
	if bytes.Contains(data, []byte(marker)) || bytes.Contains(data, []byte(marker[:12])) {
		return true
	}
	for pad := 0; pad < 3; pad++ {
		enc := base64.StdEncoding.EncodeToString(append(make([]byte, pad), marker...))
		// drop the characters influenced by the padding bytes and by what follows the marker
		core := enc[4 : len(enc)-4]
		if pad == 0 {
			core = enc[:len(enc)-4]
		}
		if bytes.Contains(data, []byte(core)) {
			return true
		}
	}
	return false
}

type verifC04Nonce struct {
	Class string
	Where string
}

func TestVerif_C04(t *testing.T) {
	r := vh.Start(t, "C04")
	defer r.Finish()
	r.Rule("histories (init, backup A, then every sequence of length <= 2 over 7 operations; quick: 6 sequences) x repo version {1,2} x compression {off,auto,max} run through the real command tree; every byte sequence ever saved is captured below the repository layer and scanned for 19 markers; every ciphertext's nonce is checked to be non-zero, a run of 16 bytes handed out by the random stream, and unique in the history; plus all interleavings (preemption-bounded) of 2-3 goroutines drawing nonces with crypto.NewRandomNonce, scheduling points at every read of the random source and every mutex acquisition inside the crypto package: all nonces pairwise distinct; non-trivial = history stored >= 2 blobs, >= 2 pack headers and >= 2 unpacked files")
	r.Assume("crypto/rand.Reader is replaced by a deterministic SHA-256 counter stream; the statistical quality of the OS random source is out of scope",
		"marker search is for the raw 24-byte markers and their 12-byte prefixes; an encoding of a marker (base64, hex, compressed) would only be found through the unencrypted-region check of packs and the nonce/decryption checks")
	env, cleanup := withTestEnvironment(t)
	defer cleanup()
	_ = env
	m := verifC04Markers
	t.Setenv("RESTIC_PASSWORD", m["password"])
	for _, v := range []string{"RESTIC_REPOSITORY", "RESTIC_REPOSITORY_FILE", "RESTIC_PASSWORD_FILE", "RESTIC_PASSWORD_COMMAND", "RESTIC_COMPRESSION", "RESTIC_PACK_SIZE", "RESTIC_HOST"} {
		t.Setenv(v, "")
		_ = os.Unsetenv(v)
	}
	realRand := rand.Reader
	defer func() { rand.Reader = realRand }()
	// harness-only tuning: no garbage collection while the histories run, so that object pools (sync.Pool) are
	// not emptied at random moments and a recycled buffer is handed out again as deterministically as possible
	defer debug.SetGCPercent(debug.SetGCPercent(-1))

	ops := []string{"backup-again", "backup-B", "forget", "prune", "key-add", "tag", "rewrite"}
	var histories [][]string
	if r.Thorough() {
		histories = append(histories, []string{})
		for _, a := range ops {
			histories = append(histories, []string{a})
			for _, b := range ops {
				histories = append(histories, []string{a, b})
			}
		}
	} else {
		histories = [][]string{
			{},
			{"backup-again", "backup-B"},
			{"backup-B", "forget", "prune"},
			{"key-add", "backup-B"},
			{"tag", "rewrite"},
			{"backup-B", "rewrite", "prune"},
		}
	}
	type config struct{ version, compression string }
	var configs []config
	for _, v := range []string{"1", "2"} {
		for _, c := range []string{"off", "auto", "max"} {
			configs = append(configs, config{v, c})
		}
	}

	verifC04ConcurrentNonces(t, r)

	seq := 0
	for _, h := range histories {
		for _, cfg := range configs {
			ck := fmt.Sprintf("%s|v%s|%s", strings.Join(h, ","), cfg.version, cfg.compression)
			if !r.Case(ck) {
				continue
			}
			if r.Expired() {
				return
			}
			seq++
			work := filepath.Join(r.Scratch, fmt.Sprintf("h%d", seq))
			repo := filepath.Join(work, "repo")
			dataRoot := filepath.Join(work, "root-"+m["backup-path"])
			if err := os.MkdirAll(dataRoot, 0o755); err != nil {
				t.Fatal(err)
			}
			stream := verifC04NewStream(ck)
			crypto.VerifResetGlobals() // random bytes an implementation may have buffered belong to the previous stream
			rand.Reader = stream
			log := &verifC04Log{}
			var trace []string
			run := func(mustOK bool, args ...string) {
				log.mu.Lock()
				log.step = len(trace)
				log.mu.Unlock()
				full := append([]string{"-r", repo, "--no-cache", "--compression", cfg.compression}, args...)
				trace = append(trace, strings.Join(args, " "))
				_, se, err := verifC04CLI(log, full...)
				r.Transition(1)
				if err != nil && mustOK {
					rand.Reader = realRand
					t.Fatalf("C04 fixture: restic %v: %v\n%s", args, err, se)
				}
			}
			verifC04WriteTree(t, dataRoot, 0)
			run(true, "init", "--repository-version", cfg.version)
			run(true, "backup", "--host", m["snapshot-host"], "--tag", m["tag-1"], dataRoot)
			for _, op := range h {
				switch op {
				case "backup-again":
					run(true, "backup", "--host", m["snapshot-host"], "--tag", m["tag-2"], dataRoot)
				case "backup-B":
					verifC04WriteTree(t, dataRoot, 1)
					run(true, "backup", "--host", m["snapshot-host"], "--tag", m["tag-1"]+","+m["tag-2"], dataRoot)
				case "forget":
					run(true, "forget", "--keep-last", "1", "--group-by", "")
				case "prune":
					run(true, "prune", "--max-unused", "0")
				case "key-add":
					pf := filepath.Join(work, "newpw")
					if err := os.WriteFile(pf, []byte(m["password-2"]+"\n"), 0o600); err != nil {
						t.Fatal(err)
					}
					run(true, "key", "add", "--user", m["key-user"], "--host", m["key-host"], "--new-password-file", pf)
				case "tag":
					run(true, "tag", "--add", m["tag-3"])
				case "rewrite":
					run(true, "rewrite", "--exclude", "bin-"+m["filename-2"], "--forget")
				}
			}
			rand.Reader = realRand
			r.Eval(1)
			r.Trace(1)

			// master key
			var master *crypto.Key
			gopts := global.Options{Repo: repo, Password: m["password"], NoCache: true, Backends: all.Backends(), Quiet: true}
			err := withTermStatus(t, gopts, func(ctx context.Context, gopts global.Options) error {
				rp, err := global.OpenRepository(ctx, gopts, restic.NewNoopPrinter())
				if err == nil {
					master = rp.Key()
				}
				return err
			})
			if err != nil {
				t.Fatalf("C04: cannot open repository of %s: %v", ck, err)
			}

			detail := func(extra map[string]any) map[string]any {
				d := map[string]any{"history": trace, "version": cfg.version, "compression": cfg.compression}
				for k, v := range extra {
					d[k] = v
				}
				return d
			}

			// the capture must cover the final directory content
			captured := map[string]bool{}
			for _, s := range log.saved {
				h := sha256.Sum256(s.Data)
				captured[hex.EncodeToString(h[:])] = true
			}
			err = filepath.WalkDir(repo, func(p string, d fs.DirEntry, err error) error {
				if err != nil || d.IsDir() {
					return err
				}
				buf, err := os.ReadFile(p)
				if err != nil {
					return err
				}
				h := sha256.Sum256(buf)
				if !captured[hex.EncodeToString(h[:])] {
					return fmt.Errorf("file %s in the repository was not captured by the recording backend", p)
				}
				return nil
			})
			if err != nil {
				t.Fatalf("C04: %v", err)
			}

			// (1) marker scan
			names := make([]string, 0, len(m))
			for k := range m {
				names = append(names, k)
			}
			sort.Strings(names)
			for _, s := range log.saved {
				data := s.Data
				if s.Type == "key" {
					var km map[string]json.RawMessage
					if err := json.Unmarshal(data, &km); err != nil {
						r.Violationf(ck, "C04|key-file-not-json", detail(map[string]any{"file": s.Name}), "key file %s is not JSON: %v", s.Name, err)
						continue
					}
					delete(km, "username")
					delete(km, "hostname")
					delete(km, "created")
					data, _ = json.Marshal(km)
				}
				for _, mk := range names {
					if verifC04Find(data, m[mk]) {
						r.Violationf(ck, fmt.Sprintf("C04|plaintext|%s|%s", mk, s.Type), detail(map[string]any{"file": s.Type + "/" + s.Name, "step": trace[s.Step], "marker": m[mk]}),
							"marker for %s (%q) occurs in clear (raw, 12-byte prefix or base64) in the stored %s file %s (written by `%s`)", mk, m[mk], s.Type, s.Name, trace[s.Step])
					}
				}
			}
			plainFound := map[string]bool{} // positive control, filled from decrypted bytes below
			notePlain := func(p []byte) {
				for _, mk := range names {
					if !plainFound[mk] && verifC04Find(p, m[mk]) {
						plainFound[mk] = true
					}
				}
			}

			// (2) nonces
			seen := map[[16]byte]verifC04Nonce{}
			count := map[string]int{}
			addNonce := func(n []byte, class, where string) {
				count[class]++
				var k [16]byte
				copy(k[:], n)
				if k == ([16]byte{}) {
					r.Violationf(ck, "C04|nonce-zero|"+class, detail(map[string]any{"object": where}), "%s %s has an all-zero nonce", class, where)
				}
				if !stream.delivered(n) {
					r.Violationf(ck, "C04|nonce-not-random|"+class, detail(map[string]any{"object": where, "nonce": hex.EncodeToString(n)}),
						"nonce %x of %s %s is not a run of 16 bytes handed out by the random source", n, class, where)
				}
				if prev, dup := seen[k]; dup {
					cl := []string{prev.Class, class}
					sort.Strings(cl)
					r.Violationf(ck, "C04|nonce-reuse|"+strings.Join(cl, "+"), detail(map[string]any{"nonce": hex.EncodeToString(n), "first": prev.Where, "second": where}),
						"nonce %x is used twice: %s %s and %s %s", n, prev.Class, prev.Where, class, where)
				} else {
					seen[k] = verifC04Nonce{class, where}
				}
			}
			for _, s := range log.saved {
				where := s.Type + "/" + s.Name
				switch s.Type {
				case "key":
					var k struct {
						Data string `json:"data"`
					}
					raw, derr := []byte(nil), json.Unmarshal(s.Data, &k)
					if derr == nil {
						raw, derr = base64.StdEncoding.DecodeString(k.Data)
					}
					if derr != nil || len(raw) < crypto.Extension {
						r.Violationf(ck, "C04|key-data-malformed", detail(map[string]any{"file": where}), "key file %s has no valid data field", where)
						continue
					}
					addNonce(raw[:16], "keydata", where)
				case "data": // pack file
					size := int64(len(s.Data))
					entries, hdrSize, err := pack.List(master, bytes.NewReader(s.Data), size)
					if err != nil {
						t.Fatalf("C04: cannot list pack %s: %v", where, err)
					}
					hdrLen := int64(binary.LittleEndian.Uint32(s.Data[size-4:]))
					if int64(hdrSize) != hdrLen+4 {
						t.Fatalf("C04: pack %s: header size %d vs length field %d", where, hdrSize, hdrLen)
					}
					addNonce(s.Data[size-4-hdrLen:size-4-hdrLen+16], "packheader", where)
					sort.Slice(entries, func(i, j int) bool { return entries[i].Offset < entries[j].Offset })
					pos := uint(0)
					for _, e := range entries {
						if e.Offset != pos {
							r.Violationf(ck, "C04|pack-unaccounted-bytes", detail(map[string]any{"pack": where, "offset": pos}), "pack %s has bytes at offset %d..%d that belong to no blob", where, pos, e.Offset)
						}
						pos = e.Offset + e.Length
						ct := s.Data[e.Offset : e.Offset+e.Length]
						addNonce(ct[:16], "blob", fmt.Sprintf("%s#%s", where, e.ID.Str()))
						pt, err := master.Open(nil, ct[:16], ct[16:], nil)
						if err != nil {
							t.Fatalf("C04: blob %v in %s does not decrypt: %v", e.ID, where, err)
						}
						notePlain(pt)
					}
					if int64(pos) != size-4-hdrLen {
						r.Violationf(ck, "C04|pack-unaccounted-bytes", detail(map[string]any{"pack": where, "offset": pos}), "pack %s has %d bytes between the last blob and the header that belong to no blob", where, size-4-hdrLen-int64(pos))
					}
				default: // config, snapshot, index, lock
					if len(s.Data) < crypto.Extension {
						r.Violationf(ck, "C04|unpacked-too-short|"+s.Type, detail(map[string]any{"file": where}), "%s is shorter than nonce+MAC", where)
						continue
					}
					addNonce(s.Data[:16], "unpacked", where)
					pt, err := master.Open(nil, s.Data[:16], s.Data[16:], nil)
					notePlain(pt)
					if err != nil {
						r.Violationf(ck, "C04|unpacked-not-encrypted|"+s.Type, detail(map[string]any{"file": where}), "%s does not decrypt with the master key (nonce||ciphertext||MAC expected): %v", where, err)
					}
				}
			}
			// positive control of the marker scan: in a version 1 repository nothing is
			// compressed, so the decrypted objects must contain the markers the scan looks for
			if cfg.version == "1" {
				for _, mk := range []string{"content-compressible", "content-incompressible", "content-tiny", "filename-1", "filename-2", "dirname", "backup-path",
					"symlink-target", "xattr-value", "snapshot-host", "tag-1"} {
					if !plainFound[mk] {
						t.Fatalf("C04: positive control failed: marker %s not found in the decrypted objects of %s - the marker scan would be vacuous", mk, ck)
					}
				}
				r.Count("positive_control_histories", 1)
			}
			if count["blob"] >= 2 && count["packheader"] >= 2 && count["unpacked"] >= 2 {
				r.Nontrivial(ck)
			}
			r.Count("ciphertexts_blob", int64(count["blob"]))
			r.Count("ciphertexts_packheader", int64(count["packheader"]))
			r.Count("ciphertexts_unpacked", int64(count["unpacked"]))
			r.Count("ciphertexts_keydata", int64(count["keydata"]))
			r.Count("files_captured", int64(len(log.saved)))
			r.Outcome(fmt.Sprintf("keys=%d|locks=%v", count["keydata"], func() bool {
				for _, s := range log.saved {
					if s.Type == "lock" {
						return true
					}
				}
				return false
			}()))
			if len(h) == 3 || (r.Thorough() && len(h) == 2 && h[0] == "backup-B" && h[1] == "prune") {
				r.Sample(map[string]any{"case": ck, "history": trace, "files_captured": len(log.saved), "ciphertexts": count, "random_16_byte_reads": len(stream.reads16)})
			}
			_ = os.RemoveAll(work)
		}
	}
}

// ---- (3) fresh nonces under concurrency ----

type verifC04GatedRand struct {
	mu sync.Mutex
	x  *xplore.Exec
	s  *verifC04Stream
	n  map[string]int
}

func (g *verifC04GatedRand) Read(p []byte) (int, error) {
	if proc := g.x.ProcOfCaller(); proc != "" {
		g.mu.Lock() // goroutines run freely until their first scheduling point
		g.n[proc]++
		k := g.n[proc]
		g.mu.Unlock()
		g.x.Gate(xplore.Event{Key: fmt.Sprintf("%s:rand.Read#%d", proc, k), Proc: proc, Kind: "rand"})
	}
	return g.s.Read(p)
}

type verifC04NonceExec struct {
	mu     sync.Mutex
	stream *verifC04Stream
	got    map[string][][]byte
}

func verifC04ConcurrentNonces(t *testing.T, r *vh.Run) {
	procs := []string{"G1", "G2"}
	if r.Thorough() {
		procs = append(procs, "G3")
	}
	const calls = 3
	name := fmt.Sprintf("nonces/%d-goroutines", len(procs))
	realRand := rand.Reader
	defer func() { rand.Reader = realRand }()
	sc := xplore.Scenario{
		Start: func(x *xplore.Exec) {
			// every execution starts from the crypto package's state at program start (generated
			// VerifResetGlobals, see global_reset in checks/C04.json): executions stay independent even if
			// a change keeps state between calls
			crypto.VerifResetGlobals()
			st := &verifC04NonceExec{stream: verifC04NewStream(name), got: map[string][][]byte{}}
			x.Data = st
			rand.Reader = &verifC04GatedRand{x: x, s: st.stream, n: map[string]int{}}
			for _, g := range procs {
				g := g
				x.Go(g, func() {
					for i := 0; i < calls; i++ {
						// the slice is kept as returned (no copy): a caller seals with it later
						n := crypto.NewRandomNonce()
						st.mu.Lock()
						st.got[g] = append(st.got[g], n)
						st.mu.Unlock()
					}
				})
			}
		},
	}
	check := func(x *xplore.Exec) {
		st := x.Data.(*verifC04NonceExec)
		rand.Reader = realRand
		key := strings.Join(x.Trace, ">")
		r.State(key)
		last, switches := "", 0
		for _, k := range x.Trace {
			p := strings.SplitN(k, ":", 2)[0]
			if last != "" && p != last {
				switches++
			}
			last = p
		}
		if switches >= 2 {
			r.Nontrivial(key)
		}
		if len(x.Panics) > 0 {
			vx.Violation(r, name, x, "C04|concurrent|panic", x.Panics[0], nil)
			return
		}
		if x.Deadlock {
			vx.Violation(r, name, x, "C04|concurrent|deadlock", "goroutines drawing nonces block each other forever", nil)
			return
		}
		seen := map[[16]byte]string{}
		total := 0
		for _, g := range procs {
			for i, n := range st.got[g] {
				total++
				where := fmt.Sprintf("%s call %d", g, i+1)
				var k [16]byte
				copy(k[:], n)
				switch {
				case len(n) != 16:
					vx.Violation(r, name, x, "C04|concurrent|nonce-length", fmt.Sprintf("%s returned a nonce of %d bytes", where, len(n)), nil)
				case k == [16]byte{}:
					vx.Violation(r, name, x, "C04|concurrent|nonce-zero", where+" returned an all-zero nonce", nil)
				case !st.stream.delivered(n):
					vx.Violation(r, name, x, "C04|concurrent|nonce-not-random", fmt.Sprintf("nonce %x of %s is not a run of 16 bytes handed out by the random source", n, where), nil)
				}
				if prev, dup := seen[k]; dup {
					vx.Violation(r, name, x, "C04|concurrent|nonce-reuse", fmt.Sprintf("nonce %x was handed out twice: %s and %s", n, prev, where), nil)
				}
				seen[k] = where
			}
		}
		if total != calls*len(procs) && !x.Horizon {
			vx.Violation(r, name, x, "C04|concurrent|missing", fmt.Sprintf("%d of %d NewRandomNonce calls returned", total, calls*len(procs)), nil)
		}
		r.Outcome(fmt.Sprintf("concurrent nonces: %d distinct of %d", len(seen), total))
	}
	stt := vx.Explore(r, t, name, sc, xplore.Options{Policy: xplore.Preempt, Bound: vh.Pick(r, 3, 3), LockPoints: true, MaxSteps: 400}, check)
	r.Note("%s: execs(this shard)=%d maxdev=%d", name, stt.Execs, stt.MaxDev)
	r.Extra("preemption_bound_nonces", 3)
}

package main

// C32: copy transfers snapshots faithfully and idempotently, and an interrupted
// copy never leaves a destination snapshot whose data is missing.
//
// Engine GATE (crashx) on the real runCopy: the source repository (3 forged
// snapshots with overlapping data, one of them carrying an `original`) is an
// ungated store, the destination is the gated store.  Destination variants:
// empty, already holding one of the snapshots (copied earlier), different
// chunker polynomial, repository version 1.  Explored: every completion order
// and every single injected failure of destination operations within the
// deviation bound; every scheduler step + in-flight subsets is a crash state.
//
// State oracle (destination): check --read-data clean; every snapshot file
// present is completely readable and its content equals the content of a source
// snapshot with the same tree ID.  End oracle (copy succeeded): every source
// snapshot has a destination snapshot with the same tree ID, time, host, tags
// and content; then copy runs again (ungated) and must not save or remove any
// destination file (idempotent).  Every distinct crash state is also continued
// the way a user recovers: locks removed, real `repair index` on the destination,
// copy again - the destination must then hold complete copies of all snapshots.
// Part 2 (sequential): copy, a source snapshot is rewritten (same original ID and metadata,
// another tree, old one forgotten), copy again: the rewritten snapshot must arrive.

import (
	"context"
	"fmt"
	"sort"
	"strings"
	"testing"
	"time"

	"github.com/restic/chunker"
	"github.com/restic/restic/internal/backend"
	"github.com/restic/restic/internal/data"
	"github.com/restic/restic/internal/global"
	"github.com/restic/restic/internal/repository"
	"github.com/restic/restic/internal/restic"
	"github.com/restic/restic/internal/verifshim/crashx"
	"github.com/restic/restic/internal/verifshim/gatebe"
	"github.com/restic/restic/internal/verifshim/oracle"
	"github.com/restic/restic/internal/verifshim/vh"
	"github.com/restic/restic/internal/verifshim/xplore"
)

type verifC32Src struct {
	id      restic.ID
	tree    restic.ID
	content oracle.Content
	time    time.Time
	tags    []string
}

func TestVerif_C32(t *testing.T) {
	r := vh.Start(t, "C32")
	defer r.Finish()
	r.Rule("GATE: every completion order and every single injected failure of the destination's backend operations during the real runCopy, within the deviation bound, for 4 destination variants; crash states = every scheduler step + in-flight subsets of the destination. non-trivial = destination crash state that differs from the destination before the copy.")
	r.Assume("backend Save/Remove are atomic (C36)", "the source repository is healthy and not gated", "lock files are not gated")
	ctx := context.Background()
	oracle.LowKDF()

	// source
	srcRepo, srcStore, err := oracle.NewRepo(ctx, 2, repository.Options{})
	if err != nil {
		t.Fatal(err)
	}
	repository.VerifSetPackSize(srcRepo, 8*1024)
	var srcs []verifC32Src
	common := oracle.LCG(71, 3000)
	specs := []oracle.Spec{
		{"a": oracle.LCG(72, 2500), "common": common, "d/x": oracle.LCG(73, 4000)},
		{"a": oracle.LCG(74, 2500), "common": common, "d/x": oracle.LCG(73, 4000), "new": oracle.LCG(75, 1500)},
		{"only": oracle.LCG(76, 5000), "common": common},
	}
	for i, spec := range specs {
		tm := time.Date(2021, 7, 7, 7, 7, i, 0, time.UTC)
		tags := []string{fmt.Sprintf("s%d", i)}
		id, model, err := oracle.Forge(ctx, srcRepo, spec, oracle.ForgeOpts{Time: tm, Tags: tags, Host: "srchost"})
		if err != nil {
			t.Fatal(err)
		}
		sn, _ := data.LoadSnapshot(ctx, srcRepo, id)
		srcs = append(srcs, verifC32Src{id: id, tree: *sn.Tree, content: model, time: tm, tags: tags})
	}
	// the third snapshot was tagged earlier: it carries an `original`
	{
		sn, _ := data.LoadSnapshot(ctx, srcRepo, srcs[2].id)
		orig := srcs[2].id
		sn.Original = &orig
		nid, err := data.SaveSnapshot(ctx, srcRepo, sn)
		if err != nil {
			t.Fatal(err)
		}
		srcStore.Del("setup", gatebe.FileKey{Type: backend.SnapshotFile, Name: orig.String()})
		srcs[2].id = nid
	}
	// a fourth snapshot with the SAME tree as the first (an unchanged directory backed up again): copying it
	// needs no new blob once the first one's data is on its way
	{
		tm := time.Date(2021, 7, 7, 7, 7, 30, 0, time.UTC)
		tags := []string{"s0-again"}
		tree := srcs[0].tree
		sn := &data.Snapshot{Time: tm, Tree: &tree, Paths: []string{"/src"}, Hostname: "srchost", Tags: tags, Username: "verif"}
		id, err := data.SaveSnapshot(ctx, srcRepo, sn)
		if err != nil {
			t.Fatal(err)
		}
		srcs = append(srcs, verifC32Src{id: id, tree: tree, content: srcs[0].content, time: tm, tags: tags})
	}
	srcState := srcStore.Snapshot()
	byTree := map[string]verifC32Src{}
	for _, s := range srcs {
		byTree[s.tree.String()+s.time.UTC().String()] = s
	}

	curSrc := srcState // (part 2 swaps in a source in which one snapshot was rewritten)
	copyOnce := func(ctx context.Context, scratch string, dst backend.Backend) error {
		src := &gatebe.Backend{S: gatebe.NewStoreFrom(curSrc, nil), Proc: "src", Conns: 3, AtomicReplace: true}
		gopts, dirs := verifGoptsRouted(t, scratch, map[string]backend.Backend{"dst": dst, "src": src}, "dst", oracle.Password)
		return verifRun(t, ctx, gopts, func(ctx context.Context, gopts global.Options) error {
			return runCopy(ctx, CopyOptions{SecondaryRepoOptions: global.SecondaryRepoOptions{Repo: dirs["src"], Password: oracle.Password}}, gopts, nil, gopts.Term)
		})
	}

	// destination variants
	type variant struct {
		name string
		base gatebe.State
	}
	var variants []variant
	mk := func(name string, version uint, pol *chunker.Pol, precopy bool) {
		repo, store, err := oracle.NewRepo(ctx, version, repository.Options{})
		if err != nil {
			t.Fatal(err)
		}
		_ = repo
		if pol != nil {
			// re-initialise with another chunker polynomial
			store = gatebe.NewStore()
			be := &gatebe.Backend{S: store, Proc: "setup", Conns: 2, AtomicReplace: true}
			rp, err := repository.New(be, repository.Options{})
			if err != nil {
				t.Fatal(err)
			}
			if err := rp.Init(ctx, version, oracle.Password, pol); err != nil {
				t.Fatal(err)
			}
		}
		if precopy {
			// an earlier copy already transferred everything that existed then: source minus the newest snapshot
			be := &gatebe.Backend{S: store, Proc: "precopy", Conns: 3, AtomicReplace: true}
			src := &gatebe.Backend{S: gatebe.NewStoreFrom(srcState, nil), Proc: "src", Conns: 3, AtomicReplace: true}
			src.S.Del("setup", gatebe.FileKey{Type: backend.SnapshotFile, Name: srcs[1].id.String()})
			gopts, dirs := verifGoptsRouted(t, r.Scratch, map[string]backend.Backend{"dst": be, "src": src}, "dst", oracle.Password)
			if err := verifRun(t, ctx, gopts, func(ctx context.Context, gopts global.Options) error {
				return runCopy(ctx, CopyOptions{SecondaryRepoOptions: global.SecondaryRepoOptions{Repo: dirs["src"], Password: oracle.Password}}, gopts, nil, gopts.Term)
			}); err != nil {
				t.Fatalf("pre-copy: %v", err)
			}
		}
		variants = append(variants, variant{name, store.Snapshot()})
	}
	otherPol := chunker.Pol(0x3DA3358B4DC173 ^ 0x6)
	if !otherPol.Irreducible() {
		otherPol, _ = chunker.RandomPolynomial()
	}
	mk("empty", 2, nil, false)
	mk("precopied", 2, nil, true)
	mk("other-polynomial", 2, &otherPol, false)
	mk("v1", 1, nil, false)

	// destination oracle
	dstOracle := func(ctx context.Context, st gatebe.State, requireAll bool) []string {
		repo, _, err := oracle.Open(ctx, st, oracle.Password)
		if err != nil {
			return []string{"open: " + err.Error()}
		}
		if err := repo.LoadIndex(ctx, restic.NoopTerminalCounterFactory); err != nil {
			return []string{"LoadIndex: " + err.Error()}
		}
		var probs []string
		for _, e := range oracle.Check(ctx, repo, true).Errors {
			probs = append(probs, "check: "+e)
		}
		seen := map[string]bool{}
		var names []string
		for k := range st {
			if k.Type == backend.SnapshotFile {
				names = append(names, k.Name)
			}
		}
		sort.Strings(names)
		for _, n := range names {
			id, _ := restic.ParseID(n)
			sn, err := data.LoadSnapshot(ctx, repo, id)
			if err != nil {
				probs = append(probs, fmt.Sprintf("snapshot %v unreadable: %v", id.Str(), err))
				continue
			}
			src, ok := byTree[sn.Tree.String()+sn.Time.UTC().String()]
			if !ok {
				probs = append(probs, fmt.Sprintf("snapshot %v has a tree that no source snapshot has", id.Str()))
				continue
			}
			got, err := oracle.Walk(ctx, repo, *sn.Tree)
			if err != nil {
				probs = append(probs, fmt.Sprintf("missing: destination snapshot %v is present but its data is not: %v", id.Str(), err))
				continue
			}
			if ok, why := src.content.Equal(got); !ok {
				probs = append(probs, fmt.Sprintf("content: destination snapshot %v differs from its source: %s", id.Str(), why))
			}
			if !sn.Time.Equal(src.time) || sn.Hostname != "srchost" || strings.Join(sn.Tags, ",") != strings.Join(src.tags, ",") {
				probs = append(probs, fmt.Sprintf("snapshot %v metadata differs from its source (time %v host %q tags %v)", id.Str(), sn.Time, sn.Hostname, sn.Tags))
			}
			seen[sn.Tree.String()+sn.Time.UTC().String()] = true
		}
		if requireAll {
			for _, s := range srcs {
				if !seen[s.tree.String()+s.time.UTC().String()] {
					probs = append(probs, fmt.Sprintf("snapshot: copy succeeded but source snapshot %v has no copy in the destination", s.id.Str()))
				}
			}
		}
		return probs
	}

	recovered := map[string]bool{}
	recover := func(ctx context.Context, st gatebe.State) []string {
		st = st.Clone()
		for k := range st {
			if k.Type == backend.LockFile {
				delete(st, k)
			}
		}
		store := gatebe.NewStoreFrom(st, nil)
		if key := store.StateKey(st); recovered[key] {
			return nil
		} else {
			recovered[key] = true
		}
		r.Count("crash_states_followed_by_repair_index_and_second_copy", 1)
		be := &gatebe.Backend{S: store, Proc: "recover", Conns: 3, AtomicReplace: true}
		gopts := verifGopts(t, r.Scratch, be, oracle.Password)
		if err := verifRun(t, ctx, gopts, func(ctx context.Context, gopts global.Options) error {
			return runRebuildIndex(ctx, RepairIndexOptions{}, gopts, gopts.Term)
		}); err != nil {
			return []string{"snapshot: repair index on the destination of an interrupted copy failed: " + err.Error()}
		}
		if err := copyOnce(ctx, r.Scratch, be); err != nil {
			return []string{"snapshot: copy after an interrupted copy + repair index failed: " + err.Error()}
		}
		var probs []string
		for _, p := range dstOracle(ctx, store.Snapshot(), true) {
			probs = append(probs, "after interrupted copy, repair index and a second copy: "+p)
		}
		return probs
	}

	bound := vh.Pick(r, 1, 3)
	seen := map[string]bool{}
	for _, v := range variants {
		v := v
		sc := crashx.Scenario{
			Property: "C32", Name: "copy/" + v.name, Base: v.base,
			Backend: func(be *gatebe.Backend) {
				be.Proc = "dst"
				be.Ungated = map[backend.FileType]bool{backend.LockFile: true}
			},
			Prepare: func(ctx context.Context, run *crashx.Run, be *gatebe.Backend) (any, error) {
				run.Data = be
				return nil, nil
			},
			Op: func(ctx context.Context, run *crashx.Run, _ any) error {
				return copyOnce(ctx, r.Scratch, run.Data.(*gatebe.Backend))
			},
			NoFaultFailureIsViolation: true,
			StateOracle: func(ctx context.Context, c crashx.Crash) []string {
				if probs := dstOracle(ctx, c.State, false); len(probs) > 0 {
					return probs
				}
				// what a user does after an interrupted copy: unlock, repair index (the uploaded packs become
				// known to the destination index), copy again - the result must be a complete copy
				return recover(ctx, c.State)
			},
			EndOracle: func(ctx context.Context, run *crashx.Run) []string {
				if !run.Done || run.Err != nil {
					return nil
				}
				end := run.Store.Snapshot()
				probs := dstOracle(ctx, end, true)
				if len(probs) > 0 {
					return probs
				}
				// idempotence: a second copy must not touch the destination
				store2 := gatebe.NewStoreFrom(end, nil)
				be2 := &gatebe.Backend{S: store2, Proc: "dst2", Conns: 3, AtomicReplace: true}
				n0 := store2.LogLen()
				if err := copyOnce(ctx, r.Scratch, be2); err != nil {
					return []string{"snapshot: second copy failed: " + err.Error()}
				}
				var changed []string
				for _, m := range store2.LogCopy()[n0:] {
					if m.Key.Type != backend.LockFile {
						changed = append(changed, m.String())
					}
				}
				if len(changed) > 0 {
					return []string{fmt.Sprintf("content: running copy a second time modified the destination: %v", changed)}
				}
				return nil
			},
		}
		crashx.Explore(r, t, sc, bound, seen)
	}
	r.Extra("deviation_bound", bound)

	// ---- part 2 (sequential history): a source snapshot is rewritten between two copies.  Everything is
	// copied; then `rewrite --forget` replaces the second source snapshot by one with the same original ID,
	// time, host, paths and tags but another tree (here: the tree of the first snapshot); copy runs again and
	// must transfer the rewritten snapshot - "each copied snapshot in the destination has the same tree ...
	// as in the source".
	if r.Case("rewritten-in-source") {
		dstStore := gatebe.NewStoreFrom(variants[0].base, nil)
		dst := &gatebe.Backend{S: dstStore, Proc: "dst", Conns: 3, AtomicReplace: true}
		if err := copyOnce(ctx, r.Scratch, dst); err != nil {
			t.Fatalf("C32 part 2: first copy: %v", err)
		}
		src2 := gatebe.NewStoreFrom(srcState, nil)
		sbe := &gatebe.Backend{S: src2, Proc: "rewrite", Conns: 3, AtomicReplace: true}
		srepo, err := oracle.OpenOn(ctx, sbe, repository.Options{})
		if err != nil {
			t.Fatal(err)
		}
		sn, err := data.LoadSnapshot(ctx, srepo, srcs[1].id)
		if err != nil {
			t.Fatal(err)
		}
		orig := srcs[1].id
		tree := srcs[0].tree
		sn.Original = &orig
		sn.Tree = &tree
		nid, err := data.SaveSnapshot(ctx, srepo, sn)
		if err != nil {
			t.Fatal(err)
		}
		src2.Del("rewrite --forget", gatebe.FileKey{Type: backend.SnapshotFile, Name: orig.String()})
		rewritten := verifC32Src{id: nid, tree: tree, content: srcs[0].content, time: srcs[1].time, tags: srcs[1].tags}
		byTree[tree.String()+rewritten.time.UTC().String()] = rewritten
		curSrc = src2.Snapshot()
		cerr := copyOnce(ctx, r.Scratch, dst)
		curSrc = srcState
		r.Eval(1)
		r.Trace(1)
		r.NontrivialByConstruction(1)
		var probs []string
		if cerr != nil {
			probs = append(probs, "copy after a source snapshot was rewritten failed: "+cerr.Error())
		} else {
			probs = dstOracle(ctx, dstStore.Snapshot(), false)
			found := false
			drepo, _, err := oracle.Open(ctx, dstStore.Snapshot(), oracle.Password)
			if err == nil {
				for k := range dstStore.Snapshot() {
					if k.Type != backend.SnapshotFile {
						continue
					}
					id, _ := restic.ParseID(k.Name)
					if dsn, err := data.LoadSnapshot(ctx, drepo, id); err == nil && dsn.Tree.Equal(tree) && dsn.Time.Equal(rewritten.time) {
						found = true
					}
				}
			}
			if !found {
				probs = append(probs, fmt.Sprintf("snapshot: source snapshot %v (rewritten: original %v, same time/host/paths/tags, tree %v) has no copy with that tree in the destination after copy", nid.Str(), orig.Str(), tree.Str()))
			}
		}
		if len(probs) > 0 {
			r.Violation("rewritten-in-source", "C32|history|rewritten-in-source", strings.Join(probs, "\n"), nil)
		} else {
			r.Outcome("rewritten-in-source ok")
		}
	}
}

// TestVerifRace_C32 runs every scenario body free (gates answer at once, no oracle) under the race detector.
func TestVerifRace_C32(t *testing.T) {
	xplore.Free = 2
	defer func() { xplore.Free = 0 }()
	TestVerif_C32(t)
}

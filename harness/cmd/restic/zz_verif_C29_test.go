package main

// C29: a repository opens with exactly the passwords of its current keys —
// over histories of key add / passwd / remove, at every crash point and under
// every single failing backend operation of the last command.
//
// Engine GATE (crashx) on the real runKeyAdd / runKeyPasswd / runKeyRemove.
// Histories: all sequences of <= 2 (quick) / 3 (thorough) operations over
// passwords {A,B,C}; the prefix is executed ungated, the last operation under
// the explorer.  Model: key file name -> password (attributed when the file is
// first seen).  State oracle, for every distinct crash state: for each password
// p, SearchKey(p) succeeds iff a key file of p is present; all passwords yield
// the same master key; the password the user opened with or the new password
// still opens (never locked out).  End oracle: the key set after a successful
// command equals the model's; removing the key in use is refused.

import (
	"context"
	"fmt"
	"sort"
	"strings"
	"testing"

	"github.com/restic/restic/internal/backend"
	"github.com/restic/restic/internal/global"
	"github.com/restic/restic/internal/repository"
	"github.com/restic/restic/internal/verifshim/crashx"
	"github.com/restic/restic/internal/verifshim/gatebe"
	"github.com/restic/restic/internal/verifshim/oracle"
	"github.com/restic/restic/internal/verifshim/vh"
	"github.com/restic/restic/internal/verifshim/vx"
	"github.com/restic/restic/internal/verifshim/xplore"
)

type verifC29Op struct {
	kind string // add, passwd, remove
	arg  string // password label, or for remove: "current" / "other:<label>"
}

func (o verifC29Op) String() string { return o.kind + "(" + o.arg + ")" }

var verifC29PW = map[string]string{"A": oracle.Password, "B": "verif-pw-B", "C": "verif-pw-C"}

// verifC29Model is the reference: which key file belongs to which password label.
type verifC29Model struct {
	keys  map[string]string // key file name -> label
	curPW string            // label of the password the user opens the repository with
}

func (m verifC29Model) clone() verifC29Model {
	n := verifC29Model{keys: map[string]string{}, curPW: m.curPW}
	for k, v := range m.keys {
		n.keys[k] = v
	}
	return n
}

func verifC29KeyNames(st gatebe.State) []string {
	var l []string
	for k := range st {
		if k.Type == backend.KeyFile {
			l = append(l, k.Name)
		}
	}
	sort.Strings(l)
	return l
}

// verifC29Run executes one key command on be.  It returns the error of the command.
func verifC29Run(t testing.TB, ctx context.Context, scratch string, be backend.Backend, m verifC29Model, op verifC29Op, currentKey string) error {
	gopts := verifGopts(t, scratch, be, verifC29PW[m.curPW])
	switch op.kind {
	case "add":
		testKeyNewPassword = verifC29PW[op.arg]
		defer func() { testKeyNewPassword = "" }()
		return verifRun(t, ctx, gopts, func(ctx context.Context, gopts global.Options) error {
			return runKeyAdd(ctx, gopts, KeyAddOptions{}, nil, gopts.Term)
		})
	case "passwd":
		testKeyNewPassword = verifC29PW[op.arg]
		defer func() { testKeyNewPassword = "" }()
		return verifRun(t, ctx, gopts, func(ctx context.Context, gopts global.Options) error {
			return runKeyPasswd(ctx, gopts, KeyPasswdOptions{}, nil, gopts.Term)
		})
	case "remove":
		target := verifC29Target(m, op, currentKey)
		if target == "" {
			return fmt.Errorf("verif: no such key")
		}
		return verifRun(t, ctx, gopts, func(ctx context.Context, gopts global.Options) error {
			return runKeyRemove(ctx, gopts, []string{target}, gopts.Term)
		})
	}
	return fmt.Errorf("verif: unknown op")
}

func verifC29Target(m verifC29Model, op verifC29Op, currentKey string) string {
	if op.arg == "current" {
		return currentKey
	}
	label := strings.TrimPrefix(op.arg, "other:")
	var names []string
	for n, l := range m.keys {
		if l == label && n != currentKey {
			names = append(names, n)
		}
	}
	sort.Strings(names)
	if len(names) == 0 {
		return ""
	}
	return names[0]
}

// verifC29Current returns the key file the given password selects in this state.
func verifC29Current(ctx context.Context, st gatebe.State, pw string) (string, *repository.Repository, error) {
	repo, _, err := oracle.Open(ctx, st, pw)
	if err != nil {
		return "", nil, err
	}
	return repo.KeyID().String(), repo, nil
}

// verifC29CurrentOrder is verifC29Current for a backend that lists in the given order (which of several keys
// with the same password is selected depends on the listing order).
func verifC29CurrentOrder(ctx context.Context, st gatebe.State, pw string, reverse bool) (string, error) {
	oracle.LowKDF()
	be := &gatebe.Backend{S: gatebe.NewStoreFrom(st, nil), Proc: "probe", Conns: 2, AtomicReplace: true, ListReverse: reverse}
	repo, err := repository.New(be, repository.Options{})
	if err != nil {
		return "", err
	}
	if err := repo.SearchKey(ctx, pw, 20, ""); err != nil {
		return "", err
	}
	return repo.KeyID().String(), nil
}

// verifC29Attribute adds key files that appeared to the model with the given label.
func verifC29Attribute(m *verifC29Model, st gatebe.State, label string) {
	for _, n := range verifC29KeyNames(st) {
		if _, ok := m.keys[n]; !ok {
			m.keys[n] = label
		}
	}
}

func TestVerif_C29(t *testing.T) {
	r := vh.Start(t, "C29")
	defer r.Finish()
	r.Rule("histories of key add/passwd/remove over passwords {A,B,C} (all sequences up to the length bound); the last command of each history runs under the GATE explorer: every completion order and every single injected backend failure within the deviation bound, crash states = every scheduler step + in-flight subsets. non-trivial = crash state whose key set differs from the state before the command.")
	r.Assume("backend Save/Remove are atomic (C36)", "lock files are not gated here")
	ctx := context.Background()
	oracle.LowKDF()

	alphabet := []verifC29Op{{"add", "B"}, {"passwd", "B"}, {"remove", "current"}, {"remove", "other:B"}, {"add", "A"}, {"passwd", "A"}, {"remove", "other:A"}, {"add", "C"}, {"passwd", "C"}, {"remove", "other:C"}}
	maxLen := vh.Pick(r, 2, 3)
	bound := 1
	var histories [][]verifC29Op
	var gen func(prefix []verifC29Op)
	gen = func(prefix []verifC29Op) {
		if len(prefix) > 0 {
			histories = append(histories, append([]verifC29Op(nil), prefix...))
		}
		if len(prefix) == maxLen {
			return
		}
		for _, o := range alphabet {
			gen(append(prefix, o))
		}
	}
	gen(nil)

	// base repository
	_, store0, err := oracle.NewRepo(ctx, 2, repository.Options{})
	if err != nil {
		t.Fatal(err)
	}
	base0 := store0.Snapshot()
	model0 := verifC29Model{keys: map[string]string{}, curPW: "A"}
	verifC29Attribute(&model0, base0, "A")

	verifC29Concurrent(t, r, base0, model0)

	seen := map[string]bool{}
	for _, h := range histories {
		name := ""
		for _, o := range h {
			name += o.String()
		}
		// run the prefix ungated
		st := base0
		m := model0.clone()
		okPrefix := true
		for _, o := range h[:len(h)-1] {
			store := gatebe.NewStoreFrom(st, nil)
			be := &gatebe.Backend{S: store, Proc: "setup", Conns: 2, AtomicReplace: true}
			cur, _, err := verifC29Current(ctx, st, verifC29PW[m.curPW])
			if err != nil {
				okPrefix = false
				break
			}
			err = verifC29Run(t, ctx, r.Scratch, be, m, o, cur)
			st = store.Snapshot()
			if err != nil {
				continue // refused / no such key: state unchanged
			}
			switch o.kind {
			case "add":
				verifC29Attribute(&m, st, o.arg)
			case "passwd":
				verifC29Attribute(&m, st, o.arg)
				m.curPW = o.arg
			}
			for n := range m.keys {
				if _, ok := st[gatebe.FileKey{Type: backend.KeyFile, Name: n}]; !ok {
					delete(m.keys, n)
				}
			}
		}
		if !okPrefix {
			continue
		}
		last := h[len(h)-1]
		curKey, _, err := verifC29Current(ctx, st, verifC29PW[m.curPW])
		if err != nil {
			r.Violationf("hist|"+name, "C29|prefix-locked-out|"+name, name, "after the ungated prefix of %s the repository no longer opens with the user's password: %v", name, err)
			continue
		}
		if last.kind == "remove" && verifC29Target(m, last, curKey) == "" {
			continue // nothing to remove: not a distinct history
		}
		baseState, baseModel := st, m.clone()
		// "the key in use cannot be removed": the repository-level guard, probed on every distinct state
		if pk := "probe|" + strings.Join(verifC29KeyNames(baseState), ","); !seen[pk] {
			seen[pk] = true
			if _, rp, err := verifC29Current(ctx, baseState, verifC29PW[baseModel.curPW]); err == nil {
				before := len(verifC29KeyNames(baseState))
				rerr := repository.RemoveKey(ctx, rp, rp.KeyID())
				r.Eval(1)
				if rerr == nil {
					r.Violationf("hist|"+name, "C29|key-in-use-removable|RemoveKey", name, "repository.RemoveKey removed the key the repository was opened with (%d key files before); the key in use must not be removable", before)
				}
			}
		}
		// opensWith computes, for a state, which labels open it and checks the master keys agree
		stateOracle := func(ctx context.Context, c crashx.Crash) []string {
			var probs []string
			mm := baseModel.clone()
			if last.kind != "remove" {
				verifC29Attribute(&mm, c.State, last.arg)
			}
			present := map[string]bool{}
			for _, n := range verifC29KeyNames(c.State) {
				present[mm.keys[n]] = true
			}
			var master []byte
			opened := 0
			for _, label := range []string{"A", "B", "C"} {
				repo, _, err := oracle.Open(ctx, c.State, verifC29PW[label])
				if (err == nil) != present[label] {
					probs = append(probs, fmt.Sprintf("key: password %s opens=%v but a key file for it present=%v (%v)", label, err == nil, present[label], err))
				}
				if err == nil {
					opened++
					k := append(append([]byte{}, repo.Key().EncryptionKey[:]...), repo.Key().MACKey.K[:]...)
					if master != nil && string(master) != string(k) {
						probs = append(probs, "key: different passwords yield different master keys")
					}
					master = k
				}
			}
			// the same with a key hint naming any of the key files present (also one of another password: with
			// at most 20 keys the search falls back to all keys) and with a hint naming no key at all
			hints := append(verifC29KeyNames(c.State), strings.Repeat("0", 64))
			for _, label := range []string{"A", "B", "C"} {
				for _, hint := range hints {
					_, err := oracle.OpenHint(ctx, c.State, verifC29PW[label], hint)
					if (err == nil) != present[label] {
						probs = append(probs, fmt.Sprintf("key: with --key-hint %s (key of password %q) password %s opens=%v but a key file for it present=%v (%v)", hint[:8], mm.keys[hint], label, err == nil, present[label], err))
					}
				}
			}
			// never locked out: the password used to open, or the new one, still works
			userOK := present[baseModel.curPW] || (last.kind == "passwd" && present[last.arg])
			if !userOK || opened == 0 {
				probs = append(probs, fmt.Sprintf("key: locked out — neither the user's password %s nor the new password opens the repository", baseModel.curPW))
			}
			return probs
		}
		for _, listOrder := range []string{"asc", "desc"} {
			listOrder := listOrder
			curKey, err := verifC29CurrentOrder(ctx, baseState, verifC29PW[baseModel.curPW], listOrder == "desc")
			if err != nil {
				continue
			}
			if last.kind == "remove" && verifC29Target(baseModel, last, curKey) == "" {
				continue
			}
			sc := crashx.Scenario{
				Property: "C29", Name: name + "/list-" + listOrder, Base: baseState, Sem: nil,
				Backend: func(be *gatebe.Backend) {
					// backends list in no particular order; which key file is tried first matters to the key search
					be.ListReverse = listOrder == "desc"
					be.Ungated = map[backend.FileType]bool{backend.LockFile: true}
				},
				Prepare: func(ctx context.Context, run *crashx.Run, be *gatebe.Backend) (any, error) {
					run.Data = be
					return nil, nil
				},
				Op: func(ctx context.Context, run *crashx.Run, _ any) error {
					return verifC29Run(t, ctx, r.Scratch, run.Data.(*gatebe.Backend), baseModel, last, curKey)
				},
				StateOracle: stateOracle,
				EndOracle: func(ctx context.Context, run *crashx.Run) []string {
					if !run.Done || run.Faulted {
						return nil
					}
					end := run.Store.Snapshot()
					before, after := verifC29KeyNames(baseState), verifC29KeyNames(end)
					var probs []string
					switch last.kind {
					case "add":
						if run.Err != nil {
							probs = append(probs, fmt.Sprintf("key: add failed without a fault: %v", run.Err))
						} else if len(after) != len(before)+1 {
							probs = append(probs, fmt.Sprintf("key: add succeeded but key count went %d -> %d", len(before), len(after)))
						}
					case "passwd":
						if run.Err != nil {
							probs = append(probs, fmt.Sprintf("key: passwd failed without a fault: %v", run.Err))
						} else {
							if len(after) != len(before) {
								probs = append(probs, fmt.Sprintf("key: passwd succeeded but key count went %d -> %d", len(before), len(after)))
							}
							if _, still := end[gatebe.FileKey{Type: backend.KeyFile, Name: curKey}]; still {
								probs = append(probs, "key: passwd succeeded but the old key file is still present (old password still opens)")
							}
						}
					case "remove":
						target := verifC29Target(baseModel, last, curKey)
						_, still := end[gatebe.FileKey{Type: backend.KeyFile, Name: target}]
						if last.arg == "current" {
							if run.Err == nil || !still || len(after) != len(before) {
								probs = append(probs, fmt.Sprintf("key: removing the key in use must be refused and change nothing (err=%v, still present=%v)", run.Err, still))
							}
						} else if run.Err != nil {
							probs = append(probs, fmt.Sprintf("key: remove failed without a fault: %v", run.Err))
						} else if still || len(after) != len(before)-1 {
							probs = append(probs, "key: remove succeeded but the key file set is wrong")
						}
					}
					return probs
				},
			}
			crashx.Explore(r, t, sc, bound, seen)
		}
	}
	r.Extra("history_length_bound", maxLen)
	r.Extra("deviation_bound", bound)
}

// TestVerifRace_C29 runs every scenario body free (gates answer at once, no oracle) under the race detector.
func TestVerifRace_C29(t *testing.T) {
	xplore.Free = 2
	defer func() { xplore.Free = 0 }()
	TestVerif_C29(t)
}

// verifC29Concurrent: two processes, each opened with its own password, remove each other's key at the same
// time ("the key in use cannot be removed", "keep at least one working key").  Every backend operation of
// both commands - lock files included, the exclusive lock is what serialises them - is a scheduling point;
// all interleavings within the preemption bound.  At the end some password must still open the repository.
func verifC29Concurrent(t *testing.T, r *vh.Run, base0 gatebe.State, model0 verifC29Model) {
	ctx := context.Background()
	// fixture: keys for A and B
	store := gatebe.NewStoreFrom(base0, nil)
	be := &gatebe.Backend{S: store, Proc: "setup", Conns: 2, AtomicReplace: true}
	m := model0.clone()
	curA, _, err := verifC29Current(ctx, base0, verifC29PW["A"])
	if err != nil {
		t.Fatal(err)
	}
	if err := verifC29Run(t, ctx, r.Scratch, be, m, verifC29Op{"add", "B"}, curA); err != nil {
		t.Fatalf("C29 concurrent fixture: key add: %v", err)
	}
	base := store.Snapshot()
	verifC29Attribute(&m, base, "B")
	keyOf := map[string]string{}
	for n, l := range m.keys {
		keyOf[l] = n
	}
	if keyOf["A"] == "" || keyOf["B"] == "" {
		t.Fatalf("C29 concurrent fixture: keys %v", m.keys)
	}
	type res struct {
		err  error
		done bool
	}
	type state struct {
		store *gatebe.Store
		res   map[string]*res
	}
	sc := xplore.Scenario{
		Start: func(x *xplore.Exec) {
			st := &state{store: gatebe.NewStoreFrom(base, nil), res: map[string]*res{"PA": {}, "PB": {}}}
			x.Data = st
			for _, p := range []struct{ name, pw, target string }{{"PA", "A", keyOf["B"]}, {"PB", "B", keyOf["A"]}} {
				p := p
				pbe := &gatebe.Backend{S: st.store, Proc: p.name, Conns: 1, AtomicReplace: true, X: func() *xplore.Exec { return x }} // one connection: the parallel loaders of lock and key files run one after the other
				x.Go(p.name, func() {
					gopts := verifGopts(t, r.Scratch, pbe, verifC29PW[p.pw])
					st.res[p.name].err = verifRun(t, x.Ctx, gopts, func(ctx context.Context, gopts global.Options) error {
						return runKeyRemove(ctx, gopts, []string{p.target}, gopts.Term)
					})
					st.res[p.name].done = true
				})
			}
		},
	}
	check := func(x *xplore.Exec) {
		st := x.Data.(*state)
		final := st.store.Snapshot()
		names := verifC29KeyNames(final)
		r.State(strings.Join(x.Trace, ">"))
		r.Outcome(fmt.Sprintf("concurrent-remove keys-left=%d errA=%v errB=%v", len(names), st.res["PA"].err != nil, st.res["PB"].err != nil))
		if st.res["PA"].err != nil || st.res["PB"].err != nil {
			r.Nontrivial(strings.Join(x.Trace, ">"))
		}
		var bad []string
		for _, p := range x.Panics {
			bad = append(bad, "panic: "+p)
		}
		if x.Deadlock {
			bad = append(bad, "deadlock")
		}
		if len(bad) == 0 {
			working := 0
			for _, l := range []string{"A", "B"} {
				if _, _, err := verifC29Current(ctx, final, verifC29PW[l]); err == nil {
					working++
				}
			}
			if working == 0 {
				bad = append(bad, fmt.Sprintf("locked-out: after two concurrent `key remove` commands (A removes B's key: err=%v, B removes A's key: err=%v) %d key files are left and neither password opens the repository", st.res["PA"].err, st.res["PB"].err, len(names)))
			}
		}
		if len(bad) > 0 {
			vx.Violation(r, "concurrent-key-remove", x, "C29|concurrent-key-remove|"+strings.SplitN(bad[0], ":", 2)[0], strings.Join(bad, "\n"), nil)
		}
	}
	stt := vx.Explore(r, t, "concurrent-key-remove", sc, xplore.Options{Policy: xplore.Preempt, Bound: vh.Pick(r, 2, 3), MaxSteps: 400}, check)
	r.Note("concurrent-key-remove: execs(this shard)=%d", stt.Execs)
}

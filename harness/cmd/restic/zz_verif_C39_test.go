package main

// C39: dry runs and lock-free reads never modify the repository.
//
// Driver: real command lines executed through the real cobra command tree
// (newRootCommand(...).ExecuteContext with SetArgs), i.e. including flag
// parsing and global.Options.PreRun, on a local repository in the scratch
// directory.  A recording backend is installed through gopts.BackendTestHook,
// which sits below the cache and below repository.SetDryRun's dryrun.Backend,
// so it sees exactly what reaches the real backend.
//
// Space: command lines x repository states.
//   states   S1 "snapshots"  3 snapshots in 2 groups, nothing unused
//            S2 "unused"     S1 + one snapshot forgotten without prune
//            S3 "duplicates" S1 + all blobs stored twice (index removed, backup
//                             repeated, index rebuilt)
//            S4 "damaged"    S1 + largest data pack deleted and index rebuilt
//                             (repair snapshots has something to do)
//   dry-run  backup -n (new / unchanged data, --force --tag), forget -n (4
//            policies + explicit id, --prune four times, two of them with a policy that forgets nothing), prune -n (6 option sets),
//            rewrite -n (4 forms incl. --forget), repair snapshots -n
//            (+ --forget): 23 command lines, each without and with --no-lock
//   no-lock  snapshots (+--json), ls, ls -l, find, diff, stats (2 modes), cat
//            (config, snapshot, masterkey), dump, check, check --read-data,
//            restore, restore --verify, copy (as --from-repo source), key
//            list, list snapshots/packs/index/locks: 23 command lines, all with
//            --no-lock.
//   quick:    all 67 command lines on S2, the 10 key ones on S3 (77 runs);
//   thorough: all command lines on all four states (268 runs).
//
// Oracle: (1) the recursive listing (path, SHA-256; directories too) of the
// repository directory is identical before and after the command; (2) the
// recording backend saw no Save/Remove/Delete at all - lock files included.
// Keys: a lock file written by a --dry-run command run WITHOUT --no-lock is
// reported as  C39|dry-run-own-lock|<command>  (the literal deviation expected
// by DESIGN section 6: such a command locks the repository like the real run
// would and removes its lock at the end); a lock written although --no-lock
// was given, any non-lock write, and any before/after difference have other
// keys.
//
// Non-trivial: the command opened the repository and read from it.

import (
	"bytes"
	"context"
	"crypto/sha256"
	"encoding/hex"
	"fmt"
	"io"
	"io/fs"
	"os"
	"path/filepath"
	"sort"
	"strings"
	"sync"
	"testing"

	"github.com/restic/restic/internal/backend"
	"github.com/restic/restic/internal/backend/all"
	"github.com/restic/restic/internal/global"
	"github.com/restic/restic/internal/ui/termstatus"
	"github.com/restic/restic/internal/verifshim/vh"
)

const verifC39Password = "verif-c39-password"

type verifC39Op struct {
	Op   string `json:"op"`
	Type string `json:"type"`
	Name string `json:"name"`
}

type verifC39Log struct {
	mu     sync.Mutex
	writes []verifC39Op
	reads  int
}

type verifC39Rec struct {
	backend.Backend
	log *verifC39Log
}

func (b *verifC39Rec) rec(op string, h backend.Handle) {
	b.log.mu.Lock()
	b.log.writes = append(b.log.writes, verifC39Op{op, h.Type.String(), h.Name})
	b.log.mu.Unlock()
}

func (b *verifC39Rec) Save(ctx context.Context, h backend.Handle, rd backend.RewindReader) error {
	b.rec("save", h)
	return b.Backend.Save(ctx, h, rd)
}

func (b *verifC39Rec) Remove(ctx context.Context, h backend.Handle) error {
	b.rec("remove", h)
	return b.Backend.Remove(ctx, h)
}

func (b *verifC39Rec) Delete(ctx context.Context) error {
	b.rec("delete-all", backend.Handle{})
	return b.Backend.Delete(ctx)
}

func (b *verifC39Rec) Load(ctx context.Context, h backend.Handle, length int, offset int64, fn func(rd io.Reader) error) error {
	b.log.mu.Lock()
	b.log.reads++
	b.log.mu.Unlock()
	return b.Backend.Load(ctx, h, length, offset, fn)
}

func (b *verifC39Rec) Unwrap() backend.Backend { return b.Backend }

// verifC39Hook records only for the repository whose config file has the given hash.
func verifC39Hook(configHash string, log *verifC39Log) func(backend.Backend) (backend.Backend, error) {
	return func(be backend.Backend) (backend.Backend, error) {
		h := sha256.New()
		err := be.Load(context.Background(), backend.Handle{Type: backend.ConfigFile}, 0, 0, func(rd io.Reader) error {
			h.Reset()
			_, err := io.Copy(h, rd)
			return err
		})
		if err != nil || hex.EncodeToString(h.Sum(nil)) != configHash {
			return be, nil
		}
		return &verifC39Rec{Backend: be, log: log}, nil
	}
}

// verifC39CLI runs one real command line.
func verifC39CLI(hook func(backend.Backend) (backend.Backend, error), args ...string) (stdout, stderr string, err error) {
	var o, e bytes.Buffer
	gopts := global.Options{Backends: all.Backends(), BackendTestHook: hook}
	term, cancel := termstatus.Setup(io.NopCloser(strings.NewReader("")), &o, &e, false)
	gopts.Term = term
	ctx, cancelCtx := context.WithCancel(context.Background())
	root := newRootCommand(&gopts)
	root.SetArgs(args)
	root.SetOut(&o)
	root.SetErr(&e)
	err = root.ExecuteContext(ctx)
	cancelCtx()
	cancel()
	if err == ErrOK {
		err = nil
	}
	return o.String(), e.String(), err
}

func verifC39Listing(root string) (map[string]string, error) {
	out := map[string]string{}
	err := filepath.WalkDir(root, func(p string, d fs.DirEntry, err error) error {
		if err != nil {
			return err
		}
		rel, _ := filepath.Rel(root, p)
		if d.IsDir() {
			out[rel+"/"] = "dir"
			return nil
		}
		buf, err := os.ReadFile(p)
		if err != nil {
			return err
		}
		h := sha256.Sum256(buf)
		out[rel] = hex.EncodeToString(h[:])
		return nil
	})
	return out, err
}

func verifC39ListingDiff(a, b map[string]string) []string {
	var d []string
	for k, v := range a {
		if w, ok := b[k]; !ok {
			d = append(d, "deleted "+k)
		} else if v != w {
			d = append(d, "modified "+k)
		}
	}
	for k := range b {
		if _, ok := a[k]; !ok {
			d = append(d, "created "+k)
		}
	}
	sort.Strings(d)
	return d
}

func verifC39Copy(src, dst string) error {
	return filepath.WalkDir(src, func(p string, d fs.DirEntry, err error) error {
		if err != nil {
			return err
		}
		rel, _ := filepath.Rel(src, p)
		if d.IsDir() {
			return os.MkdirAll(filepath.Join(dst, rel), 0o700)
		}
		buf, err := os.ReadFile(p)
		if err != nil {
			return err
		}
		return os.WriteFile(filepath.Join(dst, rel), buf, 0o600)
	})
}

type verifC39State struct {
	name      string
	tmpl      string // pristine copy
	repo      string // working copy
	cfgHash   string
	snapshots []string // snapshot IDs (sorted)
	listing   map[string]string
}

type verifC39Cmd struct {
	id     string   // stable identifier (the command line with placeholders)
	name   string   // command name for the own-lock key
	args   []string // {SNAP0}, {SNAP1}, {DATA}, {FILE}, {NEWDATA}, {TARGET}, {DST} placeholders
	dryRun bool
	noLock bool
	key    bool // part of the reduced set run on the other states in the quick tier
}

func verifC39Commands() []verifC39Cmd {
	var out []verifC39Cmd
	dry := []struct {
		name string
		args string
		key  bool
	}{
		{"backup", "backup -n {NEWDATA}", true},
		{"backup", "backup -n {DATA}", false},
		{"backup", "backup -n --force --tag t1 {DATA}", false},
		{"forget", "forget -n --keep-last 1", true},
		{"forget", "forget -n --keep-last 1 --group-by ", false},
		{"forget", "forget -n --keep-tag nosuchtag --keep-last 1", false},
		{"forget", "forget -n --keep-within 1h", false},
		{"forget", "forget -n {SNAP0}", false},
		{"forget", "forget -n --keep-last 1 --group-by  --prune", true},
		{"forget", "forget -n {SNAP1} --prune --max-unused 0", false},
		// a policy that forgets nothing: the prune part must still be a dry run
		{"forget", "forget -n --keep-last 100 --prune --max-unused 0", true},
		{"forget", "forget -n --keep-tag nosuchtag --keep-last 100 --prune", false},
		{"prune", "prune -n", false},
		{"prune", "prune -n --max-unused 0", true},
		{"prune", "prune -n --max-unused unlimited", false},
		{"prune", "prune -n --repack-small --max-repack-size 0", false},
		{"prune", "prune -n --repack-cacheable-only", false},
		{"prune", "prune -n --repack-uncompressed -v", false},
		{"rewrite", "rewrite -n --exclude file1", true},
		{"rewrite", "rewrite -n --exclude file1 --forget", false},
		{"rewrite", "rewrite -n --new-host otherhost", false},
		{"rewrite", "rewrite -n --exclude sub {SNAP0}", false},
		{"repair-snapshots", "repair snapshots -n", true},
		{"repair-snapshots", "repair snapshots -n --forget", false},
	}
	for _, d := range dry {
		for _, nl := range []bool{false, true} {
			c := verifC39Cmd{id: d.args, name: d.name, dryRun: true, noLock: nl, key: d.key && !nl}
			c.args = strings.Split(d.args, " ")
			if nl {
				c.id += " --no-lock"
				c.args = append(c.args, "--no-lock")
			}
			out = append(out, c)
		}
	}
	ro := []struct {
		args string
		key  bool
	}{
		{"snapshots", true}, {"snapshots --json", false}, {"ls latest", false}, {"ls -l {SNAP0}", false}, {"find file1", false},
		{"diff {SNAP0} {SNAP1}", false}, {"stats", false}, {"stats --mode raw-data", true}, {"cat config", false}, {"cat snapshot {SNAP0}", false},
		{"cat masterkey", false}, {"dump latest {FILE}", false}, {"check", true}, {"check --read-data", false},
		{"restore latest --target {TARGET}", true}, {"restore {SNAP0} --verify --target {TARGET}", false},
		{"copy", true}, {"key list", false}, {"list snapshots", false}, {"list packs", false}, {"list index", false}, {"list locks", false}, {"list blobs", false},
	}
	for _, c := range ro {
		out = append(out, verifC39Cmd{id: c.args + " --no-lock", name: strings.Split(c.args, " ")[0], args: append(strings.Split(c.args, " "), "--no-lock"), noLock: true, key: c.key})
	}
	return out
}

func TestVerif_C39(t *testing.T) {
	r := vh.Start(t, "C39")
	defer r.Finish()
	r.Rule("command lines (22 dry-run forms x {locking, --no-lock} + 23 read-only forms with --no-lock) x repository states {snapshots, unused, duplicates, damaged}, executed through the real cobra command tree on a local repository; recording backend below the dry-run layer + before/after (path, SHA-256) listing; non-trivial = the command opened the repository and read from it")
	env, cleanup := withTestEnvironment(t) // low-security KDF etc.; its options are not used
	defer cleanup()
	_ = env
	t.Setenv("RESTIC_PASSWORD", verifC39Password)
	t.Setenv("RESTIC_FROM_PASSWORD", verifC39Password)
	for _, v := range []string{"RESTIC_REPOSITORY", "RESTIC_REPOSITORY_FILE", "RESTIC_PASSWORD_FILE", "RESTIC_PASSWORD_COMMAND", "RESTIC_FROM_REPOSITORY", "RESTIC_COMPRESSION", "RESTIC_PACK_SIZE"} {
		t.Setenv(v, "")
		_ = os.Unsetenv(v)
	}

	scratch := r.Scratch
	cache := filepath.Join(scratch, "cache")
	dataDir := filepath.Join(scratch, "data")
	newData := filepath.Join(scratch, "newdata")
	must := func(err error) {
		if err != nil {
			t.Fatalf("C39 fixture: %v", err)
		}
	}
	lcg := func(n int, seed uint32) []byte {
		b := make([]byte, n)
		x := seed
		for i := range b {
			x = x*1664525 + 1013904223
			b[i] = byte(x >> 24)
		}
		return b
	}
	writeData := func(stage int) {
		must(os.MkdirAll(filepath.Join(dataDir, "sub"), 0o755))
		must(os.WriteFile(filepath.Join(dataDir, "file1"), lcg(300*1024, 1), 0o644))
		must(os.WriteFile(filepath.Join(dataDir, "sub", "file2"), []byte(strings.Repeat("compressible text ", 2000)), 0o644))
		must(os.WriteFile(filepath.Join(dataDir, "file3"), lcg(20*1024, uint32(3+stage)), 0o644))
		if stage > 0 {
			must(os.WriteFile(filepath.Join(dataDir, "file4"), lcg(50*1024, 4), 0o644))
		}
	}
	must(os.MkdirAll(newData, 0o755))
	must(os.WriteFile(filepath.Join(newData, "fresh"), lcg(64*1024, 77), 0o644))

	run := func(repo string, args ...string) (string, string, error) {
		return verifC39CLI(nil, append([]string{"-r", repo, "--cache-dir", cache}, args...)...)
	}
	mustRun := func(repo string, args ...string) {
		if _, se, err := run(repo, args...); err != nil {
			t.Fatalf("C39 fixture: restic %v: %v\n%s", args, err, se)
		}
	}
	snapshotsOf := func(repo string) []string {
		ents, err := os.ReadDir(filepath.Join(repo, "snapshots"))
		must(err)
		var ids []string
		for _, e := range ents {
			if len(e.Name()) == 64 {
				ids = append(ids, e.Name())
			}
		}
		sort.Strings(ids)
		return ids
	}
	buildS1 := func(repo string) {
		writeData(0)
		mustRun(repo, "init")
		mustRun(repo, "backup", "--host", "h1", "--tag", "a", dataDir)
		writeData(1)
		mustRun(repo, "backup", "--host", "h1", "--tag", "b", dataDir)
		mustRun(repo, "backup", "--host", "h2", filepath.Join(dataDir, "sub"))
	}
	states := map[string]*verifC39State{}
	getState := func(name string) *verifC39State {
		if s := states[name]; s != nil {
			return s
		}
		s := &verifC39State{name: name, tmpl: filepath.Join(scratch, "tmpl-"+name), repo: filepath.Join(scratch, "repo-"+name)}
		buildS1(s.tmpl)
		switch name {
		case "snapshots":
		case "unused":
			ids := snapshotsOf(s.tmpl)
			// forget the snapshot with tag b (the one that has file4): find it via its content
			forgot := false
			for _, id := range ids {
				out, _, err := run(s.tmpl, "ls", id)
				must(err)
				if strings.Contains(out, "file4") {
					mustRun(s.tmpl, "forget", id)
					forgot = true
					break
				}
			}
			if !forgot {
				t.Fatal("C39 fixture: snapshot with file4 not found")
			}
		case "duplicates":
			ents, err := os.ReadDir(filepath.Join(s.tmpl, "index"))
			must(err)
			for _, e := range ents {
				must(os.Remove(filepath.Join(s.tmpl, "index", e.Name())))
			}
			must(os.RemoveAll(cache))
			mustRun(s.tmpl, "backup", "--force", "--host", "h1", "--tag", "dup", dataDir)
			mustRun(s.tmpl, "repair", "index")
		case "damaged":
			var biggest string
			var size int64
			must(filepath.WalkDir(filepath.Join(s.tmpl, "data"), func(p string, d fs.DirEntry, err error) error {
				if err != nil || d.IsDir() {
					return err
				}
				fi, err := d.Info()
				if err == nil && fi.Size() > size {
					biggest, size = p, fi.Size()
				}
				return err
			}))
			must(os.Remove(biggest))
			mustRun(s.tmpl, "repair", "index")
		}
		must(verifC39Copy(s.tmpl, s.repo))
		cfg, err := os.ReadFile(filepath.Join(s.repo, "config"))
		must(err)
		h := sha256.Sum256(cfg)
		s.cfgHash = hex.EncodeToString(h[:])
		s.snapshots = snapshotsOf(s.repo)
		s.listing, err = verifC39Listing(s.repo)
		must(err)
		if len(s.snapshots) < 2 {
			t.Fatalf("C39 fixture: state %s has %d snapshots", name, len(s.snapshots))
		}
		states[name] = s
		return s
	}
	dstRepo := filepath.Join(scratch, "copy-dst")
	dstReady := false

	cmds := verifC39Commands()
	stateNames := []string{"unused", "duplicates"}
	if r.Thorough() {
		stateNames = []string{"unused", "snapshots", "duplicates", "damaged"}
	}
	seq := 0
	for _, sn := range stateNames {
		for _, c := range cmds {
			if !r.Thorough() && sn != "unused" && !c.key {
				continue
			}
			ck := sn + "|" + c.id
			if !r.Thorough() && sn != "unused" {
				// quick tier: the few key commands of a secondary state run in one shard
				// (building a state costs more than the commands)
				ck = "state=" + sn
			}
			if !r.Case(ck) {
				continue
			}
			if r.Expired() {
				return
			}
			s := getState(sn)
			seq++
			target := filepath.Join(scratch, fmt.Sprintf("restore-%d", seq))
			repl := strings.NewReplacer("{SNAP0}", s.snapshots[0], "{SNAP1}", s.snapshots[1], "{DATA}", dataDir, "{NEWDATA}", newData,
				"{FILE}", filepath.Join(dataDir, "sub", "file2"), "{TARGET}", target)
			var args []string
			if c.name == "copy" {
				if !dstReady {
					mustRun(dstRepo, "init")
					dstReady = true
				}
				args = []string{"-r", dstRepo, "--from-repo", s.repo, "--cache-dir", cache}
			} else {
				args = []string{"-r", s.repo, "--cache-dir", cache}
			}
			for _, a := range c.args {
				args = append(args, repl.Replace(a))
			}
			log := &verifC39Log{}
			r.Eval(1)
			var stdout, stderr string
			var cerr error
			panicked, pmsg := vh.NoPanic(func() {
				stdout, stderr, cerr = verifC39CLI(verifC39Hook(s.cfgHash, log), args...)
			})
			_ = os.RemoveAll(target)
			r.Transition(1)
			r.Trace(1)
			detail := map[string]any{"state": sn, "command": c.id, "args": args, "error": fmt.Sprint(cerr), "backend_writes": log.writes,
				"stdout_tail": verifC39Tail(stdout), "stderr_tail": verifC39Tail(stderr)}
			if panicked {
				r.Violationf(ck, "C39|panic|"+c.id, detail, "restic %s panicked: %s", c.id, pmsg)
			}
			if log.reads > 0 {
				r.Nontrivial(sn + "|" + c.id)
			}
			res := "ok"
			if cerr != nil {
				res = "error"
				r.Note("state %s: `%s` failed: %.160s", sn, c.id, cerr.Error())
			}
			if log.reads == 0 {
				r.Note("state %s: `%s` did not read from the repository (trivial)", sn, c.id)
			}
			r.Outcome(fmt.Sprintf("%s|%s|would=%v|writes=%d", c.name, res, strings.Contains(strings.ToLower(stdout), "would"), len(log.writes)))

			// (2) recorded writes
			seen := map[string]bool{}
			for _, w := range log.writes {
				var key, what string
				switch {
				case w.Type == "lock" && c.dryRun && !c.noLock:
					key = "C39|dry-run-own-lock|" + c.name
					what = fmt.Sprintf("`restic %s` (--dry-run without --no-lock) %ss a lock file in the repository (creates and later removes its own lock)", c.id, w.Op)
				case w.Type == "lock":
					key = "C39|lock-despite-no-lock|" + c.id
					what = fmt.Sprintf("`restic %s` %ss a lock file although --no-lock was given", c.id, w.Op)
				default:
					key = fmt.Sprintf("C39|write|%s|%s %s", c.id, w.Op, w.Type)
					what = fmt.Sprintf("`restic %s` on state %s: backend %s of %s file %s reached the repository", c.id, sn, w.Op, w.Type, w.Name)
				}
				if !seen[key] {
					seen[key] = true
					r.Violation(ck, key, what, detail)
				}
			}
			// (1) before/after listing
			after, err := verifC39Listing(s.repo)
			must(err)
			if d := verifC39ListingDiff(s.listing, after); len(d) > 0 {
				detail["listing_diff"] = d
				r.Violationf(ck, "C39|changed|"+c.id, detail, "`restic %s` on state %s changed the repository: %v", c.id, sn, d)
				must(os.RemoveAll(s.repo))
				must(verifC39Copy(s.tmpl, s.repo))
			}
			if c.id == "forget -n --keep-last 1 --group-by  --prune" || c.id == "check --no-lock" {
				r.Sample(map[string]any{"state": sn, "command": c.id, "error": fmt.Sprint(cerr), "backend_reads": log.reads, "backend_writes": log.writes, "stdout_tail": verifC39Tail(stdout)})
			}
		}
	}
}

func verifC39Tail(s string) string {
	if len(s) > 600 {
		return "..." + s[len(s)-600:]
	}
	return s
}

package main

// C50: repository passwords embedded in locations are never displayed.
//
// Space (complete, Q = T):
//  (1) StripPassword level: every location
//        "rest:" + scheme + "://" + user + ":" + PW + suffix
//      with scheme in {http, https}, user in {none, u, u%40x, =PW}, PW = every
//      string of <= 3 tokens over {p @ : / %41 ? # %20 %2F} (DESIGN alphabet plus
//      an escaped slash; 820 passwords incl. the empty one) and suffix in a
//      set of host/path/query/fragment variants, several of which repeat the
//      password text outside the user-info.  Each is passed through the real
//      location.Parse and location.StripPassword (registry all.Backends()).
//  (2) CLI level: for a sub-space (all passwords for http/u/plain path, and
//      all passwords of <= 2 tokens x scheme x user x 3 path variants) the
//      accepted locations are used as -r for real runInit / runSnapshots
//      invocations (text and --json) against an in-process REST server
//      (httptest, plain and TLS) in the states "no repository", "forbidden",
//      "fresh" and "already initialised".  Everything the command displays
//      (stdout, stderr, returned error text, JSON "repository" field) is checked.
//  (3) the other registered schemes with their documented forms.
//  (4) CLI level, locations with a leading blank/tab or a trailing CR/LF/blank
//      (as an env file or script may supply them): nothing displayed may
//      contain the password if the command accepts the location (= talks to the
//      server); error messages about rejected strings are not judged.
//
// Oracle.  The reference password of a location is computed by an independent
// RFC 3986 authority split written here (not net/url): authority = text
// between "//" and the first of "/?#"; user-info = up to the LAST "@";
// password = after the FIRST ":".  Locations the real parser rejects and
// locations that have no (or an empty) reference password are outside the
// property (counted as trivial).  Because passwords over this alphabet are
// often substrings of the non-secret rest of the location ("p" in "http",
// "@" and ":" as delimiters, password repeated in the path), "occurs in the
// displayed string" is decided by counting: after percent-decoding both
// sides, the decoded password may occur in the displayed string at most as
// often as it occurs in the non-secret remainder of the same location
// (prefix + "***" + suffix).  One additional occurrence = the password is
// shown (raw, decoded or re-encoded - all three decode to the same bytes).
// For whole command outputs the non-secret remainder is not known textually,
// so the reference count is taken from the output of the same command on the
// twin location whose password is the distinctive "Zq7Zq7" (disjoint from the
// alphabet); the twin's own password must not occur at all.
//
// Deviations from DESIGN: the alphabet letter "p" is kept (not replaced by a
// distinctive token) and made decidable by the counting oracle; CLI runs are
// done against a reachable in-process server instead of "failing" connects
// (a refused connection would be retried by the retry backend for minutes).
// Other schemes: all of them register location.NoPassword and their
// documented location syntax has no secret field; URL user-info passwords in
// s3:/sftp: URLs are not documented and restic ignores them, so whether they
// are echoed is recorded as an outcome, not judged.

import (
	"bytes"
	"context"
	"encoding/json"
	"fmt"
	"net/http"
	"net/http/httptest"
	"reflect"
	"sort"
	"strings"
	"sync"
	"testing"
	"time"

	"github.com/restic/restic/internal/backend/all"
	"github.com/restic/restic/internal/backend/location"
	"github.com/restic/restic/internal/global"
	"github.com/restic/restic/internal/options"
	"github.com/restic/restic/internal/verifshim/vh"
)

var verifC50Tokens = []string{"p", "@", ":", "/", "%41", "?", "#", "%20", "%2F"}

const verifC50Twin = "Zq7Zq7"

// verifC50Passwords returns all token strings of length 0..maxTok.
func verifC50Passwords(maxTok int) []string {
	out := []string{""}
	level := []string{""}
	for l := 1; l <= maxTok; l++ {
		var next []string
		for _, p := range level {
			for _, tk := range verifC50Tokens {
				next = append(next, p+tk)
			}
		}
		out = append(out, next...)
		level = next
	}
	return out
}

func verifC50Unhex(c byte) int {
	switch {
	case c >= '0' && c <= '9':
		return int(c - '0')
	case c >= 'a' && c <= 'f':
		return int(c-'a') + 10
	case c >= 'A' && c <= 'F':
		return int(c-'A') + 10
	}
	return -1
}

// verifC50Decode percent-decodes leniently (invalid escapes stay as they are).
func verifC50Decode(s string) string {
	var b strings.Builder
	for i := 0; i < len(s); i++ {
		if s[i] == '%' && i+2 < len(s) {
			h, l := verifC50Unhex(s[i+1]), verifC50Unhex(s[i+2])
			if h >= 0 && l >= 0 {
				b.WriteByte(byte(h<<4 | l))
				i += 2
				continue
			}
		}
		b.WriteByte(s[i])
	}
	return b.String()
}

// verifC50Count counts (overlapping) occurrences.
func verifC50Count(hay, needle string) int {
	if needle == "" {
		return 0
	}
	n := 0
	for i := 0; i+len(needle) <= len(hay); i++ {
		if hay[i:i+len(needle)] == needle {
			n++
		}
	}
	return n
}

// verifC50Ref is the independent reference split of a "rest:" location.
type verifC50Ref struct {
	hasPW  bool
	pw     string // raw password text
	prefix string // everything before the password (incl. "user:")
	suffix string // everything after it (starts with "@")
}

func verifC50Split(loc string) verifC50Ref {
	const pre = "rest:"
	s := loc[len(pre):]
	i := strings.Index(s, "://")
	if i < 0 {
		return verifC50Ref{}
	}
	rest := s[i+3:]
	end := strings.IndexAny(rest, "/?#")
	if end < 0 {
		end = len(rest)
	}
	authority := rest[:end]
	at := strings.LastIndex(authority, "@")
	if at < 0 {
		return verifC50Ref{}
	}
	userinfo := authority[:at]
	c := strings.Index(userinfo, ":")
	if c < 0 {
		return verifC50Ref{}
	}
	return verifC50Ref{
		hasPW:  true,
		pw:     userinfo[c+1:],
		prefix: pre + s[:i+3] + userinfo[:c+1],
		suffix: authority[at:] + rest[end:],
	}
}

// verifC50Leak decides whether shown displays the password of ref; it returns
// the number of occurrences found and allowed.
func verifC50Leak(ref verifC50Ref, shown string) (leak bool, got, allowed int) {
	needle := verifC50Decode(ref.pw)
	if needle == "" {
		return false, 0, 0
	}
	model := verifC50Decode(ref.prefix) + "***" + verifC50Decode(ref.suffix)
	allowed = verifC50Count(model, needle)
	if a := verifC50Count(model+"/", needle); a > allowed { // restic appends a slash
		allowed = a
	}
	got = verifC50Count(verifC50Decode(shown), needle)
	return got > allowed, got, allowed
}

// ---- in-process REST server ----

type verifC50Server struct {
	mu    sync.Mutex
	files map[string][]byte
	mode  string // "ok" | "forbidden"
	reqs  int    // requests served so far
}

var verifC50Types = map[string]bool{"data": true, "keys": true, "locks": true, "snapshots": true, "index": true}

func (s *verifC50Server) reset(mode string) {
	s.mu.Lock()
	s.files = map[string][]byte{}
	s.mode = mode
	s.mu.Unlock()
}

func (s *verifC50Server) requests() int { s.mu.Lock(); defer s.mu.Unlock(); return s.reqs }

func (s *verifC50Server) ServeHTTP(w http.ResponseWriter, req *http.Request) {
	s.mu.Lock()
	defer s.mu.Unlock()
	s.reqs++
	if s.mode == "forbidden" {
		w.WriteHeader(http.StatusForbidden)
		return
	}
	if req.Method == http.MethodPost && req.URL.Query().Get("create") == "true" {
		w.WriteHeader(http.StatusOK)
		return
	}
	p := req.URL.Path
	isDir := strings.HasSuffix(p, "/")
	segs := strings.Split(strings.TrimSuffix(p, "/"), "/")
	last := segs[len(segs)-1]
	key := ""
	switch {
	case !isDir && last == "config":
		key = "config"
	case !isDir && len(segs) >= 2 && verifC50Types[segs[len(segs)-2]]:
		key = segs[len(segs)-2] + "/" + last
	case isDir && verifC50Types[last]:
		if req.Method != http.MethodGet {
			w.WriteHeader(http.StatusMethodNotAllowed)
			return
		}
		type item struct {
			Name string `json:"name"`
			Size int64  `json:"size"`
		}
		list := []item{}
		for k, v := range s.files {
			if strings.HasPrefix(k, last+"/") {
				list = append(list, item{Name: k[len(last)+1:], Size: int64(len(v))})
			}
		}
		sort.Slice(list, func(i, j int) bool { return list[i].Name < list[j].Name })
		w.Header().Set("Content-Type", "application/vnd.x.restic.rest.v2")
		_ = json.NewEncoder(w).Encode(list)
		return
	default:
		w.WriteHeader(http.StatusNotFound)
		return
	}
	switch req.Method {
	case http.MethodHead, http.MethodGet:
		data, ok := s.files[key]
		if !ok {
			w.WriteHeader(http.StatusNotFound)
			return
		}
		w.Header().Set("Content-Type", "application/octet-stream")
		http.ServeContent(w, req, "", time.Time{}, bytes.NewReader(data))
	case http.MethodPost:
		var buf bytes.Buffer
		_, _ = buf.ReadFrom(req.Body)
		if _, ok := s.files[key]; ok {
			w.WriteHeader(http.StatusForbidden)
			return
		}
		s.files[key] = buf.Bytes()
		w.WriteHeader(http.StatusOK)
	case http.MethodDelete:
		delete(s.files, key)
		w.WriteHeader(http.StatusOK)
	default:
		w.WriteHeader(http.StatusMethodNotAllowed)
	}
}

// ---- CLI scenarios ----

type verifC50Shown struct {
	Scenario string `json:"scenario"`
	Stream   string `json:"stream"`
	Text     string `json:"text"`
	Accepted bool   `json:"accepted"` // the command got as far as talking to the server: it accepted the location
}

// verifC50RunCLI runs all scenarios for one location and returns everything displayed.
func verifC50RunCLI(t *testing.T, base global.Options, srv *verifC50Server, loc string) []verifC50Shown {
	var out []verifC50Shown
	run := func(name string, jsonOut bool, f func(ctx context.Context, gopts global.Options) error) {
		gopts := base
		gopts.Repo = loc
		gopts.JSON = jsonOut
		gopts.Quiet = false
		r0 := srv.requests()
		stdout, stderr, err := withCaptureStdoutStderr(t, gopts, f)
		acc := srv.requests() > r0
		out = append(out, verifC50Shown{name, "stdout", stdout.String(), acc}, verifC50Shown{name, "stderr", stderr.String(), acc})
		e := ""
		if err != nil {
			e = err.Error()
		}
		out = append(out, verifC50Shown{name, "error", e, acc})
	}
	snap := func(ctx context.Context, gopts global.Options) error {
		return runSnapshots(ctx, SnapshotOptions{}, gopts, nil, gopts.Term)
	}
	ini := func(ctx context.Context, gopts global.Options) error {
		return runInit(ctx, InitOptions{}, gopts, nil, gopts.Term)
	}
	srv.reset("ok")
	run("snapshots-norepo", false, snap)
	run("snapshots-norepo-json", true, snap)
	run("init-fresh", false, ini)
	run("init-exists", false, ini)
	run("init-exists-json", true, ini)
	srv.reset("ok")
	run("init-fresh-json", true, ini)
	srv.reset("forbidden")
	run("snapshots-forbidden", false, snap)
	run("init-forbidden", false, ini)
	return out
}

func TestVerif_C50(t *testing.T) {
	r := vh.Start(t, "C50")
	defer r.Finish()
	r.Rule("complete enumeration of rest: locations scheme x user x password(<=3 tokens over {p @ : / %41 ? # %20 %2F}) x suffix variants through real location.Parse/StripPassword, plus real runInit/runSnapshots (text+JSON) against an in-process REST server for a sub-space; non-trivial = location accepted by the real parser and the independent RFC 3986 split finds a non-empty password (the masking must fire)")
	r.Assume("what counts as the password of a location is decided by an independent RFC 3986 authority split, not by net/url",
		"a password is displayed iff, after percent-decoding, it occurs more often in the displayed text than in the non-secret remainder of the same location (StripPassword level) or than in the output for the twin location with password "+verifC50Twin+" (command level)")

	env, cleanup := withTestEnvironment(t)
	defer cleanup()
	reg := all.Backends()

	srv := &verifC50Server{}
	srv.reset("ok")
	plain := httptest.NewServer(srv)
	defer plain.Close()
	tls := httptest.NewTLSServer(srv)
	defer tls.Close()
	hostOf := map[string]string{
		"http":  strings.TrimPrefix(plain.URL, "http://"),
		"https": strings.TrimPrefix(tls.URL, "https://"),
	}
	base := env.gopts
	base.TransportOptions.InsecureTLS = true
	base.NoCache = true

	schemes := []string{"http", "https"}
	users := []string{"", "u", "u%40x", "=PW"}
	// suffix variants for the StripPassword level; {PW} is replaced by the raw password
	suffixes := []string{
		"@h0st/",
		"@h0st:8000/d1r/",
		"@h0st/d1r",
		"@h0st",
		"@h0st/{PW}/",
		"@h0st/d1r/?k={PW}",
		"@h0st/d1r/#{PW}",
		"@h0st/{PW}",
	}
	// path variants for the CLI level ({HOST} = the in-process server)
	cliSuffixes := []string{"@{HOST}/", "@{HOST}/d1r", "@{HOST}/{PW}/"}
	pws3 := verifC50Passwords(3)
	pws2 := map[string]bool{}
	for _, p := range verifC50Passwords(2) {
		pws2[p] = true
	}
	firstTok := func(pw string) string {
		for _, tk := range verifC50Tokens {
			if strings.HasPrefix(pw, tk) {
				return tk
			}
		}
		return "-"
	}

	// ---- (1) StripPassword level ----
	for _, sc := range schemes {
		for _, us := range users {
			for si, suf := range suffixes {
				for _, ft := range append([]string{"-"}, verifC50Tokens...) {
					ck := fmt.Sprintf("strip|%s|%s|%d|%s", sc, us, si, ft)
					if !r.Case(ck) {
						continue
					}
					for _, pw := range pws3 {
						if firstTok(pw) != ft {
							continue
						}
						user := us
						if us == "=PW" {
							user = pw
						}
						loc := "rest:" + sc + "://" + user + ":" + pw + strings.ReplaceAll(suf, "{PW}", pw)
						r.Eval(1)
						_, perr := location.Parse(reg, loc)
						if perr != nil {
							r.Outcome("rejected")
							continue
						}
						var shown string
						if p, msg := vh.NoPanic(func() { shown = location.StripPassword(reg, loc) }); p {
							r.Violationf(ck, "C50|strip-panic|"+loc, loc, "location.StripPassword(%q) panics on an accepted location: %s", loc, msg)
							continue
						}
						r.Transition(1)
						ref := verifC50Split(loc)
						if !ref.hasPW || verifC50Decode(ref.pw) == "" {
							r.Outcome("accepted-no-password")
							continue
						}
						r.Nontrivial(loc)
						leak, got, allowed := verifC50Leak(ref, shown)
						if leak {
							r.Outcome("leak")
							r.Violationf(ck, "C50|strip|"+loc, map[string]any{"location": loc, "shown": shown, "password": ref.pw},
								"location.StripPassword(%q) = %q displays the password %q (decoded occurrences %d, explained by the non-secret parts %d)", loc, shown, ref.pw, got, allowed)
							continue
						}
						if strings.Contains(shown, "***") {
							r.Outcome("masked")
						} else {
							r.Outcome("no-leak-unmasked")
						}
						if pw == "p@:" && us == "u" && si == 4 {
							r.Sample(map[string]any{"location": loc, "shown": shown, "ref_password": ref.pw, "occurrences": got, "allowed": allowed})
						}
					}
				}
			}
		}
	}

	// ---- (2) CLI level ----
	type cliCase struct{ sc, us, suf, pw string }
	twinCache := map[string][]verifC50Shown{}
	for _, sc := range schemes {
		for _, us := range users {
			for si, suf := range cliSuffixes {
				full := sc == "http" && us == "u" && si == 0
				for _, ft := range append([]string{"-"}, verifC50Tokens...) {
					ck := fmt.Sprintf("cli|%s|%s|%d|%s", sc, us, si, ft)
					if !r.Case(ck) {
						continue
					}
					for _, pw := range pws3 {
						if firstTok(pw) != ft || (!full && !pws2[pw]) {
							continue
						}
						if r.Expired() {
							return
						}
						mk := func(pw string) string {
							user := us
							if us == "=PW" {
								user = pw
							}
							s := strings.ReplaceAll(suf, "{HOST}", hostOf[sc])
							return "rest:" + sc + "://" + user + ":" + pw + strings.ReplaceAll(s, "{PW}", pw)
						}
						loc := mk(pw)
						r.Eval(1)
						if _, perr := location.Parse(reg, loc); perr != nil {
							r.Outcome("cli-rejected")
							continue
						}
						ref := verifC50Split(loc)
						needle := verifC50Decode(ref.pw)
						if !ref.hasPW || needle == "" {
							r.Outcome("cli-no-password")
							continue
						}
						// only forms whose reference host is the in-process server can be driven
						// through real commands without connection retries
						if !strings.HasPrefix(ref.suffix, "@"+hostOf[sc]) {
							r.Outcome("cli-host-not-server")
							continue
						}
						// the twin differs from the location only in the user-info password
						twinLoc := ref.prefix + verifC50Twin + ref.suffix
						twin, ok := twinCache[twinLoc]
						if !ok {
							twin = verifC50RunCLI(t, base, srv, twinLoc)
							twinCache[twinLoc] = twin
							for _, sh := range twin {
								if strings.Contains(verifC50Decode(sh.Text), verifC50Twin) {
									r.Violationf(ck, fmt.Sprintf("C50|cli|%s|%s|%s", sh.Scenario, sh.Stream, twinLoc), map[string]any{"location": twinLoc, "shown": sh},
										"%s (%s) on %q displays the password %q: %q", sh.Scenario, sh.Stream, twinLoc, verifC50Twin, sh.Text)
								}
							}
						}
						got := verifC50RunCLI(t, base, srv, loc)
						r.Transition(int64(len(got) / 3))
						r.Count("cli_locations", 1)
						r.Count("cli_invocations", int64(len(got)/3))
						r.Trace(1)
						r.Nontrivial("cli|" + loc)
						if len(got) != len(twin) {
							t.Fatalf("scenario count mismatch")
						}
						for i, sh := range got {
							if sh.Text != "" {
								r.Outcome("cli-shown|" + sh.Scenario + "|" + sh.Stream)
							}
							c, c0 := verifC50Count(verifC50Decode(sh.Text), needle), verifC50Count(verifC50Decode(twin[i].Text), needle)
							if c > c0 {
								r.Violationf(ck, fmt.Sprintf("C50|cli|%s|%s|%s", sh.Scenario, sh.Stream, loc), map[string]any{"location": loc, "shown": sh, "twin": twin[i]},
									"%s (%s) on %q displays the password %q (%d decoded occurrences, %d in the output for the twin password): %q", sh.Scenario, sh.Stream, loc, ref.pw, c, c0, sh.Text)
							}
							// JSON outputs: every string value that looks like the location is checked with the exact model
							if sh.Stream == "stdout" && strings.HasSuffix(sh.Scenario, "-json") {
								for _, line := range strings.Split(sh.Text, "\n") {
									var m map[string]any
									if json.Unmarshal([]byte(line), &m) != nil {
										continue
									}
									if rep, ok := m["repository"].(string); ok {
										r.Outcome("cli-json-repository-field")
										if leak, g, a := verifC50Leak(ref, rep); leak {
											r.Violationf(ck, fmt.Sprintf("C50|cli-json|%s|%s", sh.Scenario, loc), map[string]any{"location": loc, "json": line},
												"%s on %q: JSON field repository=%q displays the password %q (%d occurrences, %d explained)", sh.Scenario, loc, rep, ref.pw, g, a)
										}
									}
								}
							}
						}
						if pw == "p@" && us == "u" && si == 0 {
							r.Sample(map[string]any{"location": loc, "displayed": got})
						}
					}
				}
			}
		}
	}

	// ---- (4) locations with surrounding white space at command level ----
	// A location copied from an env file or a script may carry a leading blank or a trailing CR/LF.  Whether
	// If a command accepts such a location (it gets as far as talking to the server), nothing it displays may
	// contain the password (here the distinctive twin password, so a plain substring test decides).
	if r.Case("decorated-locations") {
		for _, sc := range schemes {
			for _, us := range []string{"u", ""} {
				core := "rest:" + sc + "://" + us + ":" + verifC50Twin + "@" + hostOf[sc]
				for di, loc := range []string{
					" " + core + "/", "\t" + core + "/", core + "/\r", core + "/\n", core + "/\r\n", core + "/ ", core + " ", " " + core + "/d/ ",
				} {
					shown := verifC50RunCLI(t, base, srv, loc)
					r.Eval(1)
					r.Transition(int64(len(shown)))
					r.NontrivialByConstruction(1)
					for _, sh := range shown {
						if !sh.Accepted {
							// the command rejected the location ("for every repository location that restic
							// accepts"): what an error message about a rejected string shows is not judged
							r.Outcome("decorated-rejected|" + sh.Scenario)
							continue
						}
						r.Outcome("decorated-accepted|" + sh.Scenario)
						if strings.Contains(sh.Text, verifC50Twin) || strings.Contains(verifC50Decode(sh.Text), verifC50Twin) {
							r.Violationf("decorated-locations", fmt.Sprintf("C50|cli-decorated|%s|%s|decoration=%d", sh.Scenario, sh.Stream, di),
								map[string]any{"location": loc, "command": sh.Scenario, "where": sh.Stream, "text": sh.Text},
								"location %q (white space around it): %s %s shows the password: %q", loc, sh.Scenario, sh.Stream, sh.Text)
						}
					}
				}
			}
		}
	}

	// ---- (3) other registered schemes ----
	if r.Case("other-schemes") {
		others := []string{
			"/srv/repo", "local:/srv/repo", "local:../x", "sftp:user@host:/srv/repo", "sftp://user@host:2222//srv/repo",
			"sftp://user:" + verifC50Twin + "@host/srv/repo", "sftp:user:" + verifC50Twin + "@host:/srv/repo",
			"s3:s3.amazonaws.com/bucket/prefix", "s3:http://host:9000/bucket", "s3:https://key:" + verifC50Twin + "@host/bucket",
			"b2:bucket:prefix", "b2:bucket", "azure:container:/prefix", "gs:bucket:/prefix", "swift:container:/prefix",
			"rclone:remote:path", "rclone:remote:", "rest:http://host/", "rest:https://user@host:8000/x",
		}
		for _, loc := range others {
			r.Eval(1)
			l, perr := location.Parse(reg, loc)
			if perr != nil {
				r.Outcome("other-rejected|" + loc)
				continue
			}
			var shown string
			if p, msg := vh.NoPanic(func() { shown = location.StripPassword(reg, loc) }); p {
				r.Violationf("other-schemes", "C50|strip-panic|"+loc, loc, "location.StripPassword(%q) panics on an accepted location: %s", loc, msg)
				continue
			}
			r.Transition(1)
			// any secret-typed config field filled from the location must not be displayed
			v := reflect.ValueOf(l.Config)
			for v.Kind() == reflect.Pointer {
				v = v.Elem()
			}
			if v.Kind() == reflect.Struct {
				for i := 0; i < v.NumField(); i++ {
					if sec, ok := v.Field(i).Interface().(options.SecretString); ok {
						if s := sec.Unwrap(); s != "" && strings.Contains(shown, s) {
							r.Violationf("other-schemes", "C50|secret-field|"+loc, loc, "StripPassword(%q) = %q contains the secret config field %s", loc, shown, v.Type().Field(i).Name)
						}
					}
				}
			}
			if strings.Contains(loc, verifC50Twin) {
				if strings.Contains(shown, verifC50Twin) {
					r.Outcome("other-undocumented-userinfo-echoed|" + l.Scheme)
					r.Note("undocumented URL user-info password in %q is echoed by StripPassword (scheme %s defines no password in its location; not judged)", loc, l.Scheme)
				} else {
					r.Outcome("other-undocumented-userinfo-hidden|" + l.Scheme)
				}
			} else {
				r.Outcome("other-no-secret|" + l.Scheme)
			}
		}
		// not an accepted location, recorded for information only
		if p, _ := vh.NoPanic(func() { _ = location.StripPassword(reg, "rest") }); p {
			r.Note("location.StripPassword(\"rest\") panics (location is rejected by Parse, outside C50)")
		}
	}
}

package main

// C10: a full prune (`prune --max-unused 0`, no repack limit) leaves no waste
// and reports accurate statistics - over operation histories.
//
// Engine ENUM over histories (explicit-state search).  A history is a sequence
// of at most N operations (quick N = 3, thorough N = 4; repository format v1:
// thorough only, N = 3) on a fresh repository held in the in-memory gatebe
// store (ungated), from the alphabet
//   F1 F2 F3  forge snapshot t1/t2/t3 (oracle.Forge, 1 KiB chunks, 4 KiB packs; the
//             trees share blobs), each at most once
//   FT        forge snapshot t4 with pack size 1: every blob in a pack of its own
//             (14 tiny fully used packs: the "many small packs" rule)
//   FC        forge snapshot t5 with compression off (uncompressed data packs;
//             thorough tier only)
//   FM        a hand-written mixed pack (one tree blob + one data blob, stored
//             uncompressed) with a hand-written index file, and a snapshot of it
//   G0 G1     forget the oldest / the newest snapshot (its file is deleted)
//   D         duplicates: four data chunks and the newest root tree are stored
//             again (SaveBlob with storeDuplicate)
//   U         an unindexed pack (two blobs saved, the index file deleted)
//   X         manual deletion of an indexed pack none of whose blobs is in use
// (FT, FC, FM, D, U, X at most once; G0/G1 need a snapshot; X needs such a
// pack).  Every history - every node of the history tree, prefixes are shared -
// is followed by the real runPrune (cmd level: lock, LoadIndex, PlanPrune,
// statistics as --json, Execute) with --max-unused 0 on a private copy.
// crypto/rand is replaced by a deterministic stream per step (detrand), so the
// assignment of blobs to packs repeats from run to run.
//
// Part 2: the repack step itself (repository.CopyBlobs, shared by prune and copy)
// with 2 and 3 workers on two packs that both hold the used blob X: every
// SaveBlob of a worker is a scheduling point, all orders within the deviation
// bound; every kept blob must be saved exactly once (no duplicate after a prune).
//
// Observation (independent of prune's code): raw listings before and after -
// pack files with their headers decrypted by the harness (pack.List with the
// repository key), index files decrypted through LoadUnpacked and decoded by
// the harness' own JSON structs, snapshot files, and the set U of blobs
// reachable from the snapshots (own tree walk through data.LoadTree).
//
// Oracle.
//  State after (statement):
//   A1 the index lists exactly the handles of U, each exactly once;
//   A2 packs on disk = packs in the index, and for every pack the header entries
//      equal the index entries (no unlisted blob, no entry without blob);
//   A3 snapshot files unchanged, U unchanged, and the RepoOracle (check
//      --read-data semantics + every snapshot's content) accepts the state.
//  Statistics (doc/075_scripting.rst PruneBlobs/PruneSizes/PrunePackfiles),
//  n(h) = number of index entries of handle h before:
//   B  blobs: used = |U|; duplicate = sum over U of n(h)-1; unused = entries of
//      handles outside U; total = number of entries; remove_total = remove +
//      repack_remove = unused + duplicate = entries before - entries after;
//      remaining = entries after; repack - repack_remove = blobs in the packs
//      that are new after prune;
//   S  bytes: used + duplicate = bytes of all entries of U (used alone when all
//      copies of a handle have the same length); unused; unreferenced = sizes of
//      the unindexed packs; total = sum of the four; remove_total = remove +
//      repack_remove + unreferenced = unused + duplicate + unreferenced;
//      remaining = total - remove_total (= bytes of the entries after, when no
//      kept blob changes its stored length by being compressed on repacking);
//      remaining_unused = 0; uncompressed two-sided: between the sizes of the
//      kept packs holding an uncompressed blob and those of all such packs (0
//      also accepted for format v1);
//   P  packfiles: total = packs on disk before = used + partly_used + unused +
//      unreferenced; unreferenced = unindexed packs; keep = packs present before
//      and after; keep + repack + remove + unreferenced = total; remove_total is
//      unreferenced + remove (+ repack also accepted);
//   X  when no handle of U has two entries (the split of duplicates between
//      "used" and "unused" copies is a heuristic) additionally per pack: used /
//      partly_used / unused counts; remove = unused packs; blobs/bytes removed =
//      entries of unused and of missing packs; repack = the packs with a used
//      blob that are gone afterwards (every partly used pack must be among them);
//      blobs/bytes repack and repack_remove = their entries / file sizes /
//      unused entries.  Whether fully used small or mixed packs are repacked is
//      left to restic (observed from the listings).
// A history in which a needed blob has an index entry in a deleted pack (X
// followed by a forge that re-uses the blob) is outside the property: only
// "no panic" is demanded.
//
// Deviations from DESIGN: "interrupted prune" and "repair packs leaving
// duplicates" are represented by the D operation (duplicates in a second pack
// as both leave them); histories are enumerated completely up to the bound
// instead of 40/600 selected ones.

import (
	"bytes"
	"context"
	"crypto/sha256"
	"encoding/json"
	"errors"
	"fmt"
	"sort"
	"strings"
	"sync"
	"testing"
	"time"

	"github.com/restic/restic/internal/backend"
	"github.com/restic/restic/internal/data"
	"github.com/restic/restic/internal/global"
	"github.com/restic/restic/internal/repository"
	"github.com/restic/restic/internal/repository/crypto"
	"github.com/restic/restic/internal/repository/pack"
	"github.com/restic/restic/internal/restic"
	"github.com/restic/restic/internal/verifshim/detrand"
	"github.com/restic/restic/internal/verifshim/gatebe"
	"github.com/restic/restic/internal/verifshim/oracle"
	"github.com/restic/restic/internal/verifshim/vh"
	"github.com/restic/restic/internal/verifshim/vx"
	"github.com/restic/restic/internal/verifshim/xplore"
)

const verifC10PackSize = 4096

func verifC10Specs() map[string]oracle.Spec {
	common := oracle.LCG(1, 2000)
	tiny := oracle.Spec{}
	for i := 0; i < 12; i++ {
		tiny[fmt.Sprintf("t/f%02d", i)] = oracle.LCG(uint64(100+i), 300)
	}
	return map[string]oracle.Spec{
		"F1": {"a": oracle.LCG(2, 2100), "b": oracle.LCG(3, 1100), "d/c": oracle.LCG(4, 2200), "common": common, "d/empty": {}},
		"F2": {"a": oracle.LCG(5, 2100), "common": common, "e": oracle.LCG(6, 3000), "d/c": oracle.LCG(4, 2200)},
		"F3": {"z": oracle.LCG(7, 5000), "common": common},
		"FT": tiny,
		"FC": {"u": oracle.LCG(8, 2500), "common": common},
	}
}

type verifC10Snap struct {
	id      restic.ID
	content oracle.Content
	op      string
}

// verifC10Hist is one node of the history tree.
type verifC10Hist struct {
	version uint
	ops     []string
	state   gatebe.State
	snaps   []verifC10Snap // existing snapshots, creation order
}

func (h *verifC10Hist) key() string {
	return fmt.Sprintf("v%d|%s", h.version, strings.Join(h.ops, ","))
}

func (h *verifC10Hist) has(op string) bool {
	for _, o := range h.ops {
		if o == op {
			return true
		}
	}
	return false
}

// verifC10WithFC: the compression-off forge is part of the thorough alphabet only.
var verifC10WithFC = false

var verifC10Alphabet = []string{"F1", "F2", "F3", "FT", "FC", "FM", "G0", "G1", "D", "U", "X"}

// ---- raw observation

type verifC10Entry struct {
	H    restic.BlobHandle
	Off  uint
	Len  uint
	ULen uint
}

type verifC10Pack struct {
	size int64
	hdr  []verifC10Entry
}

type verifC10Obs struct {
	disk    map[restic.ID]verifC10Pack
	idx     map[restic.ID][]verifC10Entry // pack -> entries of all index files
	nIdx    int
	snaps   map[restic.ID][]byte
	used    map[restic.BlobHandle]bool
	walkErr error
}

type verifC10JSONIndex struct {
	Packs []struct {
		ID    restic.ID `json:"id"`
		Blobs []struct {
			ID                 restic.ID       `json:"id"`
			Type               restic.BlobType `json:"type"`
			Offset             uint            `json:"offset"`
			Length             uint            `json:"length"`
			UncompressedLength uint            `json:"uncompressed_length"`
		} `json:"blobs"`
	} `json:"packs"`
}

func verifC10SortEntries(l []verifC10Entry) {
	sort.Slice(l, func(i, j int) bool {
		if l[i].Off != l[j].Off {
			return l[i].Off < l[j].Off
		}
		return l[i].H.String() < l[j].H.String()
	})
}

func verifC10Observe(ctx context.Context, st gatebe.State) (*verifC10Obs, error) {
	repo, _, err := oracle.Open(ctx, st, oracle.Password)
	if err != nil {
		return nil, fmt.Errorf("open: %w", err)
	}
	if err := repo.LoadIndex(ctx, restic.NoopTerminalCounterFactory); err != nil {
		return nil, fmt.Errorf("LoadIndex: %w", err)
	}
	o := &verifC10Obs{disk: map[restic.ID]verifC10Pack{}, idx: map[restic.ID][]verifC10Entry{}, snaps: map[restic.ID][]byte{}, used: map[restic.BlobHandle]bool{}}
	for k, buf := range st {
		id, err := restic.ParseID(k.Name)
		if err != nil {
			continue
		}
		switch k.Type {
		case backend.PackFile:
			blobs, _, err := pack.List(repo.Key(), bytes.NewReader(buf), int64(len(buf)))
			if err != nil {
				return nil, fmt.Errorf("pack %v: header unreadable: %w", id.Str(), err)
			}
			p := verifC10Pack{size: int64(len(buf))}
			for _, b := range blobs {
				p.hdr = append(p.hdr, verifC10Entry{H: b.BlobHandle, Off: b.Offset, Len: b.Length, ULen: b.UncompressedLength})
			}
			verifC10SortEntries(p.hdr)
			o.disk[id] = p
		case backend.IndexFile:
			pt, err := repo.LoadUnpacked(ctx, restic.IndexFile, id)
			if err != nil {
				return nil, fmt.Errorf("index %v: %w", id.Str(), err)
			}
			var ji verifC10JSONIndex
			if err := json.Unmarshal(pt, &ji); err != nil {
				return nil, fmt.Errorf("index %v: %w", id.Str(), err)
			}
			for _, p := range ji.Packs {
				for _, b := range p.Blobs {
					o.idx[p.ID] = append(o.idx[p.ID], verifC10Entry{H: restic.BlobHandle{ID: b.ID, Type: b.Type}, Off: b.Offset, Len: b.Length, ULen: b.UncompressedLength})
					o.nIdx++
				}
			}
		case backend.SnapshotFile:
			o.snaps[id] = buf
		}
	}
	for _, l := range o.idx {
		verifC10SortEntries(l)
	}
	for id := range o.snaps {
		sn, err := data.LoadSnapshot(ctx, repo, id)
		if err != nil || sn.Tree == nil {
			o.walkErr = fmt.Errorf("snapshot %v: %v", id.Str(), err)
			continue
		}
		if err := verifC10Reach(ctx, repo, *sn.Tree, o.used, 0); err != nil && o.walkErr == nil {
			o.walkErr = err
		}
	}
	return o, nil
}

func verifC10Reach(ctx context.Context, repo restic.BlobLoader, tree restic.ID, used map[restic.BlobHandle]bool, depth int) error {
	h := restic.BlobHandle{ID: tree, Type: restic.TreeBlob}
	if used[h] {
		return nil
	}
	used[h] = true
	if depth > 32 {
		return fmt.Errorf("tree nesting too deep")
	}
	it, err := data.LoadTree(ctx, repo, tree)
	if err != nil {
		return fmt.Errorf("tree %v: %w", tree.Str(), err)
	}
	var subs []restic.ID
	for item := range it {
		if item.Error != nil {
			return fmt.Errorf("tree %v: %w", tree.Str(), item.Error)
		}
		for _, c := range item.Node.Content {
			used[restic.BlobHandle{ID: c, Type: restic.DataBlob}] = true
		}
		if item.Node.Type == data.NodeTypeDir && item.Node.Subtree != nil {
			subs = append(subs, *item.Node.Subtree)
		}
	}
	for _, s := range subs {
		if err := verifC10Reach(ctx, repo, s, used, depth+1); err != nil {
			return err
		}
	}
	return nil
}

// semName: pack named by its sorted blob list.
func verifC10PackName(l []verifC10Entry) string {
	n := make([]string, len(l))
	for i, e := range l {
		n[i] = string(e.H.Type.String()[0]) + e.H.ID.Str()
	}
	sort.Strings(n)
	return strings.Join(n, ",")
}

func (o *verifC10Obs) stateKey() string {
	var l []string
	for id, p := range o.disk {
		_, indexed := o.idx[id]
		l = append(l, fmt.Sprintf("P{%s}idx=%v", verifC10PackName(p.hdr), indexed))
	}
	for id, e := range o.idx {
		if _, ok := o.disk[id]; !ok {
			l = append(l, fmt.Sprintf("M{%s}", verifC10PackName(e)))
		}
	}
	var u []string
	for h := range o.used {
		u = append(u, h.ID.Str())
	}
	sort.Strings(l)
	sort.Strings(u)
	return strings.Join(l, ";") + "|U=" + strings.Join(u, ",") + fmt.Sprintf("|snaps=%d", len(o.snaps))
}

// ---- operations

type verifC10Capture struct {
	blobs []verifC10Captured
}

type verifC10Captured struct {
	t   restic.BlobType
	id  restic.ID
	buf []byte
}

func (c *verifC10Capture) SaveBlob(_ context.Context, t restic.BlobType, buf []byte, id restic.ID, _ bool) (restic.ID, bool, int, error) {
	if id.IsNull() {
		id = restic.Hash(buf)
	}
	c.blobs = append(c.blobs, verifC10Captured{t, id, append([]byte{}, buf...)})
	return id, false, len(buf), nil
}

func verifC10Seal(key *crypto.Key, plain []byte) []byte {
	nonce := crypto.NewRandomNonce()
	ct := append([]byte{}, nonce...)
	return key.Seal(ct, nonce, plain, nil)
}

var verifC10Time = time.Date(2021, 1, 1, 0, 0, 0, 0, time.UTC)

// verifC10Apply applies op to h and returns the child node, or nil when op is not applicable.
func verifC10Apply(t *testing.T, ctx context.Context, h *verifC10Hist, op string) *verifC10Hist {
	switch op {
	case "F1", "F2", "F3", "FT", "FC", "FM", "D", "U", "X":
		if h.has(op) {
			return nil
		}
	case "G0":
		if len(h.snaps) < 1 {
			return nil
		}
	case "G1":
		if len(h.snaps) < 2 {
			return nil
		}
	}
	if op == "FC" && (h.version < 2 || !verifC10WithFC) {
		return nil
	}
	child := &verifC10Hist{version: h.version, ops: append(append([]string{}, h.ops...), op), snaps: append([]verifC10Snap{}, h.snaps...)}
	restore := detrand.Install(vh.Hash("C10", child.key()))
	defer restore()
	store := gatebe.NewStoreFrom(h.state, nil)
	fail := func(err error) {
		t.Fatalf("C10 fixture %s: %v", child.key(), err)
	}
	open := func(opts repository.Options, packSize uint) *repository.Repository {
		be := &gatebe.Backend{S: store, Proc: "setup", Conns: 2, AtomicReplace: true}
		repo, err := oracle.OpenOn(ctx, be, opts)
		if err != nil {
			fail(err)
		}
		repository.VerifSetPackSize(repo, packSize)
		if err := repo.LoadIndex(ctx, restic.NoopTerminalCounterFactory); err != nil {
			fail(err)
		}
		return repo
	}
	sec := len(child.ops)
	switch op {
	case "F1", "F2", "F3", "FT", "FC":
		ropts := repository.Options{}
		ps := uint(verifC10PackSize)
		if op == "FT" {
			ps = 1
		}
		if op == "FC" {
			ropts.Compression = repository.CompressionOff
		}
		repo := open(ropts, ps)
		id, model, err := oracle.Forge(ctx, repo, verifC10Specs()[op], oracle.ForgeOpts{Tags: []string{op}, Time: verifC10Time.Add(time.Duration(sec) * time.Second)})
		if err != nil {
			fail(err)
		}
		child.snaps = append(child.snaps, verifC10Snap{id, model, op})
	case "FM":
		repo := open(repository.Options{}, verifC10PackSize)
		plain := oracle.LCG(9, 700)
		dataID := restic.Hash(plain)
		capt := &verifC10Capture{}
		tw := data.NewTreeWriter(capt)
		tm := verifC10Time
		if err := tw.AddNode(&data.Node{Name: "m", Type: data.NodeTypeFile, Mode: 0o644, ModTime: tm, AccessTime: tm, ChangeTime: tm, Size: uint64(len(plain)), Content: restic.IDs{dataID}}); err != nil {
			fail(err)
		}
		treeID, err := tw.Finalize(ctx)
		if err != nil {
			fail(err)
		}
		var pbuf bytes.Buffer
		pk := pack.NewPacker(repo.Key(), &pbuf)
		if _, err := pk.Add(restic.TreeBlob, treeID, verifC10Seal(repo.Key(), capt.blobs[0].buf), 0); err != nil {
			fail(err)
		}
		if _, err := pk.Add(restic.DataBlob, dataID, verifC10Seal(repo.Key(), plain), 0); err != nil {
			fail(err)
		}
		if err := pk.Finalize(); err != nil {
			fail(err)
		}
		packID := restic.Hash(pbuf.Bytes())
		store.Put("setup", gatebe.FileKey{Type: backend.PackFile, Name: packID.String()}, pbuf.Bytes())
		type jb struct {
			ID     restic.ID       `json:"id"`
			Type   restic.BlobType `json:"type"`
			Offset uint            `json:"offset"`
			Length uint            `json:"length"`
		}
		type jp struct {
			ID    restic.ID `json:"id"`
			Blobs []jb      `json:"blobs"`
		}
		var blobs []jb
		for _, b := range pk.Blobs() {
			blobs = append(blobs, jb{b.ID, b.Type, b.Offset, b.Length})
		}
		ij, err := json.Marshal(map[string]any{"packs": []jp{{packID, blobs}}})
		if err != nil {
			fail(err)
		}
		ibuf := verifC10Seal(repo.Key(), ij)
		h := sha256.Sum256(ibuf)
		store.Put("setup", gatebe.FileKey{Type: backend.IndexFile, Name: restic.ID(h).String()}, ibuf)
		repo = open(repository.Options{}, verifC10PackSize)
		sn := &data.Snapshot{Time: verifC10Time.Add(time.Duration(sec) * time.Second), Tree: &treeID, Paths: []string{"/mixed"}, Hostname: "verifhost", Username: "verif", Tags: []string{"FM"}}
		id, err := data.SaveSnapshot(ctx, repo, sn)
		if err != nil {
			fail(err)
		}
		child.snaps = append(child.snaps, verifC10Snap{id, oracle.Content{"/m": oracle.FileDesc(plain)}, op})
	case "G0", "G1":
		i := 0
		if op == "G1" {
			i = len(child.snaps) - 1
		}
		store.Del("setup", gatebe.FileKey{Type: backend.SnapshotFile, Name: child.snaps[i].id.String()})
		child.snaps = append(child.snaps[:i], child.snaps[i+1:]...)
	case "D":
		repo := open(repository.Options{}, verifC10PackSize)
		sp := verifC10Specs()
		err := repo.WithBlobUploader(ctx, func(ctx context.Context, up restic.BlobSaverWithAsync) error {
			for _, b := range [][]byte{sp["F1"]["common"][:1024], sp["F1"]["a"][:1024], sp["F2"]["e"][1024:2048], sp["F3"]["z"][:1024]} {
				if _, _, _, err := up.SaveBlob(ctx, restic.DataBlob, b, restic.ID{}, true); err != nil {
					return err
				}
			}
			if n := len(child.snaps); n > 0 {
				sn, err := data.LoadSnapshot(ctx, repo, child.snaps[n-1].id)
				if err != nil {
					return err
				}
				buf, err := repo.LoadBlob(ctx, restic.BlobHandle{ID: *sn.Tree, Type: restic.TreeBlob}, nil)
				if err != nil {
					return err
				}
				if _, _, _, err := up.SaveBlob(ctx, restic.TreeBlob, buf, *sn.Tree, true); err != nil {
					return err
				}
			}
			return nil
		})
		if err != nil {
			fail(err)
		}
	case "U":
		repo := open(repository.Options{}, verifC10PackSize)
		before := store.Snapshot()
		sp := verifC10Specs()
		err := repo.WithBlobUploader(ctx, func(ctx context.Context, up restic.BlobSaverWithAsync) error {
			if _, _, _, err := up.SaveBlob(ctx, restic.DataBlob, oracle.LCG(10, 900), restic.ID{}, true); err != nil {
				return err
			}
			_, _, _, err := up.SaveBlob(ctx, restic.DataBlob, sp["F1"]["common"][:1024], restic.ID{}, true)
			return err
		})
		if err != nil {
			fail(err)
		}
		for k := range store.Snapshot() {
			if _, old := before[k]; !old && k.Type == backend.IndexFile {
				store.Del("setup", k)
			}
		}
	case "X":
		o, err := verifC10Observe(ctx, h.state)
		if err != nil {
			fail(err)
		}
		if o.walkErr != nil {
			return nil
		}
		best, bestName := restic.ID{}, ""
		for id, ents := range o.idx {
			if _, ok := o.disk[id]; !ok {
				continue
			}
			needed := false
			for _, e := range ents {
				if o.used[e.H] {
					needed = true
				}
			}
			if needed {
				continue
			}
			if n := verifC10PackName(ents); bestName == "" || n < bestName {
				best, bestName = id, n
			}
		}
		if bestName == "" {
			return nil
		}
		store.Del("setup", gatebe.FileKey{Type: backend.PackFile, Name: best.String()})
	default:
		t.Fatalf("C10: unknown op %s", op)
	}
	child.state = store.Snapshot()
	return child
}

// ---- the check of one history

type verifC10Ctx struct {
	t     *testing.T
	r     *vh.Run
	ctx   context.Context
	gopts global.Options
	curBE *backend.Backend
}

func (c *verifC10Ctx) check(ck string, h *verifC10Hist) {
	r, ctx := c.r, c.ctx
	hk := h.key()
	detail := map[string]any{"repo_version": h.version, "history": h.ops, "prune": "--max-unused 0"}
	before, err := verifC10Observe(ctx, h.state)
	if err != nil {
		c.t.Fatalf("C10 %s: observation of the fixture failed: %v", hk, err)
	}
	r.Eval(1)
	r.Transition(int64(len(h.ops) + 1))
	r.State(before.stateKey())

	// sanity of the fixture: index entries of packs on disk agree with the pack headers
	damaged := before.walkErr != nil
	for id, ents := range before.idx {
		p, ok := before.disk[id]
		if !ok {
			for _, e := range ents {
				if before.used[e.H] {
					damaged = true // a needed blob is listed in a deleted pack
				}
			}
			continue
		}
		if fmt.Sprint(ents) != fmt.Sprint(p.hdr) {
			c.t.Fatalf("C10 %s: fixture pack %v: index entries differ from the pack header", hk, id.Str())
		}
	}
	n := map[restic.BlobHandle]int{}
	lens := map[restic.BlobHandle]map[uint]bool{}
	for _, ents := range before.idx {
		for _, e := range ents {
			n[e.H]++
			if lens[e.H] == nil {
				lens[e.H] = map[uint]bool{}
			}
			lens[e.H][e.Len] = true
		}
	}
	for hd := range before.used {
		if n[hd] == 0 {
			damaged = true
		}
	}

	// ---- run the real prune
	restore := detrand.Install(vh.Hash("C10", "prune", hk))
	store := gatebe.NewStoreFrom(h.state, nil)
	*c.curBE = &gatebe.Backend{S: store, Proc: "prune", Conns: 3, AtomicReplace: true}
	var out *bytes.Buffer
	var perr error
	panicked, pmsg := vh.NoPanic(func() {
		out, perr = withCaptureStdout(c.t, c.gopts, func(ctx context.Context, gopts global.Options) error {
			return runPrune(ctx, PruneOptions{MaxUnused: "0"}, gopts, gopts.Term)
		})
	})
	restore()
	r.Trace(1)
	if panicked {
		r.Violationf(ck, "C10|panic|"+hk, detail, "prune panicked: %s", pmsg)
		return
	}
	if damaged {
		r.Count("histories_outside_property_needed_blob_in_deleted_pack", 1)
		r.Outcome(fmt.Sprintf("outside-property err=%v", perr != nil))
		return
	}
	if perr != nil {
		r.Violationf(ck, "C10|prune-failed|"+hk, detail, "prune --max-unused 0 failed on a consistent repository: %v", perr)
		return
	}
	var st repository.PruneStats
	found := false
	for _, line := range strings.Split(out.String(), "\n") {
		line = strings.TrimSpace(line)
		if strings.HasPrefix(line, "{") && strings.Contains(line, `"message_type":"summary"`) {
			if err := json.Unmarshal([]byte(line), &st); err != nil {
				r.Violationf(ck, "C10|stats-json|"+hk, detail, "prune --json statistics do not parse: %v", err)
				return
			}
			found = true
		}
	}
	if !found {
		r.Violationf(ck, "C10|stats-missing|"+hk, detail, "prune --json printed no summary: %q", out.String())
		return
	}
	afterState := store.Snapshot()
	after, err := verifC10Observe(ctx, afterState)
	if err != nil {
		r.Violationf(ck, "C10|after-unreadable|"+hk, detail, "the repository cannot be listed after prune: %v", err)
		return
	}
	detail["stats"] = st
	bad := func(kind, format string, a ...any) {
		r.Violationf(ck, "C10|"+kind+"|"+hk, detail, "%s: "+format, append([]any{hk}, a...)...)
	}

	// ---- A: state after
	if after.walkErr != nil {
		bad("after-snapshot-unreadable", "after prune a snapshot cannot be walked: %v", after.walkErr)
		return
	}
	if len(after.snaps) != len(before.snaps) {
		bad("snapshots-changed", "prune changed the set of snapshot files (%d -> %d)", len(before.snaps), len(after.snaps))
	}
	for id, b := range before.snaps {
		if string(after.snaps[id]) != string(b) {
			bad("snapshots-changed", "snapshot file %v changed or vanished", id.Str())
		}
	}
	nAfter := map[restic.BlobHandle]int{}
	var afterBytes uint64
	for _, ents := range after.idx {
		for _, e := range ents {
			nAfter[e.H]++
			afterBytes += uint64(e.Len)
		}
	}
	for hd := range before.used {
		if !after.used[hd] {
			bad("used-set-changed", "blob %v was reachable before prune and is not afterwards", hd)
		}
		if nAfter[hd] == 0 {
			bad("needed-blob-lost", "needed blob %v is not in the index after prune", hd)
		}
	}
	for hd, k := range nAfter {
		if !before.used[hd] {
			bad("unused-blob-remains", "index still lists %v which no snapshot references", hd)
		} else if k > 1 {
			bad("duplicate-remains", "index lists %v %d times after prune", hd, k)
		}
	}
	for id, ents := range after.idx {
		p, ok := after.disk[id]
		if !ok {
			bad("index-entry-for-missing-pack", "index lists pack %v which is not in the repository", id.Str())
			continue
		}
		if fmt.Sprint(ents) != fmt.Sprint(p.hdr) {
			bad("pack-differs-from-index", "pack %v: header %v, index %v", id.Str(), p.hdr, ents)
		}
	}
	for id := range after.disk {
		if _, ok := after.idx[id]; !ok {
			bad("unindexed-pack-remains", "pack %v is in the repository but not in the index", id.Str())
		}
	}
	expect := oracle.Expect{}
	for _, s := range h.snaps {
		expect[s.id] = s.content
	}
	if probs := oracle.Verify(ctx, afterState, oracle.Password, expect, oracle.VerifyOpts{ReadData: true}); len(probs) > 0 {
		bad("repo-oracle", "after prune: %s", strings.Join(probs, "; "))
	}

	// ---- derived quantities
	var usedCnt, dupCnt, unusedCnt uint
	var usedDupBytes, usedBytesMin, usedBytesMax, unusedBytes uint64
	equalLens := true
	for hd, k := range n {
		var mn, mx uint64
		for l := range lens[hd] {
			if mn == 0 || uint64(l) < mn {
				mn = uint64(l)
			}
			if uint64(l) > mx {
				mx = uint64(l)
			}
		}
		if before.used[hd] {
			usedCnt++
			dupCnt += uint(k - 1)
			usedBytesMin += mn
			usedBytesMax += mx
			if len(lens[hd]) > 1 {
				equalLens = false
			}
		} else {
			unusedCnt += uint(k)
		}
	}
	for _, ents := range before.idx {
		for _, e := range ents {
			if before.used[e.H] {
				usedDupBytes += uint64(e.Len)
			} else {
				unusedBytes += uint64(e.Len)
			}
		}
	}
	var unrefBytes uint64
	var unrefPacks, missingPacks uint
	for id, p := range before.disk {
		if _, ok := before.idx[id]; !ok {
			unrefPacks++
			unrefBytes += uint64(p.size)
		}
	}
	for id := range before.idx {
		if _, ok := before.disk[id]; !ok {
			missingPacks++
		}
	}
	var keepPacks uint
	var newBlobs uint
	for id := range before.disk {
		if _, ok := after.disk[id]; ok {
			keepPacks++
		}
	}
	for id, p := range after.disk {
		if _, ok := before.disk[id]; !ok {
			newBlobs += uint(len(p.hdr))
		}
	}
	hasDup := dupCnt > 0

	eq := func(field string, got, want uint64) {
		if got != want {
			bad("stat|"+field, "statistics field %s = %d, derived from the listings: %d", field, got, want)
		}
	}
	// ---- B blobs
	eq("blobs.used", uint64(st.Blobs.Used), uint64(usedCnt))
	eq("blobs.duplicate", uint64(st.Blobs.Duplicate), uint64(dupCnt))
	eq("blobs.unused", uint64(st.Blobs.Unused), uint64(unusedCnt))
	eq("blobs.total", uint64(st.Blobs.Total), uint64(before.nIdx))
	eq("blobs.remove_total=remove+repack_remove", uint64(st.Blobs.RemoveTotal), uint64(st.Blobs.Remove+st.Blobs.Repackrm))
	eq("blobs.remove_total", uint64(st.Blobs.RemoveTotal), uint64(before.nIdx-after.nIdx))
	eq("blobs.remaining", uint64(st.Blobs.Remain), uint64(after.nIdx))
	if st.Blobs.Repack < st.Blobs.Repackrm {
		bad("stat|blobs.repack<repack_remove", "repack=%d < repack_remove=%d", st.Blobs.Repack, st.Blobs.Repackrm)
	} else {
		eq("blobs.repack-repack_remove", uint64(st.Blobs.Repack-st.Blobs.Repackrm), uint64(newBlobs))
	}
	// ---- S bytes
	eq("bytes.used+duplicate", st.Size.Used+st.Size.Duplicate, usedDupBytes)
	if equalLens {
		eq("bytes.used", st.Size.Used, usedBytesMin)
	} else if st.Size.Used < usedBytesMin || st.Size.Used > usedBytesMax {
		bad("stat|bytes.used", "bytes.used = %d outside [%d, %d]", st.Size.Used, usedBytesMin, usedBytesMax)
	}
	eq("bytes.unused", st.Size.Unused, unusedBytes)
	eq("bytes.unreferenced", st.Size.Unref, unrefBytes)
	eq("bytes.total", st.Size.Total, usedDupBytes+unusedBytes+unrefBytes)
	eq("bytes.remove_total=remove+repack_remove+unreferenced", st.Size.RemoveTotal, st.Size.Remove+st.Size.Repackrm+st.Size.Unref)
	eq("bytes.remove_total", st.Size.RemoveTotal, st.Size.Duplicate+unusedBytes+unrefBytes)
	eq("bytes.remaining=total-remove_total", st.Size.Remain, st.Size.Total-st.Size.RemoveTotal)
	eq("bytes.remaining_unused", st.Size.RemainUnused, 0)
	// stored length changes only when an uncompressed blob of a v2 repository is repacked
	lengthStable := true
	if h.version >= 2 {
		for id, ents := range before.idx {
			if _, kept := after.disk[id]; kept {
				continue
			}
			for _, e := range ents {
				if before.used[e.H] && e.ULen == 0 {
					lengthStable = false
				}
			}
		}
	}
	if lengthStable {
		eq("bytes.remaining-vs-after", st.Size.Remain, afterBytes)
	}
	var uncMin, uncMax uint64
	for id, ents := range before.idx {
		p, ok := before.disk[id]
		if !ok {
			continue
		}
		unc := false
		for _, e := range ents {
			if e.ULen == 0 {
				unc = true
			}
		}
		if unc {
			uncMax += uint64(p.size)
			if _, kept := after.disk[id]; kept {
				uncMin += uint64(p.size)
			}
		}
	}
	if !(st.Size.Uncompressed >= uncMin && st.Size.Uncompressed <= uncMax) && !(h.version < 2 && st.Size.Uncompressed == 0) {
		bad("stat|bytes.uncompressed", "bytes.uncompressed = %d outside [%d, %d]", st.Size.Uncompressed, uncMin, uncMax)
	}
	// ---- P packfiles
	eq("packfiles.total", uint64(st.Packs.Total), uint64(len(before.disk)))
	eq("packfiles.total=used+partly_used+unused+unreferenced", uint64(st.Packs.Total), uint64(st.Packs.Used+st.Packs.PartlyUsed+st.Packs.Unused+st.Packs.Unref))
	eq("packfiles.unreferenced", uint64(st.Packs.Unref), uint64(unrefPacks))
	eq("packfiles.keep", uint64(st.Packs.Keep), uint64(keepPacks))
	eq("packfiles.keep+repack+remove+unreferenced", uint64(st.Packs.Keep+st.Packs.Repack+st.Packs.Remove+st.Packs.Unref), uint64(len(before.disk)))
	if st.Packs.RemoveTotal != st.Packs.Unref+st.Packs.Remove && st.Packs.RemoveTotal != st.Packs.Unref+st.Packs.Remove+st.Packs.Repack {
		bad("stat|packfiles.remove_total", "packfiles.remove_total = %d, unreferenced+remove = %d, +repack = %d", st.Packs.RemoveTotal, st.Packs.Unref+st.Packs.Remove, st.Packs.Unref+st.Packs.Remove+st.Packs.Repack)
	}
	// ---- X exact per-pack accounting when there are no duplicates
	var nRepack uint
	if !hasDup {
		var pUsed, pPartly, pUnused, rmBlobs, rpBlobs, rpRm uint
		var rmBytes, rpBytes, rpRmBytes uint64
		for id, ents := range before.idx {
			var u, nu uint
			var nuBytes uint64
			for _, e := range ents {
				if before.used[e.H] {
					u++
				} else {
					nu++
					nuBytes += uint64(e.Len)
				}
			}
			p, onDisk := before.disk[id]
			_, kept := after.disk[id]
			switch {
			case !onDisk:
				rmBlobs += nu
				rmBytes += nuBytes
			case u == 0:
				pUnused++
				rmBlobs += nu
				rmBytes += nuBytes
				if kept {
					bad("unused-pack-kept", "pack %v holds no needed blob and is still there", id.Str())
				}
			default:
				if nu == 0 {
					pUsed++
				} else {
					pPartly++
					if kept {
						bad("partly-used-pack-kept", "pack %v holds %d unused blobs and was kept by prune --max-unused 0", id.Str(), nu)
					}
				}
				if !kept {
					nRepack++
					rpBlobs += u + nu
					rpRm += nu
					rpBytes += uint64(p.size)
					rpRmBytes += nuBytes
				}
			}
		}
		eq("packfiles.used", uint64(st.Packs.Used), uint64(pUsed))
		eq("packfiles.partly_used", uint64(st.Packs.PartlyUsed), uint64(pPartly))
		eq("packfiles.unused", uint64(st.Packs.Unused), uint64(pUnused))
		eq("packfiles.remove", uint64(st.Packs.Remove), uint64(pUnused))
		eq("packfiles.repack", uint64(st.Packs.Repack), uint64(nRepack))
		eq("blobs.remove", uint64(st.Blobs.Remove), uint64(rmBlobs))
		eq("blobs.repack", uint64(st.Blobs.Repack), uint64(rpBlobs))
		eq("blobs.repack_remove", uint64(st.Blobs.Repackrm), uint64(rpRm))
		eq("bytes.remove", st.Size.Remove, rmBytes)
		eq("bytes.repack", st.Size.Repack, rpBytes)
		eq("bytes.repack_remove", st.Size.Repackrm, rpRmBytes)
	}

	waste := unusedCnt > 0 || dupCnt > 0 || unrefPacks > 0 || missingPacks > 0 || st.Packs.Repack > 0
	if waste {
		r.Nontrivial(hk)
	}
	r.Outcome(fmt.Sprintf("unused=%v dup=%v unref=%v missing=%v remove=%v repack=%v keep=%v uncompressed=%v", unusedCnt > 0, dupCnt > 0, unrefPacks > 0, missingPacks > 0, st.Packs.Remove > 0, st.Packs.Repack > 0, st.Packs.Keep > 0, st.Size.Uncompressed > 0))
	if hk == "v2|F1,F2,G0" || hk == "v2|F1,D,U" || hk == "v2|FT,F1,G1" {
		r.Sample(map[string]any{"history": hk, "stats": st, "packs_before": len(before.disk), "packs_after": len(after.disk), "index_entries_before": before.nIdx, "index_entries_after": after.nIdx, "reachable_blobs": len(before.used)})
	}
}

// ---- part 2: the repack step under all interleavings of its workers ----

// verifC10GatedSaver makes every SaveBlob of the repack workers a scheduling point.
type verifC10GatedSaver struct {
	restic.BlobSaverWithAsync
	x     *xplore.Exec
	label map[restic.ID]string
	mu    sync.Mutex
	saves map[string]int
}

func (g *verifC10GatedSaver) SaveBlob(ctx context.Context, t restic.BlobType, buf []byte, id restic.ID, storeDuplicate bool) (restic.ID, bool, int, error) {
	lab := g.label[id]
	g.mu.Lock()
	g.saves[lab]++
	n := g.saves[lab]
	g.mu.Unlock()
	if g.x.Gate(xplore.Event{Key: fmt.Sprintf("repack:SaveBlob:%s#%d", lab, n), Proc: "repack", Kind: "SaveBlob"}) < 0 {
		return restic.ID{}, false, 0, errors.New("execution torn down")
	}
	return g.BlobSaverWithAsync.SaveBlob(ctx, t, buf, id, storeDuplicate)
}

// verifC10Repack: a used blob X is stored in two packs that are both repacked (each also holds another used
// and an unused blob); the real repository.CopyBlobs (the repack step of prune and copy) runs with 2 and 3
// workers; every SaveBlob of a worker is a gate, all orders within the deviation bound.  After a full
// prune no blob may be stored twice: every kept blob is saved exactly once by the repack step.
func verifC10Repack(t *testing.T, r *vh.Run) {
	ctx := context.Background()
	restore := detrand.Install(10)
	repo, store, err := oracle.NewRepo(ctx, 2, repository.Options{})
	if err != nil {
		t.Fatal(err)
	}
	blob := func(seed uint64) []byte { return oracle.LCG(seed, 900) }
	X, A, B, U1, U2 := blob(101), blob(102), blob(103), blob(104), blob(105)
	label := map[restic.ID]string{restic.Hash(X): "X", restic.Hash(A): "A", restic.Hash(B): "B", restic.Hash(U1): "U1", restic.Hash(U2): "U2"}
	for _, sess := range [][][]byte{{A, X, U1}, {B, X, U2}} {
		if err := repo.WithBlobUploader(ctx, func(ctx context.Context, up restic.BlobSaverWithAsync) error {
			for _, b := range sess {
				if _, _, _, err := up.SaveBlob(ctx, restic.DataBlob, b, restic.ID{}, true); err != nil {
					return err
				}
			}
			return nil
		}); err != nil {
			t.Fatal(err)
		}
	}
	restore()
	base := store.Snapshot()
	packs := restic.NewIDSet()
	for k := range base {
		if k.Type == backend.PackFile {
			id, _ := restic.ParseID(k.Name)
			packs.Insert(id)
		}
	}
	if len(packs) != 2 {
		t.Fatalf("repack fixture: %d packs", len(packs))
	}
	type exec struct {
		saver *verifC10GatedSaver
		keep  restic.BlobSet
		err   error
		done  bool
	}
	for _, conns := range []uint{3, 4} {
		name := fmt.Sprintf("repack/conns=%d", conns)
		sc := xplore.Scenario{
			Start: func(x *xplore.Exec) {
				st := &exec{keep: restic.NewBlobSet()}
				x.Data = st
				for _, b := range [][]byte{X, A, B} {
					st.keep.Insert(restic.BlobHandle{Type: restic.DataBlob, ID: restic.Hash(b)})
				}
				be := &gatebe.Backend{S: gatebe.NewStoreFrom(base, nil), Proc: "be", Conns: conns, AtomicReplace: true}
				rp, err := oracle.OpenOn(x.Ctx, be, repository.Options{})
				if err != nil {
					t.Fatalf("open: %v", err)
				}
				if err := rp.LoadIndex(x.Ctx, restic.NoopTerminalCounterFactory); err != nil {
					t.Fatalf("LoadIndex: %v", err)
				}
				x.Go("prune", func() {
					st.err = rp.WithBlobUploader(x.Ctx, func(ctx context.Context, up restic.BlobSaverWithAsync) error {
						st.saver = &verifC10GatedSaver{BlobSaverWithAsync: up, x: x, label: label, saves: map[string]int{}}
						return repository.CopyBlobs(ctx, rp, rp, st.saver, packs, st.keep, restic.NoopCounter, nil)
					})
					st.done = true
				})
			},
		}
		check := func(x *xplore.Exec) {
			st := x.Data.(*exec)
			r.State(name + "|" + strings.Join(x.Trace, ">"))
			if len(x.Trace) >= 3 {
				r.Nontrivial(name + "|" + strings.Join(x.Trace, ">"))
			}
			var bad []string
			switch {
			case len(x.Panics) > 0:
				bad = append(bad, "panic: "+x.Panics[0])
			case x.Deadlock:
				bad = append(bad, "deadlock: the repack step blocks forever")
			case st.done && st.err != nil:
				bad = append(bad, fmt.Sprintf("error: the repack step failed without a fault: %v", st.err))
			case st.done:
				for _, lab := range []string{"X", "A", "B"} {
					if n := st.saver.saves[lab]; n != 1 {
						bad = append(bad, fmt.Sprintf("duplicate: the repack step saved the used blob %s %d times (it is stored in %d of the repacked packs): after the prune it is stored %d times", lab, n, map[string]int{"X": 2, "A": 1, "B": 1}[lab], n))
					}
				}
				for _, lab := range []string{"U1", "U2"} {
					if st.saver.saves[lab] != 0 {
						bad = append(bad, "waste: the unused blob "+lab+" was repacked")
					}
				}
				if st.keep.Len() != 0 {
					bad = append(bad, fmt.Sprintf("lost: %d blob(s) to keep were not processed", st.keep.Len()))
				}
			}
			r.Outcome(fmt.Sprintf("%s ok=%v", name, len(bad) == 0))
			if len(bad) > 0 {
				kind := bad[0][:strings.Index(bad[0], ":")]
				vx.Violation(r, name, x, "C10|repack|"+kind+"|"+name, strings.Join(bad, "\n"), nil)
			}
		}
		stt := vx.Explore(r, t, name, sc, xplore.Options{Policy: xplore.FIFO, Bound: 2, MaxSteps: 200}, check)
		r.Note("%s: execs(this shard)=%d", name, stt.Execs)
	}
}

func TestVerif_C10(t *testing.T) {
	r := vh.Start(t, "C10")
	defer r.Finish()
	verifC10Repack(t, r)
	maxOps := vh.Pick(r, 3, 4)
	verifC10WithFC = r.Thorough()
	r.Rule(fmt.Sprintf("every history of at most %d operations (repository format v1: thorough only, at most 3) over {forge t1,t2,t3, forge with one pack per blob, forge uncompressed (thorough), hand-written mixed pack, forget oldest, forget newest, duplicate blobs, unindexed pack, delete an unneeded pack}, each followed by the real runPrune --max-unused 0 --json on a private copy; states = distinct repository states before prune (packs named by content); non-trivial = the state holds waste (unused or duplicate index entries, unindexed or missing packs) or packs are repacked", maxOps))
	r.Assume("fault-free in-memory backend; a single process", "the split of duplicate copies between 'used' and 'duplicate/unused' is restic's heuristic: with duplicates only the documented sums and the before/after differences are checked",
		"histories in which a needed blob is listed in a manually deleted pack are outside the property (no-panic only)")
	ctx := context.Background()
	oracle.LowKDF()

	var curBE backend.Backend
	gopts := verifGopts(t, r.Scratch, nil, oracle.Password)
	gopts.BackendTestHook = func(_ backend.Backend) (backend.Backend, error) { return curBE, nil }
	gopts.JSON = true
	c := &verifC10Ctx{t: t, r: r, ctx: ctx, gopts: gopts, curBE: &curBE}

	versions := []uint{2}
	if r.Thorough() {
		versions = append(versions, 1)
	}
	for _, version := range versions {
		limit := maxOps
		if version == 1 && limit > 3 {
			limit = 3
		}
		_, store, err := oracle.NewRepo(ctx, version, repository.Options{})
		if err != nil {
			t.Fatalf("C10: %v", err)
		}
		root := &verifC10Hist{version: version, state: store.Snapshot()}
		if r.Case(root.key()) {
			c.check(root.key(), root)
		}
		// cases = histories of length <= 2; longer ones run under their length-2 prefix
		var dfs func(ck string, h *verifC10Hist)
		dfs = func(ck string, h *verifC10Hist) {
			if r.Expired() {
				return
			}
			c.check(ck, h)
			if len(h.ops) >= limit {
				return
			}
			for _, op := range verifC10Alphabet {
				if ch := verifC10Apply(t, ctx, h, op); ch != nil {
					dfs(ck, ch)
				}
			}
		}
		for _, op1 := range verifC10Alphabet {
			h1 := verifC10Apply(t, ctx, root, op1)
			if h1 == nil {
				continue
			}
			if r.Case(h1.key()) {
				c.check(h1.key(), h1)
			}
			if limit < 2 {
				continue
			}
			for _, op2 := range verifC10Alphabet {
				ck := fmt.Sprintf("v%d|%s,%s", version, op1, op2)
				if !r.Case(ck) {
					continue
				}
				if h2 := verifC10Apply(t, ctx, h1, op2); h2 != nil {
					dfs(ck, h2)
				}
			}
		}
	}
}

// TestVerifRace_C10 runs every scenario body free (gates answer at once, no oracle) under the race detector.
func TestVerifRace_C10(t *testing.T) {
	xplore.Free = 2
	defer func() { xplore.Free = 0 }()
	TestVerif_C10(t)
}

package main

// C25: tag edits leave snapshots with exactly the requested tags.
//
// Space (complete, explicit-state).  One repository per shard, re-populated for
// every case with three forged snapshots (data.SaveSnapshot, no backup run):
// two selected ones (host h1; tag lists T0[i] and T0[i+2]) and one unselected
// (host h2, tags T0[i+1]) with T0 = {[], [a], [a,a], [a,b], [b,a,b]}; every
// other snapshot field is filled with a distinctive value.  Commands run
// through the real runTag:
//   --set L            L in all non-empty lists of length <= 2 over {a,b,c}
//                      (duplicates included), [a,b,c] and [""] ("no tags")
//   --add A --remove R A, R in all lists of length <= 2 over {a,b,c}
//                      (duplicates included, not both empty)
// = 182 commands, x selection mode {explicit snapshot IDs, --host h1}; a list of
// two tags is given either as one option value (--add a,b) or as two option
// occurrences (--add a --add b): 345 command forms.
// Depth 1: every (T0, mode, command form).  Depth 2 (first command in the
// comma form, second command in the repeated-option form): the state (tag list
// + "original" set) of the first selected snapshot after the first command is
// predicted by applying the real Snapshot.AddTags/RemoveTags in memory (used
// ONLY to pick prefixes, never as an oracle); for every distinct predicted
// depth-1 state one prefix (T0, command) is kept and extended by every second
// command, both steps being executed by the real runTag on the real repository
// without re-forging.  The quick tier runs each depth-2 prefix with one of the
// two selection modes (alternating) and second commands whose lists are empty,
// a single tag, [a,b] or [""] (29 commands); the thorough tier runs both modes
// and all 182 second commands.
//
// Oracle (per step, from the statement and doc/manual_rest.rst "Managing
// tags"; tag lists are compared as SETS, order/multiplicity is not demanded):
//   add/remove: set(tags') == (set(tags) ∪ A) ∖ R     set: set(tags') == L∖{""}
//   every other JSON field of the snapshot equal; if the snapshot file was
//   rewritten, `original` == ID of the first forged snapshot; the unselected
//   snapshot keeps its ID and its backend file is byte-identical; the number of
//   snapshots is unchanged; runTag returns no error.
//
// Deviation from DESIGN: three instead of two snapshots per repository (two
// selected, to cover "every selected snapshot").

import (
	"context"
	"encoding/json"
	"fmt"
	"os"
	"path/filepath"
	"reflect"
	"sort"
	"strings"
	"testing"
	"time"

	"github.com/restic/restic/internal/data"
	"github.com/restic/restic/internal/global"
	"github.com/restic/restic/internal/repository"
	"github.com/restic/restic/internal/restic"
	"github.com/restic/restic/internal/ui/progress"
	"github.com/restic/restic/internal/verifshim/vh"
)

type verifC25Cmd struct {
	Set    []string `json:"set,omitempty"`
	Add    []string `json:"add,omitempty"`
	Remove []string `json:"remove,omitempty"`
	// Split: every tag is given with its own option occurrence (--add a --add b)
	// instead of one comma-separated list (--add a,b).
	Split bool `json:"split,omitempty"`
}

func (c verifC25Cmd) canSplit() bool { return len(c.Set) > 1 || len(c.Add) > 1 || len(c.Remove) > 1 }

func (c verifC25Cmd) lists(l []string) data.TagLists {
	if len(l) == 0 {
		return nil
	}
	if !c.Split {
		return data.TagLists{data.TagList(l)}
	}
	var res data.TagLists
	for _, x := range l {
		res = append(res, data.TagList{x})
	}
	return res
}

// quickSecond: the reduced alphabet of second commands in the quick tier: every
// list is empty, a single tag, [a,b] or (for --set) [""].
func (c verifC25Cmd) quickSecond() bool {
	ok := func(l []string) bool { return len(l) <= 1 || (len(l) == 2 && l[0] == "a" && l[1] == "b") }
	return ok(c.Set) && ok(c.Add) && ok(c.Remove)
}

func (c verifC25Cmd) isSet() bool { return c.Set != nil }

func (c verifC25Cmd) key() string {
	sp := ""
	if c.Split {
		sp = ";split"
	}
	if c.isSet() {
		return "set=" + strings.Join(c.Set, ",") + sp
	}
	return "add=" + strings.Join(c.Add, ",") + ";remove=" + strings.Join(c.Remove, ",") + sp
}

func (c verifC25Cmd) opts() TagOptions {
	var o TagOptions
	if c.isSet() {
		o.SetTags = c.lists(c.Set)
		return o
	}
	o.AddTags = c.lists(c.Add)
	o.RemoveTags = c.lists(c.Remove)
	return o
}

func verifC25Lists() [][]string {
	al := []string{"a", "b", "c"}
	res := [][]string{{}}
	for _, x := range al {
		res = append(res, []string{x})
	}
	for _, x := range al {
		for _, y := range al {
			res = append(res, []string{x, y})
		}
	}
	return res
}

func verifC25Commands() []verifC25Cmd {
	var cmds []verifC25Cmd
	lists := verifC25Lists()
	for _, l := range lists {
		if len(l) > 0 {
			cmds = append(cmds, verifC25Cmd{Set: l})
		}
	}
	cmds = append(cmds, verifC25Cmd{Set: []string{"a", "b", "c"}}, verifC25Cmd{Set: []string{""}})
	for _, a := range lists {
		for _, rm := range lists {
			if len(a) == 0 && len(rm) == 0 {
				continue
			}
			cmds = append(cmds, verifC25Cmd{Add: a, Remove: rm})
		}
	}
	return cmds
}

var verifC25T0 = [][]string{{}, {"a"}, {"a", "a"}, {"a", "b"}, {"b", "a", "b"}}

func verifC25Set(l []string) map[string]bool {
	m := map[string]bool{}
	for _, x := range l {
		m[x] = true
	}
	return m
}

func verifC25Count(l []string, x string) int {
	n := 0
	for _, y := range l {
		if y == x {
			n++
		}
	}
	return n
}

func verifC25SetStr(m map[string]bool) string {
	var l []string
	for k := range m {
		l = append(l, k)
	}
	sort.Strings(l)
	return "{" + strings.Join(l, ",") + "}"
}

// model: expected tag set after cmd on a snapshot carrying tags pre
func (c verifC25Cmd) expect(pre []string) map[string]bool {
	if c.isSet() {
		m := verifC25Set(c.Set)
		delete(m, "")
		return m
	}
	m := verifC25Set(pre)
	for _, x := range c.Add {
		m[x] = true
	}
	for _, x := range c.Remove {
		delete(m, x)
	}
	return m
}

// prediction of the next tag list with the real in-memory functions; only used
// to choose depth-2 prefixes.
func (c verifC25Cmd) predict(pre []string) (post []string, changed bool) {
	sn := &data.Snapshot{Tags: append([]string{}, pre...)}
	if c.isSet() {
		l := c.lists(c.Set).Flatten()
		if len(l) == 0 {
			return sn.Tags, false
		}
		return l, true
	}
	ch := sn.AddTags(append([]string{}, c.Add...))
	if sn.RemoveTags(append([]string{}, c.Remove...)) {
		ch = true
	}
	return sn.Tags, ch
}

type verifC25Snap struct {
	ID     restic.ID
	Sn     *data.Snapshot
	Fields map[string]any // decrypted JSON without tags/original
	File   []byte         // backend file bytes
}

type verifC25Env struct {
	t     *testing.T
	env   *testEnvironment
	repo  *repository.Repository // harness handle: no lock, no cache, lists freely
	ctx   context.Context
	times [3]time.Time
	tree  restic.ID
}

func (e *verifC25Env) observe() (map[int64][]*verifC25Snap, int) {
	res := map[int64][]*verifC25Snap{}
	n := 0
	err := e.repo.List(e.ctx, restic.SnapshotFile, func(id restic.ID, _ int64) error {
		buf, err := e.repo.LoadUnpacked(e.ctx, restic.SnapshotFile, id)
		if err != nil {
			return err
		}
		sn := &data.Snapshot{}
		if err := json.Unmarshal(buf, sn); err != nil {
			return err
		}
		var f map[string]any
		if err := json.Unmarshal(buf, &f); err != nil {
			return err
		}
		delete(f, "tags")
		delete(f, "original")
		file, err := os.ReadFile(filepath.Join(e.env.repo, "snapshots", id.String()))
		if err != nil {
			return err
		}
		res[sn.Time.UnixNano()] = append(res[sn.Time.UnixNano()], &verifC25Snap{ID: id, Sn: sn, Fields: f, File: file})
		n++
		return nil
	})
	if err != nil {
		e.t.Fatalf("C25 observe: %v", err)
	}
	return res, n
}

func (e *verifC25Env) reset(i int) {
	var ids []restic.ID
	if err := e.repo.List(e.ctx, restic.SnapshotFile, func(id restic.ID, _ int64) error { ids = append(ids, id); return nil }); err != nil {
		e.t.Fatalf("C25 reset list: %v", err)
	}
	for _, id := range ids {
		if err := e.repo.RemoveUnpacked(e.ctx, restic.WriteableSnapshotFile, id); err != nil {
			e.t.Fatalf("C25 reset remove: %v", err)
		}
	}
	// keep restic's snapshot cache from accumulating the files of earlier cases
	if stale, _ := filepath.Glob(filepath.Join(e.env.cache, "*", "snapshots", "*")); len(stale) > 0 {
		for _, f := range stale {
			_ = os.RemoveAll(f)
		}
	}
	tags := [3][]string{verifC25T0[i], verifC25T0[(i+2)%len(verifC25T0)], verifC25T0[(i+1)%len(verifC25T0)]}
	hosts := [3]string{"h1", "h1", "h2"}
	parent := restic.Hash([]byte("C25 parent"))
	for k := 0; k < 3; k++ {
		tree := e.tree
		par := parent
		sn := &data.Snapshot{
			Time: e.times[k], Parent: &par, Tree: &tree,
			Paths: []string{"/p", fmt.Sprintf("/q%d", k)}, Hostname: hosts[k], Username: fmt.Sprintf("user%d", k),
			UID: uint32(1000 + k), GID: uint32(2000 + k), Excludes: []string{"*.tmp", "x"},
			Tags:           append([]string{}, tags[k]...),
			ProgramVersion: "restic verif-C25",
			Summary: &data.SnapshotSummary{BackupStart: e.times[k].Add(-time.Minute), BackupEnd: e.times[k], FilesNew: 3, FilesChanged: 4,
				FilesUnmodified: 5, DirsNew: 6, DirsChanged: 7, DirsUnmodified: 8, DataBlobs: 9, TreeBlobs: 10, DataAdded: 11,
				DataAddedPacked: 12, TotalFilesProcessed: 13, TotalBytesProcessed: 14},
		}
		if len(sn.Tags) == 0 {
			sn.Tags = nil
		}
		if _, err := data.SaveSnapshot(e.ctx, e.repo, sn); err != nil {
			e.t.Fatalf("C25 forge snapshot: %v", err)
		}
	}
}

func verifC25Join(l []string) string { return strings.Join(l, ",") }

func TestVerif_C25(t *testing.T) {
	r := vh.Start(t, "C25")
	defer r.Finish()
	r.Rule("every (initial tag lists incl. duplicates) x (selection by IDs | --host) x (182 set/add/remove commands) at depth 1; depth 2 = one prefix per distinct predicted depth-1 state x all 182 commands, both steps through the real runTag on a real local repository; non-trivial = a step in which runTag rewrote a selected snapshot (its ID changed)")
	r.Assume("tag lists are compared as sets (order and multiplicity of the stored list are not demanded)",
		"tags outside A and R are expected to be kept by --add/--remove (doc/manual_rest.rst: tags are added to / removed from the existing set)")

	env, cleanup := withTestEnvironment(t)
	defer cleanup()
	testRunInit(t, env.gopts)

	cmds := verifC25Commands()
	modes := []string{"ids", "host"}
	base := time.Date(2020, 3, 4, 5, 6, 7, 0, time.UTC)

	hg := env.gopts
	hg.BackendTestHook = nil
	hg.NoCache = true
	err := withTermStatus(t, hg, func(ctx context.Context, hg global.Options) error {
		printer := progress.NewTerminalPrinter(false, 0, hg.Term)
		repo, err := global.OpenRepository(ctx, hg, printer)
		if err != nil {
			return err
		}
		e := &verifC25Env{t: t, env: env, repo: repo, ctx: ctx}
		for k := range e.times {
			e.times[k] = base.Add(time.Duration(k) * time.Hour)
		}
		if err := repo.WithBlobUploader(ctx, func(ctx context.Context, up restic.BlobSaverWithAsync) error {
			e.tree = data.TestSaveNodes(t, ctx, up, nil)
			return nil
		}); err != nil {
			return err
		}

		runSeq := func(ck string, i int, mode string, seq []verifC25Cmd) {
			e.reset(i)
			first, n0 := e.observe()
			if n0 != 3 {
				t.Fatalf("C25: forged %d snapshots, want 3", n0)
			}
			firstID := map[int64]restic.ID{}
			for tm, l := range first {
				firstID[tm] = l[0].ID
			}
			selTimes := []int64{e.times[0].UnixNano(), e.times[1].UnixNano()}
			unTime := e.times[2].UnixNano()
			pre := first
			var hist []string
			for step, c := range seq {
				hist = append(hist, c.key())
				detail := map[string]any{"initial_tags_selected": [][]string{first[selTimes[0]][0].Sn.Tags, first[selTimes[1]][0].Sn.Tags},
					"selection": mode, "commands": hist, "failing_step": step}
				opts := c.opts()
				var args []string
				if mode == "ids" {
					for _, tm := range selTimes {
						args = append(args, pre[tm][0].ID.String())
					}
				} else {
					opts.Hosts = []string{"h1"}
				}
				var rerr error
				pan, msg := vh.NoPanic(func() {
					rerr = withTermStatus(t, env.gopts, func(ctx context.Context, gopts global.Options) error {
						return runTag(ctx, opts, gopts, gopts.Term, args)
					})
				})
				r.Transition(1)
				if pan {
					r.Violationf(ck, "C25|panic|"+c.key(), detail, "runTag panicked: %s", msg)
					return
				}
				if rerr != nil {
					r.Violationf(ck, "C25|error|"+c.key(), detail, "runTag %s failed: %v", c.key(), rerr)
				}
				post, n := e.observe()
				if n != 3 {
					r.Violationf(ck, fmt.Sprintf("C25|count|%s|%d", c.key(), n), detail, "snapshot count changed from 3 to %d after tag %s", n, c.key())
				}
				// unselected snapshot
				if l := post[unTime]; len(l) != 1 || l[0].ID != pre[unTime][0].ID || string(l[0].File) != string(pre[unTime][0].File) {
					r.Violationf(ck, "C25|unselected-changed|"+c.key(), detail, "unselected snapshot (host h2) was modified, lost or duplicated by tag %s --%s", c.key(), mode)
				}
				ok := true
				for _, tm := range selTimes {
					p := pre[tm][0]
					l := post[tm]
					if len(l) != 1 {
						r.Violationf(ck, "C25|selected-lost|"+c.key(), detail, "selected snapshot with tags [%s]: %d successors after tag %s", verifC25Join(p.Sn.Tags), len(l), c.key())
						ok = false
						continue
					}
					q := l[0]
					st := fmt.Sprintf("tags=%s|orig=%v", verifC25Join(q.Sn.Tags), q.Sn.Original != nil)
					r.State(st)
					want := c.expect(p.Sn.Tags)
					got := verifC25Set(q.Sn.Tags)
					r.Outcome(fmt.Sprintf("%s|%s|%s|rewritten=%v", verifC25Join(p.Sn.Tags), c.key(), verifC25Join(q.Sn.Tags), q.ID != p.ID))
					if q.ID != p.ID {
						r.Nontrivial(fmt.Sprintf("%s|%s|%s", verifC25Join(p.Sn.Tags), c.key(), mode))
					}
					if !reflect.DeepEqual(want, got) {
						kind, tag := "", ""
						for _, x := range []string{"a", "b", "c", ""} {
							if got[x] && !want[x] {
								switch {
								case c.isSet() && len(c.Set) == 1 && c.Set[0] == "":
									kind = "set-empty-keeps-tags"
								case c.isSet():
									kind = "set-extra-tag"
								case verifC25Set(c.Remove)[x] && verifC25Count(p.Sn.Tags, x) >= 2:
									kind = "remove-leaves-tag" // the tag to remove was present more than once
								case verifC25Set(c.Remove)[x]:
									kind = "removed-tag-still-present"
								default:
									kind = "unrequested-tag"
								}
								tag = x
								break
							}
						}
						if kind == "" {
							for _, x := range []string{"a", "b", "c", ""} {
								if want[x] && !got[x] {
									if c.isSet() || verifC25Set(c.Add)[x] {
										kind = "requested-tag-missing"
									} else {
										kind = "lost-tag"
									}
									tag = x
									break
								}
							}
						}
						if kind == "" {
							kind = "tags-differ"
						}
						var key string
						switch kind {
						case "remove-leaves-tag":
							key = fmt.Sprintf("C25|remove-leaves-tag|tags=%s|remove=%s", verifC25Join(p.Sn.Tags), tag)
						case "set-empty-keeps-tags":
							key = fmt.Sprintf("C25|set-empty-keeps-tags|tags=%s", verifC25Join(p.Sn.Tags))
						default:
							key = fmt.Sprintf("C25|%s|tags=%s|%s|tag=%s", kind, verifC25Join(p.Sn.Tags), c.key(), tag)
						}
						d2 := map[string]any{"history": detail, "tags_before_step": p.Sn.Tags, "command": c, "tags_after": q.Sn.Tags, "expected_set": verifC25SetStr(want)}
						r.Violationf(ck, key, d2, "snapshot with tags [%s]: after tag %s the tags are [%s], expected the set %s", verifC25Join(p.Sn.Tags), c.key(), verifC25Join(q.Sn.Tags), verifC25SetStr(want))
					}
					if !reflect.DeepEqual(p.Fields, q.Fields) {
						var diff []string
						for k := range p.Fields {
							if !reflect.DeepEqual(p.Fields[k], q.Fields[k]) {
								diff = append(diff, k)
							}
						}
						for k := range q.Fields {
							if _, ok := p.Fields[k]; !ok {
								diff = append(diff, k)
							}
						}
						sort.Strings(diff)
						r.Violationf(ck, "C25|field-changed|"+strings.Join(diff, ","), detail, "tag %s changed snapshot fields other than tags/original: %v", c.key(), diff)
					}
					if q.ID != p.ID {
						if q.Sn.Original == nil || *q.Sn.Original != firstID[tm] {
							r.Violationf(ck, fmt.Sprintf("C25|original|step=%d|had=%v", step, p.Sn.Original != nil), detail, "rewritten snapshot has original=%v, expected the first ID %v", q.Sn.Original, firstID[tm])
						}
					} else if !reflect.DeepEqual(p.Sn.Original, q.Sn.Original) {
						r.Violationf(ck, "C25|original|same-id", detail, "original changed without rewrite")
					}
				}
				if !ok {
					return
				}
				pre = post
			}
			r.Eval(1)
			r.Trace(1)
			if len(seq) == 2 && i == 2 {
				r.Sample(map[string]any{"initial": verifC25T0[i], "selection": mode, "commands": hist,
					"final_tags": [][]string{pre[selTimes[0]][0].Sn.Tags, pre[selTimes[1]][0].Sn.Tags}})
			}
		}

		// depth 1
		for i := range verifC25T0 {
			for _, mode := range modes {
				for _, c0 := range cmds {
					for _, split := range []bool{false, true} {
						c := c0
						if split && !c.canSplit() {
							continue
						}
						c.Split = split
						ck := fmt.Sprintf("d1|T0=%d|%s|%s", i, mode, c.key())
						if !r.Case(ck) {
							continue
						}
						if r.Expired() {
							return nil
						}
						runSeq(ck, i, mode, []verifC25Cmd{c})
					}
				}
			}
		}
		// depth 2: one prefix per distinct predicted depth-1 state
		seen := map[string]bool{}
		prefixes := 0
		for i := range verifC25T0 {
			for _, c1 := range cmds {
				p0, ch0 := c1.predict(verifC25T0[i])
				sk := fmt.Sprintf("%s|%v", verifC25Join(p0), ch0)
				if seen[sk] {
					continue
				}
				seen[sk] = true
				prefixes++
				for mi, mode := range modes {
					if !r.Thorough() && (prefixes+mi)%2 == 1 {
						// quick tier: alternate the selection mode between prefixes
						continue
					}
					for _, c2 := range cmds {
						if !r.Thorough() && !c2.quickSecond() {
							continue
						}
						c2.Split = c2.canSplit() // second command: one option occurrence per tag
						ck := fmt.Sprintf("d2|T0=%d|%s|%s|%s", i, mode, c1.key(), c2.key())
						if !r.Case(ck) {
							continue
						}
						if r.Expired() {
							return nil
						}
						runSeq(ck, i, mode, []verifC25Cmd{c1, c2})
					}
				}
			}
		}
		r.Extra("depth2_prefixes", fmt.Sprint(prefixes))
		return nil
	})
	if err != nil {
		t.Fatalf("C25 harness: %v", err)
	}
}

package main

// C49: user-supplied durations, sizes, counts, extended options and check
// subsets parse totally and exactly.
//
// Space (complete enumeration, no sampling):
//   - every string of length 0..4 (quick) / 0..5 (thorough) over the 21 symbol
//     alphabet  0 1 9 - + y m d h k K M G T b % / . space = u
//   - plus, for every parser, templates with a numeric slot in every numeric
//     position, the slot filled with every element of a list of digit runs:
//     19, 20, 21 and 40 digits (9..9, 10..0, 0..01), and the decimal
//     neighbourhoods of 2^31, 2^32, 2^63, 2^64 and of the largest value that
//     fits for each size unit.
//   every string is passed to: data.ParseDuration (+ String() round trip),
//   ui.ParseBytes, ForgetPolicyCount.Set, options.Parse + Apply on a struct
//   with int / uint / bool / time.Duration / string fields, checkFlags,
//   stringToIntSlice, parsePercentage, backend.SplitShellStrings
//   (SplitShellStrings additionally over all strings of length <= 6 over
//   {a, b, space, ', ", \}).
//
// Oracle (reference readers written here with math/big; they share no code
// with restic or strconv): two-sided.
//   no panic, ever;
//   accepted  => the reference reads the same grammar and yields exactly the
//                returned value (strings the grammar leaves ambiguous - a
//                duration unit given twice - are "open": only no-panic and the
//                print/re-parse round trip are checked);
//   canonical => must be accepted (canonical = the plainly documented form:
//                unsigned decimal numbers without sign, documented units,
//                value in range), so that "reject everything" does not pass.
//   Rejection of any non-canonical string is always allowed.
//
// Deviations from DESIGN: length <= 4 / <= 5 instead of <= 6 / <= 7 (90 M
// strings x 12 parsers does not fit the budget; the long digit runs carry the
// beyond-64-bit part of the quantifier).  The options.Parse / Apply entry
// points are enumerated up to length 4 in both tiers (length 5 only for the
// parsers restic implements itself); templates always run every parser.  Percentages are compared in the
// float64 domain (nearest float64 of the decimal), time.Duration option values
// with fractions may differ from the exact rational by < 1 ns per component
// (documented float arithmetic of time.ParseDuration).

import (
	"fmt"
	"math"
	"math/big"
	"runtime/debug"
	"strings"
	"testing"
	"time"

	"github.com/restic/restic/internal/backend"
	"github.com/restic/restic/internal/data"
	"github.com/restic/restic/internal/options"
	"github.com/restic/restic/internal/ui"
	"github.com/restic/restic/internal/verifshim/vh"
)

const verifC49Alphabet = "019-+ymdhkKMGTb%/. =u"

// ---------- reference readers ----------

type verifC49Ref struct {
	valid     bool // the string denotes a value in range
	open      bool // grammar leaves the meaning open: no value check
	canonical bool // plainly documented form: must be accepted
}

func verifC49IsDigit(c byte) bool { return c >= '0' && c <= '9' }

// verifC49Dec reads a non-empty run of decimal digits as a big.Int.
func verifC49Dec(s string) (*big.Int, bool) {
	if s == "" {
		return nil, false
	}
	v := new(big.Int)
	ten := big.NewInt(10)
	for i := 0; i < len(s); i++ {
		if !verifC49IsDigit(s[i]) {
			return nil, false
		}
		v.Mul(v, ten)
		v.Add(v, big.NewInt(int64(s[i]-'0')))
	}
	return v, true
}

// verifC49SignedDec reads [+-]?digits+.
func verifC49SignedDec(s string) (v *big.Int, signed bool, ok bool) {
	if s != "" && (s[0] == '+' || s[0] == '-') {
		neg := s[0] == '-'
		v, ok = verifC49Dec(s[1:])
		if ok && neg {
			v.Neg(v)
		}
		return v, true, ok
	}
	v, ok = verifC49Dec(s)
	return v, false, ok
}

func verifC49Plain(s string) bool { // unsigned decimal without superfluous leading zeros
	if s == "" {
		return false
	}
	for i := 0; i < len(s); i++ {
		if !verifC49IsDigit(s[i]) {
			return false
		}
	}
	return s == "0" || s[0] != '0'
}

var (
	verifC49MaxI64 = new(big.Int).SetUint64(math.MaxInt64)
	verifC49MinI64 = new(big.Int).Neg(new(big.Int).Lsh(big.NewInt(1), 63))
	verifC49MaxU64 = new(big.Int).SetUint64(math.MaxUint64)
	verifC49MaxI32 = big.NewInt(math.MaxInt32)
	verifC49MinI32 = big.NewInt(math.MinInt32)
	verifC49MaxU32 = big.NewInt(math.MaxUint32)
)

func verifC49In(v, lo, hi *big.Int) bool { return v.Cmp(lo) >= 0 && v.Cmp(hi) <= 0 }

func verifC49TrimSpace(s string) string { return strings.Trim(s, " \t\n\v\f\r") }

// restic duration: TrimSpace, then ( '-'? digits+ [ymdh] )*
func verifC49RefDuration(s string) (ref verifC49Ref, val [4]*big.Int) {
	t := verifC49TrimSpace(s)
	units := "ymdh"
	seen := [4]bool{}
	ref.canonical = true
	last := -1
	i := 0
	for i < len(t) {
		neg := false
		if t[i] == '-' {
			neg = true
			ref.canonical = false
			i++
		}
		j := i
		for j < len(t) && verifC49IsDigit(t[j]) {
			j++
		}
		if j == i || j >= len(t) {
			return verifC49Ref{}, val
		}
		n, _ := verifC49Dec(t[i:j])
		if !verifC49Plain(t[i:j]) {
			ref.canonical = false
		}
		if neg {
			n.Neg(n)
		}
		u := strings.IndexByte(units, t[j])
		if u < 0 {
			return verifC49Ref{}, val
		}
		if seen[u] {
			ref.open = true
		}
		if u <= last {
			ref.canonical = false
		}
		last = u
		seen[u] = true
		val[u] = n
		i = j + 1
	}
	for u := range val {
		if val[u] == nil {
			val[u] = new(big.Int)
		}
		if !verifC49In(val[u], verifC49MinI64, verifC49MaxI64) {
			return verifC49Ref{}, val // does not fit an int: must be rejected
		}
	}
	ref.valid = true
	if ref.open || t == "" || t != s {
		ref.canonical = false
	}
	return ref, val
}

// sizes: [+-]?digits+ [bBkKmMgGtT]?   (powers of 1024)
func verifC49RefBytes(s string) (ref verifC49Ref, val *big.Int) {
	if s == "" {
		return
	}
	num := s
	shift := uint(0)
	hasUnit := true
	switch s[len(s)-1] {
	case 'b', 'B':
	case 'k', 'K':
		shift = 10
	case 'm', 'M':
		shift = 20
	case 'g', 'G':
		shift = 30
	case 't', 'T':
		shift = 40
	default:
		hasUnit = false
	}
	if hasUnit {
		num = s[:len(s)-1]
	}
	v, signed, ok := verifC49SignedDec(num)
	if !ok {
		return
	}
	v.Lsh(v, shift)
	if !verifC49In(v, verifC49MinI64, verifC49MaxI64) {
		return
	}
	ref.valid = true
	ref.canonical = !signed && verifC49Plain(num) && v.Sign() >= 0
	return ref, v
}

// policy counts: "unlimited" (= -1) or [+-]?digits+ denoting a value >= 0
func verifC49RefCount(s string) (ref verifC49Ref, val *big.Int) {
	if s == "unlimited" {
		return verifC49Ref{valid: true, canonical: true}, big.NewInt(-1)
	}
	v, signed, ok := verifC49SignedDec(s)
	if !ok || v.Sign() < 0 || v.Cmp(verifC49MaxI64) > 0 {
		return
	}
	return verifC49Ref{valid: true, canonical: !signed && verifC49Plain(s)}, v
}

// Go integer literal syntax (strconv base 0) without '_': [+-]? ( 0[bB][01]+ |
// 0[oO][0-7]+ | 0[xX]hex+ | 0[0-7]* | [1-9][0-9]* )
func verifC49RefGoInt(s string, lo, hi *big.Int) (ref verifC49Ref, val *big.Int) {
	body := s
	signed := false
	neg := false
	if body != "" && (body[0] == '+' || body[0] == '-') {
		signed = true
		neg = body[0] == '-'
		body = body[1:]
	}
	if body == "" {
		return
	}
	base := 10
	digits := body
	if len(body) >= 2 && body[0] == '0' {
		switch body[1] {
		case 'b', 'B':
			base, digits = 2, body[2:]
		case 'o', 'O':
			base, digits = 8, body[2:]
		case 'x', 'X':
			base, digits = 16, body[2:]
		default:
			base, digits = 8, body[1:]
		}
	}
	if digits == "" {
		return
	}
	v := new(big.Int)
	for i := 0; i < len(digits); i++ {
		c := digits[i]
		d := -1
		switch {
		case c >= '0' && c <= '9':
			d = int(c - '0')
		case c >= 'a' && c <= 'f':
			d = int(c-'a') + 10
		case c >= 'A' && c <= 'F':
			d = int(c-'A') + 10
		}
		if d < 0 || d >= base {
			return verifC49Ref{}, nil
		}
		v.Mul(v, big.NewInt(int64(base)))
		v.Add(v, big.NewInt(int64(d)))
	}
	if neg {
		v.Neg(v)
	}
	if !verifC49In(v, lo, hi) {
		return verifC49Ref{}, nil
	}
	return verifC49Ref{valid: true, canonical: !signed && verifC49Plain(s)}, v
}

var verifC49GoUnits = map[string]int64{"ns": 1, "us": 1e3, "µs": 1e3, "μs": 1e3, "ms": 1e6, "s": 1e9, "m": 60e9, "h": 3600e9}

// time.ParseDuration grammar: [+-]? ( "0" | ( (digits+ ('.' digits*)? | '.' digits+) unit )+ )
// returns the exact value in ns as a rational and the number of components with a fraction.
func verifC49RefGoDuration(s string) (ref verifC49Ref, val *big.Rat, fracs int) {
	body := s
	neg := false
	signed := false
	if body != "" && (body[0] == '+' || body[0] == '-') {
		signed = true
		neg = body[0] == '-'
		body = body[1:]
	}
	if body == "0" {
		return verifC49Ref{valid: true, canonical: !signed}, new(big.Rat), 0
	}
	if body == "" {
		return
	}
	sum := new(big.Rat)
	comps := 0
	i := 0
	for i < len(body) {
		j := i
		for j < len(body) && verifC49IsDigit(body[j]) {
			j++
		}
		pre := body[i:j]
		post := ""
		hasDot := false
		if j < len(body) && body[j] == '.' {
			hasDot = true
			k := j + 1
			for k < len(body) && verifC49IsDigit(body[k]) {
				k++
			}
			post = body[j+1 : k]
			j = k
		}
		if pre == "" && post == "" {
			return verifC49Ref{}, nil, 0
		}
		k := j
		for k < len(body) && body[k] != '.' && !verifC49IsDigit(body[k]) {
			k++
		}
		unit, ok := verifC49GoUnits[body[j:k]]
		if !ok {
			return verifC49Ref{}, nil, 0
		}
		mant, _ := verifC49Dec("0" + pre + post)
		scale := new(big.Int).Exp(big.NewInt(10), big.NewInt(int64(len(post))), nil)
		c := new(big.Rat).SetFrac(mant, scale)
		c.Mul(c, new(big.Rat).SetInt64(unit))
		sum.Add(sum, c)
		if hasDot {
			fracs++
		}
		comps++
		i = k
	}
	if neg {
		sum.Neg(sum)
	}
	// must fit an int64 number of nanoseconds
	lo := new(big.Rat).SetInt(verifC49MinI64)
	hi := new(big.Rat).SetInt(verifC49MaxI64)
	if sum.Cmp(lo) < 0 || sum.Cmp(hi) > 0 {
		return verifC49Ref{}, nil, 0
	}
	return verifC49Ref{valid: true, canonical: !signed && comps == 1 && fracs == 0 && verifC49Plain(body[:len(body)-1]) && len(body) <= 7}, sum, fracs
}

// decimal float: [+-]? ( digits+ ('.' digits*)? | '.' digits+ )  -> nearest float64
func verifC49RefFloat(s string) (ok bool, val float64, plain bool) {
	body := s
	neg := false
	signed := false
	if body != "" && (body[0] == '+' || body[0] == '-') {
		signed = true
		neg = body[0] == '-'
		body = body[1:]
	}
	pre, post, hasDot := strings.Cut(body, ".")
	if pre == "" && post == "" {
		return false, 0, false
	}
	for _, part := range []string{pre, post} {
		for i := 0; i < len(part); i++ {
			if !verifC49IsDigit(part[i]) {
				return false, 0, false
			}
		}
	}
	mant, _ := verifC49Dec("0" + pre + post)
	scale := new(big.Int).Exp(big.NewInt(10), big.NewInt(int64(len(post))), nil)
	f, _ := new(big.Rat).SetFrac(mant, scale).Float64()
	if neg {
		f = -f
	}
	return true, f, !signed && verifC49Plain(pre) && (!hasDot || post != "")
}

func verifC49RefBool(s string) (bool, bool) {
	switch s {
	case "1", "t", "T", "TRUE", "true", "True":
		return true, true
	case "0", "f", "F", "FALSE", "false", "False":
		return true, false
	}
	return false, false
}

// uint list: digits+ ( '/' digits+ )*   ('+' sign tolerated by the reference as it denotes the same number)
func verifC49RefUintList(s string) (ref verifC49Ref, vals []*big.Int) {
	if s == "" {
		return verifC49Ref{valid: true, canonical: false}, nil
	}
	ref.canonical = true
	for _, p := range strings.Split(s, "/") {
		v, signed, ok := verifC49SignedDec(p)
		if !ok || v.Sign() < 0 || v.Cmp(verifC49MaxU64) > 0 {
			return verifC49Ref{}, nil
		}
		if signed || !verifC49Plain(p) {
			ref.canonical = false
		}
		vals = append(vals, v)
	}
	ref.valid = true
	return ref, vals
}

// --read-data-subset: n/t (1 <= n <= t <= 256) | x% (0 < x <= 100) | size > 0
func verifC49RefSubset(s string) verifC49Ref {
	if s == "" {
		return verifC49Ref{valid: true}
	}
	if lref, vals := verifC49RefUintList(s); lref.valid {
		if len(vals) == 2 && vals[0].Sign() > 0 && vals[0].Cmp(vals[1]) <= 0 && vals[1].Cmp(big.NewInt(256)) <= 0 {
			return verifC49Ref{valid: true, canonical: lref.canonical}
		}
		if len(vals) == 1 && vals[0].Sign() > 0 && vals[0].Cmp(verifC49MaxI64) <= 0 {
			// a bare number could be read as a size in bytes; restic rejects it, both are fine
			return verifC49Ref{valid: true}
		}
		return verifC49Ref{}
	}
	if strings.HasSuffix(s, "%") {
		ok, f, plain := verifC49RefFloat(s[:len(s)-1])
		if ok && f > 0 && f <= 100 {
			return verifC49Ref{valid: true, canonical: plain}
		}
		return verifC49Ref{}
	}
	bref, v := verifC49RefBytes(s)
	if bref.valid && v.Sign() > 0 {
		last := s[len(s)-1]
		return verifC49Ref{valid: true, canonical: bref.canonical && strings.IndexByte("KMGT", last) >= 0}
	}
	return verifC49Ref{}
}

// ---------- reporting ----------

// verifC49Shape abstracts an input for violation keys: digit runs become N
// (N{19+} when 19 or more digits), everything else stays.
func verifC49Shape(s string) string {
	var b strings.Builder
	for i := 0; i < len(s); {
		if verifC49IsDigit(s[i]) {
			j := i
			for j < len(s) && verifC49IsDigit(s[j]) {
				j++
			}
			if j-i >= 19 {
				b.WriteString("N{19+}")
			} else {
				b.WriteString("N")
			}
			i = j
			continue
		}
		b.WriteByte(s[i])
		i++
	}
	return b.String()
}

type verifC49Ctx struct {
	r  *vh.Run
	ck string
}

var verifC49Outcomes = map[string]bool{}

func (c *verifC49Ctx) outcome(o string) {
	if !verifC49Outcomes[o] {
		verifC49Outcomes[o] = true
		c.r.Outcome(o)
	}
}

func (c *verifC49Ctx) report(kind, fn, in string, format string, a ...any) {
	shape := "shape=" + verifC49Shape(in)
	if kind == "panic" && strings.Contains(shape, "N{19+}") {
		// one key per parser for "a number of 19 or more digits makes it panic"; the exact input is in the detail
		shape = "number-of-19-or-more-digits"
	}
	c.r.Violationf(c.ck, fmt.Sprintf("C49|%s|%s|%s", kind, fn, shape), map[string]any{"function": fn, "input": in}, "%s(%q): %s", fn, in, fmt.Sprintf(format, a...))
}

// judge applies the two-sided oracle. gotEq reports whether the accepted value equals the reference value.
func (c *verifC49Ctx) judge(fn, in string, panicked bool, pmsg string, accepted bool, ref verifC49Ref, gotEq func() (bool, string)) {
	c.r.Eval(1)
	if len(in) == 3 && accepted {
		c.r.Sample(map[string]any{"function": fn, "input": in, "accepted": accepted})
	}
	if panicked {
		c.report("panic", fn, in, "panicked: %s", pmsg)
		c.outcome(fn + "/panic")
		return
	}
	switch {
	case accepted && !ref.valid:
		c.report("accepted-invalid", fn, in, "accepted although the input denotes no value in range")
	case accepted && ref.open:
		c.outcome(fn + "/accepted-open")
	case accepted:
		if eq, desc := gotEq(); !eq {
			c.report("wrong-value", fn, in, "%s", desc)
		}
		c.outcome(fn + "/accepted")
	case ref.canonical:
		c.report("rejected-canonical", fn, in, "rejected although the input is a plainly documented form")
	default:
		if ref.valid {
			c.outcome(fn + "/rejected-noncanonical")
		} else {
			c.outcome(fn + "/rejected")
		}
	}
	if ref.valid || accepted {
		c.r.NontrivialByConstruction(1)
	}
}

type verifC49Opts struct {
	I int           `option:"i"`
	U uint          `option:"u"`
	B bool          `option:"b"`
	D time.Duration `option:"d"`
	S string        `option:"s"`
}

// ---------- the per-string checks ----------

// verifC49OptsMaxLen: enumerated strings longer than this skip the options.Parse/Apply entry points
// (they mostly exercise strconv / time.ParseDuration); templates always run everything.
const verifC49OptsMaxLen = 4

func verifC49All(c *verifC49Ctx, s string) { verifC49Run(c, s, true) }

func verifC49Run(c *verifC49Ctx, s string, withOptions bool) {
	// data.ParseDuration + String round trip
	{
		var d data.Duration
		var err error
		pn, msg := vh.NoPanic(func() { d, err = data.ParseDuration(s) })
		ref, val := verifC49RefDuration(s)
		c.judge("ParseDuration", s, pn, msg, err == nil, ref, func() (bool, string) {
			got := [4]int{d.Years, d.Months, d.Days, d.Hours}
			for u := range got {
				if big.NewInt(int64(got[u])).Cmp(val[u]) != 0 {
					return false, fmt.Sprintf("returned %+v, the input denotes y=%v m=%v d=%v h=%v", d, val[0], val[1], val[2], val[3])
				}
			}
			return true, ""
		})
		if !pn && err == nil {
			var d2 data.Duration
			var err2 error
			printed := d.String()
			pn2, msg2 := vh.NoPanic(func() { d2, err2 = data.ParseDuration(printed) })
			c.r.Eval(1)
			if pn2 || err2 != nil || d2 != d {
				c.report("roundtrip", "Duration.String", s, "parsed to %+v which prints as %q which re-parses to %+v (err=%v panic=%v %s)", d, printed, d2, err2, pn2, msg2)
			}
		}
	}
	// ui.ParseBytes
	{
		var v int64
		var err error
		pn, msg := vh.NoPanic(func() { v, err = ui.ParseBytes(s) })
		ref, val := verifC49RefBytes(s)
		c.judge("ParseBytes", s, pn, msg, err == nil, ref, func() (bool, string) {
			return big.NewInt(v).Cmp(val) == 0, fmt.Sprintf("returned %d, the input denotes %v", v, val)
		})
	}
	// ForgetPolicyCount.Set
	{
		var pc ForgetPolicyCount = 12345
		var err error
		pn, msg := vh.NoPanic(func() { err = pc.Set(s) })
		ref, val := verifC49RefCount(s)
		c.judge("ForgetPolicyCount.Set", s, pn, msg, err == nil, ref, func() (bool, string) {
			return big.NewInt(int64(pc)).Cmp(val) == 0, fmt.Sprintf("set %d, the input denotes %v", int64(pc), val)
		})
	}
	// options.Parse on the raw string
	if withOptions {
		var o options.Options
		var err error
		pn, msg := vh.NoPanic(func() { o, err = options.Parse([]string{s}) })
		k, v, _ := strings.Cut(s, "=")
		k = strings.ToLower(verifC49TrimSpace(k))
		v = verifC49TrimSpace(v)
		ref := verifC49Ref{valid: k != "", canonical: k != "" && !strings.ContainsAny(k, " ")}
		c.judge("options.Parse", s, pn, msg, err == nil, ref, func() (bool, string) {
			got, ok := o[k]
			return ok && got == v && len(o) == 1, fmt.Sprintf("returned %v, expected {%q: %q}", o, k, v)
		})
	}
	// options.Parse + Apply per field type (value = s)
	if withOptions {
		verifC49Apply(c, "i", s)
		verifC49Apply(c, "u", s)
		verifC49Apply(c, "b", s)
		verifC49Apply(c, "d", s)
		verifC49Apply(c, "s", s)
	}
	// checkFlags
	{
		var err error
		pn, msg := vh.NoPanic(func() { err = checkFlags(CheckOptions{ReadDataSubset: s}) })
		ref := verifC49RefSubset(s)
		c.judge("checkFlags", s, pn, msg, err == nil, ref, func() (bool, string) { return true, "" })
	}
	// stringToIntSlice
	{
		var got []uint
		var err error
		pn, msg := vh.NoPanic(func() { got, err = stringToIntSlice(s) })
		ref, vals := verifC49RefUintList(s)
		c.judge("stringToIntSlice", s, pn, msg, err == nil, ref, func() (bool, string) {
			if len(got) != len(vals) {
				return false, fmt.Sprintf("returned %v, the input denotes %v", got, vals)
			}
			for i := range got {
				if new(big.Int).SetUint64(uint64(got[i])).Cmp(vals[i]) != 0 {
					return false, fmt.Sprintf("returned %v, the input denotes %v", got, vals)
				}
			}
			return true, ""
		})
	}
	// parsePercentage
	{
		var p float64
		var err error
		pn, msg := vh.NoPanic(func() { p, err = parsePercentage(s) })
		var ref verifC49Ref
		var want float64
		if strings.HasSuffix(s, "%") {
			ok, f, plain := verifC49RefFloat(s[:len(s)-1])
			ref = verifC49Ref{valid: ok && !math.IsInf(f, 0), canonical: ok && plain && !math.IsInf(f, 0)}
			want = f
		}
		c.judge("parsePercentage", s, pn, msg, err == nil, ref, func() (bool, string) {
			return p == want, fmt.Sprintf("returned %v, the nearest float64 of the input is %v", p, want)
		})
	}
	// backend.SplitShellStrings (no quotes in this alphabet: whitespace separated fields)
	verifC49Shell(c, s)
}

var verifC49ApplyNames = map[string]string{"i": "options.Apply[int]", "u": "options.Apply[uint]", "b": "options.Apply[bool]", "d": "options.Apply[time.Duration]", "s": "options.Apply[string]"}

func verifC49Apply(c *verifC49Ctx, field, s string) {
	fn := verifC49ApplyNames[field]
	var dst verifC49Opts
	var err error
	pn, msg := vh.NoPanic(func() {
		var o options.Options
		o, err = options.Parse([]string{field + "=" + s})
		if err == nil {
			err = o.Apply("verif", &dst)
		}
	})
	v := verifC49TrimSpace(s) // Parse trims the value
	var ref verifC49Ref
	var eq func() (bool, string)
	switch field {
	case "i":
		r, val := verifC49RefGoInt(v, verifC49MinI32, verifC49MaxI32)
		ref = r
		eq = func() (bool, string) {
			return big.NewInt(int64(dst.I)).Cmp(val) == 0, fmt.Sprintf("set %d, the input denotes %v", dst.I, val)
		}
	case "u":
		r, val := verifC49RefGoInt(v, new(big.Int), verifC49MaxU32)
		ref = r
		eq = func() (bool, string) {
			return new(big.Int).SetUint64(uint64(dst.U)).Cmp(val) == 0, fmt.Sprintf("set %d, the input denotes %v", dst.U, val)
		}
	case "b":
		ok, val := verifC49RefBool(v)
		ref = verifC49Ref{valid: ok, canonical: v == "true" || v == "false" || v == "1" || v == "0"}
		eq = func() (bool, string) { return dst.B == val, fmt.Sprintf("set %v, the input denotes %v", dst.B, val) }
	case "d":
		r, val, fracs := verifC49RefGoDuration(v)
		ref = r
		eq = func() (bool, string) {
			diff := new(big.Rat).Sub(new(big.Rat).SetInt64(int64(dst.D)), val)
			diff.Abs(diff)
			tol := new(big.Rat).SetInt64(int64(fracs))
			if fracs == 0 {
				return diff.Sign() == 0, fmt.Sprintf("set %d ns, the input denotes %s ns", int64(dst.D), val.RatString())
			}
			return diff.Cmp(tol) <= 0, fmt.Sprintf("set %d ns, the input denotes %s ns (tolerance %d ns)", int64(dst.D), val.RatString(), fracs)
		}
	case "s":
		ref = verifC49Ref{valid: true, canonical: true}
		eq = func() (bool, string) { return dst.S == v, fmt.Sprintf("set %q, expected %q", dst.S, v) }
	}
	// a value containing '=' etc. is still the value (Parse cuts at the first '=')
	c.judge(fn, s, pn, msg, err == nil, ref, eq)
}

// SplitShellStrings oracle:
//
//	no quote / backslash in the input  => exactly the whitespace separated fields, error iff there is none;
//	otherwise (quirky, undocumented)   => no panic; every returned field is a non-empty substring of the
//	input, in order; and when every quoted section is a whole argument (delimited by whitespace or the
//	ends, non-empty, no backslashes) the result is the shell reading.
func verifC49Shell(c *verifC49Ctx, s string) {
	fn := "SplitShellStrings"
	var got []string
	var err error
	pn, msg := vh.NoPanic(func() { got, err = backend.SplitShellStrings(s) })
	c.r.Eval(1)
	if pn {
		c.report("panic", fn, s, "panicked: %s", msg)
		return
	}
	if !strings.ContainsAny(s, `'"\`) {
		want := strings.Fields(s)
		if len(want) == 0 {
			if err == nil {
				c.report("accepted-invalid", fn, s, "accepted an empty command: %q", got)
			}
			return
		}
		c.r.NontrivialByConstruction(1)
		if err != nil || strings.Join(got, "\x00") != strings.Join(want, "\x00") {
			c.report("wrong-value", fn, s, "returned %q (err=%v), expected %q", got, err, want)
		}
		return
	}
	if err != nil {
		c.outcome(fn + "/quoted-rejected")
	} else {
		pos := 0
		for _, f := range got {
			idx := strings.Index(s[pos:], f)
			if f == "" || idx < 0 {
				c.report("wrong-value", fn, s, "returned %q: fields are not non-empty substrings of the input in order", got)
				return
			}
			pos += idx + len(f)
		}
		c.outcome(fn + "/quoted-accepted")
	}
	if want, ok := verifC49SimpleQuoted(s); ok {
		c.r.NontrivialByConstruction(1)
		if err != nil || strings.Join(got, "\x00") != strings.Join(want, "\x00") {
			c.report("wrong-value", fn, s, "returned %q (err=%v), expected %q", got, err, want)
		}
	}
}

// verifC49SimpleQuoted: inputs of the form  ws* ( word | 'text' | "text" ) ( ws+ ( ... ) )* ws*  with
// non-empty text not containing its quote, no backslash anywhere, words without quotes.
func verifC49SimpleQuoted(s string) ([]string, bool) {
	if strings.Contains(s, `\`) {
		return nil, false
	}
	var out []string
	i := 0
	for {
		for i < len(s) && s[i] == ' ' {
			i++
		}
		if i >= len(s) {
			break
		}
		if s[i] == '\'' || s[i] == '"' {
			q := s[i]
			j := strings.IndexByte(s[i+1:], q)
			if j <= 0 { // unterminated or empty
				return nil, false
			}
			text := s[i+1 : i+1+j]
			if strings.ContainsAny(text, `'"`) && strings.IndexByte(text, q) >= 0 {
				return nil, false
			}
			out = append(out, text)
			i = i + 1 + j + 1
		} else {
			j := i
			for j < len(s) && s[j] != ' ' {
				if s[j] == '\'' || s[j] == '"' {
					return nil, false
				}
				j++
			}
			out = append(out, s[i:j])
			i = j
		}
		if i < len(s) && s[i] != ' ' {
			return nil, false
		}
	}
	return out, len(out) > 0
}

// ---------- long digit runs ----------

func verifC49Runs() []string {
	seen := map[string]bool{}
	var out []string
	add := func(s string) {
		if !seen[s] {
			seen[s] = true
			out = append(out, s)
		}
	}
	for _, n := range []int{19, 20, 21, 40} {
		add(strings.Repeat("9", n))
		add("1" + strings.Repeat("0", n-1))
		add(strings.Repeat("0", n-1) + "1")
		add(strings.Repeat("0", n))
	}
	around := func(v *big.Int) {
		for d := int64(-1); d <= 1; d++ {
			add(new(big.Int).Add(v, big.NewInt(d)).String())
		}
	}
	for _, sh := range []uint{31, 32, 63, 64} {
		around(new(big.Int).Lsh(big.NewInt(1), sh))
	}
	// largest numbers that still fit with a size unit: 2^63 / 2^10, 2^20, 2^30, 2^40, and 2^64 / unit
	for _, sh := range []uint{10, 20, 30, 40} {
		around(new(big.Int).Lsh(big.NewInt(1), 63-sh))
		around(new(big.Int).Lsh(big.NewInt(1), 64-sh))
	}
	// time.Duration limits in hours / minutes
	around(big.NewInt(2562047))
	around(big.NewInt(153722867))
	add("256")
	add("257")
	add("100")
	add("101")
	return out
}

var verifC49Templates = []string{
	// durations
	"{N}h", "{N}d", "{N}m", "{N}y", "-{N}h", "-{N}y", "1y{N}m", "{N}y1m", "1y2m3d{N}h", "{N}y{N}m{N}d{N}h", " {N}d ", "{N}h{N}h", "1h{N}",
	// sizes
	"{N}", "{N}b", "{N}B", "{N}k", "{N}K", "{N}M", "{N}G", "{N}T", "-{N}", "-{N}K", "+{N}", "+{N}G", "-{N}T",
	// go integer / duration syntax of extended options
	"0{N}", "0b{N}", "-0b{N}", "{N}.5h", "1.{N}h", "0.{N}m", "{N}.{N}h", "1h{N}m", "+{N}m", "{N}m{N}m",
	// check subsets
	"{N}/{N}", "1/{N}", "{N}/5", "{N}/256", "1/2/{N}", "{N}/", "/{N}", "{N}%", "0.{N}%", "{N}.5%", "{N}.{N}%", "-{N}%", "+{N}%", ".{N}%",
	// options
	"k={N}", " {N} ",
}

func TestVerif_C49(t *testing.T) {
	r := vh.Start(t, "C49")
	defer r.Finish()
	defer debug.SetGCPercent(debug.SetGCPercent(400)) // allocation-heavy error paths; harness-only tuning
	maxLen := vh.Pick(r, 4, 5)
	r.Rule(fmt.Sprintf("every string of length 0..%d over the 21-symbol alphabet %q, plus %d templates x digit runs (19/20/21/40 digits and the neighbourhoods of 2^31, 2^32, 2^63, 2^64 and the unit limits) in every numeric position, through 13 parser entry points (options.Parse/Apply on enumerated strings up to length 4); non-trivial = the reference reads a value in range from the string or restic accepts it", maxLen, verifC49Alphabet, len(verifC49Templates)))
	r.Assume("reference readers (math/big) implement: restic duration `6y5m234d37h` with optional '-' per number; sizes digits+[bBkKmMgGtT] powers of 1024; counts digits|unlimited; Go base-0 integer literals and time.ParseDuration syntax for extended options; n/t | x% | size for --read-data-subset")
	A := verifC49Alphabet
	nA := len(A)

	// strings of length < 2 and the templates
	if r.Case("short") {
		c := &verifC49Ctx{r, "short"}
		verifC49All(c, "")
		for i := 0; i < nA; i++ {
			verifC49All(c, A[i:i+1])
		}
		for _, extra := range []string{"unlimited", "Unlimited", "unlimited ", "true", "false", "TRUE", "t", "f", "nan%", "inf%", "NaN%", "+Inf%", "1e3%", "0x10%", "1e400%", "1_0", "0x1f", "0o17", "1_0K", "0x10K", "1e3", "1e3K", "１２", "1 h", "1µs", "1us", "1ns", "1s", "1ms", "1.5s", "1h1m1s"} {
			verifC49Extras(c, extra)
		}
		r.Trace(1)
	}
	runs := verifC49Runs()
	for ti, tpl := range verifC49Templates {
		ck := fmt.Sprintf("template=%d:%s", ti, tpl)
		if !r.Case(ck) {
			continue
		}
		c := &verifC49Ctx{r, ck}
		slots := strings.Count(tpl, "{N}")
		if slots == 1 {
			for _, run := range runs {
				verifC49All(c, strings.Replace(tpl, "{N}", run, 1))
			}
		} else {
			// every slot gets every run while the other slots hold "1"; plus all slots equal
			for k := 0; k < slots; k++ {
				for _, run := range runs {
					s := tpl
					for j := 0; j < slots; j++ {
						fill := "1"
						if j == k {
							fill = run
						}
						s = strings.Replace(s, "{N}", fill, 1)
					}
					verifC49All(c, s)
				}
			}
			for _, run := range runs {
				verifC49All(c, strings.ReplaceAll(tpl, "{N}", run))
			}
		}
		r.Trace(1)
	}

	// all strings of length 2..maxLen, sharded by (length, first two symbols)
	buf := make([]byte, maxLen)
	for l := 2; l <= maxLen; l++ {
		for a := 0; a < nA; a++ {
			for b := 0; b < nA; b++ {
				ck := fmt.Sprintf("len=%d|prefix=%q", l, string([]byte{A[a], A[b]}))
				if !r.Case(ck) {
					continue
				}
				if r.Expired() {
					return
				}
				c := &verifC49Ctx{r, ck}
				buf[0], buf[1] = A[a], A[b]
				rest := l - 2
				total := 1
				for i := 0; i < rest; i++ {
					total *= nA
				}
				for idx := 0; idx < total; idx++ {
					x := idx
					for p := l - 1; p >= 2; p-- {
						buf[p] = A[x%nA]
						x /= nA
					}
					verifC49Run(c, string(buf[:l]), l <= verifC49OptsMaxLen)
				}
				r.Trace(1)
			}
		}
	}

	// SplitShellStrings over a quoting alphabet
	const Q = "ab '\"\\"
	for a := 0; a < len(Q); a++ {
		ck := fmt.Sprintf("shell|first=%q", Q[a:a+1])
		if !r.Case(ck) {
			continue
		}
		c := &verifC49Ctx{r, ck}
		for l := 1; l <= 6; l++ {
			total := 1
			for i := 1; i < l; i++ {
				total *= len(Q)
			}
			b := make([]byte, l)
			b[0] = Q[a]
			for idx := 0; idx < total; idx++ {
				x := idx
				for p := l - 1; p >= 1; p-- {
					b[p] = Q[x%len(Q)]
					x /= len(Q)
				}
				verifC49Shell(c, string(b))
			}
		}
		r.Trace(1)
	}
}

// verifC49Extras: strings outside the alphabet (other number syntaxes, non-ASCII): no panic, and the
// parsers with a decimal-only grammar must not accept them with a wrong value.
func verifC49Extras(c *verifC49Ctx, s string) {
	type call struct {
		fn string
		f  func()
	}
	calls := []call{
		{"ParseDuration", func() { _, _ = data.ParseDuration(s) }},
		{"ParseBytes", func() { _, _ = ui.ParseBytes(s) }},
		{"ForgetPolicyCount.Set", func() { var pc ForgetPolicyCount; _ = pc.Set(s) }},
		{"checkFlags", func() { _ = checkFlags(CheckOptions{ReadDataSubset: s}) }},
		{"stringToIntSlice", func() { _, _ = stringToIntSlice(s) }},
		{"parsePercentage", func() { _, _ = parsePercentage(s) }},
		{"SplitShellStrings", func() { _, _ = backend.SplitShellStrings(s) }},
		{"options.Apply", func() {
			for _, f := range []string{"i", "u", "b", "d", "s"} {
				var dst verifC49Opts
				if o, err := options.Parse([]string{f + "=" + s}); err == nil {
					_ = o.Apply("verif", &dst)
				}
			}
		}},
	}
	for _, cl := range calls {
		c.r.Eval(1)
		if pn, msg := vh.NoPanic(cl.f); pn {
			c.report("panic", cl.fn, s, "panicked: %s", msg)
		}
	}
	// exactness where the reference grammar applies unchanged
	if v, err := ui.ParseBytes(s); err == nil {
		if ref, val := verifC49RefBytes(s); !ref.valid || big.NewInt(v).Cmp(val) != 0 {
			c.report("accepted-invalid", "ParseBytes", s, "accepted as %d", v)
		}
	}
	var pc ForgetPolicyCount
	if err := pc.Set(s); err == nil {
		if ref, val := verifC49RefCount(s); !ref.valid || big.NewInt(int64(pc)).Cmp(val) != 0 {
			c.report("accepted-invalid", "ForgetPolicyCount.Set", s, "accepted as %d", int64(pc))
		}
	}
	if s == "unlimited" && pc != -1 {
		c.report("wrong-value", "ForgetPolicyCount.Set", s, "unlimited must be -1, got %d", int64(pc))
	}
}

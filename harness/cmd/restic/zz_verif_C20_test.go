package main

// C20: restore --include/--exclude/--iinclude/--iexclude and --delete select
// exactly the matching paths.
//
// Driven at command level: real `backup` of a generated source tree into a
// local repository, real runRestore (snapshot:subfolder syntax, so snapshot
// locations are /a/b ...) with RestoreOptions carrying the pattern lists and
// Delete, into a prepared target directory; the resulting target tree is
// listed and compared with an independently computed expectation.
//
// Space (explicit, enumerated completely):
//   snapshot trees: a fixed list of trees over the names {a, b, ab, A}, depth
//     <= 3, <= 9 entries (files, directories, empty directories); quick 3, thorough 8
//   pattern sets: every single pattern of P = {a, /a, a/b, /a/b, *, a*, **/b,
//     /a/**, /*/b, b, A, ab, /b/a, ?b, a/**/b, /a/b/**, /a/a/**/b, /b/b/**,
//     /a/*/**/b}, and pairs (p, q): quick q in the
//     negated patterns {!a/b, !/a/a, !b, !**/b, !A} (+ a fixed list of positive
//     pairs), thorough q in P u negated
//   modes: include, exclude, iinclude, iexclude (thorough also: first pattern
//     as --include, second as --iinclude; same for excludes)
//   target: empty without --delete; with --delete two (quick: one) pre-existing trees derived
//     from the snapshot tree: PRE1 = all snapshot entries (with different
//     content) + extra files/dirs (names ba, B, aB/...) in every snapshot
//     directory, PRE2 = only the extras
//
// Reference model (independent of restic's selection code; only the single
// pattern matcher filter.Match - the subject of C28 - is used as primitive):
//   listMatch(patterns, p): in order, a regular pattern that matches sets
//     matched, a "!" pattern that matches clears it (doc/040_backup.rst)
//   include modes: selected(p) = listMatch(p); a selected file is written, a
//     selected directory is created, plus the directories needed to hold them
//   exclude modes: selected(p) = p and all its ancestors do not listMatch
//     ("once a directory is excluded, it is not possible to include files inside")
//   case-insensitive lists: pattern and path lower-cased
//   files: exactly the selected snapshot files carry snapshot content;
//     unselected pre-existing ones keep their old content
//   --delete: a pre-existing entry that is not in the snapshot is removed iff it
//     or one of its pre-existing, not-in-snapshot ancestors is selected.
//
// Literal deviations of --delete from the statement that are inherent in the
// implementation's design are reported under two fixed keys (see findings/C20.md):
//   C20|delete|selected-entry-in-unrestored-snapshot-dir-kept
//   C20|delete|selected-entry-below-unselected-extra-dir-kept

import (
	"fmt"
	"os"
	"path"
	"path/filepath"
	"sort"
	"strings"
	"testing"

	"github.com/restic/restic/internal/filter"
	"github.com/restic/restic/internal/verifshim/vh"
)

type verifC20Tree struct {
	name    string
	entries map[string]bool // "/a/b" -> isDir
}

func verifC20MkTree(name string, paths ...string) verifC20Tree {
	t := verifC20Tree{name: name, entries: map[string]bool{}}
	for _, p := range paths {
		isDir := strings.HasSuffix(p, "/")
		p = "/" + strings.Trim(p, "/")
		t.entries[p] = isDir
		for d := path.Dir(p); d != "/"; d = path.Dir(d) {
			t.entries[d] = true
		}
	}
	return t
}

func verifC20Trees(thorough bool) []verifC20Tree {
	l := []verifC20Tree{
		verifC20MkTree("T1", "a/b", "a/ab", "a/a/b", "b", "ab/a", "A"),
		verifC20MkTree("T2", "a", "b/a", "b/b/a", "b/b/b", "A/b", "ab/"),
		verifC20MkTree("T3", "a/b/a", "a/b/b", "b/a/b", "ab/", "a/A"),
	}
	if thorough {
		l = append(l,
			verifC20MkTree("T4", "a", "b", "ab", "A"),
			verifC20MkTree("T5", "a/a/a", "a/a/b", "a/b/", "A/a/b", "b"),
			verifC20MkTree("T6", "b/b", "ab/b/a", "A/ab", "a/"),
			verifC20MkTree("T7", "a/b", "A/B/b", "ab/ab/ab"),
			verifC20MkTree("T8", "b"),
		)
	}
	return l
}

func (t verifC20Tree) sorted() []string {
	var l []string
	for p := range t.entries {
		l = append(l, p)
	}
	sort.Strings(l)
	return l
}

// extras returns the pre-existing entries that are not in the snapshot, derived from the tree.
func (t verifC20Tree) extras() map[string]bool {
	ex := map[string]bool{}
	dirs := []string{"/"}
	for p, isDir := range t.entries {
		if isDir {
			dirs = append(dirs, p)
		}
	}
	for _, d := range dirs {
		add := func(rel string, isDir bool) {
			p := path.Join(d, rel)
			if _, ok := t.entries[p]; !ok {
				ex[p] = isDir
			}
		}
		add("ba", false)
		add("B", false)
		if strings.Count(d, "/") <= 1 { // nested extra directories only near the top to bound the size
			add("aB", true)
			add("aB/a", false)
			add("aB/b", false)
			add("aB/ab", true)
			add("aB/ab/b", false)
		}
	}
	return ex
}

type verifC20Mode struct {
	name string
	set  func(o *RestoreOptions, pats []string)
	// lists returns the pattern lists as (patterns, insensitive) in the model
	lists   func(pats []string) []verifC20List
	exclude bool
}

type verifC20List struct {
	pats   []string
	insens bool
}

func verifC20Modes(thorough bool) []verifC20Mode {
	one := func(insens bool) func([]string) []verifC20List {
		return func(p []string) []verifC20List { return []verifC20List{{p, insens}} }
	}
	split := func(p []string) []verifC20List {
		if len(p) < 2 {
			return []verifC20List{{p, false}}
		}
		return []verifC20List{{p[:1], false}, {p[1:], true}}
	}
	l := []verifC20Mode{
		{"include", func(o *RestoreOptions, p []string) { o.Includes = p }, one(false), false},
		{"exclude", func(o *RestoreOptions, p []string) { o.Excludes = p }, one(false), true},
		{"iinclude", func(o *RestoreOptions, p []string) { o.InsensitiveIncludes = p }, one(true), false},
		{"iexclude", func(o *RestoreOptions, p []string) { o.InsensitiveExcludes = p }, one(true), true},
	}
	// (the mixed modes differ from the plain ones only for sets of two patterns; the caller skips them otherwise)
	if true {
		l = append(l,
			verifC20Mode{"include+iinclude", func(o *RestoreOptions, p []string) {
				o.Includes = p[:1]
				if len(p) > 1 {
					o.InsensitiveIncludes = p[1:]
				}
			}, split, false},
			verifC20Mode{"exclude+iexclude", func(o *RestoreOptions, p []string) {
				o.Excludes = p[:1]
				if len(p) > 1 {
					o.InsensitiveExcludes = p[1:]
				}
			}, split, true},
		)
	}
	return l
}

func verifC20PatternSets(thorough bool) [][]string {
	// (the last four: absolute patterns with two and three fixed components before "**" - the directory
	// pruning of a partial restore compares shallower directories with a prefix of such a pattern)
	P := []string{"a", "/a", "a/b", "/a/b", "*", "a*", "**/b", "/a/**", "/*/b", "b", "A", "ab", "/b/a", "?b", "a/**/b", "/a/b/**", "/a/a/**/b", "/b/b/**", "/a/*/**/b"}
	N := []string{"!a/b", "!/a/a", "!b", "!**/b", "!A"}
	var sets [][]string
	for _, p := range P {
		sets = append(sets, []string{p})
	}
	for _, p := range P {
		for _, n := range N {
			sets = append(sets, []string{p, n})
		}
	}
	if thorough {
		for _, p := range P {
			for _, q := range P {
				if p != q {
					sets = append(sets, []string{p, q})
				}
			}
		}
		for _, n := range N {
			for _, p := range P[:6] {
				sets = append(sets, []string{n, p}) // negation first: cancels nothing
			}
		}
	} else {
		for _, pq := range [][2]string{{"/a/b", "b"}, {"a*", "/b/a"}, {"**/b", "A"}, {"/a/**", "ab"}, {"a/b", "/*/b"}, {"?b", "/a"}, {"A", "a"}, {"*", "a"}} {
			sets = append(sets, []string{pq[0], pq[1]})
		}
	}
	return sets
}

// ---- reference model

func verifC20ListMatch(l verifC20List, p string) bool {
	matched := false
	for _, pat := range l.pats {
		neg := strings.HasPrefix(pat, "!")
		if neg {
			pat = pat[1:]
		}
		s := p
		if l.insens {
			pat, s = strings.ToLower(pat), strings.ToLower(s)
		}
		m, err := filter.Match(pat, s)
		if err != nil {
			panic(err)
		}
		if m {
			matched = !neg
		}
	}
	return matched
}

func verifC20AnyMatch(lists []verifC20List, p string) bool {
	for _, l := range lists {
		if verifC20ListMatch(l, p) {
			return true
		}
	}
	return false
}

// selected: the model's decision for one snapshot location / target entry.
func verifC20Selected(lists []verifC20List, exclude bool, p string) bool {
	if !exclude {
		return verifC20AnyMatch(lists, p)
	}
	for q := p; q != "/"; q = path.Dir(q) {
		if verifC20AnyMatch(lists, q) {
			return false
		}
	}
	return true
}

// ---- filesystem helpers

func verifC20Write(t testing.TB, root string, entries map[string]bool, tag string) {
	var l []string
	for p := range entries {
		l = append(l, p)
	}
	sort.Strings(l)
	for _, p := range l {
		fp := filepath.Join(root, filepath.FromSlash(p))
		if entries[p] {
			if err := os.MkdirAll(fp, 0o755); err != nil {
				t.Fatal(err)
			}
			continue
		}
		if err := os.MkdirAll(filepath.Dir(fp), 0o755); err != nil {
			t.Fatal(err)
		}
		if err := os.WriteFile(fp, []byte(tag+p), 0o644); err != nil {
			t.Fatal(err)
		}
	}
}

// verifC20List lists root: path -> "dir" | "file:<content>" | "other".
func verifC20Listing(root string) map[string]string {
	m := map[string]string{}
	_ = filepath.Walk(root, func(p string, fi os.FileInfo, err error) error {
		if err != nil || p == root {
			return nil
		}
		rel, _ := filepath.Rel(root, p)
		rel = "/" + filepath.ToSlash(rel)
		switch {
		case fi.IsDir():
			m[rel] = "dir"
		case fi.Mode().IsRegular():
			b, _ := os.ReadFile(p)
			m[rel] = "file:" + string(b)
		default:
			m[rel] = "other"
		}
		return nil
	})
	return m
}

// verifC20Detail returns a copy of base extended by kv pairs (violations keep a reference to their detail).
func verifC20Detail(base map[string]any, kv ...any) map[string]any {
	m := map[string]any{}
	for k, v := range base {
		m[k] = v
	}
	for i := 0; i+1 < len(kv); i += 2 {
		m[kv[i].(string)] = kv[i+1]
	}
	return m
}

func TestVerif_C20(t *testing.T) {
	r := vh.Start(t, "C20")
	defer r.Finish()
	r.Rule("fixed snapshot trees (quick 3, thorough 8) x pattern sets (all singles of 19 patterns, pairs with negations; thorough all ordered pairs) x modes (include, exclude, iinclude, iexclude; thorough also mixed lists) x {no delete into empty target, --delete into pre-existing trees (quick 1, thorough 2)}; one real backup per shard, one real runRestore per element; non-trivial = the selection is a proper non-empty subset of the snapshot entries or, with --delete, of the pre-existing extra entries")
	r.Assume("filter.Match (single pattern vs path) is the trusted primitive (C28)", "patterns are applied to locations relative to the snapshot:subfolder root", "regular files and directories only")

	verifC20Damaged(t, r)

	trees := verifC20Trees(r.Thorough())
	modes := verifC20Modes(r.Thorough())
	sets := verifC20PatternSets(r.Thorough())

	// one repository and one backup per shard: all trees side by side below src/, restored
	// individually through the snapshot:subfolder syntax
	env, cleanup := withTestEnvironment(t)
	defer cleanup()
	testRunInit(t, env.gopts)
	srcRoot := filepath.Join(env.testdata, "src")
	for _, tree := range trees {
		src := filepath.Join(srcRoot, tree.name)
		if err := os.MkdirAll(src, 0o755); err != nil {
			t.Fatal(err)
		}
		verifC20Write(t, src, tree.entries, "SNAP:")
	}
	testRunBackup(t, "", []string{srcRoot}, BackupOptions{}, env.gopts)
	ids := testListSnapshots(t, env.gopts, 1)
	env.gopts.NoLock = true // restore is read-only; skips writing a lock file per restore

	for _, tree := range trees {
		// which pattern sets of this tree belong to this shard?
		var mine [][]string
		for _, ps := range sets {
			if r.Case(tree.name + "|" + strings.Join(ps, " ")) {
				mine = append(mine, ps)
			}
		}
		if len(mine) == 0 {
			continue
		}
		func() {
			src := filepath.Join(srcRoot, tree.name)
			snap := ids[0].String() + ":" + filepath.ToSlash(src)
			extras := tree.extras()
			pre1 := map[string]bool{}
			pre2 := map[string]bool{}
			for p, d := range tree.entries {
				pre1[p] = d
			}
			for p, d := range extras {
				pre1[p], pre2[p] = d, d
				// the snapshot directories holding extras exist in PRE2 as well
				for q := path.Dir(p); q != "/"; q = path.Dir(q) {
					if _, ok := tree.entries[q]; ok {
						pre2[q] = true
					}
				}
			}
			type preT struct {
				name    string
				entries map[string]bool
				del     bool
			}
			pres := []preT{{"empty", map[string]bool{}, false}, {"PRE1", pre1, true}}
			if r.Thorough() {
				pres = append(pres, preT{"PRE2", pre2, true})
			}

			n := 0
			for _, ps := range mine {
				ck := tree.name + "|" + strings.Join(ps, " ")
				if r.Expired() {
					return
				}
				for _, mode := range modes {
					if strings.Contains(mode.name, "+") && len(ps) < 2 {
						continue // identical to the plain mode
					}
					lists := mode.lists(ps)
					for _, pre := range pres {
						n++
						target := filepath.Join(env.base, fmt.Sprintf("target%d", n))
						if err := os.MkdirAll(target, 0o755); err != nil {
							t.Fatal(err)
						}
						verifC20Write(t, target, pre.entries, "PRE:")
						opts := RestoreOptions{Target: target, Delete: pre.del}
						mode.set(&opts, ps)
						var rerr error
						panicked, pmsg := vh.NoPanic(func() { rerr = testRunRestoreAssumeFailure(t, snap, opts, env.gopts) })
						got := verifC20Listing(target)
						_ = os.RemoveAll(target)
						r.Eval(1)
						r.Trace(1)
						vid := fmt.Sprintf("%s|%s|delete=%v", mode.name, strings.Join(ps, " "), pre.del)
						detail := map[string]any{"tree": tree.sorted(), "patterns": ps, "mode": mode.name, "delete": pre.del, "pre": pre.name}
						if panicked {
							r.Violationf(ck, "C20|panic|"+vid, detail, "runRestore panicked: %s", pmsg)
							continue
						}
						if rerr != nil {
							r.Violationf(ck, "C20|error|"+vid, detail, "runRestore failed: %v", rerr)
							continue
						}

						// ---- expectation for snapshot paths
						want := map[string]string{}
						nsel := 0
						for p, isDir := range tree.entries {
							if !verifC20Selected(lists, mode.exclude, p) {
								continue
							}
							nsel++
							if isDir {
								want[p] = "dir"
							} else {
								want[p] = "file:SNAP:" + p
							}
							for d := path.Dir(p); d != "/"; d = path.Dir(d) {
								if _, ok := want[d]; !ok {
									want[d] = "dir"
								}
							}
						}
						// unselected pre-existing snapshot-path entries stay as they were
						for p, isDir := range pre.entries {
							if _, inSnap := tree.entries[p]; !inSnap {
								continue
							}
							if _, ok := want[p]; ok {
								continue
							}
							if isDir {
								want[p] = "dir"
							} else {
								want[p] = "file:PRE:" + p
							}
						}
						bad := false
						for _, p := range tree.sorted() {
							if got[p] != want[p] {
								bad = true
								kind := "missing"
								switch {
								case want[p] == "":
									kind = "unselected-entry-written"
								case got[p] == "":
									kind = "selected-entry-missing"
								default:
									kind = "wrong-content(" + strings.SplitN(want[p], ":", 3)[0] + ")"
								}
								r.Violationf(ck, fmt.Sprintf("C20|%s|%s|%s", kind, vid, tree.name), verifC20Detail(detail, "path", p, "want", want[p], "got", got[p]), "tree %s, %s %v, delete=%v, pre=%s: %s: want %q, got %q", tree.name, mode.name, ps, pre.del, pre.name, p, want[p], got[p])
								break
							}
						}
						// ---- extras (pre-existing, not in snapshot)
						nExtraSel := 0
						exPaths := make([]string, 0, len(extras))
						for p := range extras {
							exPaths = append(exPaths, p)
						}
						sort.Strings(exPaths)
						if len(pre.entries) > 0 {
							// is a snapshot directory (or the root) "restored", i.e. selected or holding a selected entry?
							restoredDir := func(d string) bool {
								if d != "/" && verifC20Selected(lists, mode.exclude, d) {
									return true
								}
								for p := range tree.entries {
									if (d == "/" || strings.HasPrefix(p, d+"/")) && verifC20Selected(lists, mode.exclude, p) {
										return true
									}
								}
								return false
							}
							for _, p := range exPaths {
								// highest selected extra ancestor-or-self, and the top-most extra
								top, selAnc := p, ""
								for q := p; q != "/"; q = path.Dir(q) {
									if _, isExtra := extras[q]; !isExtra {
										break
									}
									top = q
									if verifC20Selected(lists, mode.exclude, q) {
										selAnc = q
									}
								}
								if selAnc != "" {
									nExtraSel++
								}
								wantGone := pre.del && selAnc != ""
								_, present := got[p]
								if wantGone == !present {
									continue
								}
								bad = true
								detail := verifC20Detail(detail, "path", p, "selected_ancestor_or_self", selAnc, "topmost_extra", top)
								switch {
								case !wantGone:
									r.Violationf(ck, "C20|extra-removed|"+vid, detail, "tree %s, %s %v, delete=%v: pre-existing %s is not selected but was removed", tree.name, mode.name, ps, pre.del, p)
								case !restoredDir(path.Dir(top)):
									r.Count("literal_deviation_unrestored_dir", 1)
									r.Violationf(ck, "C20|delete|selected-entry-in-unrestored-snapshot-dir-kept", detail,
										"--delete keeps a pre-existing, selected entry that is not in the snapshot when nothing of its directory is restored (e.g. %s with %s %v, tree %s)", p, mode.name, ps, tree.name)
								case selAnc != top:
									r.Count("literal_deviation_below_unselected_extra_dir", 1)
									r.Violationf(ck, "C20|delete|selected-entry-below-unselected-extra-dir-kept", detail,
										"--delete keeps a pre-existing, selected entry that lies below a pre-existing unselected directory which is not in the snapshot (e.g. %s with %s %v, tree %s)", p, mode.name, ps, tree.name)
								default:
									r.Violationf(ck, "C20|delete-missed|"+vid, detail, "tree %s, %s %v, --delete: pre-existing %s is selected and not in the snapshot but was kept", tree.name, mode.name, ps, p)
								}
							}
						}
						// anything in the target that is neither a snapshot path nor an extra?
						for p := range got {
							if _, a := tree.entries[p]; a {
								continue
							}
							if _, b := extras[p]; b && len(pre.entries) > 0 {
								continue
							}
							bad = true
							r.Violationf(ck, "C20|foreign|"+vid, verifC20Detail(detail, "path", p), "restore created %s which is neither in the snapshot nor pre-existing", p)
							break
						}
						if (nsel > 0 && nsel < len(tree.entries)) || (pre.del && nExtraSel > 0 && nExtraSel < len(extras)) {
							r.Nontrivial(ck + "|" + mode.name + "|" + pre.name)
						}
						if !bad {
							r.Outcome(fmt.Sprintf("ok|sel=%d/%d|extrasel=%v", nsel, len(tree.entries), nExtraSel > 0))
						}
						if tree.name == "T1" && mode.name == "include" && len(ps) == 1 && ps[0] == "**/b" && pre.name == "PRE1" {
							var w []string
							for p := range want {
								w = append(w, p)
							}
							sort.Strings(w)
							r.Sample(map[string]any{"tree": tree.sorted(), "mode": mode.name, "patterns": ps, "delete": true, "expected_snapshot_paths_present": w})
						}
					}
				}
			}
		}()
	}
}

package restorer

// C21: restore --verify (Restorer.VerifyFiles) reports exactly the files that
// differ from the snapshot.
//
// History (fixed): a snapshot with six regular files
//   empty   0 bytes, no blob
//   small   1 blob of 1500 bytes
//   three   3 blobs A|B|C (20000, 33000, 20000 bytes; len(A) == len(C))
//   zeros   the repository's 512 KiB zero chunk
//   sub/two 2 blobs (700 + 900 bytes) in a sub directory
//   rep     5 blobs H|Z|Z|Z|T (300, 3 x the same 200 bytes, 300): a run of
//           identical consecutive blobs
// is restored with the real RestoreTo into a fresh directory.  Then every
// enumerated single damage is applied to the restored tree, VerifyFiles is run
// on the same Restorer (twice: with a counting error handler as cmd/restic
// installs it, and with the Restorer's default abort handler), and the damage
// is undone.  The mtime of a damaged regular file is set back to the
// snapshot's, so only content / length differ.
//
// Damage sites (complete for the stated position sets):
//   flip     xor of one byte (0xFF; thorough also 0x01 and 0x80) at every
//            offset of files <= 4 KiB, and for larger files at every offset of
//            the first and last 64 bytes and of [b-2, b+2) around every blob
//            boundary b
//   truncate to every length in the same position set (and 0)
//   extend   by one zero byte, by one non-zero byte, by a copy of the last blob
//   swap     exchange the equally long first and last blob of "three"
//   replace  by an empty directory, by a symlink to an identical copy outside
//            the target, by a dangling symlink; remove the file
//   none     the untouched tree
//
// Oracle: no damage => no error returned, nothing reported, all 6 files
// counted.  Damage of file X => the default handler makes VerifyFiles return
// an error whose text names X; with the counting handler at least one error is
// reported, and every reported error names X (location or text) - no other
// file is blamed.
//
// Everything is run for four option sets of the Restorer that restores and then
// verifies (as cmd/restic does): default, --overwrite if-changed, --overwrite
// if-newer, --sparse.
//
// Not covered: FIFOs / devices in place of a file (opening a FIFO read-only
// blocks; outside the statement), simultaneous damage of several files.

import (
	"context"
	"fmt"
	"os"
	"path/filepath"
	"sort"
	"strings"
	"sync"
	"testing"
	"time"

	"github.com/restic/restic/internal/data"
	"github.com/restic/restic/internal/repository"
	"github.com/restic/restic/internal/restic"
	"github.com/restic/restic/internal/verifshim/vh"
)

type verifC21File struct {
	rel   string
	parts [][]byte
	all   []byte
}

func verifC21LCG(n int, seed uint32) []byte {
	b := make([]byte, n)
	x := seed
	for i := range b {
		x = x*1664525 + 1013904223
		b[i] = byte(x>>24) | 1
	}
	return b
}

func verifC21Files() []*verifC21File {
	l := []*verifC21File{
		{rel: "empty"},
		{rel: "small", parts: [][]byte{verifC21LCG(1500, 1)}},
		{rel: "three", parts: [][]byte{verifC21LCG(20000, 2), verifC21LCG(33000, 3), verifC21LCG(20000, 4)}},
		{rel: "zeros", parts: [][]byte{make([]byte, 512*1024)}},
		{rel: "sub/two", parts: [][]byte{verifC21LCG(700, 5), verifC21LCG(900, 6)}},
		// a run of identical consecutive blobs (as in zero-filled or repetitive regions of larger files)
		{rel: "rep", parts: [][]byte{verifC21LCG(300, 7), verifC21LCG(200, 8), verifC21LCG(200, 8), verifC21LCG(200, 8), verifC21LCG(300, 9)}},
	}
	for _, f := range l {
		for _, p := range f.parts {
			f.all = append(f.all, p...)
		}
	}
	return l
}

// positions returns the enumerated offsets for a file.
func (f *verifC21File) positions() []int {
	n := len(f.all)
	set := map[int]bool{}
	if n <= 4096 {
		for i := 0; i < n; i++ {
			set[i] = true
		}
	} else {
		for i := 0; i < 64; i++ {
			set[i] = true
			set[n-1-i] = true
		}
		off := 0
		for _, p := range f.parts[:len(f.parts)-1] {
			off += len(p)
			for d := -2; d < 2; d++ {
				set[off+d] = true
			}
		}
	}
	var l []int
	for p := range set {
		if p >= 0 && p < n {
			l = append(l, p)
		}
	}
	sort.Ints(l)
	return l
}

type verifC21Damage struct {
	name  string // canonical, without the file
	apply func(path string, f *verifC21File, outside string) error
}

var verifC21MTime = time.Date(2021, 3, 4, 5, 6, 7, 890123456, time.UTC)

func verifC21Restore(path string, f *verifC21File) error {
	if err := os.RemoveAll(path); err != nil {
		return err
	}
	if err := os.WriteFile(path, f.all, 0o644); err != nil {
		return err
	}
	return os.Chtimes(path, verifC21MTime, verifC21MTime)
}

func verifC21Damages(f *verifC21File, thorough bool) []verifC21Damage {
	var l []verifC21Damage
	write := func(b []byte) func(string, *verifC21File, string) error {
		return func(path string, _ *verifC21File, _ string) error {
			if err := os.WriteFile(path, b, 0o644); err != nil {
				return err
			}
			return os.Chtimes(path, verifC21MTime, verifC21MTime)
		}
	}
	masks := []byte{0xFF}
	if thorough {
		masks = []byte{0xFF, 0x01, 0x80}
	}
	pos := f.positions()
	for _, p := range pos {
		for _, m := range masks {
			p, m := p, m
			l = append(l, verifC21Damage{fmt.Sprintf("flip@%d^%02x", p, m), func(path string, f *verifC21File, _ string) error {
				fh, err := os.OpenFile(path, os.O_WRONLY, 0)
				if err != nil {
					return err
				}
				if _, err := fh.WriteAt([]byte{f.all[p] ^ m}, int64(p)); err != nil {
					_ = fh.Close()
					return err
				}
				if err := fh.Close(); err != nil {
					return err
				}
				return os.Chtimes(path, verifC21MTime, verifC21MTime)
			}})
		}
	}
	for _, p := range pos {
		p := p
		l = append(l, verifC21Damage{fmt.Sprintf("truncate@%d", p), func(path string, _ *verifC21File, _ string) error {
			if err := os.Truncate(path, int64(p)); err != nil {
				return err
			}
			return os.Chtimes(path, verifC21MTime, verifC21MTime)
		}})
	}
	l = append(l,
		verifC21Damage{"extend+zero-byte", write(append(append([]byte{}, f.all...), 0))},
		verifC21Damage{"extend+nonzero-byte", write(append(append([]byte{}, f.all...), 0x41))},
	)
	if len(f.parts) > 0 {
		l = append(l, verifC21Damage{"extend+last-blob", write(append(append([]byte{}, f.all...), f.parts[len(f.parts)-1]...))})
		l = append(l, verifC21Damage{"extend+first-blob", write(append(append([]byte{}, f.all...), f.parts[0]...))})
	}
	if n := len(f.parts); n >= 3 && len(f.parts[0]) == len(f.parts[n-1]) {
		var b []byte
		b = append(b, f.parts[n-1]...)
		for _, p := range f.parts[1 : n-1] {
			b = append(b, p...)
		}
		b = append(b, f.parts[0]...)
		l = append(l, verifC21Damage{"swap-first-last-blob", write(b)})
	}
	l = append(l,
		verifC21Damage{"replace-by-directory", func(path string, _ *verifC21File, _ string) error {
			if err := os.Remove(path); err != nil {
				return err
			}
			return os.Mkdir(path, 0o755)
		}},
		verifC21Damage{"replace-by-symlink-to-identical-copy", func(path string, f *verifC21File, outside string) error {
			cp := filepath.Join(outside, "copy")
			if err := os.WriteFile(cp, f.all, 0o644); err != nil {
				return err
			}
			if err := os.Chtimes(cp, verifC21MTime, verifC21MTime); err != nil {
				return err
			}
			if err := os.Remove(path); err != nil {
				return err
			}
			return os.Symlink(cp, path)
		}},
		verifC21Damage{"replace-by-dangling-symlink", func(path string, _ *verifC21File, outside string) error {
			if err := os.Remove(path); err != nil {
				return err
			}
			return os.Symlink(filepath.Join(outside, "nonexistent"), path)
		}},
		verifC21Damage{"remove", func(path string, _ *verifC21File, _ string) error { return os.Remove(path) }},
	)
	return l
}

type verifC21Report struct {
	location string
	msg      string
}

func TestVerif_C21(t *testing.T) {
	r := vh.Start(t, "C21")
	defer r.Finish()
	r.Rule("fixed history (restore of a 6-file snapshot (one with a run of identical consecutive blobs)) x every enumerated single damage (byte flips and truncations at every offset of small files / first+last 64 bytes and blob boundaries +-2 of large ones, extensions, blob swap, replacement by dir/symlink, removal) x 2 error handlers x 4 restorer option sets (default, overwrite if-changed, overwrite if-newer, sparse); one real VerifyFiles per element; non-trivial = the tree really differs from the snapshot when VerifyFiles runs")
	r.Assume("the mtime of a damaged regular file is reset to the snapshot mtime", "one damaged file at a time")

	ctx := context.Background()
	repo := repository.TestRepository(t)
	files := verifC21Files()
	if !restic.Hash(files[3].all).Equal(repo.ChunkerFactory().ZeroChunk()) {
		t.Fatal("fixture: zeros is not the zero chunk")
	}
	mk := func(f *verifC21File) File {
		var parts []string
		for _, p := range f.parts {
			parts = append(parts, string(p))
		}
		return File{DataParts: parts, ModTime: verifC21MTime}
	}
	sn, _ := saveSnapshot(t, repo, Snapshot{Nodes: map[string]Node{
		"empty": mk(files[0]), "small": mk(files[1]), "three": mk(files[2]), "zeros": mk(files[3]),
		"sub": Dir{ModTime: verifC21MTime, Nodes: map[string]Node{"two": mk(files[4])}}, "rep": mk(files[5]),
	}}, noopGetGenericAttributes)

	outside := filepath.Join(r.Scratch, "outside")
	if err := os.MkdirAll(outside, 0o755); err != nil {
		t.Fatal(err)
	}
	// cmd/restic verifies with the Restorer object (and therefore the options) it restored with
	for _, o := range []struct {
		name string
		opts Options
	}{{"", Options{}}, {"overwrite=if-changed|", Options{Overwrite: OverwriteIfChanged}}, {"overwrite=if-newer|", Options{Overwrite: OverwriteIfNewer}}, {"sparse|", Options{Sparse: true}}} {
		if done := verifC21Run(t, r, ctx, repo, sn, files, o.name, o.opts, outside); done {
			return
		}
	}
}

// verifC21Run enumerates all damages for one option set; it reports whether the run has to stop (cap, broken undo).
func verifC21Run(t *testing.T, r *vh.Run, ctx context.Context, repo restic.Repository, sn *data.Snapshot, files []*verifC21File, oname string, opts Options, outside string) (stop bool) {
	target := filepath.Join(r.Scratch, "target-"+strings.Trim(strings.ReplaceAll(oname, "=", "-"), "|"))
	res := NewRestorer(repo, sn, opts)
	count, err := res.RestoreTo(ctx, target)
	if err != nil || count != uint64(len(files)) {
		t.Fatalf("fixture restore failed: count=%d err=%v", count, err)
	}
	for _, f := range files {
		b, err := os.ReadFile(filepath.Join(target, f.rel))
		if err != nil || string(b) != string(f.all) {
			t.Fatalf("fixture: restored file %s is wrong (%v)", f.rel, err)
		}
	}

	// verify runs VerifyFiles with the given handler style.
	verify := func(counting bool) (n int, rerr error, reports []verifC21Report, panicked bool, pmsg string) {
		var mu sync.Mutex
		if counting {
			res.Error = func(location string, err error) error {
				mu.Lock()
				reports = append(reports, verifC21Report{location, err.Error()})
				mu.Unlock()
				return nil
			}
		} else {
			res.Error = restorerAbortOnAllErrors
		}
		panicked, pmsg = vh.NoPanic(func() { n, rerr = res.VerifyFiles(ctx, target, count, restic.NoopCounter) })
		r.Transition(1)
		return
	}
	clean := func(ck, where string) bool {
		ok := true
		for _, counting := range []bool{true, false} {
			n, rerr, reports, panicked, pmsg := verify(counting)
			if panicked || rerr != nil || len(reports) != 0 || n != len(files) {
				ok = false
				r.Violationf(ck, "C21|"+oname+"untouched|reported", map[string]any{"where": where, "counting_handler": counting, "err": fmt.Sprint(rerr), "reports": fmt.Sprint(reports), "verified": n, "panic": pmsg},
					"VerifyFiles on the untouched restored tree (%s): err=%v, %d errors reported, %d of %d files verified", where, rerr, len(reports), n, len(files))
			}
		}
		return ok
	}

	if r.Case(oname + "untouched") {
		r.Eval(1)
		r.Trace(1)
		if clean(oname+"untouched", "initial") {
			r.Outcome("clean")
		}
	}

	const chunk = 48
	for _, f := range files {
		path := filepath.Join(target, f.rel)
		dmg := verifC21Damages(f, r.Thorough())
		for c0 := 0; c0 < len(dmg); c0 += chunk {
			ck := fmt.Sprintf("%s%s|%d", oname, f.rel, c0/chunk)
			if !r.Case(ck) {
				continue
			}
			if r.Expired() {
				return true
			}
			for _, d := range dmg[c0:min(c0+chunk, len(dmg))] {
				id := oname + f.rel + "|" + d.name
				// violation identity: file + damage kind (+ blob the offset lies in); the exact offset is in the detail
				vid := oname + f.rel + "|" + verifC21Kind(f, d.name)
				if err := d.apply(path, f, outside); err != nil {
					t.Fatalf("fixture: damage %s: %v", id, err)
				}
				// the tree really differs?
				differs := true
				if fi, err := os.Lstat(path); err == nil && fi.Mode().IsRegular() {
					b, _ := os.ReadFile(path)
					differs = string(b) != string(f.all)
				}
				if !differs {
					t.Fatalf("fixture: damage %s did not change the file", id)
				}
				r.Eval(1)
				r.Nontrivial(id)
				detail := map[string]any{"options": oname, "file": f.rel, "damage": d.name, "size": len(f.all), "blob_sizes": verifC21Sizes(f)}
				for _, counting := range []bool{true, false} {
					n, rerr, reports, panicked, pmsg := verify(counting)
					r.Trace(1)
					_ = n
					kind := strings.SplitN(d.name, "@", 2)[0]
					if panicked {
						r.Violationf(ck, "C21|panic|"+vid, detail, "VerifyFiles panicked: %s", pmsg)
						continue
					}
					if counting {
						if rerr == nil && len(reports) == 0 {
							r.Outcome("missed|counting|" + kind)
							r.Violationf(ck, "C21|missed|"+vid, detail, "file %s was damaged (%s) but VerifyFiles reported no error", f.rel, d.name)
							continue
						}
						named := false
						for _, rep := range reports {
							if rep.location == path || strings.Contains(rep.msg, path) {
								named = true
							} else {
								r.Violationf(ck, "C21|blamed-other|"+vid, map[string]any{"detail": detail, "location": rep.location, "msg": rep.msg},
									"damage of %s (%s) was reported for another file: %s: %s", f.rel, d.name, rep.location, rep.msg)
							}
						}
						if rerr != nil && strings.Contains(rerr.Error(), path) {
							named = true
						}
						if !named {
							r.Violationf(ck, "C21|not-named|"+vid, detail, "damage of %s (%s) reported without naming the file: err=%v reports=%v", f.rel, d.name, rerr, reports)
						}
						if len(reports) > 0 {
							r.Outcome("reported|" + kind + "|" + verifC21Class(reports[0].msg))
						}
					} else {
						if rerr == nil {
							r.Outcome("missed|abort|" + kind)
							r.Violationf(ck, "C21|missed|"+vid, detail, "file %s was damaged (%s) but VerifyFiles returned no error", f.rel, d.name)
						} else if !strings.Contains(rerr.Error(), path) {
							r.Violationf(ck, "C21|not-named|"+vid, detail, "damage of %s (%s): returned error does not name the file: %v", f.rel, d.name, rerr)
						}
					}
				}
				if f.rel == "three" && (d.name == "flip@19999^ff" || d.name == "swap-first-last-blob") {
					r.Sample(map[string]any{"file": f.rel, "damage": d.name, "detected": true})
				}
				if err := verifC21Restore(path, f); err != nil {
					t.Fatalf("fixture: undo %s: %v", id, err)
				}
			}
			// the undo really restored the tree (guards the harness against false alarms/misses)
			if !clean(ck, "after undo of "+ck) {
				return true
			}
		}
	}
	_ = os.RemoveAll(target)
	return false
}

// verifC21Kind maps "flip@20001^ff" to "flip-in-blob1" etc.
func verifC21Kind(f *verifC21File, name string) string {
	parts := strings.SplitN(name, "@", 2)
	if len(parts) < 2 {
		return name
	}
	var p int
	_, _ = fmt.Sscanf(parts[1], "%d", &p)
	off := 0
	for i, b := range f.parts {
		off += len(b)
		if p < off {
			return fmt.Sprintf("%s-in-blob%d", parts[0], i)
		}
	}
	return parts[0]
}

func verifC21Class(msg string) string {
	for _, k := range []string{"Invalid file size", "Unexpected content", "regular file", "no such file", "too many levels", "is a directory", "EOF"} {
		if strings.Contains(msg, k) {
			return k
		}
	}
	return "other"
}

func verifC21Sizes(f *verifC21File) []int {
	var s []int
	for _, p := range f.parts {
		s = append(s, len(p))
	}
	return s
}

package restorer

// C19: restore leaves each selected regular file with exactly the snapshot
// content, whatever the target already contains.
//
// Space (complete product, no sampling):
//   snapshot file content (8 kinds: empty, 1 byte, 300 KiB LCG single blob,
//     the 512 KiB zero chunk, data|zero chunk|zero chunk|data, two identical
//     blobs, blobs with long zero prefixes around a zero chunk, 100 zero bytes)
//   x pre-existing state of the target path (missing, empty, shorter prefix,
//     longer, longer garbage, same-size garbage with older / equal / newer
//     mtime (also +-1ns), correct content older/equal/newer, partially
//     matching blobs, read-only, unreadable (mode 000) and write-only (mode 200)
//     as an unprivileged euid, empty / non-empty directory in the way, symlink
//     (to an outside file, to an outside directory, dangling) in the way,
//     hard-linked to a partner outside the target)
//   x overwrite {always, if-changed, if-newer, never} x sparse {off, on}
//   (+ --delete for the non-empty-directory state, the documented way to
//   replace it).
// Every snapshot also holds a twin d/e with the same content as d/f that is
// visited first and exists intact (older mtime) in the target in every case:
// the restorer reads and verifies it before it gets to d/f.
// The snapshots are built directly in an in-memory repository with the
// package's saveSnapshot helper (blob boundaries chosen by the harness, the
// zero chunk is the repository's real ZeroChunk()).
//
// Oracle (only after a successful restore = RestoreTo returned nil and nothing
// was reported through res.Error, which counts and continues like cmd/restic):
//   always / if-changed : the file is regular and its bytes equal the snapshot;
//   if-newer            : untouched iff the pre-existing entry's mtime (as
//                         read back with lstat) is not older than the
//                         snapshot's mtime, otherwise snapshot bytes;
//   never               : untouched iff something existed, else snapshot bytes;
//   always              : the outside hard-link partner, the outside symlink
//                         victim and an unrelated sibling file keep their bytes.
// "untouched" = same type, mode, size, mtime, bytes / link target / directory
// listing.  Errors from restore are recorded as outcomes, not judged.
//
// Deviation from the DESIGN text: "unreadable" cannot be produced as root, so
// these cases run the restore with the effective uid switched to 65534
// (syscall.Seteuid, all threads) inside a directory owned by that uid; if the
// sandbox does not allow that the sub-cases are skipped and counted.
// Known literal deviation (documented behaviour of if-changed): same size +
// same mtime + different content is left unchanged; reported under the fixed
// key C19|if-changed|same-size-same-mtime-different-content.

import (
	"bytes"
	"context"
	"crypto/sha256"
	"fmt"
	"os"
	"path/filepath"
	"sort"
	"strings"
	"syscall"
	"testing"
	"time"

	"github.com/restic/restic/internal/data"
	"github.com/restic/restic/internal/repository"
	"github.com/restic/restic/internal/restic"
	"github.com/restic/restic/internal/verifshim/vh"
	"golang.org/x/sys/unix"
)

var verifC19MTime = time.Date(2020, 1, 2, 3, 4, 5, 123456789, time.UTC)

const verifC19UnprivUID = 65534

func verifC19LCG(n int, seed uint32) []byte {
	b := make([]byte, n)
	x := seed
	for i := range b {
		x = x*1664525 + 1013904223
		b[i] = byte(x >> 24)
	}
	if n > 0 {
		b[0] |= 1
		b[n-1] |= 1
	}
	return b
}

type verifC19Content struct {
	name  string
	parts [][]byte
	all   []byte
}

func (c verifC19Content) bytes() []byte { return c.all }

func verifC19Contents() []verifC19Content {
	zero := make([]byte, 512*1024)
	d1 := verifC19LCG(64*1024, 1)
	d2 := verifC19LCG(40*1024+7, 2)
	zp1 := append(make([]byte, 8192), verifC19LCG(4096, 3)...)
	zp2 := append(make([]byte, 70000), verifC19LCG(100, 4)...)
	same := verifC19LCG(32*1024, 5)
	l := []verifC19Content{
		{name: "empty"},
		{name: "onebyte", parts: [][]byte{[]byte("x")}},
		{name: "lcg300k", parts: [][]byte{verifC19LCG(300*1024, 6)}},
		{name: "zerochunk", parts: [][]byte{zero}},
		{name: "data-hole-data", parts: [][]byte{d1, zero, zero, d2}},
		{name: "two-identical", parts: [][]byte{same, same}},
		{name: "zeroprefix-blobs", parts: [][]byte{zp1, zero, zp2}},
		{name: "short-zeros", parts: [][]byte{make([]byte, 100)}},
	}
	for i := range l {
		for _, p := range l[i].parts {
			l[i].all = append(l[i].all, p...)
		}
	}
	return l
}

// garbage: same length, every byte non-zero and different from c.
func verifC19Garbage(c []byte, n int) []byte {
	g := make([]byte, n)
	for i := range g {
		if i < len(c) {
			g[i] = (^c[i]) | 1
		} else {
			g[i] = 0xEE
		}
	}
	return g
}

type verifC19Pre struct {
	name   string
	unpriv bool // must run with an unprivileged effective uid
	del    bool // also run with Delete
	// build creates the pre-state at path; outside is a directory outside the target.
	// ok=false: state not constructible for this content.
	build func(path, outside string, c verifC19Content) (ok bool, err error)
}

func verifC19WriteFile(path string, b []byte, mode os.FileMode, mt time.Time) error {
	if err := os.WriteFile(path, b, 0o600); err != nil {
		return err
	}
	if err := os.Chtimes(path, mt, mt); err != nil {
		return err
	}
	return os.Chmod(path, mode)
}

func verifC19Lutimes(path string, mt time.Time) error {
	ts := []unix.Timespec{unix.NsecToTimespec(mt.UnixNano()), unix.NsecToTimespec(mt.UnixNano())}
	return unix.UtimesNanoAt(unix.AT_FDCWD, path, ts, unix.AT_SYMLINK_NOFOLLOW)
}

func verifC19Pres() []verifC19Pre {
	M := verifC19MTime
	old, newer := M.Add(-time.Hour), M.Add(time.Hour)
	file := func(name string, content func(c []byte) ([]byte, bool), mode os.FileMode, mt time.Time, unpriv bool) verifC19Pre {
		return verifC19Pre{name: name, unpriv: unpriv, build: func(path, _ string, c verifC19Content) (bool, error) {
			b, ok := content(c.bytes())
			if !ok {
				return false, nil
			}
			return true, verifC19WriteFile(path, b, mode, mt)
		}}
	}
	garbage := func(c []byte) ([]byte, bool) { return verifC19Garbage(c, len(c)), len(c) > 0 }
	correct := func(c []byte) ([]byte, bool) { return c, true }
	longerGarbage := func(c []byte) ([]byte, bool) { return verifC19Garbage(c, len(c)+1000), true }
	pres := []verifC19Pre{
		{name: "missing", build: func(string, string, verifC19Content) (bool, error) { return true, nil }},
		file("empty-older", func(c []byte) ([]byte, bool) { return nil, true }, 0o644, old, false),
		file("shorter-prefix-older", func(c []byte) ([]byte, bool) { return c[:len(c)/2], len(c) >= 2 }, 0o644, old, false),
		file("shorter-garbage-older", func(c []byte) ([]byte, bool) { return verifC19Garbage(c, len(c)/2), len(c) >= 2 }, 0o644, old, false),
		file("longer-correct-prefix-older", func(c []byte) ([]byte, bool) {
			return append(append([]byte{}, c...), verifC19Garbage(nil, 1000)...), true
		}, 0o644, old, false),
		file("longer-garbage-older", longerGarbage, 0o644, old, false),
		file("longer-garbage-newer", longerGarbage, 0o644, newer, false),
		file("much-longer-garbage-older", func(c []byte) ([]byte, bool) { return verifC19Garbage(c, len(c)+700*1024), true }, 0o644, old, false),
		file("samesize-garbage-older", garbage, 0o644, old, false),
		file("samesize-garbage-samemtime", garbage, 0o644, M, false),
		file("samesize-garbage-newer", garbage, 0o644, newer, false),
		file("empty-samemtime", func(c []byte) ([]byte, bool) { return nil, len(c) > 0 }, 0o644, M, false),
		file("shorter-garbage-samemtime", func(c []byte) ([]byte, bool) { return verifC19Garbage(c, len(c)/2), len(c) >= 2 }, 0o644, M, false),
		file("longer-garbage-samemtime", longerGarbage, 0o644, M, false),
		file("longer-correct-prefix-samemtime", func(c []byte) ([]byte, bool) { return append(append([]byte{}, c...), verifC19Garbage(nil, 1)...), true }, 0o644, M, false),
		file("samesize-garbage-older-1ns", garbage, 0o644, M.Add(-1), false),
		file("samesize-garbage-newer-1ns", garbage, 0o644, M.Add(1), false),
		file("correct-older", correct, 0o644, old, false),
		file("correct-samemtime", correct, 0o644, M, false),
		file("correct-newer", correct, 0o644, newer, false),
		file("readonly-garbage-older", garbage, 0o444, old, false),
		file("unpriv-readonly-garbage-older", garbage, 0o444, old, true),
		file("unpriv-unreadable-garbage-older", garbage, 0o000, old, true),
		file("unpriv-unreadable-longer-garbage-older", longerGarbage, 0o000, old, true),
		file("unpriv-unreadable-correct-older", correct, 0o000, old, true),
		file("unpriv-writeonly-garbage-older", garbage, 0o200, old, true),
		file("unpriv-writeonly-longer-garbage-older", longerGarbage, 0o200, old, true),
		file("unpriv-plain-garbage-older", garbage, 0o644, old, true),
	}
	// partially matching blobs (multi-blob contents only)
	partial := func(name string, keep func(i, n int) bool) verifC19Pre {
		return verifC19Pre{name: name, build: func(path, _ string, c verifC19Content) (bool, error) {
			if len(c.parts) < 2 {
				return false, nil
			}
			var b []byte
			for i, p := range c.parts {
				if keep(i, len(c.parts)) {
					b = append(b, p...)
				} else {
					b = append(b, verifC19Garbage(p, len(p))...)
				}
			}
			return true, verifC19WriteFile(path, b, 0o644, old)
		}}
	}
	pres = append(pres,
		partial("firstblob-correct-rest-garbage-older", func(i, n int) bool { return i == 0 }),
		partial("lastblob-correct-rest-garbage-older", func(i, n int) bool { return i == n-1 }),
		partial("firstblob-garbage-rest-correct-older", func(i, n int) bool { return i != 0 }),
	)
	dir := func(name string, nonEmpty bool, mt time.Time) verifC19Pre {
		return verifC19Pre{name: name, del: nonEmpty, build: func(path, _ string, _ verifC19Content) (bool, error) {
			if err := os.Mkdir(path, 0o755); err != nil {
				return false, err
			}
			if nonEmpty {
				if err := verifC19WriteFile(filepath.Join(path, "inner"), []byte("inner"), 0o644, old); err != nil {
					return false, err
				}
			}
			return true, os.Chtimes(path, mt, mt)
		}}
	}
	pres = append(pres, dir("dir-empty-older", false, old), dir("dir-empty-newer", false, newer), dir("dir-nonempty-older", true, old))
	symlink := func(name, target string, mt time.Time) verifC19Pre {
		return verifC19Pre{name: name, build: func(path, outside string, _ verifC19Content) (bool, error) {
			if err := os.Symlink(filepath.Join(outside, target), path); err != nil {
				return false, err
			}
			return true, verifC19Lutimes(path, mt)
		}}
	}
	pres = append(pres,
		symlink("symlink-to-outside-file-older", "victim", old),
		symlink("symlink-to-outside-file-newer", "victim", newer),
		symlink("symlink-to-outside-dir-older", "victimdir", old),
		symlink("symlink-dangling-older", "nonexistent", old),
	)
	hard := func(name string, content func(c []byte) ([]byte, bool), mt time.Time) verifC19Pre {
		return verifC19Pre{name: name, build: func(path, outside string, c verifC19Content) (bool, error) {
			b, ok := content(c.bytes())
			if !ok {
				return false, nil
			}
			partner := filepath.Join(outside, "partner")
			if err := verifC19WriteFile(partner, b, 0o644, mt); err != nil {
				return false, err
			}
			return true, os.Link(partner, path)
		}}
	}
	pres = append(pres,
		hard("hardlinked-garbage-older", garbage, old),
		hard("hardlinked-longer-garbage-older", longerGarbage, old),
		hard("hardlinked-samesize-garbage-samemtime", garbage, M),
		hard("hardlinked-shorter-older", func(c []byte) ([]byte, bool) { return verifC19Garbage(c, len(c)/2), len(c) >= 2 }, old),
	)
	return pres
}

// verifC19Finger is a canonical description of whatever is at path (lstat based).
func verifC19Finger(path string) string {
	fi, err := os.Lstat(path)
	if err != nil {
		if os.IsNotExist(err) {
			return "absent"
		}
		return "error:" + err.Error()
	}
	switch {
	case fi.Mode().IsRegular():
		b, err := os.ReadFile(path)
		if err != nil {
			return "error:" + err.Error()
		}
		return fmt.Sprintf("file|%v|%d|%d|%x", fi.Mode(), fi.Size(), fi.ModTime().UnixNano(), sha256.Sum256(b))
	case fi.Mode()&os.ModeSymlink != 0:
		l, _ := os.Readlink(path)
		return fmt.Sprintf("symlink|%s|%d", l, fi.ModTime().UnixNano())
	case fi.IsDir():
		ents, _ := os.ReadDir(path)
		var names []string
		for _, e := range ents {
			names = append(names, e.Name()+"="+verifC19Finger(filepath.Join(path, e.Name())))
		}
		sort.Strings(names)
		return fmt.Sprintf("dir|%v|%d|[%s]", fi.Mode(), fi.ModTime().UnixNano(), strings.Join(names, ","))
	}
	return "other|" + fi.Mode().String()
}

func verifC19FirstDiff(a, b []byte) int {
	n := min(len(a), len(b))
	for i := 0; i < n; i++ {
		if a[i] != b[i] {
			return i
		}
	}
	if len(a) != len(b) {
		return n
	}
	return -1
}

// verifC19Unpriv switches the effective uid of the whole process; returns false if not possible.
func verifC19SetEUID(uid int) bool {
	return syscall.Seteuid(uid) == nil && os.Geteuid() == uid
}

// verifC19ProbeUnpriv checks that an unprivileged euid can work below dir and is really denied
// access to a mode-000 file.
func verifC19ProbeUnpriv(dir string) (ok bool, why string) {
	if os.Geteuid() != 0 {
		return false, "not running as root"
	}
	// make the scratch chain searchable for others (at most 4 levels, only root-owned dirs below a temp root)
	d := dir
	for lvl := 0; lvl < 4; lvl++ {
		fi, err := os.Stat(d)
		if err != nil {
			return false, err.Error()
		}
		if fi.Mode().Perm()&0o001 != 0 {
			break
		}
		if !(strings.HasPrefix(d, "/var/tmp/") || strings.HasPrefix(d, "/tmp/") || strings.HasPrefix(d, os.TempDir()+"/")) {
			return false, "scratch chain not under a temp root: " + d
		}
		if err := os.Chmod(d, fi.Mode().Perm()|0o011); err != nil {
			return false, err.Error()
		}
		d = filepath.Dir(d)
	}
	probe := filepath.Join(dir, "unpriv-probe")
	if err := os.Mkdir(probe, 0o700); err != nil {
		return false, err.Error()
	}
	defer os.RemoveAll(probe)
	if err := os.Chown(probe, verifC19UnprivUID, -1); err != nil {
		return false, err.Error()
	}
	if !verifC19SetEUID(verifC19UnprivUID) {
		_ = syscall.Seteuid(0)
		return false, "seteuid failed"
	}
	p := filepath.Join(probe, "f")
	err1 := os.WriteFile(p, []byte("x"), 0o600)
	err2 := os.Chmod(p, 0)
	_, err3 := os.ReadFile(p)
	if !verifC19SetEUID(0) {
		panic("verif C19: cannot regain euid 0")
	}
	if err1 != nil || err2 != nil {
		return false, fmt.Sprintf("unprivileged euid cannot work in scratch: %v %v", err1, err2)
	}
	if !os.IsPermission(err3) {
		return false, fmt.Sprintf("mode-000 file readable with euid %d: %v", verifC19UnprivUID, err3)
	}
	return true, ""
}

func TestVerif_C19(t *testing.T) {
	r := vh.Start(t, "C19")
	defer r.Finish()
	r.Rule("complete product content(8) x pre-existing state(42, some not constructible for tiny contents) x overwrite(4) x sparse(2) (+delete for non-empty dir); one real RestoreTo per element on an in-memory repository; non-trivial = something pre-existed at the file's path (overwrite decision, verifyFile, createFile/ensureSize or replacement really ran)")
	r.Assume("restore runs as root except for the unpriv-* pre-states, which run with effective uid 65534",
		"pre-existing mtimes are read back with lstat after being set; the oracle uses the read-back value",
		"blob boundaries are chosen by the harness (not by the chunker); the zero chunk is the repository's ZeroChunk()")

	ctx := context.Background()
	repo := repository.TestRepository(t)
	contents := verifC19Contents()
	pres := verifC19Pres()
	M := verifC19MTime

	// sanity: the zero chunk really is what the repository calls the zero chunk
	if id := restic.Hash(contents[3].parts[0]); !id.Equal(repo.ChunkerFactory().ZeroChunk()) {
		t.Fatalf("fixture: 512 KiB zeros is not the repository's zero chunk")
	}

	snaps := map[string]*data.Snapshot{}
	for _, c := range contents {
		var parts []string
		for _, p := range c.parts {
			parts = append(parts, string(p))
		}
		sn, _ := saveSnapshot(t, repo, Snapshot{Nodes: map[string]Node{
			"d": Dir{ModTime: M, Nodes: map[string]Node{
				// a twin with the same content that is visited before f (e.g. a copy of the file): in every case
				// it already exists intact in the target with an older mtime, so it is read and verified first
				"e": File{DataParts: parts, ModTime: M},
				"f": File{DataParts: parts, ModTime: M},
			}},
		}}, noopGetGenericAttributes)
		snaps[c.name] = sn
	}

	unprivOK, why := verifC19ProbeUnpriv(r.Scratch)
	if !unprivOK {
		r.Note("unprivileged sub-cases skipped: %s", why)
	}

	modes := []OverwriteBehavior{OverwriteAlways, OverwriteIfChanged, OverwriteIfNewer, OverwriteNever}
	seq := 0
	for _, c := range contents {
		want := c.bytes()
		for _, pre := range pres {
			ck := c.name + "|" + pre.name
			if !r.Case(ck) {
				continue
			}
			if r.Expired() {
				return
			}
			if pre.unpriv && !unprivOK {
				r.Count("unpriv_cases_skipped", 1)
				continue
			}
			dels := []bool{false}
			if pre.del {
				dels = append(dels, true)
			}
			for _, mode := range modes {
				for _, sparse := range []bool{false, true} {
					for _, del := range dels {
						seq++
						base := filepath.Join(r.Scratch, fmt.Sprintf("c%d", seq))
						func() {
							defer func() {
								_ = filepath.Walk(base, func(p string, fi os.FileInfo, err error) error {
									if err == nil && fi.IsDir() {
										_ = os.Chmod(p, 0o700)
									}
									return nil
								})
								_ = os.RemoveAll(base)
							}()
							target := filepath.Join(base, "target")
							outside := filepath.Join(base, "outside")
							fpath := filepath.Join(target, "d", "f")
							for _, d := range []string{filepath.Join(target, "d"), filepath.Join(outside, "victimdir")} {
								if err := os.MkdirAll(d, 0o755); err != nil {
									t.Fatal(err)
								}
							}
							if pre.unpriv {
								for _, d := range []string{base, target, filepath.Join(target, "d"), outside, filepath.Join(outside, "victimdir")} {
									if err := os.Chown(d, verifC19UnprivUID, -1); err != nil {
										t.Fatal(err)
									}
								}
								if err := os.Chmod(base, 0o755); err != nil {
									t.Fatal(err)
								}
								if !verifC19SetEUID(verifC19UnprivUID) {
									t.Fatal("seteuid")
								}
							}
							regain := func() {
								if pre.unpriv && os.Geteuid() != 0 {
									if !verifC19SetEUID(0) {
										panic("verif C19: cannot regain euid 0")
									}
								}
							}
							defer regain()

							oldT := M.Add(-time.Hour)
							must := func(err error) {
								if err != nil {
									regain()
									t.Fatalf("fixture %s: %v", ck, err)
								}
							}
							must(verifC19WriteFile(filepath.Join(outside, "victim"), []byte("victim content"), 0o644, oldT))
							must(verifC19WriteFile(filepath.Join(outside, "victimdir", "v"), []byte("victimdir content"), 0o644, oldT))
							must(verifC19WriteFile(filepath.Join(target, "d", "sibling"), []byte("sibling content"), 0o644, oldT))
							must(verifC19WriteFile(filepath.Join(target, "d", "e"), want, 0o644, oldT))
							ok, err := pre.build(fpath, outside, c)
							must(err)
							if !ok {
								r.Count("not_constructible", 1)
								return
							}
							regain() // fingerprints need root (mode 000)
							preFinger := verifC19Finger(fpath)
							outsideFinger := verifC19Finger(outside)
							siblingFinger := verifC19Finger(filepath.Join(target, "d", "sibling"))
							var preMtime time.Time
							existed := false
							if fi, err := os.Lstat(fpath); err == nil {
								existed = true
								preMtime = fi.ModTime()
							}
							if pre.unpriv && !verifC19SetEUID(verifC19UnprivUID) {
								t.Fatal("seteuid")
							}

							res := NewRestorer(repo, snaps[c.name], Options{Overwrite: mode, Sparse: sparse, Delete: del})
							// like cmd/restic: errors are counted and the restore continues; "successful" = no
							// error returned and none reported (the restorer's default abort-on-error handler
							// can lose a write error of the last blob of a pack in fileRestorer.reportError)
							var rerr error
							res.Error = func(location string, err error) error {
								if rerr == nil {
									rerr = fmt.Errorf("%s: %w", location, err)
								}
								return nil
							}
							panicked, pmsg := vh.NoPanic(func() {
								if _, err := res.RestoreTo(ctx, target); err != nil && rerr == nil {
									rerr = err
								}
							})
							regain()
							r.Eval(1)
							r.Trace(1)
							modeS := mode.String()
							id := fmt.Sprintf("%s|sparse=%v|delete=%v|%s|%s", modeS, sparse, del, c.name, pre.name)
							// violation identity: the content kind is in the detail, not in the key
							vid := fmt.Sprintf("%s|sparse=%v|delete=%v|%s", modeS, sparse, del, pre.name)
							detail := map[string]any{"content": c.name, "content_size": len(want), "blob_sizes": verifC19Sizes(c), "pre": pre.name, "overwrite": modeS, "sparse": sparse, "delete": del, "snapshot_mtime": M, "pre_mtime": preMtime}
							if panicked {
								r.Violationf(ck, "C19|panic|"+vid, detail, "RestoreTo panicked: %s", pmsg)
								return
							}
							if existed {
								r.Nontrivial(id)
							}
							if rerr != nil {
								r.Count("restore_errors", 1)
								r.Outcome(fmt.Sprintf("error|%s|%s|delete=%v", pre.name, modeS, del))
								if !(strings.HasPrefix(pre.name, "dir-nonempty") && !del) {
									r.Count("restore_errors_unexpected_state", 1)
									r.Note("restore error in %s: %v", id, rerr)
								}
								return
							}

							// expectation
							expectSnapshot := true
							switch mode {
							case OverwriteIfNewer:
								if existed && !M.After(preMtime) {
									expectSnapshot = false
								}
							case OverwriteNever:
								if existed {
									expectSnapshot = false
								}
							}
							postFinger := verifC19Finger(fpath)
							if expectSnapshot {
								got, err := os.ReadFile(fpath)
								fi, lerr := os.Lstat(fpath)
								switch {
								case lerr != nil || !fi.Mode().IsRegular() || err != nil:
									r.Outcome("wrong-type|" + modeS)
									r.Violationf(ck, "C19|"+vid, detail, "after successful restore %s is not a readable regular file: %s (lstat err %v, read err %v)", "d/f", postFinger, lerr, err)
								case !bytes.Equal(got, want):
									known := mode == OverwriteIfChanged && strings.HasSuffix(pre.name, "samesize-garbage-samemtime") && verifC19SameBytes(postFinger, preFinger)
									pos := verifC19FirstDiff(got, want)
									detail["got_size"] = len(got)
									detail["first_difference_at"] = pos
									detail["equals_old_content"] = postFinger == preFinger
									if known {
										r.Outcome("known-if-changed-trusts-mtime")
										r.Violationf(ck, "C19|if-changed|same-size-same-mtime-different-content", detail,
											"--overwrite if-changed left a pre-existing file with the snapshot's size and mtime but different content unchanged (documented size+mtime shortcut)")
									} else {
										r.Outcome("wrong-content|" + modeS)
										r.Violationf(ck, "C19|"+vid, detail, "after successful restore (overwrite=%s sparse=%v) d/f has %d bytes, snapshot has %d; first difference at offset %d", modeS, sparse, len(got), len(want), pos)
									}
								default:
									r.Outcome(fmt.Sprintf("snapshot-content|%s|existed=%v", modeS, existed))
								}
							} else {
								if postFinger != preFinger {
									r.Outcome("touched|" + modeS)
									detail["before"], detail["after"] = preFinger, postFinger
									r.Violationf(ck, "C19|"+vid, detail, "overwrite=%s must leave the existing entry (mtime %v, snapshot mtime %v) untouched, but it changed: %s -> %s", modeS, preMtime, M, preFinger, postFinger)
								} else {
									r.Outcome("untouched|" + modeS)
								}
							}
							if got, err := os.ReadFile(filepath.Join(target, "d", "e")); err != nil || !bytes.Equal(got, want) {
								r.Violationf(ck, "C19|twin|"+vid, detail, "after successful restore the twin d/e (intact before the restore) does not have the snapshot content (read error %v)", err)
							}
							if f := verifC19Finger(outside); f != outsideFinger {
								detail["before"], detail["after"] = outsideFinger, f
								r.Violationf(ck, "C19|outside|"+vid, detail, "restore changed the outside hard-link partner / symlink victim: %s -> %s", outsideFinger, f)
							}
							if f := verifC19Finger(filepath.Join(target, "d", "sibling")); f != siblingFinger && !del {
								detail["before"], detail["after"] = siblingFinger, f
								r.Violationf(ck, "C19|sibling|"+vid, detail, "restore without --delete changed an unrelated sibling file: %s -> %s", siblingFinger, f)
							}
							if c.name == "data-hole-data" && pre.name == "longer-garbage-older" && mode == OverwriteAlways {
								r.Sample(map[string]any{"case": id, "result": "snapshot content", "size": len(want)})
							}
						}()
					}
				}
			}
		}
	}
}

// verifC19SameBytes: two file fingerprints describe the same size and content hash.
func verifC19SameBytes(a, b string) bool {
	fa, fb := strings.Split(a, "|"), strings.Split(b, "|")
	return len(fa) == 5 && len(fb) == 5 && fa[0] == "file" && fb[0] == "file" && fa[2] == fb[2] && fa[4] == fb[4]
}

func verifC19Sizes(c verifC19Content) []int {
	var s []int
	for _, p := range c.parts {
		s = append(s, len(p))
	}
	return s
}

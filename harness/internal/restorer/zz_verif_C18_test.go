package restorer

// C18: restore never creates, modifies or deletes anything outside the target
// directory - for forged snapshot trees and adversarial pre-existing target
// contents.
//
// Sandbox (rebuilt for every restore, fixed absolute path per shard):
//   sb/outside/{file, ro (0444), dir/{f, s -> ../file, l -> f, sub/{f, g}}, empty/}
//   sb/mid/{sibling, targetx/f, target/}          target = sb/mid/target
// Forged trees are written straight into an in-memory repository as tree blobs
// (JSON assembled by the harness, so order/duplicate/name validation of the
// tree writer is bypassed), as a client with repository access could.
//
// Space (all enumerated completely):
//   F1 bad names: one node with a name from {x, .., ., "", a/b, x/../../esc,
//      ../esc, ../../outside/esc, ../targetx/f, ..\x, <abs path of a new
//      outside file>, <abs path of the existing outside file>, <abs path of the
//      outside dir>} x type {file, dir{f}, dir{sub{g}}, symlink -> outside
//      dir, symlink -> outside file, second half of a hard-link pair (both
//      orders)} x position {root, inside a valid directory d}
//   F2 type confusion by duplicate names: every sequence of 2 and of 3 nodes
//      that are all called "x", with types from {file, empty dir, dir{f file},
//      dir{f symlink}, dir{sub{g}}, dir{l symlink, s symlink}, symlink -> outside dir
//      (absolute), symlink -> outside dir (relative), symlink -> outside file}
//      (the children are named like entries of sb/outside/dir, so a write that
//      follows a planted symlink hits existing outside entries)
//   F3 valid tree x{f, sub{g}, l -> f, h1 = h2 (hard links)}, top  with one
//      pre-existing entry at every path position x {file, non-empty dir,
//      symlink -> outside dir, symlink -> outside file, dangling symlink}
//   F5 nodes whose "type" and "mode" fields disagree (symlink with plain /
//      setuid / directory mode bits pointing outside; file with symlink /
//      directory / fifo / setuid mode bits) and a file whose content blob does
//      not exist or whose pack is missing (the download fails while the file
//      is restored), over an empty target and over a pre-existing symlink to an
//      outside file / directory at the node's path
//   F4 the valid tree restored partially through the select filter (what
//      --include <one path> gives: ancestors are traversed, not selected) for
//      5 paths x a pre-existing {non-empty dir, symlink -> outside dir / file /
//      nothing / empty outside dir} at every position on the way to the path
//   options: quick {always, always+delete+sparse, never+delete, if-newer,
//      if-changed+delete}; thorough all of delete x overwrite(4) x sparse; in
//      thorough F2 is additionally combined with a pre-existing target/x in
//      {symlink -> outside dir, non-empty dir, file} (triples: symlink only).
// Restore runs with an error handler that records and continues (as
// cmd/restic does).  Errors are fine.
//
// Oracle: a full lstat snapshot (type+mode, uid, gid, size, mtime, ctime,
// nlink, inode, content hash, link target, xattrs) of every path below sb that
// is not below sb/mid/target is identical before and after the restore.
// ctime/mtime of the outside directories make transient create+delete visible.
//
// Deviation from DESIGN: no strace pass (the lstat snapshot incl. ctime covers
// it); pre-existing hard links between target and outside are not used here
// (metadata changes of a shared inode through a path inside the target are
// not "outside"; content is covered by C19).

import (
	"context"
	"crypto/sha256"
	"encoding/json"
	"fmt"
	"os"
	"path/filepath"
	"sort"
	"strings"
	"testing"
	"time"

	"github.com/restic/restic/internal/backend"
	"github.com/restic/restic/internal/data"
	"github.com/restic/restic/internal/repository"
	"github.com/restic/restic/internal/restic"
	"github.com/restic/restic/internal/verifshim/vh"
	"golang.org/x/sys/unix"
)

type verifC18Node struct {
	Name     string
	Kind     string // file | dir | sym (Target) | hl (file with Links=2, Inode 4242) | sym-m (symlink with forged Mode) | file-m (file with forged Mode) | file-noblob (file whose content blob does not exist)
	Target   string
	Children []verifC18Node
	Mode     os.FileMode // sym-m, file-m: the node's "mode" field, independent of its "type"
}

func (n verifC18Node) String() string {
	s := fmt.Sprintf("%q:%s", n.Name, n.Kind)
	if n.Kind == "sym-m" || n.Kind == "file-m" {
		s += fmt.Sprintf("(mode=%v)", n.Mode)
	}
	if n.Kind == "sym-m" {
		s += "->" + n.Target
	}
	if n.Kind == "sym" {
		s += "->" + n.Target
	}
	if n.Kind == "dir" {
		var c []string
		for _, ch := range n.Children {
			c = append(c, ch.String())
		}
		s += "{" + strings.Join(c, ",") + "}"
	}
	return s
}

// verifC18BadBlobs collects the blobs of "file-badpack" nodes of the tree being written.
var verifC18BadBlobs []restic.ID

var verifC18MTime = time.Date(2019, 5, 6, 7, 8, 9, 101112131, time.UTC)

// verifC18SaveTree writes a forged tree blob.
func verifC18SaveTree(ctx context.Context, t testing.TB, up restic.BlobSaver, nodes []verifC18Node, inode *uint64) restic.ID {
	var parts []string
	for _, n := range nodes {
		*inode++
		dn := &data.Node{Name: n.Name, UID: 12345, GID: 12345, ModTime: verifC18MTime, AccessTime: verifC18MTime, ChangeTime: verifC18MTime, Inode: *inode, Links: 1}
		switch n.Kind {
		case "file", "hl":
			content := []byte("FORGED:" + n.Name)
			id, _, _, err := up.SaveBlob(ctx, restic.DataBlob, content, restic.ID{}, false)
			if err != nil {
				t.Fatal(err)
			}
			dn.Type, dn.Mode, dn.Content, dn.Size = data.NodeTypeFile, 0o600, restic.IDs{id}, uint64(len(content))
			if n.Kind == "hl" {
				dn.Inode, dn.Links, dn.DeviceID = 4242, 2, 7
				// hard links must have identical content
				content = []byte("FORGED:hardlink")
				id, _, _, err := up.SaveBlob(ctx, restic.DataBlob, content, restic.ID{}, false)
				if err != nil {
					t.Fatal(err)
				}
				dn.Content, dn.Size = restic.IDs{id}, uint64(len(content))
			}
		case "sym-m":
			dn.Type, dn.Mode, dn.LinkTarget = data.NodeTypeSymlink, n.Mode, n.Target
		case "file-m":
			content := []byte("FORGED:" + n.Name)
			id, _, _, err := up.SaveBlob(ctx, restic.DataBlob, content, restic.ID{}, false)
			if err != nil {
				t.Fatal(err)
			}
			dn.Type, dn.Mode, dn.Content, dn.Size = data.NodeTypeFile, n.Mode, restic.IDs{id}, uint64(len(content))
		case "file-badpack":
			// the blob is indexed, but its pack file will be deleted from the backend (verifC18BadPacks): the
			// download fails while the file is being restored
			content := []byte(fmt.Sprintf("BADPACK:%s:%d", n.Name, *inode))
			id, _, _, err := up.SaveBlob(ctx, restic.DataBlob, content, restic.ID{}, false)
			if err != nil {
				t.Fatal(err)
			}
			verifC18BadBlobs = append(verifC18BadBlobs, id)
			dn.Type, dn.Mode, dn.Content, dn.Size = data.NodeTypeFile, 0o4777, restic.IDs{id}, uint64(len(content))
		case "file-noblob":
			dn.Type, dn.Mode, dn.Content, dn.Size = data.NodeTypeFile, 0o4777, restic.IDs{restic.Hash([]byte("no such blob " + n.Name))}, 17
		case "dir":
			sub := verifC18SaveTree(ctx, t, up, n.Children, inode)
			dn.Type, dn.Mode, dn.Subtree = data.NodeTypeDir, os.ModeDir|0o700, &sub
		case "sym":
			dn.Type, dn.Mode, dn.LinkTarget = data.NodeTypeSymlink, os.ModeSymlink|0o777, n.Target
		default:
			t.Fatalf("bad kind %q", n.Kind)
		}
		b, err := json.Marshal(dn)
		if err != nil {
			t.Fatal(err)
		}
		parts = append(parts, string(b))
	}
	buf := []byte(`{"nodes":[` + strings.Join(parts, ",") + "]}\n")
	id, _, _, err := up.SaveBlob(ctx, restic.TreeBlob, buf, restic.ID{}, false)
	if err != nil {
		t.Fatal(err)
	}
	return id
}

type verifC18Sandbox struct {
	sb, outside, mid, target string
}

func verifC18Must(t testing.TB, err error) {
	if err != nil {
		t.Helper()
		t.Fatalf("fixture: %v", err)
	}
}

func (s verifC18Sandbox) build(t testing.TB) {
	_ = filepath.Walk(s.sb, func(p string, fi os.FileInfo, err error) error {
		if err == nil && fi.IsDir() {
			_ = os.Chmod(p, 0o700)
		}
		return nil
	})
	verifC18Must(t, os.RemoveAll(s.sb))
	old := time.Date(2015, 1, 1, 0, 0, 0, 0, time.UTC)
	for _, d := range []string{s.outside, filepath.Join(s.outside, "dir", "sub"), filepath.Join(s.outside, "empty"), filepath.Join(s.mid, "targetx"), s.target} {
		verifC18Must(t, os.MkdirAll(d, 0o755))
	}
	w := func(p, c string, mode os.FileMode) {
		verifC18Must(t, os.WriteFile(p, []byte(c), 0o644))
		verifC18Must(t, os.Chmod(p, mode))
		verifC18Must(t, os.Chtimes(p, old, old))
	}
	w(filepath.Join(s.outside, "file"), "outside file", 0o644)
	w(filepath.Join(s.outside, "ro"), "outside read-only", 0o444)
	w(filepath.Join(s.outside, "dir", "f"), "outside dir/f", 0o644)
	w(filepath.Join(s.outside, "dir", "sub", "f"), "outside dir/sub/f", 0o644)
	w(filepath.Join(s.outside, "dir", "sub", "g"), "outside dir/sub/g", 0o644)
	w(filepath.Join(s.mid, "sibling"), "sibling of target", 0o644)
	w(filepath.Join(s.mid, "targetx", "f"), "targetx/f", 0o644)
	verifC18Must(t, os.Symlink("../file", filepath.Join(s.outside, "dir", "s")))
	verifC18Must(t, os.Symlink("f", filepath.Join(s.outside, "dir", "l")))
	_ = unix.Lsetxattr(filepath.Join(s.outside, "file"), "user.verif", []byte("keep"), 0)
	for _, d := range []string{filepath.Join(s.outside, "dir", "sub"), filepath.Join(s.outside, "dir"), filepath.Join(s.outside, "empty"), s.outside, filepath.Join(s.mid, "targetx")} {
		verifC18Must(t, os.Chtimes(d, old, old))
	}
}

// snapshot of everything below sb except the target subtree.
func (s verifC18Sandbox) snapshot() map[string]string {
	m := map[string]string{}
	var walk func(p string)
	walk = func(p string) {
		if p == s.target {
			return
		}
		var st unix.Stat_t
		if err := unix.Lstat(p, &st); err != nil {
			m[p] = "lstat-error:" + err.Error()
			return
		}
		desc := fmt.Sprintf("mode=%o uid=%d gid=%d nlink=%d ino=%d mtime=%d.%d ctime=%d.%d", st.Mode, st.Uid, st.Gid, st.Nlink, st.Ino, st.Mtim.Sec, st.Mtim.Nsec, st.Ctim.Sec, st.Ctim.Nsec)
		switch st.Mode & unix.S_IFMT {
		case unix.S_IFREG:
			b, err := os.ReadFile(p)
			desc += fmt.Sprintf(" size=%d sha=%x err=%v", st.Size, sha256.Sum256(b), err)
		case unix.S_IFLNK:
			l, _ := os.Readlink(p)
			desc += " link=" + l
		}
		// xattrs
		buf := make([]byte, 4096)
		if n, err := unix.Llistxattr(p, buf); err == nil && n > 0 {
			names := strings.Split(strings.TrimRight(string(buf[:n]), "\x00"), "\x00")
			sort.Strings(names)
			for _, name := range names {
				v := make([]byte, 4096)
				vn, _ := unix.Lgetxattr(p, name, v)
				if vn < 0 {
					vn = 0
				}
				desc += fmt.Sprintf(" xattr[%s]=%x", name, v[:vn])
			}
		}
		m[p] = desc
		if st.Mode&unix.S_IFMT == unix.S_IFDIR {
			ents, err := os.ReadDir(p)
			if err != nil {
				m[p] += " readdir-error:" + err.Error()
				return
			}
			for _, e := range ents {
				walk(filepath.Join(p, e.Name()))
			}
		}
	}
	walk(s.sb)
	return m
}

func verifC18Diff(before, after map[string]string, sb string) (path, kind, detail string) {
	var keys []string
	for k := range before {
		keys = append(keys, k)
	}
	for k := range after {
		if _, ok := before[k]; !ok {
			keys = append(keys, k)
		}
	}
	sort.Strings(keys)
	for _, k := range keys {
		b, okb := before[k]
		a, oka := after[k]
		rel, _ := filepath.Rel(sb, k)
		switch {
		case !okb:
			return rel, "created", a
		case !oka:
			return rel, "deleted", b
		case a != b:
			// name the attribute classes that changed (ctime only if nothing else did)
			var changed []string
			fb, fa := strings.Fields(b), strings.Fields(a)
			for i := range fb {
				if i < len(fa) && fb[i] != fa[i] {
					if name := strings.SplitN(fb[i], "=", 2)[0]; name != "ctime" {
						changed = append(changed, name)
					}
				}
			}
			if len(changed) == 0 {
				changed = []string{"ctime"}
			}
			return rel, "changed:" + strings.Join(changed, "+"), b + "  =>  " + a
		}
	}
	return "", "", ""
}

type verifC18Pre struct {
	name  string
	apply func(t testing.TB, s verifC18Sandbox)
}

type verifC18Opt struct {
	ow     OverwriteBehavior
	del    bool
	sparse bool
}

func (o verifC18Opt) String() string {
	return fmt.Sprintf("overwrite=%s,delete=%v,sparse=%v", o.ow.String(), o.del, o.sparse)
}

type verifC18Case struct {
	key   string // case key = family + tree
	nodes []verifC18Node
	pres  []verifC18Pre
	only  string // F4: restore only this snapshot path (include filter); "" = everything
}

func verifC18Cases(s verifC18Sandbox, thorough bool) []verifC18Case {
	var cases []verifC18Case
	absDir := filepath.Join(s.outside, "dir")
	absFile := filepath.Join(s.outside, "file")
	noPre := []verifC18Pre{{"none", func(testing.TB, verifC18Sandbox) {}}}
	symPre := func(pos, target string) verifC18Pre {
		return verifC18Pre{"pre:" + pos + "->" + target, func(t testing.TB, sb verifC18Sandbox) {
			p := filepath.Join(sb.target, pos)
			verifC18Must(t, os.MkdirAll(filepath.Dir(p), 0o755))
			verifC18Must(t, os.Symlink(filepath.Join(sb.outside, target), p))
		}}
	}
	filePre := func(pos string) verifC18Pre {
		return verifC18Pre{"pre:" + pos + "=file", func(t testing.TB, sb verifC18Sandbox) {
			p := filepath.Join(sb.target, pos)
			verifC18Must(t, os.MkdirAll(filepath.Dir(p), 0o755))
			verifC18Must(t, os.WriteFile(p, []byte("pre-existing"), 0o644))
		}}
	}
	dirPre := func(pos string) verifC18Pre {
		return verifC18Pre{"pre:" + pos + "=dir", func(t testing.TB, sb verifC18Sandbox) {
			p := filepath.Join(sb.target, pos)
			verifC18Must(t, os.MkdirAll(p, 0o755))
			verifC18Must(t, os.WriteFile(filepath.Join(p, "inner"), []byte("pre-existing inner"), 0o644))
			verifC18Must(t, os.Symlink(filepath.Join(sb.outside, "dir"), filepath.Join(p, "innerlink")))
		}}
	}

	// ---- F1: bad names
	names := []string{"x", "..", ".", "", "a/b", "x/../../esc", "../esc", "../../outside/esc", "../targetx/f", `..\x`,
		filepath.Join(s.outside, "absnew"), absFile, absDir, "../../outside/dir", "../../outside/file", "x/", "./x", "x\x00y"}
	for ni, name := range names {
		types := map[string][]verifC18Node{
			"file":       {{Name: name, Kind: "file"}},
			"dir-f":      {{Name: name, Kind: "dir", Children: []verifC18Node{{Name: "f", Kind: "file"}}}},
			"dir-sub-g":  {{Name: name, Kind: "dir", Children: []verifC18Node{{Name: "sub", Kind: "dir", Children: []verifC18Node{{Name: "g", Kind: "file"}}}}}},
			"sym-absdir": {{Name: name, Kind: "sym", Target: absDir}},
			"sym-file":   {{Name: name, Kind: "sym", Target: absFile}},
			"hl-second":  {{Name: "h0", Kind: "hl"}, {Name: name, Kind: "hl"}},
			"hl-first":   {{Name: name, Kind: "hl"}, {Name: "h0", Kind: "hl"}},
		}
		var tnames []string
		for k := range types {
			tnames = append(tnames, k)
		}
		sort.Strings(tnames)
		for _, tn := range tnames {
			cases = append(cases, verifC18Case{key: fmt.Sprintf("F1|root|name#%d|%s", ni, tn), nodes: types[tn], pres: noPre})
			cases = append(cases, verifC18Case{key: fmt.Sprintf("F1|in-d|name#%d|%s", ni, tn),
				nodes: []verifC18Node{{Name: "d", Kind: "dir", Children: types[tn]}}, pres: noPre})
		}
	}

	// ---- F2: duplicates of "x"
	kinds := []verifC18Node{
		{Name: "x", Kind: "file"},
		{Name: "x", Kind: "dir"},
		{Name: "x", Kind: "dir", Children: []verifC18Node{{Name: "f", Kind: "file"}}},
		{Name: "x", Kind: "dir", Children: []verifC18Node{{Name: "f", Kind: "sym", Target: "planted"}}},
		{Name: "x", Kind: "dir", Children: []verifC18Node{{Name: "sub", Kind: "dir", Children: []verifC18Node{{Name: "g", Kind: "file"}}}}},
		{Name: "x", Kind: "dir", Children: []verifC18Node{{Name: "l", Kind: "sym", Target: "planted"}, {Name: "s", Kind: "sym", Target: "planted"}}},
		{Name: "x", Kind: "sym", Target: absDir},
		{Name: "x", Kind: "sym", Target: "../../outside/dir"},
		{Name: "x", Kind: "sym", Target: absFile},
	}
	f2pres := noPre
	if thorough {
		f2pres = []verifC18Pre{noPre[0], symPre("x", "dir"), dirPre("x"), filePre("x")}
	}
	for i := range kinds {
		for j := range kinds {
			cases = append(cases, verifC18Case{key: fmt.Sprintf("F2|%d,%d", i, j), nodes: []verifC18Node{kinds[i], kinds[j]}, pres: f2pres})
			for k := range kinds {
				// triples: only the symlink pre-state in addition to the empty target (bounds the thorough tier)
				cases = append(cases, verifC18Case{key: fmt.Sprintf("F2|%d,%d,%d", i, j, k), nodes: []verifC18Node{kinds[i], kinds[j], kinds[k]}, pres: f2pres[:min(2, len(f2pres))]})
			}
		}
	}

	// ---- F3: valid tree, adversarial pre-existing target
	valid := []verifC18Node{
		{Name: "top", Kind: "file"},
		{Name: "x", Kind: "dir", Children: []verifC18Node{
			{Name: "f", Kind: "file"},
			{Name: "h1", Kind: "hl"},
			{Name: "h2", Kind: "hl"},
			{Name: "l", Kind: "sym", Target: "f"},
			{Name: "sub", Kind: "dir", Children: []verifC18Node{{Name: "g", Kind: "file"}}},
		}},
	}
	for _, pos := range []string{"top", "x", "x/f", "x/h1", "x/h2", "x/l", "x/sub", "x/sub/g"} {
		pres := []verifC18Pre{filePre(pos), dirPre(pos), symPre(pos, "dir"), symPre(pos, "file"), symPre(pos, "ro"), symPre(pos, "nonexistent"), symPre(pos, "empty")}
		cases = append(cases, verifC18Case{key: "F3|" + pos, nodes: valid, pres: pres})
	}
	// ---- F5: "type" and "mode" of a node disagree (they are independent JSON fields), and a file whose content
	// blob does not exist (its restore fails, the error handler continues) - each over an empty target and
	// over a pre-existing symlink to an outside file / directory at the node's path
	for _, mode := range []os.FileMode{0o777, os.ModeSetuid | 0o755, os.ModeDir | 0o700, os.ModeSymlink | 0o777} {
		for _, target := range []string{absDir, absFile, "../../outside/ro"} {
			n := verifC18Node{Name: "x", Kind: "sym-m", Target: target, Mode: mode}
			cases = append(cases, verifC18Case{key: fmt.Sprintf("F5|sym-m|%v|%s", mode, filepath.Base(target)), nodes: []verifC18Node{n}, pres: noPre})
			cases = append(cases, verifC18Case{key: fmt.Sprintf("F5|sym-m-in-dir|%v|%s", mode, filepath.Base(target)), nodes: []verifC18Node{{Name: "d", Kind: "dir", Children: []verifC18Node{n}}}, pres: noPre})
		}
	}
	for _, mode := range []os.FileMode{os.ModeSymlink | 0o777, os.ModeDir | 0o755, os.ModeNamedPipe | 0o644, os.ModeSetuid | os.ModeSetgid | 0o777} {
		n := verifC18Node{Name: "x", Kind: "file-m", Mode: mode}
		cases = append(cases, verifC18Case{key: fmt.Sprintf("F5|file-m|%v", mode), nodes: []verifC18Node{n}, pres: []verifC18Pre{noPre[0], symPre("x", "dir"), symPre("x", "file"), symPre("x", "ro")}})
	}
	cases = append(cases, verifC18Case{key: "F5|file-noblob", nodes: []verifC18Node{{Name: "x", Kind: "file-noblob"}, {Name: "y", Kind: "file"}},
		pres: []verifC18Pre{noPre[0], symPre("x", "dir"), symPre("x", "file"), symPre("x", "ro"), symPre("x", "empty"), dirPre("x")}})
	cases = append(cases, verifC18Case{key: "F5|file-noblob-in-dir", nodes: []verifC18Node{{Name: "d", Kind: "dir", Children: []verifC18Node{{Name: "x", Kind: "file-noblob"}}}},
		pres: []verifC18Pre{noPre[0], symPre("d/x", "dir"), symPre("d/x", "file"), symPre("d", "dir")}})

	cases = append(cases, verifC18Case{key: "F5|file-badpack", nodes: []verifC18Node{{Name: "x", Kind: "file-badpack"}, {Name: "y", Kind: "file"}},
		pres: []verifC18Pre{noPre[0], symPre("x", "dir"), symPre("x", "file"), symPre("x", "ro"), symPre("x", "empty"), filePre("x"), dirPre("x")}})
	cases = append(cases, verifC18Case{key: "F5|file-badpack-in-dir", nodes: []verifC18Node{{Name: "d", Kind: "dir", Children: []verifC18Node{{Name: "x", Kind: "file-badpack"}}}},
		pres: []verifC18Pre{noPre[0], symPre("d/x", "dir"), symPre("d/x", "file"), symPre("d", "dir")}})

	// ---- F4: the valid tree restored partially (include filter selecting one path: its ancestors are
	// traversed but not selected), pre-existing entries at every position on the way
	for _, only := range []string{"/x/sub/g", "/x/f", "/x/sub", "/x/l", "/x/h2"} {
		parts := strings.Split(strings.TrimPrefix(only, "/"), "/")
		for i := 1; i <= len(parts); i++ {
			pos := strings.Join(parts[:i], "/")
			pres := []verifC18Pre{dirPre(pos), symPre(pos, "dir"), symPre(pos, "file"), symPre(pos, "nonexistent"), symPre(pos, "empty")}
			cases = append(cases, verifC18Case{key: "F4|only=" + only + "|" + pos, nodes: valid, pres: pres, only: only})
		}
	}
	return cases
}

func TestVerif_C18(t *testing.T) {
	r := vh.Start(t, "C18")
	defer r.Finish()
	r.Rule("forged trees: F1 every (bad name x node type x position), F2 every sequence of 2 and 3 nodes named x over 9 node shapes, F3 a valid tree x every (path position x pre-existing entry kind), F5 type/mode mismatches and files with missing content blobs, F4 the same tree restored partially (select filter for one path) x pre-existing entry at every ancestor position; each x option set; one real RestoreTo per element; non-trivial = the tree contains a name the restorer must reject, a duplicate name, or the target contains a pre-existing entry at a restored path")
	r.Assume("restore runs as root", "the restore error handler records and continues, as cmd/restic's does", "pre-existing hard links between target and outside are excluded (shared inode)")

	ctx := context.Background()
	repo, _, be := repository.TestRepositoryWithVersion(t, 0)
	s := verifC18Sandbox{sb: filepath.Join(r.Scratch, "sb")}
	s.outside, s.mid = filepath.Join(s.sb, "outside"), filepath.Join(s.sb, "mid")
	s.target = filepath.Join(s.mid, "target")

	var opts []verifC18Opt
	if r.Thorough() {
		for _, ow := range []OverwriteBehavior{OverwriteAlways, OverwriteIfChanged, OverwriteIfNewer, OverwriteNever} {
			for _, del := range []bool{false, true} {
				for _, sp := range []bool{false, true} {
					opts = append(opts, verifC18Opt{ow, del, sp})
				}
			}
		}
	} else {
		opts = []verifC18Opt{{OverwriteAlways, false, false}, {OverwriteAlways, true, true}, {OverwriteNever, true, false}, {OverwriteIfNewer, false, false}, {OverwriteIfChanged, true, false}}
	}

	reported := map[string]int{}
	caseNo := 0
	for _, c := range verifC18Cases(s, r.Thorough()) {
		if !r.Case(c.key) {
			continue
		}
		if r.Expired() {
			return
		}
		var treeID restic.ID
		inode := uint64(1000) + uint64(caseNo)*1000
		caseNo++
		verifC18BadBlobs = nil
		if err := repo.WithBlobUploader(ctx, func(ctx context.Context, up restic.BlobSaverWithAsync) error {
			treeID = verifC18SaveTree(ctx, t, up, c.nodes, &inode)
			return nil
		}); err != nil {
			t.Fatal(err)
		}
		for _, id := range verifC18BadBlobs {
			for _, pb := range repo.LookupBlob(restic.BlobHandle{Type: restic.DataBlob, ID: id}) {
				if err := be.Remove(ctx, backend.Handle{Type: backend.PackFile, Name: pb.PackID().String()}); err != nil {
					t.Fatalf("fixture: cannot remove pack of a file-badpack blob: %v", err)
				}
			}
		}
		sn, err := data.NewSnapshot([]string{"forged"}, nil, "", verifC18MTime)
		if err != nil {
			t.Fatal(err)
		}
		sn.Tree = &treeID
		var treeDesc []string
		for _, n := range c.nodes {
			treeDesc = append(treeDesc, n.String())
		}
		tdesc := strings.ReplaceAll(strings.Join(treeDesc, " "), s.sb, "<sb>")
		family := strings.SplitN(c.key, "|", 2)[0]

		for _, pre := range c.pres {
			for _, opt := range opts {
				s.build(t)
				pre.apply(t, s)
				before := s.snapshot()
				res := NewRestorer(repo, sn, Options{Overwrite: opt.ow, Delete: opt.del, Sparse: opt.sparse})
				if c.only != "" {
					// what cmd/restic's --include selection returns for a single absolute path pattern
					only := c.only
					res.SelectFilter = func(item string, isDir bool) (selectedForRestore bool, childMayBeSelected bool) {
						selectedForRestore = item == only || strings.HasPrefix(item, only+"/")
						childMayBeSelected = isDir && (selectedForRestore || strings.HasPrefix(only, item+"/") || item == "/")
						return selectedForRestore, childMayBeSelected
					}
				}
				nerr := 0
				var firstErr string
				res.Error = func(location string, err error) error {
					if nerr == 0 {
						firstErr = location + ": " + err.Error()
					}
					nerr++
					return nil
				}
				var rerr error
				panicked, pmsg := vh.NoPanic(func() { _, rerr = res.RestoreTo(ctx, s.target) })
				after := s.snapshot()
				r.Eval(1)
				r.Trace(1)
				r.NontrivialByConstruction(1)
				detail := map[string]any{"tree": tdesc, "pre": pre.name, "options": opt.String(), "restore_error": fmt.Sprint(rerr), "errors_reported": nerr, "first_error": strings.ReplaceAll(firstErr, s.sb, "<sb>"),
					"layout": "target=<sb>/mid/target; outside=<sb>/outside{file,ro,dir/{f,s,l,sub/{f,g}},empty}; <sb>/mid/{sibling,targetx/f}"}
				r.Sample(detail)
				if panicked {
					r.Violationf(c.key, "C18|panic|"+c.key, detail, "RestoreTo panicked on a forged tree: %s", pmsg)
					continue
				}
				path, kind, what := verifC18Diff(before, after, s.sb)
				if path == "" {
					switch {
					case rerr != nil:
						r.Outcome(family + "|clean|restore-error")
					case nerr > 0:
						r.Outcome(family + "|clean|errors-reported")
					default:
						r.Outcome(family + "|clean|no-error")
					}
					continue
				}
				r.Outcome(family + "|outside-" + kind)
				detail["changed_path"], detail["change"] = path, strings.ReplaceAll(what, s.sb, "<sb>")
				// one key per (family, effect); the first few trees showing it are reported individually
				eff := fmt.Sprintf("%s|%s:%s", family, path, kind)
				reported[eff]++
				r.Count("outside_changes", 1)
				key := "C18|" + eff
				if reported[eff] > 1 {
					continue
				}
				r.Violationf(c.key, key, detail, "restore changed a path outside the target: %s %s (tree %s, pre %s, %s)", path, kind, tdesc, pre.name, opt.String())
			}
		}
	}
	_ = os.RemoveAll(s.sb)
}

package repository_test

// C31: upgrading a repository to format v2 preserves all data — at every crash
// point and under failing backend operations.
//
// Engine GATE (crashx) on the real repository.UpgradeRepo, on a v1 repository
// with two snapshots, for backends with and without atomic replace.  Explored:
// every pair (quick) / every triple (thorough) of injected failures among the
// backend operations of the upgrade (Load config, Remove config, Save config:
// failing before the write, or after the write took effect; a Load may also be
// interrupted half-way and repeated, as the retry layer does), every scheduler
// step as a crash state.
//
// State oracle: the repository opens with the old or the new config and passes
// the RepoOracle (check --read-data, both snapshots byte-identical).
// End oracle: whenever UpgradeRepo has *returned* (success or error) the
// repository still opens and passes the oracle; after success version == 2.

import (
	"context"
	"fmt"
	"testing"
	"time"

	"github.com/restic/restic/internal/repository"
	"github.com/restic/restic/internal/verifshim/crashx"
	"github.com/restic/restic/internal/verifshim/gatebe"
	"github.com/restic/restic/internal/verifshim/oracle"
	"github.com/restic/restic/internal/verifshim/vh"
	"github.com/restic/restic/internal/verifshim/xplore"
)

func TestVerif_C31(t *testing.T) {
	r := vh.Start(t, "C31")
	defer r.Finish()
	r.Rule("GATE: the real UpgradeRepo on a gated backend, HasAtomicReplace in {true,false}; all failure assignments within the deviation bound over its backend operations (err = no effect, err-after = effect + error); crash states = every scheduler step + in-flight subsets. non-trivial = state differing from the v1 state (config removed or replaced).")
	r.Assume("backend Save/Remove are atomic per file (C36)")
	ctx := context.Background()
	oracle.LowKDF()
	repo, store, err := oracle.NewRepo(ctx, 1, repository.Options{})
	if err != nil {
		t.Fatal(err)
	}
	expect := oracle.Expect{}
	for i, spec := range []oracle.Spec{{"a": oracle.LCG(41, 2000), "d/b": oracle.LCG(42, 3000)}, {"a": oracle.LCG(41, 2000), "c": oracle.LCG(43, 1000)}} {
		id, model, err := oracle.Forge(ctx, repo, spec, oracle.ForgeOpts{Time: time.Date(2020, 5, 5, 5, 5, i, 0, time.UTC)})
		if err != nil {
			t.Fatal(err)
		}
		expect[id] = model
	}
	base := store.Snapshot()
	if p := oracle.Verify(ctx, base, oracle.Password, expect, oracle.VerifyOpts{ReadData: true}); len(p) > 0 {
		r.Violation("", "C31|fixture-inconsistent", fmt.Sprintf("a v1 repository written by restic itself does not pass the oracle: %v", p), nil)
		return
	}
	bound := vh.Pick(r, 2, 3)
	seen := map[string]bool{}
	for _, atomic := range []bool{true, false} {
		atomic := atomic
		name := fmt.Sprintf("upgrade/atomic-replace=%v", atomic)
		stateOK := func(ctx context.Context, st gatebe.State, wantV2 bool) []string {
			probs := oracle.Verify(ctx, st, oracle.Password, expect, oracle.VerifyOpts{ReadData: true})
			if len(probs) == 0 && wantV2 {
				rp, _, err := oracle.Open(ctx, st, oracle.Password)
				if err != nil {
					return []string{"open: " + err.Error()}
				}
				if rp.Config().Version != 2 {
					probs = append(probs, fmt.Sprintf("config: upgrade reported success but the repository version is %d", rp.Config().Version))
				}
			}
			return probs
		}
		sc := crashx.Scenario{
			Property: "C31", Name: name, Base: base,
			Backend: func(be *gatebe.Backend) {
				be.AtomicReplace = atomic
				be.Alts = func(op *gatebe.Op) []string {
					if op.Kind == "Save" || op.Kind == "Remove" {
						return []string{"ok", "err", "err-after"}
					}
					if op.Kind == "Load" {
						// "retried": the transfer breaks off half-way, the consumer is called again with the complete data
						return []string{"ok", "err", "retried"}
					}
					return []string{"ok", "err"}
				}
			},
			Prepare: func(ctx context.Context, run *crashx.Run, be *gatebe.Backend) (any, error) {
				return oracle.OpenOn(ctx, be, repository.Options{})
			},
			Op: func(ctx context.Context, run *crashx.Run, prepared any) error {
				return repository.UpgradeRepo(ctx, prepared.(*repository.Repository))
			},
			NoFaultFailureIsViolation: true,
			StateOracle: func(ctx context.Context, c crashx.Crash) []string {
				return stateOK(ctx, c.State, false)
			},
			EndOracle: func(ctx context.Context, run *crashx.Run) []string {
				if !run.Done {
					return nil
				}
				// a single failure must be survivable: the contingency path re-uploads the old config.
				// With two injected failures (thorough) the contingency itself may have been hit; then
				// only the crash-state oracle applies.
				faults := 0
				for _, k := range run.X.Trace {
					if len(k) > 3 && (k[len(k)-4:] == "=err" || (len(k) > 9 && k[len(k)-10:] == "=err-after")) {
						faults++
					}
				}
				if faults > 1 {
					return nil
				}
				return stateOK(ctx, run.Store.Snapshot(), run.Err == nil)
			},
		}
		crashx.Explore(r, t, sc, bound, seen)
	}
	r.Extra("deviation_bound", bound)
}

// TestVerifRace_C31 runs every scenario body free (gates answer at once, no oracle) under the race detector.
func TestVerifRace_C31(t *testing.T) {
	xplore.Free = 2
	defer func() { xplore.Free = 0 }()
	TestVerif_C31(t)
}

package repository_test

// C13: lock holders stop before their lock can be considered stale; refreshing
// never leaves a moment without a lock file; the lock is removed at the end.
//
// Engine GATE with virtual time: one holder runs the real LockRepo with the
// production intervals (refresh every 5 min, refreshability timeout 22.5 min,
// stale after 30 min), holds for 75 virtual minutes and unlocks.  Every
// lock-file backend operation of the holder (Save of the replacement lock,
// Remove of the old one, List/Load of the stale-refresh path) is a gate whose
// answer is chosen from {ok, err}; "time passes" while an operation is pending
// (a stalled operation, 4 or 10 minutes per step); the backend becomes unreachable / reachable again
// (every operation fails meanwhile); a foreign process removes
// the holder's current lock file at any point (scenario action).  All
// combinations within the deviation bound.
//
// Monitor at every scheduler step, while the holder believes it holds the lock
// (LockRepo returned, its context not cancelled, Unlock not yet called):
//   - a lock file of the holder exists whose timestamp is younger than the
//     30-minute staleness limit — i.e. nobody else would judge the lock stale;
//   - without a foreign removal there is never a moment with zero lock files;
//     after a foreign removal the gap closes (new file or cancelled context)
//     within the refreshability timeout (22.5 min) plus one refresh interval
//     plus the explored stall.
// At the end: no lock file of the holder remains unless its removal was made to
// fail; no deadlock.

import (
	"context"
	"fmt"
	"os"
	"strings"
	"testing"
	"time"

	"github.com/restic/restic/internal/backend"
	"github.com/restic/restic/internal/backend/sema"
	"github.com/restic/restic/internal/repository"
	"github.com/restic/restic/internal/restic"
	"github.com/restic/restic/internal/verifshim/gatebe"
	"github.com/restic/restic/internal/verifshim/oracle"
	"github.com/restic/restic/internal/verifshim/vh"
	"github.com/restic/restic/internal/verifshim/vx"
	"github.com/restic/restic/internal/verifshim/xplore"
)

type verifC13Exec struct {
	store        *gatebe.Store
	reader       *repository.Repository // ungated view for the monitor
	lockCtx      context.Context
	holding      bool
	returned     bool
	lockErr      error
	foreign      int
	foreignAt    time.Time
	gapSince     time.Time
	bad          []string
	removeFailed bool
	faults       int
	minAgeMargin time.Duration
	cancelled    bool
	maxAge       time.Duration
	down         bool
	downs        int
	// finish variant
	lockedAt time.Time
	finishCh chan struct{}
	finished bool
	// traffic variant
	lockWritesFail bool
	lwfUsed        bool
	lost           bool // the holder has logged that its stale lock could not be refreshed
	uploads        int
	lostArrivalMin int       // oldest lock age (minutes) at which an upload reached the storage after the holder found its lock lost
	newestLock     time.Time // creation time of the newest lock file in the store (kept by the monitor)
	lateArrivals   []string  // uploads handed to the storage with an already cancelled context
	staleUploads   []string  // uploads the holder issued to the storage while its newest lock file was older than the staleness limit
}

const (
	verifC13Stale   = 30 * time.Minute
	verifC13Refresh = 5 * time.Minute
)

func TestVerif_C13(t *testing.T) {
	r := vh.Start(t, "C13")
	defer r.Finish()
	r.Rule("GATE with virtual time: one holder (real LockRepo, production intervals) over 75 virtual minutes; every lock-file operation answers ok/err, may stall (time passes while it is pending, 4 or 10 minutes per step), and a foreign removal of the current lock file may happen once at any step; all combinations within the deviation bound. non-trivial = execution with at least one fault, stall or foreign removal in which the holder still refreshed at least once. states = distinct schedules.")
	r.Assume("wall clock = monotonic clock (host standby is not modelled)", "one clock", "an unreachable backend fails every operation immediately", "only the holder writes lock files, except for the modelled foreign removal")
	ctx := context.Background()
	oracle.LowKDF()
	_, store0, err := oracle.NewRepo(ctx, 2, repository.Options{})
	if err != nil {
		t.Fatal(err)
	}
	base := store0.Snapshot()
	bound := vh.Pick(r, 2, 3)
	type variant struct {
		quantum time.Duration
		traffic bool
		finish  bool
	}
	for _, v := range []variant{{4 * time.Minute, false, false}, {10 * time.Minute, false, false}, {4 * time.Minute, true, false}, {4 * time.Minute, false, true}} {
		quantum, traffic, finish := v.quantum, v.traffic, v.finish
		name := fmt.Sprintf("holder/stall=%v", quantum)
		if finish {
			// the command may end at ANY step (action "holder-finishes"), in particular in the middle of a
			// forced refresh of its stale lock: scripted environment - lock files cannot be written from
			// minute 1 to minute 22 after the lock was taken, so the expiry monitor forces the stale-lock
			// refresh at 22.5 min, which then succeeds unless the holder finishes meanwhile
			name = "holder-finishes-any-time"
		}
		if traffic {
			// the holder also uploads data through the connection-limiting (freezable) backend layer: no upload
			// may be issued to the storage once the holder's newest lock file can be judged stale
			name = "holder+uploads"
		}
		sc := xplore.Scenario{
			Start: func(x *xplore.Exec) {
				st := &verifC13Exec{store: gatebe.NewStoreFrom(base, nil), minAgeMargin: time.Hour, finishCh: make(chan struct{})}
				x.Data = st
				armed := false
				be := &gatebe.Backend{S: st.store, Proc: "H", Conns: 2, AtomicReplace: true,
					X: func() *xplore.Exec {
						if armed {
							return x
						}
						return nil
					},
					Filter: func(op *gatebe.Op) bool {
						if traffic && op.Key.Type == backend.PackFile && op.Kind == "Save" && op.DeadOnArrival {
							// the request was handed to the storage with a context that was already cancelled (a
							// storage that does not look at the context - local, mem - would still write): the
							// holder issued a modification after it had been told to stop
							st.lateArrivals = append(st.lateArrivals, fmt.Sprintf("%s at %s", op.Key.String(), time.Now().Format("15:04:05")))
						}
						if traffic && op.Key.Type == backend.PackFile && op.Kind == "Save" && !st.newestLock.IsZero() && st.foreign == 0 && st.holding && st.lockCtx != nil && st.lockCtx.Err() == nil {
							// (after a foreign removal the newest file may be an orphan of an earlier failed Remove; that case is judged by the gap rule of the monitor)
							// the request has passed the connection limiter and reaches the storage now
							if st.lost {
								if m := int(time.Since(st.newestLock) / time.Minute); m > st.lostArrivalMin {
									st.lostArrivalMin = m
								}
							}
							if age := time.Since(st.newestLock); age >= verifC13Stale {
								st.staleUploads = append(st.staleUploads, fmt.Sprintf("%s at %s (newest lock file %v old)", op.Key.String(), time.Now().Format("15:04:05"), age.Round(time.Second)))
							}
						}
						return op.Key.Type == backend.LockFile || (traffic && op.Key.Type == backend.PackFile && st.lwfUsed)
					},
					Alts: func(op *gatebe.Op) []string {
						if finish && op.Kind == "Save" && op.Key.Type == backend.LockFile && !st.lockedAt.IsZero() {
							if d := time.Since(st.lockedAt); d > time.Minute && d < 22*time.Minute {
								return []string{"err"}
							}
						}
						if st.down || (st.lockWritesFail && op.Kind == "Save" && op.Key.Type == backend.LockFile) {
							return []string{"err"} // the backend is unreachable / the locks directory is not writable
						}
						if op.Key.Type == backend.PackFile {
							return []string{"ok"}
						}
						return []string{"ok", "err"}
					},
				}
				be.Observe = func(op *gatebe.Op, ans string, err error) {
					if op.Key.Type == backend.PackFile && op.Kind == "Save" {
						if ans == "ok" && err == nil {
							st.uploads++
						}
						return
					}
					if op.Kind == "Remove" && ans == "cancelled" && !op.DeadOnArrival {
						st.removeFailed = true // stalled beyond the 1-minute grace period of unlock and given up
					}
					// (a Remove that restic itself issues with an already cancelled context is restic's doing,
					// not the environment's: a lock file it leaves behind is a leftover)
					if ans == "err" {
						if !st.down {
							st.faults++
						}
						if op.Kind == "Remove" {
							st.removeFailed = true
						}
					}
				}
				var top backend.Backend = be
				if traffic {
					top = sema.NewBackend(be) // the real connection limiter: implements Freeze/Unfreeze
				}
				repo, err := oracle.OpenOn(x.Ctx, top, repository.Options{})
				if err != nil {
					t.Fatalf("open: %v", err)
				}
				rbe := &gatebe.Backend{S: st.store, Proc: "monitor", Conns: 2, AtomicReplace: true}
				st.reader, err = oracle.OpenOn(x.Ctx, rbe, repository.Options{})
				if err != nil {
					t.Fatalf("open: %v", err)
				}
				x.Go("H", func() {
					// acquisition is C12's subject: not gated here
					logger := func(format string, _ ...any) {
						if traffic && strings.Contains(format, "failed to refresh stale lock") {
							// restic tells the user that the lock is lost; printing may be slow: a scheduling point
							st.lost = true
							x.Gate(xplore.Event{Key: "H:prints-lock-lost", Proc: "H", Kind: "log", Yield: true})
						}
					}
					unlock, lctx, err := repository.LockRepo(x.Ctx, repo, false, 0, func(string) {}, logger)
					st.lockErr, st.returned = err, true
					if err != nil {
						return
					}
					st.lockCtx, st.holding = lctx, true
					st.lockedAt = time.Now()
					armed = true
					if traffic {
						x.Go("W", func() {
							for i := 0; ; i++ {
								select {
								case <-lctx.Done():
									return
								case <-time.After(113 * time.Second): // never coincides with a refresh tick, the expiry monitor or the horizon
								}
								data := oracle.LCG(uint64(7000+i), 200)
								name := restic.Hash(data).String()
								_ = top.Save(lctx, backend.Handle{Type: backend.PackFile, Name: name}, backend.NewByteReader(data, top.Hasher()))
							}
						})
					}
					// work for 75 minutes or until the lock is lost
					select {
					case <-time.After(verifC13Horizon(traffic || finish)):
					case <-lctx.Done():
						st.cancelled = true
					case <-st.finishCh:
					}
					st.holding = false
					unlock()
				})
			},
			Actions: func(x *xplore.Exec) []xplore.Action {
				st := x.Data.(*verifC13Exec)
				if !st.holding {
					return nil
				}
				var acts []xplore.Action
				if finish {
					if !st.finished {
						acts = append(acts, xplore.Action{Name: "holder-finishes", Do: func(x *xplore.Exec) { st.finished = true; close(st.finishCh) }})
					}
					return acts
				}
				if traffic && !st.lwfUsed {
					acts = append(acts, xplore.Action{Name: "lock-writes-start-failing", Do: func(x *xplore.Exec) { st.lockWritesFail, st.lwfUsed = true, true; st.faults++ }})
				}
				if !traffic && !st.down && st.downs == 0 {
					acts = append(acts, xplore.Action{Name: "backend-down", Do: func(x *xplore.Exec) { st.down = true; st.downs++; st.faults++ }})
				}
				if st.down {
					acts = append(acts, xplore.Action{Name: "backend-up", Do: func(x *xplore.Exec) { st.down = false }})
				}
				if st.foreign > 0 || len(st.store.Keys(backend.LockFile)) == 0 {
					return acts
				}
				return append(acts, xplore.Action{Name: "foreign-remove-lock", Do: func(x *xplore.Exec) {
					// the file the holder currently considers its lock is the newest one
					keys := st.store.Keys(backend.LockFile)
					newest, newestT := keys[0], time.Time{}
					for _, k := range keys {
						if l, err := verifC13Load(x.Ctx, st, k); err == nil && l.Time.After(newestT) {
							newest, newestT = k, l.Time
						}
					}
					st.store.Del("foreign", newest)
					st.foreign++
					st.foreignAt = time.Now()
				}})
			},
			OnStep: func(x *xplore.Exec) { verifC13Monitor(x, quantum) },
			OnEnd:  func(x *xplore.Exec) { verifC13Monitor(x, quantum) },
		}
		check := func(x *xplore.Exec) {
			st := x.Data.(*verifC13Exec)
			key := strings.Join(x.Trace, ">")
			r.State(key)
			refreshed := 0
			stalls := x.Stalls // "time passes" steps taken while backend operations were pending
			for _, k := range x.Trace {
				if strings.HasPrefix(k, "H:Save:lock") && strings.HasSuffix(k, "=ok") {
					refreshed++
				}
			}
			if (st.faults > 0 || stalls > 0 || st.foreign > 0) && refreshed > 0 {
				r.Nontrivial(key)
			}
			r.Outcome(fmt.Sprintf("cancelled=%v faults=%d foreign=%d", st.cancelled, st.faults, st.foreign))
			if len(x.Panics) > 0 {
				st.bad = append(st.bad, "panic: "+x.Panics[0])
			}
			if x.Deadlock {
				st.bad = append(st.bad, "deadlock: holder blocked forever")
			}
			if st.returned && st.lockErr != nil {
				st.bad = append(st.bad, fmt.Sprintf("lock: LockRepo failed on an unlocked repository: %v", st.lockErr))
			}
			if !x.Deadlock && !x.Horizon && len(x.Panics) == 0 && !st.removeFailed {
				if n := len(st.store.Keys(backend.LockFile)); n > 0 {
					var names []string
					for _, k := range st.store.Keys(backend.LockFile) {
						names = append(names, k.String())
					}
					st.bad = append(st.bad, fmt.Sprintf("leftover: %d lock file(s) of the holder remain after Unlock although no removal was made to fail: %v (deadlock=%v horizon=%v idlewaits=%d steps=%d)", n, names, x.Deadlock, x.Horizon, x.IdleWaits, x.StepNo))
				}
			}
			if traffic && st.lost {
				r.Outcome(fmt.Sprintf("holder+uploads: lock lost; upload reached the storage after that with lock age >= %d min", st.lostArrivalMin))
			}
			if len(st.lateArrivals) > 0 {
				st.bad = append([]string{fmt.Sprintf("late-arrival: %d upload(s) were handed to the storage after the holder's context had been cancelled (held back by the frozen backend or the connection limiter and let through afterwards): %v", len(st.lateArrivals), st.lateArrivals)}, st.bad...)
			}
			if len(st.staleUploads) > 0 {
				st.bad = append([]string{fmt.Sprintf("stale-upload: the holder issued %d upload(s) to the storage while every other process judges its lock stale: %v", len(st.staleUploads), st.staleUploads)}, st.bad...)
			}
			if len(st.bad) > 0 {
				kind := strings.SplitN(st.bad[0], ":", 2)[0]
				key := "C13|" + kind + "|" + name
				if (kind == "stale" || kind == "stale-upload") && time.Duration(stalls)*quantum > 15*time.Minute/2 {
					// operations were stalled for longer than the 7.5-minute margin between the
					// refreshability timeout and the staleness limit: a separate, recorded finding
					key = "C13|stale|operations-stalled-beyond-7.5min-margin"
				}
				vx.Violation(r, name, x, key, strings.Join(st.bad, "\n"), nil)
			}
			if refreshed > 2 && (st.faults > 0 || st.foreign > 0) {
				n := len(x.Labels)
				if n > 14 {
					n = 14
				}
				r.Sample(map[string]any{"scenario": name, "events": x.Labels[:n], "cancelled": st.cancelled, "oldest_lock_age_seen": st.maxAge.String()})
			}
		}
		stt := vx.Explore(r, t, name, sc, xplore.Options{Policy: xplore.FIFO, Bound: bound, MaxSteps: 300, TimeAction: true, TimeQuantum: quantum, IdleTimeout: 3 * time.Hour}, check)
		r.Note("%s: execs(this shard)=%d", name, stt.Execs)
	}
	r.Extra("deviation_bound", bound)
}

func verifC13Horizon(traffic bool) time.Duration {
	if traffic {
		return 40 * time.Minute
	}
	return 75 * time.Minute
}

func verifC13Load(ctx context.Context, st *verifC13Exec, k gatebe.FileKey) (repository.Lock, error) {
	id, err := restic.ParseID(k.Name)
	if err != nil {
		return repository.Lock{}, err
	}
	return repository.LoadLock(ctx, st.reader, id)
}

func verifC13Monitor(x *xplore.Exec, quantum time.Duration) {
	st := x.Data.(*verifC13Exec)
	if os.Getenv("VERIF_DEBUG") != "" {
		var ev []string
		for _, e := range x.Pending() {
			ev = append(ev, e.Key)
		}
		fmt.Fprintf(os.Stderr, "DBG step=%d t=%s holding=%v ctxerr=%v live=%d pending=%v locks=%d\n", x.StepNo, time.Now().Format("15:04:05"), st.holding, st.lockCtx != nil && st.lockCtx.Err() != nil, x.Live(), ev, len(st.store.Keys(backend.LockFile)))
	}
	if !st.holding || st.lockCtx == nil || st.lockCtx.Err() != nil {
		st.gapSince = time.Time{}
		return
	}
	now := time.Now()
	keys := st.store.Keys(backend.LockFile)
	youngest := time.Duration(-1)
	for _, k := range keys {
		l, err := verifC13Load(x.Ctx, st, k)
		if err != nil {
			continue
		}
		age := now.Sub(l.Time)
		if youngest < 0 || age < youngest {
			youngest = age
		}
	}
	if youngest >= 0 {
		st.newestLock = now.Add(-youngest)
	} else {
		st.newestLock = time.Time{}
	}
	if youngest >= 0 && youngest > st.maxAge {
		st.maxAge = youngest
	}
	fresh := youngest >= 0 && youngest < verifC13Stale
	if fresh {
		st.gapSince = time.Time{}
		return
	}
	if st.gapSince.IsZero() {
		st.gapSince = now
	}
	msg := ""
	switch {
	case st.foreign > 0:
		// after a foreign removal "no fresh lock file" is a gap that must close in bounded time
		if now.Sub(st.gapSince) > 45*time.Minute/2+verifC13Refresh+2*quantum+time.Minute {
			msg = fmt.Sprintf("gap: the lock file was removed by another process at %s; %v later the holder has neither a fresh lock file nor a cancelled context", st.foreignAt.Format("15:04:05"), now.Sub(st.gapSince).Round(time.Second))
		}
	case len(keys) == 0:
		msg = fmt.Sprintf("nolock: at virtual %s the holder believes it holds the lock (context alive) but no lock file exists, and nobody else removed one", now.Format("15:04:05"))
	case len(keys) > 0 && youngest >= verifC13Stale:
		msg = fmt.Sprintf("stale: at virtual %s the holder still believes it holds the lock (context alive) but its newest lock file is %v old: every other process judges it stale", now.Format("15:04:05"), youngest.Round(time.Second))
	}
	if msg != "" && len(st.bad) == 0 {
		st.bad = append(st.bad, msg)
	}
}

// TestVerifRace_C13 runs every scenario body free (gates answer at once, no oracle) under the race detector.
func TestVerifRace_C13(t *testing.T) {
	xplore.Free = 2
	defer func() { xplore.Free = 0 }()
	TestVerif_C13(t)
}

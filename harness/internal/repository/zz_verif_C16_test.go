package repository_test

// C16: identical content is stored once per repository.
//
// Part A (engine FINE+GATE): 2–3 saver goroutines inside one real
// WithBlobUploader each save 1–2 blobs drawn from {X, X, Y, Z} where Z is
// already in the loaded index (saved by an earlier session) and X is saved by
// several savers at once, as data and as tree blob; pack size 1000 bytes, pack
// and index uploads are gated; every mutex acquisition of a saver is a
// scheduling point; all schedules within the preemption bound.
// Oracle after flush: every handle occurs exactly once in the packs written in
// this session (pack headers listed by the harness), exactly one caller per
// handle got known == false, nothing is written for the already indexed blob,
// and all blobs load back.
//
// Part B (ENUM, real archiver): a source tree with identical files, a file
// consisting of repeated chunks and identical sub-directories is backed up with
// read concurrency {1,2,4}; every distinct blob is stored once, and a second
// backup of the unchanged source (with and without parent) adds no data blob
// and no tree blob.

import (
	"bytes"
	"context"
	"fmt"
	"os"
	"path/filepath"
	"sort"
	"strings"
	"sync"
	"testing"
	"time"

	"github.com/restic/restic/internal/archiver"
	"github.com/restic/restic/internal/backend"
	"github.com/restic/restic/internal/data"
	"github.com/restic/restic/internal/fs"
	"github.com/restic/restic/internal/repository"
	"github.com/restic/restic/internal/repository/pack"
	"github.com/restic/restic/internal/restic"
	"github.com/restic/restic/internal/verifshim/detrand"
	"github.com/restic/restic/internal/verifshim/gatebe"
	"github.com/restic/restic/internal/verifshim/oracle"
	"github.com/restic/restic/internal/verifshim/vh"
	"github.com/restic/restic/internal/verifshim/vx"
	"github.com/restic/restic/internal/verifshim/xplore"
)

type verifC16Save struct {
	label string
	tpe   restic.BlobType
}

type verifC16Exec struct {
	store   *gatebe.Store
	mu      sync.Mutex
	results map[string][]bool // label/type -> known flags returned to the callers
	errs    []string
	err     error
	done    bool
	restore func()
	raced   bool
	inSave  map[string]int
}

func verifC16Content(label string) []byte {
	switch label {
	case "X":
		return oracle.LCG(101, 400)
	case "Y":
		return oracle.LCG(102, 700)
	case "Z":
		return oracle.LCG(103, 300)
	case "B":
		return oracle.LCG(105, 1200) // larger than the pack size: a pack of its own, uploaded at once
	}
	return oracle.LCG(104, 50)
}

// verifC16PackBlobs lists the blobs of all packs in st that are not in base.
func verifC16PackBlobs(repo *repository.Repository, base, st gatebe.State) (map[restic.BlobHandle]int, error) {
	out := map[restic.BlobHandle]int{}
	for k, buf := range st {
		if k.Type != backend.PackFile {
			continue
		}
		if _, old := base[k]; old {
			continue
		}
		blobs, _, err := pack.List(repo.Key(), bytes.NewReader(buf), int64(len(buf)))
		if err != nil {
			return nil, fmt.Errorf("pack %s: %w", k.Name[:8], err)
		}
		for _, b := range blobs {
			out[b.BlobHandle]++
		}
	}
	return out, nil
}

func TestVerif_C16(t *testing.T) {
	r := vh.Start(t, "C16")
	defer r.Finish()
	r.Rule("Part A: all schedules (saver mutex acquisitions, upload completions) within the preemption bound of 2-3 savers storing overlapping blobs incl. one already indexed; non-trivial = two savers were inside SaveBlob for the same handle at the same time. Part B: real archiver on a tree full of duplicates x read concurrency {1,2,4} x {first backup, second with parent, second without parent}.")
	r.Assume("accesses outside critical sections are thread-local (separate free-running -race pass)")
	ctx := context.Background()
	oracle.LowKDF()

	// session 0: Z is already stored and indexed
	repo0, store0, err := oracle.NewRepo(ctx, 2, repository.Options{})
	if err != nil {
		t.Fatal(err)
	}
	repository.VerifSetPackSize(repo0, 1000)
	if err := repo0.WithBlobUploader(ctx, func(ctx context.Context, up restic.BlobSaverWithAsync) error {
		_, _, _, err := up.SaveBlob(ctx, restic.DataBlob, verifC16Content("Z"), restic.ID{}, false)
		return err
	}); err != nil {
		t.Fatal(err)
	}
	base := store0.Snapshot()

	D, T := restic.DataBlob, restic.TreeBlob
	progs := map[string]map[string][]verifC16Save{
		"xx":      {"S1": {{"X", D}}, "S2": {{"X", D}}},
		"xy-xz":   {"S1": {{"X", D}, {"Y", D}}, "S2": {{"X", D}, {"Z", D}}},
		"tree-xx": {"S1": {{"X", T}, {"Z", D}}, "S2": {{"X", T}, {"X", D}}},
	}
	// "+bg": the same program with the lock acquisitions of restic's own goroutines (pack uploader, index
	// bookkeeping after an upload) as scheduling points too, one backend connection
	// (B fills a pack by itself, so its pack is uploaded and registered while the other saver is still active)
	progs["bb+bg"] = map[string][]verifC16Save{"S1": {{"B", D}}, "S2": {{"B", D}}}
	progs["xb-by+bg"] = map[string][]verifC16Save{"S1": {{"X", D}, {"B", D}}, "S2": {{"B", D}, {"Y", D}}}
	names := []string{"xx", "xy-xz", "tree-xx", "bb+bg", "xb-by+bg"}
	if r.Thorough() {
		progs["three"] = map[string][]verifC16Save{"S1": {{"X", D}, {"Y", D}}, "S2": {{"Y", D}, {"X", D}}, "S3": {{"X", D}, {"Z", D}}}
		names = append(names, "three")
	}
	bound := vh.Pick(r, 2, 4)
	for _, name := range names {
		prog := progs[name]
		sc := xplore.Scenario{
			Start: func(x *xplore.Exec) {
				st := &verifC16Exec{store: gatebe.NewStoreFrom(base, nil), results: map[string][]bool{}, inSave: map[string]int{}}
				x.Data = st
				st.restore = detrand.Install(5)
				armed := false
				conns := uint(2)
				if strings.HasSuffix(name, "+bg") {
					conns = 1
				}
				be := &gatebe.Backend{S: st.store, Proc: "up", Conns: conns, AtomicReplace: true, X: func() *xplore.Exec {
					if armed {
						return x
					}
					return nil
				}}
				repo, err := oracle.OpenOn(x.Ctx, be, repository.Options{})
				if err != nil {
					t.Fatalf("open: %v", err)
				}
				repository.VerifSetPackSize(repo, 1000)
				if err := repo.LoadIndex(x.Ctx, restic.NoopTerminalCounterFactory); err != nil {
					t.Fatalf("LoadIndex: %v", err)
				}
				armed = true
				x.Go("main", func() {
					st.err = repo.WithBlobUploader(x.Ctx, func(ctx context.Context, up restic.BlobSaverWithAsync) error {
						var wg sync.WaitGroup
						ss := make([]string, 0, len(prog))
						for n := range prog {
							ss = append(ss, n)
						}
						sort.Strings(ss)
						for _, n := range ss {
							n := n
							wg.Add(1)
							x.Go(n, func() {
								defer wg.Done()
								for _, s := range prog[n] {
									key := fmt.Sprintf("%s/%v", s.label, s.tpe)
									st.mu.Lock()
									st.inSave[key]++
									if st.inSave[key] > 1 {
										st.raced = true
									}
									st.mu.Unlock()
									_, known, _, err := up.SaveBlob(ctx, s.tpe, verifC16Content(s.label), restic.ID{}, false)
									st.mu.Lock()
									st.inSave[key]--
									if err != nil {
										st.errs = append(st.errs, fmt.Sprintf("SaveBlob %s: %v", key, err))
									} else {
										st.results[key] = append(st.results[key], known)
									}
									st.mu.Unlock()
								}
							})
						}
						wg.Wait()
						return nil
					})
					st.done = true
				})
			},
		}
		check := func(x *xplore.Exec) {
			st := x.Data.(*verifC16Exec)
			st.restore()
			if os.Getenv("VERIF_DEBUG_TRACE") != "" {
				fmt.Fprintf(os.Stderr, "TRACE %s: %s\n", name, strings.Join(x.Labels, " > "))
			}
			key := strings.Join(x.Trace, ">")
			r.State(key)
			if st.raced {
				r.Nontrivial(key)
			}
			var bad []string
			for _, p := range x.Panics {
				bad = append(bad, "panic: "+p)
			}
			if x.Deadlock {
				bad = append(bad, "deadlock: savers blocked forever")
			}
			if st.done && st.err != nil {
				bad = append(bad, fmt.Sprintf("error: WithBlobUploader failed without a fault: %v", st.err))
			}
			for _, e := range st.errs {
				bad = append(bad, "error: "+e)
			}
			if st.done && st.err == nil && len(bad) == 0 {
				final := st.store.Snapshot()
				fresh, _, err := oracle.Open(ctx, final, oracle.Password)
				if err != nil {
					bad = append(bad, "open: "+err.Error())
				} else {
					written, err := verifC16PackBlobs(fresh, base, final)
					if err != nil {
						bad = append(bad, "packs: "+err.Error())
					}
					var outc []string
					for k, flags := range st.results {
						parts := strings.SplitN(k, "/", 2)
						tpe := restic.DataBlob
						if parts[1] == restic.TreeBlob.String() {
							tpe = restic.TreeBlob
						}
						h := restic.BlobHandle{ID: restic.Hash(verifC16Content(parts[0])), Type: tpe}
						fresh := 0
						for _, kn := range flags {
							if !kn {
								fresh++
							}
						}
						preIndexed := parts[0] == "Z" && tpe == restic.DataBlob
						wantFresh, wantWritten := 1, 1
						if preIndexed {
							wantFresh, wantWritten = 0, 0
						}
						if fresh != wantFresh {
							bad = append(bad, fmt.Sprintf("known-flag: blob %s: %d caller(s) were told the blob is new, want %d (flags %v)", k, fresh, wantFresh, flags))
						}
						if written[h] != wantWritten {
							bad = append(bad, fmt.Sprintf("stored: blob %s was written %d time(s) in this session, want %d", k, written[h], wantWritten))
						}
						outc = append(outc, fmt.Sprintf("%s:%v", k, flags))
					}
					sort.Strings(outc)
					r.Outcome(name + " " + strings.Join(outc, " "))
					if err := fresh.LoadIndex(ctx, restic.NoopTerminalCounterFactory); err != nil {
						bad = append(bad, "LoadIndex: "+err.Error())
					} else {
						for k := range st.results {
							parts := strings.SplitN(k, "/", 2)
							tpe := restic.DataBlob
							if parts[1] == restic.TreeBlob.String() {
								tpe = restic.TreeBlob
							}
							want := verifC16Content(parts[0])
							got, err := fresh.LoadBlob(ctx, restic.BlobHandle{ID: restic.Hash(want), Type: tpe}, nil)
							if err != nil || !bytes.Equal(got, want) {
								bad = append(bad, fmt.Sprintf("lost: blob %s does not load back: %v", k, err))
							}
						}
					}
				}
			}
			if len(bad) > 0 {
				kind := strings.SplitN(bad[0], ":", 2)[0]
				vx.Violation(r, name, x, "C16|"+kind+"|"+name, strings.Join(bad, "\n"), nil)
			}
			if st.raced && len(x.Labels) > 4 {
				n := len(x.Labels)
				if n > 12 {
					n = 12
				}
				r.Sample(map[string]any{"scenario": name, "events": x.Labels[:n], "known_flags": fmt.Sprint(st.results)})
			}
		}
		b := bound
		if strings.HasSuffix(name, "+bg") && b > 3 {
			b = 3 // the +bg programs have several times as many scheduling points
		}
		stt := vx.Explore(r, t, name, sc, xplore.Options{Policy: xplore.Preempt, Bound: b, LockPoints: true, LockPointsAll: strings.HasSuffix(name, "+bg"), MaxSteps: 800}, check)
		r.Note("%s: execs(this shard)=%d", name, stt.Execs)
	}
	r.Extra("preemption_bound", bound)

	// ---- Part B: real archiver, duplicates everywhere
	if !r.Case("partB") {
		return
	}
	verifC16Archiver(t, r)
}

func verifC16Archiver(t *testing.T, r *vh.Run) {
	ctx := context.Background()
	src := filepath.Join(r.Scratch, "dupsrc")
	same := oracle.LCG(201, 30000)
	files := map[string][]byte{
		"a": same, "b": same, "sub1/a": same, "sub1/c": oracle.LCG(202, 5000),
		"sub2/a": same, "sub2/c": oracle.LCG(202, 5000), // sub1 and sub2 are identical directories (same names, same content)
		"deep/x/sub1/a": same, "deep/x/sub1/c": oracle.LCG(202, 5000),
		"zeros": make([]byte, 3*512*1024), // three identical all-zero chunks
		"empty": {},
	}
	tm := time.Date(2022, 3, 3, 3, 3, 3, 0, time.UTC)
	for n, b := range files {
		p := filepath.Join(src, n)
		_ = os.MkdirAll(filepath.Dir(p), 0o755)
		if err := os.WriteFile(p, b, 0o644); err != nil {
			t.Fatal(err)
		}
	}
	// identical metadata so that identical directories yield identical tree blobs
	_ = filepath.Walk(src, func(p string, _ os.FileInfo, _ error) error { return os.Chtimes(p, tm, tm) })
	for _, conc := range []uint{1, 2, 4} {
		repo, store, err := oracle.NewRepo(ctx, 2, repository.Options{})
		if err != nil {
			t.Fatal(err)
		}
		_ = repo
		var parent *data.Snapshot
		prev := store.Snapshot()
		for round, mode := range []string{"first", "again-with-parent", "again-without-parent"} {
			be := &gatebe.Backend{S: store, Proc: "b", Conns: 3, AtomicReplace: true}
			rp, err := oracle.OpenOn(ctx, be, repository.Options{})
			if err != nil {
				t.Fatal(err)
			}
			if err := rp.LoadIndex(ctx, restic.NoopTerminalCounterFactory); err != nil {
				t.Fatal(err)
			}
			arch := archiver.New(rp, fs.NewLocal(), archiver.Options{ReadConcurrency: conc})
			opts := archiver.SnapshotOptions{Time: tm.Add(time.Duration(round) * time.Hour), Hostname: "h"}
			if mode == "again-with-parent" {
				opts.ParentSnapshot = parent
			}
			sn, _, _, err := arch.Snapshot(ctx, []string{src}, opts)
			r.Eval(1)
			r.Trace(1)
			ck := fmt.Sprintf("partB|conc=%d|%s", conc, mode)
			if err != nil {
				r.Violationf("partB", "C16|archiver-error|"+mode, ck, "backup failed: %v", err)
				break
			}
			if parent == nil {
				parent = sn
			}
			now := store.Snapshot()
			written, err := verifC16PackBlobs(rp, prev, now)
			if err != nil {
				r.Violationf("partB", "C16|archiver-packs|"+mode, ck, "cannot list written packs: %v", err)
				break
			}
			nData, nTree, dupes := 0, 0, 0
			for h, n := range written {
				if n > 1 {
					dupes++
				}
				if h.Type == restic.DataBlob {
					nData++
				} else {
					nTree++
				}
			}
			r.Outcome(fmt.Sprintf("%s data=%d tree=%d", mode, nData, nTree))
			r.Nontrivial(ck)
			if dupes > 0 {
				r.Violationf("partB", "C16|archiver-duplicate-in-session|"+mode, ck, "conc=%d %s: %d blob(s) were written more than once in one backup", conc, mode, dupes)
			}
			if mode == "first" {
				// distinct data blobs: `same`, LCG(202), the zero chunk; (empty file has no blob)
				if nData != 3 {
					r.Violationf("partB", "C16|archiver-distinct-data-blobs", ck, "conc=%d: first backup stored %d distinct data blobs, the source has exactly 3 distinct chunks", conc, nData)
				}
			} else {
				// The snapshot tree also contains the ancestors of the source directory (/var, /var/tmp, ...), whose
				// metadata is not under the harness's control: at most one new tree blob per ancestor level is
				// tolerated, and the tree of the source directory itself must be the very same blob.
				ancestors := len(strings.Split(strings.Trim(src, "/"), "/"))
				subOld, err1 := data.FindTreeDirectory(ctx, rp, parent.Tree, src)
				subNew, err2 := data.FindTreeDirectory(ctx, rp, sn.Tree, src)
				sameSub := err1 == nil && err2 == nil && subOld != nil && subNew != nil && *subOld == *subNew
				if nData != 0 || nTree > ancestors || !sameSub {
					r.Violationf("partB", "C16|second-backup-adds-blobs|"+mode, ck, "conc=%d %s: backing up the unchanged source again stored %d data and %d tree blob(s) (at most %d ancestor trees tolerated); source tree identical=%v (%v %v)", conc, mode, nData, nTree, ancestors, sameSub, err1, err2)
				}
			}
			r.Sample(map[string]any{"part": "B", "read_concurrency": conc, "mode": mode, "data_blobs_written": nData, "tree_blobs_written": nTree})
			prev = now
		}
	}
}

// TestVerifRace_C16 runs part A's bodies free under the race detector.
func TestVerifRace_C16(t *testing.T) {
	r := vh.Start(t, "C16")
	defer r.Finish()
	ctx := context.Background()
	oracle.LowKDF()
	for round := 0; round < 30; round++ {
		repo, _, err := oracle.NewRepo(ctx, 2, repository.Options{})
		if err != nil {
			t.Fatal(err)
		}
		repository.VerifSetPackSize(repo, 1000)
		err = repo.WithBlobUploader(ctx, func(ctx context.Context, up restic.BlobSaverWithAsync) error {
			var wg sync.WaitGroup
			for g := 0; g < 3; g++ {
				wg.Add(1)
				go func() {
					defer wg.Done()
					for _, l := range []string{"X", "Y", "X", "Z"} {
						_, _, _, _ = up.SaveBlob(ctx, restic.DataBlob, verifC16Content(l), restic.ID{}, false)
					}
				}()
			}
			wg.Wait()
			return nil
		})
		if err != nil {
			t.Fatal(err)
		}
		r.Eval(1)
	}
}

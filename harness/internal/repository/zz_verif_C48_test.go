package repository

// C48: blob sets report each member once.
//
// Technique: explicit-state search.  A boring map model (handle -> value) is
// explored breadth first over the operations
//
//	Insert h | Set h 1 | Set h 2 | Delete h        (h in a 6-handle universe)
//	Intersect(other) | Sub(other)                  (other in 4 fixed handle sets)
//	ExtendIndex                                    (once: the unsaved index is flushed and
//	                                                merged into the main index while the set lives)
//
// to closure (thorough) or to depth 4 (quick).  The model state is
// (member map, was the set created before/after the index extension, was the
// index extended).  Every (state, op) transition of the model is then executed
// on the real code: the MasterIndex fixture is rebuilt, the shortest op path to
// the state is replayed on a fresh index.AssociatedSet[uint8] (what prune uses)
// and in lock step on the restic.AssociatedBlobSet wrapper returned by
// Repository.NewAssociatedBlobSet (what check, copy, diff, stats, list use), the
// op is applied and the complete observable state of both real sets is
// compared with the model: Len(), Keys(), All() incl. values, Has()/Get() for
// every handle of the universe.
//
// Universe (all in one MasterIndex), three index layouts ("configs"):
//
//	u  data blob, one index entry (pack p1)
//	d  data blob, two entries in the merged main index (packs p1 and p2)
//	t  tree blob with the same ID as u, two entries in the main index (p1, p2)
//	x  data blob, one entry in the main index (p1) and one in the unsaved index (p3)
//	n  data blob, only in the unsaved (not yet final) index (p3)
//	a  absent from every index
//
//	config one-file : one index file {p1:[u,d,t,x], p2:[d,t]} decoded with DecodeIndex and merged
//	config two-files: index files {p1:[u,d,t,x]} and {p2:[d,t]} decoded and merged (duplicates across two index files)
//	config flushed  : p1, p2 stored with MasterIndex.StorePack and saved with Flush (the backup/prune code path)
//
// Deviation from DESIGN.md: the harness lives in internal/repository instead
// of internal/repository/index so that the exported wrapper type of
// repository.go is covered as well; the search runs to closure instead of
// length <= 4 in the thorough tier, and ExtendIndex was added (the
// documented contract of AssociatedSet is that index entries are only ever
// added while a set lives).
//
// Soundness of the state abstraction: deduplicating on the model state assumes
// that the hidden state of the real set (overflow map vs. array slot) is a
// function of (member map, created-before/after-extension, extended); the
// observable part of that assumption is checked at every transition.

import (
	"context"
	"fmt"
	"sort"
	"strings"
	"testing"

	"github.com/restic/restic/internal/repository/crypto"
	"github.com/restic/restic/internal/repository/index"
	"github.com/restic/restic/internal/repository/pack"
	"github.com/restic/restic/internal/restic"
	"github.com/restic/restic/internal/verifshim/vh"
)

const verifC48NH = 6

var verifC48Names = [verifC48NH]string{
	"u:data-1-entry",
	"d:data-2-packs-main-index",
	"t:tree-2-packs-main-index",
	"x:data-main-index+unsaved-index",
	"n:data-unsaved-index-only",
	"a:absent",
}

const (
	verifC48U = iota
	verifC48D
	verifC48T
	verifC48X
	verifC48N
	verifC48A
)

func verifC48Handles() [verifC48NH]restic.BlobHandle {
	idU := restic.Hash([]byte("verif-C48-u"))
	return [verifC48NH]restic.BlobHandle{
		{ID: idU, Type: restic.DataBlob},
		{ID: restic.Hash([]byte("verif-C48-d")), Type: restic.DataBlob},
		{ID: idU, Type: restic.TreeBlob}, // same ID as u, other type
		{ID: restic.Hash([]byte("verif-C48-x")), Type: restic.DataBlob},
		{ID: restic.Hash([]byte("verif-C48-n")), Type: restic.DataBlob},
		{ID: restic.Hash([]byte("verif-C48-a")), Type: restic.DataBlob},
	}
}

// number of index entries of each handle before / after ExtendIndex (for the non-trivial rule and the evidence)
var verifC48Entries = [verifC48NH]int{1, 2, 2, 2, 1, 0}

type verifC48Saver struct{}

func (verifC48Saver) Connections() uint { return 2 }
func (verifC48Saver) SaveUnpacked(_ context.Context, _ restic.FileType, buf []byte) (restic.ID, error) {
	return restic.Hash(buf), nil
}

var verifC48Configs = []string{"one-file", "two-files", "flushed"}

type verifC48Fixture struct {
	mi   *index.MasterIndex
	repo *Repository
}

type verifC48Env struct {
	h       [verifC48NH]restic.BlobHandle
	packs   [3]restic.ID
	files   map[string][][]byte // config -> encoded index files
	fileIDs map[string][]restic.ID
	others  [4][]int
}

func verifC48Blobs(h [verifC48NH]restic.BlobHandle, which ...int) pack.Blobs {
	var bl pack.Blobs
	off := uint(0)
	for _, i := range which {
		l := uint(crypto.CiphertextLength(10 + i))
		bl = append(bl, pack.Blob{BlobHandle: h[i], Offset: off, Length: l})
		off += l
	}
	return bl
}

func verifC48NewEnv(t *testing.T) *verifC48Env {
	e := &verifC48Env{h: verifC48Handles(), files: map[string][][]byte{}, fileIDs: map[string][]restic.ID{}}
	for i := range e.packs {
		e.packs[i] = restic.Hash([]byte(fmt.Sprintf("verif-C48-pack-%d", i+1)))
	}
	enc := func(packs ...int) []byte {
		idx := index.NewIndex()
		for _, p := range packs {
			switch p {
			case 0:
				idx.StorePack(e.packs[0], verifC48Blobs(e.h, verifC48U, verifC48D, verifC48T, verifC48X))
			case 1:
				idx.StorePack(e.packs[1], verifC48Blobs(e.h, verifC48T, verifC48D))
			}
		}
		var sb strings.Builder
		if err := idx.Encode(&sb); err != nil {
			t.Fatalf("fixture: encode index: %v", err)
		}
		return []byte(sb.String())
	}
	e.files["one-file"] = [][]byte{enc(0, 1)}
	e.files["two-files"] = [][]byte{enc(0), enc(1)}
	for cfg, fl := range e.files {
		for _, f := range fl {
			e.fileIDs[cfg] = append(e.fileIDs[cfg], restic.Hash(f))
		}
	}
	e.others = [4][]int{
		{},
		{verifC48U, verifC48D, verifC48T, verifC48X, verifC48N, verifC48A},
		{verifC48U, verifC48D, verifC48A},
		{verifC48D, verifC48T, verifC48N},
	}
	return e
}

func (e *verifC48Env) build(t *testing.T, cfg string) *verifC48Fixture {
	ctx := context.Background()
	mi := index.NewMasterIndex()
	switch cfg {
	case "one-file", "two-files":
		for i, f := range e.files[cfg] {
			idx, err := index.DecodeIndex(f, e.fileIDs[cfg][i])
			if err != nil {
				t.Fatalf("fixture: decode index: %v", err)
			}
			mi.Insert(idx)
		}
		if err := mi.MergeFinalIndexes(); err != nil {
			t.Fatalf("fixture: merge: %v", err)
		}
	case "flushed":
		if err := mi.StorePack(ctx, e.packs[0], verifC48Blobs(e.h, verifC48U, verifC48D, verifC48T, verifC48X), verifC48Saver{}); err != nil {
			t.Fatalf("fixture: %v", err)
		}
		if err := mi.StorePack(ctx, e.packs[1], verifC48Blobs(e.h, verifC48T, verifC48D), verifC48Saver{}); err != nil {
			t.Fatalf("fixture: %v", err)
		}
		if err := mi.Flush(ctx, verifC48Saver{}); err != nil {
			t.Fatalf("fixture: %v", err)
		}
	default:
		t.Fatalf("unknown config %q", cfg)
	}
	// the unsaved (not final) index
	if err := mi.StorePack(ctx, e.packs[2], verifC48Blobs(e.h, verifC48N, verifC48X), verifC48Saver{}); err != nil {
		t.Fatalf("fixture: %v", err)
	}
	return &verifC48Fixture{mi: mi, repo: &Repository{idx: mi}}
}

// ---------------------------------------------------------------------------
// model

type verifC48State struct {
	mem  [verifC48NH]int8 // -1 = not a member, else the associated value
	born uint8            // 1 = the current set object was created after the index extension
	ext  uint8            // 1 = index was extended
}

func (s verifC48State) key() string {
	var sb strings.Builder
	for i, v := range s.mem {
		if v >= 0 {
			fmt.Fprintf(&sb, "%c%d", verifC48Names[i][0], v)
		}
	}
	return fmt.Sprintf("{%s}b%de%d", sb.String(), s.born, s.ext)
}

func (s verifC48State) size() int {
	n := 0
	for _, v := range s.mem {
		if v >= 0 {
			n++
		}
	}
	return n
}

type verifC48Op struct {
	kind  byte // 'I' insert, 'S' set, 'D' delete, 'N' intersect, 'B' sub, 'E' extend index
	h     int
	v     uint8
	other int
}

func (o verifC48Op) String() string {
	switch o.kind {
	case 'I':
		return "Insert(" + verifC48Names[o.h][:1] + ")"
	case 'S':
		return fmt.Sprintf("Set(%s,%d)", verifC48Names[o.h][:1], o.v)
	case 'D':
		return "Delete(" + verifC48Names[o.h][:1] + ")"
	case 'N':
		return fmt.Sprintf("Intersect(other%d)", o.other)
	case 'B':
		return fmt.Sprintf("Sub(other%d)", o.other)
	case 'E':
		return "ExtendIndex"
	}
	return "?"
}

func verifC48Ops() []verifC48Op {
	var ops []verifC48Op
	for h := 0; h < verifC48NH; h++ {
		ops = append(ops, verifC48Op{kind: 'I', h: h}, verifC48Op{kind: 'S', h: h, v: 1}, verifC48Op{kind: 'S', h: h, v: 2}, verifC48Op{kind: 'D', h: h})
	}
	for o := 0; o < 4; o++ {
		ops = append(ops, verifC48Op{kind: 'N', other: o}, verifC48Op{kind: 'B', other: o})
	}
	ops = append(ops, verifC48Op{kind: 'E'})
	return ops
}

func verifC48In(list []int, h int) bool {
	for _, x := range list {
		if x == h {
			return true
		}
	}
	return false
}

// apply returns the model successor; ok=false when the op is not enabled.
func (e *verifC48Env) apply(s verifC48State, o verifC48Op) (verifC48State, bool) {
	switch o.kind {
	case 'I':
		s.mem[o.h] = 0
	case 'S':
		s.mem[o.h] = int8(o.v)
	case 'D':
		s.mem[o.h] = -1
	case 'N':
		for h := range s.mem {
			if !verifC48In(e.others[o.other], h) {
				s.mem[h] = -1
			}
		}
		s.born = s.ext
	case 'B':
		for h := range s.mem {
			if verifC48In(e.others[o.other], h) {
				s.mem[h] = -1
			}
		}
		s.born = s.ext
	case 'E':
		if s.ext == 1 {
			return s, false
		}
		s.ext = 1
	}
	return s, true
}

// ---------------------------------------------------------------------------
// real code driver

type verifC48Real struct {
	fx *verifC48Fixture
	a  *index.AssociatedSet[uint8]
	b  restic.AssociatedBlobSet
}

func (e *verifC48Env) newReal(t *testing.T, cfg string) *verifC48Real {
	fx := e.build(t, cfg)
	return &verifC48Real{fx: fx, a: index.NewAssociatedSet[uint8](fx.mi), b: fx.repo.NewAssociatedBlobSet()}
}

func (e *verifC48Env) applyReal(t *testing.T, r *verifC48Real, o verifC48Op) {
	switch o.kind {
	case 'I':
		r.a.Insert(e.h[o.h])
		r.b.Insert(e.h[o.h])
	case 'S':
		r.a.Set(e.h[o.h], o.v)
		r.b.Insert(e.h[o.h])
	case 'D':
		r.a.Delete(e.h[o.h])
		r.b.Delete(e.h[o.h])
	case 'N', 'B':
		// "other" for the generic set: an independent plain restic.BlobSet;
		// for the wrapper: a real AssociatedBlobSet of the same repository
		oa := restic.NewBlobSet()
		ob := r.fx.repo.NewAssociatedBlobSet()
		for _, h := range e.others[o.other] {
			oa.Insert(e.h[h])
			ob.Insert(e.h[h])
		}
		if o.kind == 'N' {
			r.a = r.a.Intersect(oa)
			r.b = r.b.Intersect(ob)
		} else {
			r.a = r.a.Sub(oa)
			r.b = r.b.Sub(ob)
		}
	case 'E':
		if err := r.fx.mi.Flush(context.Background(), verifC48Saver{}); err != nil {
			t.Fatalf("fixture: flush: %v", err)
		}
	}
}

type verifC48Obs struct {
	lenA, lenB   int
	keysA, keysB [verifC48NH]int // how often Keys() yielded the handle
	allA         [verifC48NH]int
	allVal       [verifC48NH][]uint8
	foreign      int // handles outside the universe
	hasA, hasB   [verifC48NH]bool
	getOK        [verifC48NH]bool
	getVal       [verifC48NH]uint8
}

func (e *verifC48Env) hidx(bh restic.BlobHandle) int {
	for i, h := range e.h {
		if h == bh {
			return i
		}
	}
	return -1
}

func (e *verifC48Env) observe(r *verifC48Real) verifC48Obs {
	var o verifC48Obs
	o.lenA = r.a.Len()
	o.lenB = r.b.Len()
	for bh := range r.a.Keys() {
		if i := e.hidx(bh); i >= 0 {
			o.keysA[i]++
		} else {
			o.foreign++
		}
	}
	for bh := range r.b.Keys() {
		if i := e.hidx(bh); i >= 0 {
			o.keysB[i]++
		} else {
			o.foreign++
		}
	}
	for bh, v := range r.a.All() {
		if i := e.hidx(bh); i >= 0 {
			o.allA[i]++
			o.allVal[i] = append(o.allVal[i], v)
		} else {
			o.foreign++
		}
	}
	for i, bh := range e.h {
		o.hasA[i] = r.a.Has(bh)
		o.hasB[i] = r.b.Has(bh)
		o.getVal[i], o.getOK[i] = r.a.Get(bh)
	}
	return o
}

func verifC48Sum(a [verifC48NH]int) int {
	n := 0
	for _, v := range a {
		n += v
	}
	return n
}

func TestVerif_C48(t *testing.T) {
	r := vh.Start(t, "C48")
	defer r.Finish()
	maxDepth := vh.Pick(r, 4, 1000)
	r.Rule("explicit-state BFS of a map model over {Insert,Set 1,Set 2,Delete} x 6 handles + {Intersect,Sub} x 4 other-sets + ExtendIndex, " +
		"3 index layouts; every model transition is executed on the real index.AssociatedSet[uint8] and the Repository.NewAssociatedBlobSet wrapper " +
		"(fixture rebuilt, shortest path replayed) and Len/Keys/All/Has/Get compared; non-trivial = the post-state contains a member with >= 2 index entries (d, t, x)")
	r.Assume("hidden state of the real set is a function of (member map, set created before/after index extension, index extended); observable part checked at every transition",
		"index entries are only ever added while a set lives (documented contract of AssociatedSet); ExtendIndex happens at most once per history")
	e := verifC48NewEnv(t)
	ops := verifC48Ops()

	// model BFS (identical in every shard; cheap)
	type node struct {
		s     verifC48State
		path  []verifC48Op
		depth int
	}
	init := verifC48State{}
	for i := range init.mem {
		init.mem[i] = -1
	}
	seen := map[verifC48State]int{init: 0}
	nodes := []node{{s: init}}
	for qi := 0; qi < len(nodes); qi++ {
		n := nodes[qi]
		if n.depth >= maxDepth {
			continue
		}
		for _, o := range ops {
			s2, ok := e.apply(n.s, o)
			if !ok {
				continue
			}
			if _, dup := seen[s2]; dup {
				continue
			}
			seen[s2] = len(nodes)
			p := make([]verifC48Op, len(n.path)+1)
			copy(p, n.path)
			p[len(n.path)] = o
			nodes = append(nodes, node{s: s2, path: p, depth: n.depth + 1})
		}
	}
	r.Extra("model_states_per_config", len(nodes))
	if maxDepth < 1000 {
		r.Note("quick tier: model states up to BFS depth %d are expanded (thorough: closure)", maxDepth)
	}

	for _, cfg := range verifC48Configs {
		for _, n := range nodes {
			if n.depth >= maxDepth {
				continue // frontier state: reached and checked as a post-state, not expanded
			}
			ck := cfg + "|" + n.s.key()
			if !r.Case(ck) {
				continue
			}
			if r.Expired() {
				return
			}
			r.State(ck)
			for _, o := range ops {
				post, ok := e.apply(n.s, o)
				if !ok {
					continue
				}
				r.Eval(1)
				var obs verifC48Obs
				hist := make([]string, 0, len(n.path)+1)
				for _, po := range n.path {
					hist = append(hist, po.String())
				}
				hist = append(hist, o.String())
				detail := map[string]any{"config": cfg, "history": hist, "model_after": post.key()}
				panicked, msg := vh.NoPanic(func() {
					real := e.newReal(t, cfg)
					for _, po := range n.path {
						e.applyReal(t, real, po)
					}
					e.applyReal(t, real, o)
					obs = e.observe(real)
				})
				r.Transition(int64(len(n.path) + 1))
				r.Trace(1)
				r.State(cfg + "|" + post.key())
				if panicked {
					r.Violationf(ck, fmt.Sprintf("C48|panic|%s|%c", cfg, o.kind), detail, "history %v panicked: %s", hist, msg)
					continue
				}
				nt := false
				for h, v := range post.mem {
					if v >= 0 && verifC48Entries[h] >= 2 {
						nt = true
					}
				}
				if nt {
					r.Nontrivial(ck + "|" + o.String())
				}
				verifC48Compare(r, ck, cfg, o, post, obs, detail)
				if cfg == "two-files" && len(hist) == 3 && post.mem[verifC48D] >= 0 && post.mem[verifC48N] >= 0 {
					r.Sample(map[string]any{"config": cfg, "history": hist, "model": post.key(), "Len": obs.lenA, "Keys_yields": obs.keysA})
				}
			}
		}
	}
}

func verifC48Compare(r *vh.Run, ck, cfg string, o verifC48Op, post verifC48State, obs verifC48Obs, detail map[string]any) {
	want := post.size()
	var outcome []string
	// each member exactly once, no non-members
	type subj struct {
		name string
		keys [verifC48NH]int
		ln   int
		has  [verifC48NH]bool
	}
	subjects := []subj{
		{"index.AssociatedSet", obs.keysA, obs.lenA, obs.hasA},
		{"AssociatedBlobSet", obs.keysB, obs.lenB, obs.hasB},
		{"index.AssociatedSet.All", obs.allA, obs.lenA, obs.hasA},
	}
	for _, s := range subjects {
		dupExplainsLen := s.ln == verifC48Sum(s.keys)
		anyDup := false
		for h := 0; h < verifC48NH; h++ {
			member := post.mem[h] >= 0
			switch {
			case member && s.keys[h] > 1:
				anyDup = true
				outcome = append(outcome, fmt.Sprintf("%s:dup:%c", s.name, verifC48Names[h][0]))
				r.Violationf(ck, "C48|dup-member|"+verifC48Names[h], detail,
					"%s: member %s is enumerated %d times (it has %d index entries); Len()=%d, distinct members=%d [config %s, history %v]",
					s.name, verifC48Names[h], s.keys[h], verifC48Entries[h], s.ln, want, cfg, detail["history"])
			case member && s.keys[h] == 0:
				r.Violationf(ck, fmt.Sprintf("C48|missing-member|%s|%s|%c", verifC48Names[h], cfg, o.kind), detail,
					"%s: member %s is not enumerated [config %s, history %v]", s.name, verifC48Names[h], cfg, detail["history"])
			case !member && s.keys[h] > 0:
				r.Violationf(ck, fmt.Sprintf("C48|phantom-member|%s|%s|%c", verifC48Names[h], cfg, o.kind), detail,
					"%s: non-member %s is enumerated %d times [config %s, history %v]", s.name, verifC48Names[h], s.keys[h], cfg, detail["history"])
			}
			if s.has[h] != member {
				r.Violationf(ck, fmt.Sprintf("C48|has|%s|%s|%c|want=%v", verifC48Names[h], cfg, o.kind, member), detail,
					"%s: Has(%s)=%v, model says %v [config %s, history %v]", s.name, verifC48Names[h], s.has[h], member, cfg, detail["history"])
			}
		}
		if s.ln != want && !(anyDup && dupExplainsLen) {
			r.Violationf(ck, fmt.Sprintf("C48|len|%s|%c", cfg, o.kind), detail,
				"%s: Len()=%d, distinct members=%d, enumeration yields %v [config %s, history %v]", s.name, s.ln, want, s.keys, cfg, detail["history"])
		}
	}
	if obs.foreign > 0 {
		r.Violationf(ck, fmt.Sprintf("C48|foreign|%s|%c", cfg, o.kind), detail, "enumeration yields %d handles that were never inserted [config %s, history %v]", obs.foreign, cfg, detail["history"])
	}
	// values
	for h := 0; h < verifC48NH; h++ {
		member := post.mem[h] >= 0
		if obs.getOK[h] != member || (member && obs.getVal[h] != uint8(post.mem[h])) {
			r.Violationf(ck, fmt.Sprintf("C48|get|%s|%s|%c", verifC48Names[h], cfg, o.kind), detail,
				"Get(%s)=(%d,%v), model says (%d,%v) [config %s, history %v]", verifC48Names[h], obs.getVal[h], obs.getOK[h], post.mem[h], member, cfg, detail["history"])
		}
		if member {
			for _, v := range obs.allVal[h] {
				if v != uint8(post.mem[h]) {
					r.Violationf(ck, fmt.Sprintf("C48|all-value|%s|%s|%c", verifC48Names[h], cfg, o.kind), detail,
						"All() yields value %d for %s, model says %d [config %s, history %v]", v, verifC48Names[h], post.mem[h], cfg, detail["history"])
				}
			}
		}
	}
	sort.Strings(outcome)
	r.Outcome(fmt.Sprintf("len=%d|%s", obs.lenA-want, strings.Join(outcome, ",")))
}

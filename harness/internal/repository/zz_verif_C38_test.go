package repository_test

// C38: the local cache never changes what restic reads.
//
// Part A (ENUM): a repository with index, snapshot, tree pack and data pack
// files; for every cacheable handle (index, snapshot, tree pack) and every
// cached-file state {absent, correct, truncated by 1, truncated to 0, first /
// middle / last byte flipped, extended by 1, a leftover tmp- file next to it,
// (index/snapshot) garbage of the right size} and every reading API
// {LoadRaw, LoadUnpacked, data.LoadSnapshot, LoadBlob(tree), LoadBlobsFromPack,
// ListPack, LoadIndex}: a fresh cache object over that on-disk state, the real
// Repository.UseCache, call the API twice.
// Oracle: every call returns the repository's bytes (compared with an uncached
// repository) or an error; after the first call touched a damaged cached file,
// the second call succeeds with the right bytes and the cached copy now equals
// the repository's file (detected and replaced).  Files deleted from the
// repository disappear from the cache when the index is loaded / snapshots are
// listed.
//
// Part C (ENUM): histories within one process (one cache object): {the first
// load of the uncached file meets a transient backend error; the file was
// cached and another process cleared the entry; both} then the cached copy is
// damaged once {flip, truncate} and the API is called twice - oracle of part A.
//
// Part B (GATE): two loaders of the same uncached handle through one cache
// (the in-progress de-duplication) with the backend Load gated (answers ok/err)
// and "another process wipes the cache directory" as an action at every step;
// all orders within the deviation bound.  Oracle: right bytes or error, no
// deadlock, no panic.

import (
	"bytes"
	"context"
	"errors"
	"fmt"
	"io"
	"os"
	"path/filepath"
	"sort"
	"strings"
	"sync"
	"testing"

	"github.com/restic/restic/internal/backend"
	"github.com/restic/restic/internal/backend/cache"
	"github.com/restic/restic/internal/data"
	"github.com/restic/restic/internal/repository"
	"github.com/restic/restic/internal/restic"
	"github.com/restic/restic/internal/verifshim/gatebe"
	"github.com/restic/restic/internal/verifshim/oracle"
	"github.com/restic/restic/internal/verifshim/vh"
	"github.com/restic/restic/internal/verifshim/vx"
	"github.com/restic/restic/internal/verifshim/xplore"
)

type verifC38Fixture struct {
	state    gatebe.State
	repoID   string
	indexes  []restic.ID
	snapshot restic.ID
	treePack restic.ID
	dataPack restic.ID
	treeBlob restic.BlobHandle
	treeData []byte
	truth    *repository.Repository
}

var verifC38Sub = map[backend.FileType]string{backend.IndexFile: "index", backend.SnapshotFile: "snapshots", backend.PackFile: "data"}

func verifC38CachePath(dir, repoID string, t backend.FileType, name string) string {
	return filepath.Join(dir, repoID, verifC38Sub[t], name[:2], name)
}

func verifC38Build(t *testing.T) *verifC38Fixture {
	ctx := context.Background()
	repo, store, err := oracle.NewRepo(ctx, 2, repository.Options{})
	if err != nil {
		t.Fatal(err)
	}
	fx := &verifC38Fixture{repoID: repo.Config().ID}
	sid, _, err := oracle.Forge(ctx, repo, oracle.Spec{"a": oracle.LCG(81, 3000), "d/b": oracle.LCG(82, 2000)}, oracle.ForgeOpts{})
	if err != nil {
		t.Fatal(err)
	}
	fx.snapshot = sid
	fx.state = store.Snapshot()
	fx.truth, _, err = oracle.Open(ctx, fx.state, oracle.Password)
	if err != nil {
		t.Fatal(err)
	}
	if err := fx.truth.LoadIndex(ctx, restic.NoopTerminalCounterFactory); err != nil {
		t.Fatal(err)
	}
	for _, k := range store.Keys(backend.IndexFile) {
		id, _ := restic.ParseID(k.Name)
		fx.indexes = append(fx.indexes, id)
	}
	sn, err := data.LoadSnapshot(ctx, fx.truth, sid)
	if err != nil {
		t.Fatal(err)
	}
	fx.treeBlob = restic.BlobHandle{ID: *sn.Tree, Type: restic.TreeBlob}
	pbs := fx.truth.LookupBlob(fx.treeBlob)
	if len(pbs) == 0 {
		t.Fatal("tree blob not indexed")
	}
	fx.treePack = pbs[0].PackID()
	fx.treeData, err = fx.truth.LoadBlob(ctx, fx.treeBlob, nil)
	if err != nil {
		t.Fatal(err)
	}
	for _, k := range store.Keys(backend.PackFile) {
		if k.Name != fx.treePack.String() {
			fx.dataPack, _ = restic.ParseID(k.Name)
		}
	}
	return fx
}

type verifC38API struct {
	name string
	t    backend.FileType
	id   func(fx *verifC38Fixture) restic.ID
	call func(ctx context.Context, fx *verifC38Fixture, repo *repository.Repository) ([]byte, error)
}

func verifC38APIs() []verifC38API {
	idx0 := func(fx *verifC38Fixture) restic.ID { return fx.indexes[0] }
	snap := func(fx *verifC38Fixture) restic.ID { return fx.snapshot }
	tpack := func(fx *verifC38Fixture) restic.ID { return fx.treePack }
	return []verifC38API{
		{"LoadRaw(index)", backend.IndexFile, idx0, func(ctx context.Context, fx *verifC38Fixture, repo *repository.Repository) ([]byte, error) {
			return repo.LoadRaw(ctx, restic.IndexFile, fx.indexes[0])
		}},
		{"LoadUnpacked(index)", backend.IndexFile, idx0, func(ctx context.Context, fx *verifC38Fixture, repo *repository.Repository) ([]byte, error) {
			return repo.LoadUnpacked(ctx, restic.IndexFile, fx.indexes[0])
		}},
		{"LoadIndex", backend.IndexFile, idx0, func(ctx context.Context, fx *verifC38Fixture, repo *repository.Repository) ([]byte, error) {
			if err := repo.LoadIndex(ctx, restic.NoopTerminalCounterFactory); err != nil {
				return nil, err
			}
			var l []string
			err := repo.ListBlobs(ctx, func(pb restic.PackBlob) {
				l = append(l, fmt.Sprintf("%v %v %d %d", pb.Handle(), pb.PackID(), pb.CiphertextLength(), pb.PlaintextLength()))
			})
			sort.Strings(l)
			return []byte(strings.Join(l, "\n")), err
		}},
		{"LoadRaw(snapshot)", backend.SnapshotFile, snap, func(ctx context.Context, fx *verifC38Fixture, repo *repository.Repository) ([]byte, error) {
			return repo.LoadRaw(ctx, restic.SnapshotFile, fx.snapshot)
		}},
		{"LoadSnapshot", backend.SnapshotFile, snap, func(ctx context.Context, fx *verifC38Fixture, repo *repository.Repository) ([]byte, error) {
			sn, err := data.LoadSnapshot(ctx, repo, fx.snapshot)
			if err != nil {
				return nil, err
			}
			return []byte(fmt.Sprintf("%v %v %v %v", sn.Tree, sn.Time.UTC(), sn.Hostname, sn.Paths)), nil
		}},
		{"LoadBlob(tree)", backend.PackFile, tpack, func(ctx context.Context, fx *verifC38Fixture, repo *repository.Repository) ([]byte, error) {
			if err := repo.LoadIndex(ctx, restic.NoopTerminalCounterFactory); err != nil {
				return nil, err
			}
			return repo.LoadBlob(ctx, fx.treeBlob, nil)
		}},
		{"LoadBlobsFromPack(tree)", backend.PackFile, tpack, func(ctx context.Context, fx *verifC38Fixture, repo *repository.Repository) ([]byte, error) {
			if err := repo.LoadIndex(ctx, restic.NoopTerminalCounterFactory); err != nil {
				return nil, err
			}
			var out []byte
			var berr error
			err := repo.LoadBlobsFromPack(ctx, fx.treePack, []restic.BlobHandle{fx.treeBlob}, func(_ restic.BlobHandle, buf []byte, err error) error {
				if err != nil {
					berr = err
					return nil
				}
				out = append([]byte{}, buf...)
				return nil
			})
			if err == nil {
				err = berr
			}
			return out, err
		}},
		{"ListPack(tree)", backend.PackFile, tpack, func(ctx context.Context, fx *verifC38Fixture, repo *repository.Repository) ([]byte, error) {
			size := int64(len(fx.state[gatebe.FileKey{Type: backend.PackFile, Name: fx.treePack.String()}]))
			hs, err := repo.ListPackHandles(ctx, fx.treePack, size)
			if err != nil {
				return nil, err
			}
			var l []string
			for _, h := range hs {
				l = append(l, h.String())
			}
			sort.Strings(l)
			return []byte(strings.Join(l, ",")), nil
		}},
	}
}

// verifC38FailOnce fails the next Load of one file with a transient error once armed.
type verifC38FailOnce struct {
	backend.Backend
	t     backend.FileType
	name  string
	armed int  // number of coming Loads of the file that fail
	mid   bool // fail in the middle of the transfer (half of the bytes, then a read error) instead of before it
	mu    sync.Mutex
}

func (f *verifC38FailOnce) arm() { f.mu.Lock(); f.armed, f.mid = 1, false; f.mu.Unlock() }

func (f *verifC38FailOnce) armMid(n int) { f.mu.Lock(); f.armed, f.mid = n, true; f.mu.Unlock() }

type verifC38BrokenReader struct{ rd io.Reader }

func (b verifC38BrokenReader) Read(p []byte) (int, error) {
	n, err := b.rd.Read(p)
	if err == io.EOF {
		err = errors.New("verifC38: transfer breaks off")
	}
	return n, err
}

func (f *verifC38FailOnce) Load(ctx context.Context, h backend.Handle, length int, offset int64, fn func(rd io.Reader) error) error {
	f.mu.Lock()
	hit := f.armed > 0 && h.Type == f.t && h.Name == f.name
	mid := f.mid
	if hit {
		f.armed--
	}
	f.mu.Unlock()
	if hit && !mid {
		return errors.New("verifC38: transient backend error")
	}
	if hit {
		return f.Backend.Load(ctx, h, length, offset, func(rd io.Reader) error {
			all, err := io.ReadAll(rd)
			if err != nil {
				return err
			}
			return fn(verifC38BrokenReader{bytes.NewReader(all[:len(all)/2])})
		})
	}
	return f.Backend.Load(ctx, h, length, offset, fn)
}

type verifC38State struct {
	name    string
	damaged bool
	apply   func(path string, good []byte) error
}

func verifC38States() []verifC38State {
	wr := func(f func(good []byte) []byte) func(string, []byte) error {
		return func(p string, good []byte) error {
			if err := os.MkdirAll(filepath.Dir(p), 0o700); err != nil {
				return err
			}
			return os.WriteFile(p, f(good), 0o600)
		}
	}
	flip := func(pos func(n int) int) func([]byte) []byte {
		return func(g []byte) []byte {
			b := append([]byte{}, g...)
			b[pos(len(b))] ^= 0x01
			return b
		}
	}
	return []verifC38State{
		{"absent", false, func(string, []byte) error { return nil }},
		{"correct", false, wr(func(g []byte) []byte { return g })},
		{"truncated-by-1", true, wr(func(g []byte) []byte { return g[:len(g)-1] })},
		{"truncated-to-half", true, wr(func(g []byte) []byte { return g[:len(g)/2] })},
		{"truncated-to-0", true, wr(func(g []byte) []byte { return nil })},
		{"flip-first", true, wr(flip(func(n int) int { return 0 }))},
		{"flip-middle", true, wr(flip(func(n int) int { return n / 2 }))},
		{"flip-last", true, wr(flip(func(n int) int { return n - 1 }))},
		{"extended-by-1", true, wr(func(g []byte) []byte { return append(append([]byte{}, g...), 0x55) })},
		{"garbage-same-size", true, wr(func(g []byte) []byte { return oracle.LCG(999, len(g)) })},
		{"leftover-tmp-file", false, func(p string, good []byte) error {
			if err := os.MkdirAll(filepath.Dir(p), 0o700); err != nil {
				return err
			}
			return os.WriteFile(filepath.Join(filepath.Dir(p), "tmp-123456"), good[:len(good)/2], 0o600)
		}},
	}
}

func TestVerif_C38(t *testing.T) {
	r := vh.Start(t, "C38")
	defer r.Finish()
	r.Rule("Part A: every (reading API, cached-file state) pair on a fresh cache object, each API called twice; non-trivial = the cached file was damaged. Part C: the same after a history in the same process (transient backend error on the first load / entry cleared by another process) before the damage. Part B: two concurrent loaders of one uncached handle with gated backend loads (ok/err) and a cache wipe by another process at any step, all orders within the deviation bound.")
	r.Assume("the repository's own files are healthy in part A (damaged repository files are C02/C03)")
	ctx := context.Background()
	oracle.LowKDF()
	fx := verifC38Build(t)

	caseNo := 0
	for _, api := range verifC38APIs() {
		want, err := api.call(ctx, fx, fx.truth)
		if err != nil {
			t.Fatalf("%s on the uncached repository: %v", api.name, err)
		}
		for _, cs := range verifC38States() {
			ck := "A|" + api.name + "|" + cs.name
			caseNo++
			if !r.Case(ck) {
				continue
			}
			cdir := filepath.Join(r.Scratch, fmt.Sprintf("cache-%d", caseNo))
			id := api.id(fx)
			good := fx.state[gatebe.FileKey{Type: api.t, Name: id.String()}]
			cpath := verifC38CachePath(cdir, fx.repoID, api.t, id.String())
			c, err := cache.New(fx.repoID, cdir)
			if err != nil {
				t.Fatal(err)
			}
			if err := cs.apply(cpath, good); err != nil {
				t.Fatal(err)
			}
			store := gatebe.NewStoreFrom(fx.state, nil)
			be := &gatebe.Backend{S: store, Proc: "r", Conns: 2, AtomicReplace: true}
			repo, err := oracle.OpenOn(ctx, be, repository.Options{})
			if err != nil {
				t.Fatal(err)
			}
			repo.UseCache(c, func(string, ...any) {})
			r.Eval(1)
			r.Trace(1)
			if cs.damaged {
				r.Nontrivial(ck)
			}
			var outcomes []string
			for call := 1; call <= 2; call++ {
				var got []byte
				var cerr error
				if p, msg := vh.NoPanic(func() { got, cerr = api.call(ctx, fx, repo) }); p {
					r.Violationf(ck, "C38|panic|"+api.name+"|"+cs.name, ck, "%s with cached file %s panicked: %s", api.name, cs.name, msg)
					break
				}
				r.Transition(1)
				switch {
				case cerr == nil && !bytes.Equal(got, want):
					r.Violationf(ck, "C38|wrong-bytes|"+api.name+"|"+cs.name, ck, "%s (call %d) with cached file state %q returned data that differs from the repository's without an error", api.name, call, cs.name)
				case cerr != nil && call == 2:
					r.Violationf(ck, "C38|not-replaced|"+api.name+"|"+cs.name, ck, "%s with cached file state %q still fails on the second call although the repository's copy is healthy: %v", api.name, cs.name, cerr)
				case cerr != nil && !cs.damaged:
					r.Violationf(ck, "C38|healthy-cache-error|"+api.name+"|"+cs.name, ck, "%s failed although neither the cache nor the repository is damaged: %v", api.name, cerr)
				}
				outcomes = append(outcomes, fmt.Sprint(cerr == nil))
			}
			// detected and replaced: the cached copy now equals the repository file
			// (pack files are read in ranges: damage outside the range that was read cannot be noticed, and a
			// forgotten pack is re-fetched range by range, so this half of the oracle applies to whole-file reads)
			if cs.damaged && api.t != backend.PackFile {
				if now, err := os.ReadFile(cpath); (err != nil && !os.IsNotExist(err)) || (err == nil && !bytes.Equal(now, good)) {
					r.Violationf(ck, "C38|cache-not-repaired|"+api.name+"|"+cs.name, ck, "after %s the damaged cached file (%s) was not replaced by the repository's copy (read error: %v)", api.name, cs.name, err)
				}
			}
			r.Outcome(cs.name + ":" + strings.Join(outcomes, ","))
			if cs.name == "flip-middle" {
				r.Sample(map[string]any{"part": "A", "api": api.name, "cached_state": cs.name, "calls_ok": outcomes})
			}
			_ = os.RemoveAll(cdir)
		}
	}

	// Part C: histories within ONE process (one cache object): something happens to the handle before its
	// cached copy gets damaged - the first load of the uncached file meets a transient backend error (restic
	// forgets the cache entry and retries), or the file was cached and another process cleared the entry -
	// then the cached copy is damaged once and the API is called twice, with the oracle of part A.
	for _, api := range verifC38APIs() {
		want, err := api.call(ctx, fx, fx.truth)
		if err != nil {
			t.Fatalf("%s on the uncached repository: %v", api.name, err)
		}
		for _, prefix := range []string{"transient-error-on-first-load", "cached-then-cleared-by-another-process", "cached-cleared-transient-error", "transfer-breaks-off-on-first-load", "transfer-breaks-off-twice"} {
			for _, cs := range verifC38States() {
				if cs.name != "flip-middle" && cs.name != "truncated-to-half" {
					continue
				}
				ck := "C|" + api.name + "|" + prefix + "|" + cs.name
				caseNo++
				if !r.Case(ck) {
					continue
				}
				cdir := filepath.Join(r.Scratch, fmt.Sprintf("cache-%d", caseNo))
				id := api.id(fx)
				good := fx.state[gatebe.FileKey{Type: api.t, Name: id.String()}]
				cpath := verifC38CachePath(cdir, fx.repoID, api.t, id.String())
				c, err := cache.New(fx.repoID, cdir)
				if err != nil {
					t.Fatal(err)
				}
				store := gatebe.NewStoreFrom(fx.state, nil)
				flaky := &verifC38FailOnce{Backend: &gatebe.Backend{S: store, Proc: "r", Conns: 2, AtomicReplace: true}, t: api.t, name: id.String()}
				repo, err := oracle.OpenOn(ctx, flaky, repository.Options{})
				if err != nil {
					t.Fatal(err)
				}
				repo.UseCache(c, func(string, ...any) {})
				r.Eval(1)
				r.Trace(1)
				r.Nontrivial(ck)
				step := func(what string, mustSucceed bool) bool {
					var got []byte
					var cerr error
					if p, msg := vh.NoPanic(func() { got, cerr = api.call(ctx, fx, repo) }); p {
						r.Violationf(ck, "C38|panic|"+ck, ck, "%s (%s) panicked: %s", api.name, what, msg)
						return false
					}
					r.Transition(1)
					switch {
					case cerr == nil && !bytes.Equal(got, want):
						r.Violationf(ck, "C38|wrong-bytes|"+ck, ck, "%s (%s) returned data that differs from the repository's without an error", api.name, what)
					case cerr != nil && mustSucceed:
						r.Violationf(ck, "C38|not-replaced|"+ck, ck, "%s (%s) fails although the repository's copy is healthy and the backend works: %v", api.name, what, cerr)
					}
					return cerr == nil
				}
				switch prefix {
				case "transient-error-on-first-load":
					flaky.arm()
					step("first load, transient backend error", false)
				case "cached-then-cleared-by-another-process":
					step("first load", true)
					_ = os.Remove(cpath)
					step("load after the entry was cleared", true)
				case "transfer-breaks-off-on-first-load":
					flaky.armMid(1)
					step("first load, the transfer breaks off half-way", false)
				case "transfer-breaks-off-twice":
					flaky.armMid(2)
					step("first load, the transfer breaks off half-way twice", false)
				case "cached-cleared-transient-error":
					step("first load", true)
					_ = os.Remove(cpath)
					flaky.arm()
					step("load after the entry was cleared, transient backend error", false)
				}
				if err := cs.apply(cpath, good); err != nil {
					t.Fatal(err)
				}
				ok1 := step("first call after the cached copy was damaged", false)
				ok2 := step("second call after the cached copy was damaged", true)
				if api.t != backend.PackFile {
					if now, err := os.ReadFile(cpath); (err != nil && !os.IsNotExist(err)) || (err == nil && !bytes.Equal(now, good)) {
						r.Violationf(ck, "C38|cache-not-repaired|"+ck, ck, "after %s the damaged cached file (%s, history %s) was not replaced by the repository's copy (read error: %v)", api.name, cs.name, prefix, err)
					}
				}
				r.Outcome(fmt.Sprintf("C|%s|%s:%v,%v", prefix, cs.name, ok1, ok2))
				_ = os.RemoveAll(cdir)
			}
		}
	}

	// stale entries disappear
	if r.Case("A|stale") {
		cdir := filepath.Join(r.Scratch, "cache-stale")
		c, err := cache.New(fx.repoID, cdir)
		if err != nil {
			t.Fatal(err)
		}
		store := gatebe.NewStoreFrom(fx.state, nil)
		be := &gatebe.Backend{S: store, Proc: "r", Conns: 2, AtomicReplace: true}
		repo, err := oracle.OpenOn(ctx, be, repository.Options{})
		if err != nil {
			t.Fatal(err)
		}
		repo.UseCache(c, func(string, ...any) {})
		// warm the cache
		_ = repo.LoadIndex(ctx, restic.NoopTerminalCounterFactory)
		_, _ = data.LoadSnapshot(ctx, repo, fx.snapshot)
		ipath := verifC38CachePath(cdir, fx.repoID, backend.IndexFile, fx.indexes[0].String())
		spath := verifC38CachePath(cdir, fx.repoID, backend.SnapshotFile, fx.snapshot.String())
		_, e1 := os.Stat(ipath)
		_, e2 := os.Stat(spath)
		r.Eval(1)
		if e1 != nil || e2 != nil {
			r.Violationf("A|stale", "C38|not-cached", nil, "index/snapshot files were not cached after loading them (%v %v)", e1, e2)
		} else {
			// another process forgets the snapshot and rewrites the index
			store.Del("other", gatebe.FileKey{Type: backend.SnapshotFile, Name: fx.snapshot.String()})
			store.Del("other", gatebe.FileKey{Type: backend.IndexFile, Name: fx.indexes[0].String()})
			repo2, _ := oracle.OpenOn(ctx, be, repository.Options{})
			repo2.UseCache(c, func(string, ...any) {})
			_ = repo2.LoadIndex(ctx, restic.NoopTerminalCounterFactory)
			_ = repo2.List(ctx, restic.SnapshotFile, func(restic.ID, int64) error { return nil })
			_, e1 = os.Stat(ipath)
			_, e2 = os.Stat(spath)
			if e1 == nil || e2 == nil {
				r.Violationf("A|stale", "C38|stale-entry-kept", nil, "files deleted from the repository are still in the cache after LoadIndex / listing snapshots (index kept=%v snapshot kept=%v)", e1 == nil, e2 == nil)
			}
			r.Nontrivial("A|stale")
		}
		_ = os.RemoveAll(cdir)
	}

	// ---- Part B
	bound := vh.Pick(r, 2, 3)
	execNo := 0
	type bexec struct {
		cdir    string
		res     [2][]byte
		errs    [2]error
		done    [2]bool
		wipes   int
		c       *cache.Cache
		wantIdx []byte
	}
	wantIdx, _ := fx.truth.LoadUnpacked(ctx, restic.IndexFile, fx.indexes[0])
	sc := xplore.Scenario{
		Start: func(x *xplore.Exec) {
			execNo++
			st := &bexec{cdir: filepath.Join(r.Scratch, fmt.Sprintf("cacheB-%d", execNo)), wantIdx: wantIdx}
			x.Data = st
			c, err := cache.New(fx.repoID, st.cdir)
			if err != nil {
				t.Fatal(err)
			}
			st.c = c
			store := gatebe.NewStoreFrom(fx.state, nil)
			armed := false
			be := &gatebe.Backend{S: store, Proc: "be", Conns: 2, AtomicReplace: true,
				X: func() *xplore.Exec {
					if armed {
						return x
					}
					return nil
				},
				Alts: func(op *gatebe.Op) []string { return []string{"ok", "err"} },
			}
			repo, err := oracle.OpenOn(x.Ctx, be, repository.Options{})
			if err != nil {
				t.Fatal(err)
			}
			repo.UseCache(c, func(string, ...any) {})
			armed = true
			for i := 0; i < 2; i++ {
				i := i
				x.Go(fmt.Sprintf("L%d", i+1), func() {
					st.res[i], st.errs[i] = repo.LoadUnpacked(x.Ctx, restic.IndexFile, fx.indexes[0])
					st.done[i] = true
				})
			}
		},
		Actions: func(x *xplore.Exec) []xplore.Action {
			st := x.Data.(*bexec)
			if st.wipes > 0 || (st.done[0] && st.done[1]) {
				return nil
			}
			return []xplore.Action{{Name: "other-process-wipes-cache", Do: func(x *xplore.Exec) {
				st.wipes++
				ents, _ := os.ReadDir(filepath.Join(st.cdir, fx.repoID, "index"))
				for _, e := range ents {
					_ = os.RemoveAll(filepath.Join(st.cdir, fx.repoID, "index", e.Name()))
				}
			}}}
		},
	}
	check := func(x *xplore.Exec) {
		st := x.Data.(*bexec)
		defer os.RemoveAll(st.cdir)
		key := strings.Join(x.Trace, ">")
		r.State("B|" + key)
		if st.wipes > 0 || strings.Contains(key, "=err") {
			r.Nontrivial("B|" + key)
		}
		var bad []string
		for _, p := range x.Panics {
			bad = append(bad, "panic: "+p)
		}
		if x.Deadlock {
			bad = append(bad, "deadlock: a loader waits forever for the other loader's download")
		}
		for i := 0; i < 2; i++ {
			if st.done[i] && st.errs[i] == nil && !bytes.Equal(st.res[i], st.wantIdx) {
				bad = append(bad, fmt.Sprintf("wrong-bytes: loader L%d got data that differs from the repository's without an error", i+1))
			}
			if st.done[i] && st.errs[i] != nil && !strings.Contains(key, "=err") && st.wipes == 0 {
				bad = append(bad, fmt.Sprintf("error: loader L%d failed although nothing went wrong: %v", i+1, st.errs[i]))
			}
		}
		r.Outcome(fmt.Sprintf("B ok1=%v ok2=%v wipes=%d", st.errs[0] == nil, st.errs[1] == nil, st.wipes))
		if len(bad) > 0 {
			vx.Violation(r, "B/two-loaders", x, "C38|B|"+strings.SplitN(bad[0], ":", 2)[0], strings.Join(bad, "\n"), nil)
		}
		if st.wipes > 0 {
			r.Sample(map[string]any{"part": "B", "events": x.Labels, "ok": []bool{st.errs[0] == nil, st.errs[1] == nil}})
		}
	}
	stt := vx.Explore(r, t, "B/two-loaders", sc, xplore.Options{Policy: xplore.Preempt, Bound: bound, LockPoints: true, MaxSteps: 200}, check)
	r.Note("B/two-loaders: execs(this shard)=%d", stt.Execs)
}

// TestVerifRace_C38 runs every scenario body free (gates answer at once, no oracle) under the race detector.
func TestVerifRace_C38(t *testing.T) {
	xplore.Free = 2
	defer func() { xplore.Free = 0 }()
	TestVerif_C38(t)
}

package repository

// C43: streaming blobs from a pack delivers each requested blob exactly once,
// with its correct plaintext or an error, and falls back to another copy.
//
// White-box: the real streamPack / streamPackPart / packBlobIterator are driven
// with a fake beLoad (the range-request answers are chosen by the enumeration)
// and a fake loadBlobFn (the "other stored copy").
//
// Space.
//   layouts  A "gaps": 7 blobs whose lengths make the unused range between two
//              requested blobs exactly 1 MiB, 1 MiB+1, 1 MiB (raw 7-byte hole +
//              skipped blob) ...; one compressed blob, one tree blob
//            B "tiny": 5 contiguous blobs of a few bytes, mixed compression
//            C "big": {16 MiB, 16 MiB, 40 B, 16 MiB-41, 33 MiB, 40 B}: chunks of
//              exactly 32 MiB (must split), 32 MiB-1 (must not), a single
//              oversized blob.  Real buffers, built once per shard.
//   requests every non-empty subset of the blobs of the layout (A 127, B 31, C 63),
//            handed to streamPack in reversed order (it has to sort)
//   answers  per range request {ok, error, short (half the bytes, then EOF),
//            MAC-damage of blob j, validly sealed wrong plaintext for blob j}
//            all assignments with <= D non-ok answers (A: D=1 quick / 2 thorough,
//            B: complete product, C: all-ok quick / D=1 thorough)
//   fallback loadBlobFn {nil, has every blob, has none, has the even-indexed blobs}
//            (A quick: {nil, even}; C quick: {all}, thorough {nil, all, even})
//   callback returns an error on its k-th invocation, k in {never, 1, 2, last}
//            (A: for executions with 0 (quick) / <= 1 (thorough) non-ok answers; B: all; C: never)
//
// Part 2 (real repository on the in-memory backend): a blob stored in two
// packs, copies of equal and of different stored length (one compressed, one
// not); for each of the two packs as the streamed one x {its download fails,
// the blob is damaged inside it}: the real LoadBlobsFromPack (fallback =
// Repository.LoadBlob over all indexed copies) must deliver the blob's
// plaintext, every requested blob exactly once.
//
// Oracle (independent model, no code shared with streamPack):
//   * callbacks only for requested blobs, at most once each; exactly once each
//     when streamPack returns nil; every callback carries err != nil or a
//     buffer whose SHA-256 is the blob ID;
//   * a blob whose bytes were delivered intact, or that the fallback holds,
//     must be delivered (err == nil) if its callback happens; a blob that is
//     damaged/undelivered and not in the fallback must carry an error;
//   * once the callback returned an error no further callback happens and
//     streamPack returns an error;
//   * range requests: name = pack ID; the sequence of (offset,length) is a
//     prefix of (and on a nil return equal to) the partition computed from the
//     rule documented at maxUnusedRange/maxChunkSize: a new request starts iff
//     the unused range to the previous requested blob is more than 1 MiB or
//     the current request already holds a blob and would reach 32 MiB.
//     (An unnecessary split is flagged too: the rule is the documented one.)
//   * no panic.

import (
	"bytes"
	"context"
	"crypto/sha256"
	"encoding/json"
	"errors"
	"fmt"
	"io"
	"sort"
	"strings"
	"testing"

	"github.com/klauspost/compress/zstd"
	"github.com/restic/restic/internal/backend"
	"github.com/restic/restic/internal/repository/crypto"
	"github.com/restic/restic/internal/repository/pack"
	"github.com/restic/restic/internal/restic"
	rtest "github.com/restic/restic/internal/test"
	"github.com/restic/restic/internal/verifshim/vh"
)

const verifC43MiB = 1 << 20

type verifC43Item struct {
	length     int // blob: ciphertext length (uncompressed) or plaintext length (compressed); gap: bytes
	gap        bool
	compressed bool
	tree       bool
}

type verifC43Blob struct {
	blob      pack.Blob
	plain     []byte        // original plaintext
	wrongSeal func() []byte // validly sealed different plaintext of the same ciphertext length
}

type verifC43Layout struct {
	name   string
	blobs  []verifC43Blob
	packfn []byte
	packID restic.ID
}

func verifC43Bytes(seed uint64, n int) []byte {
	buf := make([]byte, n+8)
	x := seed*0x9E3779B97F4A7C15 + 0x1234567
	for i := 0; i < n; i += 8 {
		x ^= x << 13
		x ^= x >> 7
		x ^= x << 17
		buf[i], buf[i+1], buf[i+2], buf[i+3] = byte(x), byte(x>>8), byte(x>>16), byte(x>>24)
		buf[i+4], buf[i+5], buf[i+6], buf[i+7] = byte(x>>32), byte(x>>40), byte(x>>48), byte(x>>56)
	}
	return buf[:n]
}

func verifC43Key(t testing.TB) *crypto.Key {
	const jsonKey = `{"mac":{"k":"eQenuI8adktfzZMuC8rwdA==","r":"k8cfAly2qQSky48CQK7SBA=="},"encrypt":"MKO9gZnRiQFl8mDUurSDa9NMjiu9MUifUrODTHS05wo="}`
	var key crypto.Key
	if err := json.Unmarshal([]byte(jsonKey), &key); err != nil {
		t.Fatal(err)
	}
	return &key
}

func verifC43Seal(key *crypto.Key, idx int, salt byte, payload []byte) []byte {
	nonce := []byte{0x15, 0x98, 0xc0, 0xf7, 0xb9, 0x65, 0x97, 0x74, 0x12, 0xdc, 0xd3, 0x62, 0xa9, 0x6e, salt, byte(idx)}
	out := append(make([]byte, 0, len(payload)+crypto.Extension), nonce...)
	return key.Seal(out, nonce, payload, nil)
}

func verifC43Build(t testing.TB, key *crypto.Key, name string, items []verifC43Item) *verifC43Layout {
	enc, err := zstd.NewWriter(nil)
	if err != nil {
		t.Fatal(err)
	}
	defer enc.Close()
	l := &verifC43Layout{name: name}
	l.packID = sha256.Sum256([]byte(name))
	total := 0
	for _, it := range items {
		total += it.length + 64
	}
	l.packfn = make([]byte, 0, total)
	for i, it := range items {
		if it.gap {
			l.packfn = append(l.packfn, verifC43Bytes(uint64(1000+i), it.length)...)
			continue
		}
		var plain, payload, wrongPayload []byte
		ulen := uint(0)
		if it.compressed {
			plain = bytes.Repeat([]byte{byte('a' + i), byte('b' + i), 'c'}, (it.length+2)/3)[:it.length]
			payload = enc.EncodeAll(plain, nil)
			ulen = uint(len(plain))
			wrong := bytes.Repeat([]byte{byte('A' + i), byte('B' + i), 'C'}, (it.length+2)/3)[:it.length]
			wrongPayload = enc.EncodeAll(wrong, nil)
			if len(wrongPayload) != len(payload) {
				t.Fatalf("layout %s blob %d: wrong-content payload has a different length", name, i)
			}
		} else {
			plain = verifC43Bytes(uint64(7*len(name)+i), it.length-crypto.Extension)
			payload = plain
			wrongPayload = append([]byte{}, plain...)
			wrongPayload[len(wrongPayload)/2] ^= 1
		}
		sealed := verifC43Seal(key, i, 0x20, payload)
		tpe := restic.DataBlob
		if it.tree {
			tpe = restic.TreeBlob
		}
		var ws func() []byte
		if len(wrongPayload) < 2*verifC43MiB {
			cached := verifC43Seal(key, i, 0x21, wrongPayload)
			ws = func() []byte { return cached }
		} else {
			// big blobs: do not keep a third copy around
			wrongPayload = nil
			idx, src := i, plain
			ws = func() []byte {
				w := append([]byte{}, src...)
				w[len(w)/2] ^= 1
				return verifC43Seal(key, idx, 0x21, w)
			}
		}
		b := verifC43Blob{plain: plain, wrongSeal: ws,
			blob: pack.Blob{BlobHandle: restic.BlobHandle{Type: tpe, ID: sha256.Sum256(plain)},
				Offset: uint(len(l.packfn)), Length: uint(len(sealed)), UncompressedLength: ulen}}
		if !it.compressed && len(sealed) != it.length {
			t.Fatalf("layout %s blob %d: length %d != %d", name, i, len(sealed), it.length)
		}
		l.packfn = append(l.packfn, sealed...)
		l.blobs = append(l.blobs, b)
	}
	return l
}

// verifC43Partition is the reference model of the documented request rule.
func verifC43Partition(blobs []pack.Blob) [][]pack.Blob {
	s := append([]pack.Blob{}, blobs...)
	sort.Slice(s, func(i, j int) bool { return s[i].Offset < s[j].Offset })
	var parts [][]pack.Blob
	var cur []pack.Blob
	for _, b := range s {
		if len(cur) > 0 {
			prev := cur[len(cur)-1]
			unused := b.Offset - (prev.Offset + prev.Length)
			size := b.Offset + b.Length - cur[0].Offset
			if unused > 1*verifC43MiB || size >= 32*verifC43MiB {
				parts = append(parts, cur)
				cur = nil
			}
		}
		cur = append(cur, b)
	}
	if len(cur) > 0 {
		parts = append(parts, cur)
	}
	return parts
}

// answer encoding: "ok", "err", "short", "mac<j>", "hash<j>" (j = index within the request's blobs)
type verifC43Exec struct {
	layout   *verifC43Layout
	subset   uint     // bit i = blob i requested
	answers  []string // one per model request
	fallback int      // 0 nil, 1 all, 2 none, 3 even-indexed
	abortAt  int      // callback returns an error on this invocation (0 = never)
}

func (e verifC43Exec) key() string {
	return fmt.Sprintf("%s|subset=%b|answers=%s|fallback=%d|abort=%d", e.layout.name, e.subset, strings.Join(e.answers, ","), e.fallback, e.abortAt)
}

var verifC43ErrLoad = errors.New("verifC43 load error")
var verifC43ErrCallback = errors.New("verifC43 callback error")
var verifC43ErrNoCopy = errors.New("verifC43 no other copy")

func verifC43Run(e verifC43Exec, key *crypto.Key, dec *zstd.Decoder) (fails []string, outcome string, nontrivial bool) {
	fail := func(kind, format string, a ...any) { fails = append(fails, kind+": "+fmt.Sprintf(format, a...)) }
	l := e.layout
	var req []pack.Blob
	byID := map[restic.ID]int{}
	for i := len(l.blobs) - 1; i >= 0; i-- { // reversed: streamPack must sort
		if e.subset&(1<<uint(i)) != 0 {
			req = append(req, l.blobs[i].blob)
			byID[l.blobs[i].blob.ID] = i
		}
	}
	parts := verifC43Partition(req)

	// model: which blobs are delivered intact by the primary copy
	primaryOK := map[int]bool{}
	for pi, p := range parts {
		a := "ok"
		if pi < len(e.answers) {
			a = e.answers[pi]
		}
		for j, b := range p {
			ok := a == "ok" || ((strings.HasPrefix(a, "mac") || strings.HasPrefix(a, "hash")) && a != fmt.Sprintf("mac%d", j) && a != fmt.Sprintf("hash%d", j))
			primaryOK[byID[b.ID]] = ok
		}
	}
	inFallback := func(i int) bool {
		return e.fallback == 1 || (e.fallback == 3 && i%2 == 0)
	}

	type rng struct{ off, length int }
	var requests []rng
	beLoad := func(_ context.Context, h backend.Handle, length int, offset int64, fn func(rd io.Reader) error) error {
		ri := len(requests)
		requests = append(requests, rng{int(offset), length})
		if h.Type != backend.PackFile || h.Name != l.packID.String() {
			fail("wrong-handle", "request %d used handle %v", ri, h)
		}
		a := "ok"
		if ri < len(e.answers) {
			a = e.answers[ri]
		}
		if a == "err" {
			return verifC43ErrLoad
		}
		if offset < 0 || int(offset)+length > len(l.packfn) || length < 0 {
			return fmt.Errorf("range %d+%d outside of the pack (%d bytes)", offset, length, len(l.packfn))
		}
		data := l.packfn[int(offset) : int(offset)+length]
		switch {
		case a == "short":
			data = data[:len(data)/2]
		case strings.HasPrefix(a, "mac") || strings.HasPrefix(a, "hash"):
			if ri < len(parts) {
				var j int
				kind := "mac"
				if strings.HasPrefix(a, "hash") {
					kind = "hash"
				}
				_, _ = fmt.Sscanf(a[len(kind):], "%d", &j)
				if j < len(parts[ri]) {
					b := parts[ri][j]
					rel := int(b.Offset) - int(offset)
					if rel >= 0 && rel+int(b.Length) <= len(data) {
						data = append([]byte{}, data...)
						if kind == "mac" {
							data[rel+int(b.Length)/2] ^= 0x10
						} else {
							copy(data[rel:], l.blobs[byID[b.ID]].wrongSeal())
						}
					}
				}
			}
		}
		return fn(bytes.NewReader(data))
	}
	fbCalls := 0
	var loadBlob loadBlobFn
	if e.fallback != 0 {
		loadBlob = func(_ context.Context, bh restic.BlobHandle, _ []byte) ([]byte, error) {
			fbCalls++
			i, ok := byID[bh.ID]
			if !ok || !inFallback(i) || l.blobs[i].blob.Type != bh.Type {
				return nil, verifC43ErrNoCopy
			}
			return append([]byte{}, l.blobs[i].plain...), nil
		}
	}

	calls := map[int]int{}
	nCalls, afterAbort := 0, 0
	aborted := false
	var order []string
	cb := func(bh restic.BlobHandle, buf []byte, err error) error {
		if aborted {
			afterAbort++
		}
		nCalls++
		i, ok := byID[bh.ID]
		if !ok || l.blobs[i].blob.Type != bh.Type {
			fail("foreign-callback", "callback for %v which was not requested", bh)
			return nil
		}
		calls[i]++
		good := err == nil && sha256.Sum256(buf) == [32]byte(bh.ID) && bytes.Equal(buf, l.blobs[i].plain)
		switch {
		case err == nil && !good:
			fail("wrong-plaintext", "blob %d delivered without error but with wrong content (%d bytes, want %d)", i, len(buf), len(l.blobs[i].plain))
		case err != nil && (primaryOK[i] || inFallback(i)):
			fail("available-blob-failed", "blob %d (primary intact=%v, in fallback=%v) was reported with error %v", i, primaryOK[i], inFallback(i), err)
		}
		if err == nil {
			order = append(order, fmt.Sprintf("%d+", i))
		} else {
			order = append(order, fmt.Sprintf("%d-", i))
		}
		if e.abortAt != 0 && nCalls == e.abortAt {
			aborted = true
			return verifC43ErrCallback
		}
		return nil
	}

	in := append(pack.Blobs{}, req...)
	ret := streamPack(context.Background(), beLoad, loadBlob, dec, key, l.packID, in, cb)

	for i := range l.blobs {
		want := e.subset&(1<<uint(i)) != 0
		switch {
		case calls[i] > 1:
			fail("duplicate-callback", "blob %d got %d callbacks", i, calls[i])
		case want && calls[i] == 0 && ret == nil:
			fail("missing-callback", "streamPack returned nil but blob %d got no callback", i)
		}
	}
	if aborted && afterAbort > 0 {
		fail("callback-after-abort", "%d callbacks after the callback returned an error", afterAbort)
	}
	if aborted && ret == nil {
		fail("abort-error-lost", "callback returned an error but streamPack returned nil")
	}
	// range requests vs model partition
	for i, rq := range requests {
		if i >= len(parts) {
			fail("ranges", "request %d (%d+%d) beyond the %d requests of the model", i, rq.off, rq.length, len(parts))
			break
		}
		p := parts[i]
		wantOff := int(p[0].Offset)
		wantLen := int(p[len(p)-1].Offset+p[len(p)-1].Length) - wantOff
		if rq.off != wantOff || rq.length != wantLen {
			fail("ranges", "request %d is %d+%d, the documented rule gives %d+%d", i, rq.off, rq.length, wantOff, wantLen)
			break
		}
	}
	if ret == nil && len(requests) < len(parts) {
		fail("ranges", "streamPack returned nil after %d of %d expected requests", len(requests), len(parts))
	}
	rs := "nil"
	if ret != nil {
		switch {
		case errors.Is(ret, verifC43ErrCallback):
			rs = "callback"
		case errors.Is(ret, verifC43ErrLoad):
			rs = "load"
		default:
			rs = "other"
		}
	}
	nonOK := 0
	for _, a := range e.answers {
		if a != "ok" {
			nonOK++
		}
	}
	outcome = fmt.Sprintf("parts=%d|ret=%s|fb=%v|%s", len(parts), rs, fbCalls > 0, strings.Join(order, ""))
	nontrivial = len(parts) > 1 || nonOK > 0 || e.abortAt != 0
	return
}

// verifC43Answers enumerates all answer assignments for the given partition with at most maxBad non-ok answers.
func verifC43Answers(parts [][]pack.Blob, maxBad int, fn func([]string)) {
	cur := make([]string, len(parts))
	var rec func(i, bad int)
	rec = func(i, bad int) {
		if i == len(parts) {
			fn(append([]string{}, cur...))
			return
		}
		cur[i] = "ok"
		rec(i+1, bad)
		if bad == maxBad {
			return
		}
		opts := []string{"err", "short"}
		for j := range parts[i] {
			opts = append(opts, fmt.Sprintf("mac%d", j), fmt.Sprintf("hash%d", j))
		}
		for _, o := range opts {
			cur[i] = o
			rec(i+1, bad+1)
		}
	}
	rec(0, 0)
}

// ---- part 2: the real fallback (Repository.LoadBlob over all indexed copies) ----

type verifC43FaultyBE struct {
	backend.Backend
	pack string // name of the pack the fault applies to
	mode string // "download-error": every Load of the pack fails; "damaged": bytes [lo,hi) are flipped in every read
	lo   int64
	hi   int64
}

func (b *verifC43FaultyBE) Load(ctx context.Context, h backend.Handle, length int, offset int64, fn func(rd io.Reader) error) error {
	if h.Type != backend.PackFile || h.Name != b.pack {
		return b.Backend.Load(ctx, h, length, offset, fn)
	}
	if b.mode == "download-error" {
		return errors.New("verifC43: download of the pack fails")
	}
	return b.Backend.Load(ctx, h, length, offset, func(rd io.Reader) error {
		buf, err := io.ReadAll(rd)
		if err != nil {
			return err
		}
		for i := range buf {
			if p := offset + int64(i); p >= b.lo && p < b.hi {
				buf[i] ^= 0x20
			}
		}
		return fn(bytes.NewReader(buf))
	})
}

// verifC43RealFallback: a blob X is stored in two packs.  Variant "same-length": both copies were written
// with the same settings.  Variant "other-length": one copy uncompressed, the other compressed (copies of
// one blob may have any stored length: other compression mode, written before/after compression was
// enabled).  For each of the two packs as the one that is streamed, with the pack's download failing or X
// damaged inside it: the real LoadBlobsFromPack must still deliver X's plaintext from the other copy.
func verifC43RealFallback(t *testing.T, r *vh.Run) {
	ctx := context.Background()
	mk := func(seed byte, n int) []byte {
		b := make([]byte, n)
		for i := range b {
			b[i] = byte('a' + (i/37+int(seed))%11) // compressible
		}
		return b
	}
	for _, variant := range []string{"same-length", "other-length"} {
		mem := TestBackend(t)
		first, second := CompressionOff, CompressionOff
		if variant == "other-length" {
			second = CompressionMax
		}
		repo1, _ := TestRepositoryWithBackend(t, mem, 2, Options{Compression: first})
		X, A, B := mk(1, 3000), mk(2, 2000), mk(3, 2500)
		if err := repo1.WithBlobUploader(ctx, func(ctx context.Context, up restic.BlobSaverWithAsync) error {
			for _, b := range [][]byte{A, X, B} {
				if _, _, _, err := up.SaveBlob(ctx, restic.DataBlob, b, restic.ID{}, false); err != nil {
					return err
				}
			}
			return nil
		}); err != nil {
			t.Fatal(err)
		}
		repo2, err := New(mem, Options{Compression: second})
		if err != nil {
			t.Fatal(err)
		}
		if err := repo2.SearchKey(ctx, rtest.TestPassword, 10, ""); err != nil {
			t.Fatal(err)
		}
		if err := repo2.LoadIndex(ctx, restic.NoopTerminalCounterFactory); err != nil {
			t.Fatal(err)
		}
		if err := repo2.WithBlobUploader(ctx, func(ctx context.Context, up restic.BlobSaverWithAsync) error {
			for _, c := range []struct {
				b   []byte
				dup bool
			}{{mk(4, 1500), false}, {X, true}, {mk(5, 1800), false}} {
				if _, _, _, err := up.SaveBlob(ctx, restic.DataBlob, c.b, restic.ID{}, c.dup); err != nil {
					return err
				}
			}
			return nil
		}); err != nil {
			t.Fatal(err)
		}
		hX := restic.BlobHandle{Type: restic.DataBlob, ID: restic.Hash(X)}
		for _, mode := range []string{"download-error", "damaged"} {
			for primary := 0; primary < 2; primary++ {
				ck := fmt.Sprintf("real-fallback|%s|%s|streamed-copy=%d", variant, mode, primary)
				if !r.Case(ck) {
					continue
				}
				fbe := &verifC43FaultyBE{Backend: mem, mode: mode}
				repo, err := New(fbe, Options{})
				if err != nil {
					t.Fatal(err)
				}
				if err := repo.SearchKey(ctx, rtest.TestPassword, 10, ""); err != nil {
					t.Fatal(err)
				}
				if err := repo.LoadIndex(ctx, restic.NoopTerminalCounterFactory); err != nil {
					t.Fatal(err)
				}
				copies := repo.LookupBlob(hX)
				if len(copies) != 2 || (variant == "other-length") == (copies[0].CiphertextLength() == copies[1].CiphertextLength()) {
					t.Fatalf("fixture %s: %d copies of X", variant, len(copies))
				}
				// stream the pack of copy `primary`, all of its blobs
				p := copies[primary]
				var raw []byte
				if err := mem.Load(ctx, backend.Handle{Type: backend.PackFile, Name: p.PackID().String()}, 0, 0, func(rd io.Reader) (err error) { raw, err = io.ReadAll(rd); return err }); err != nil {
					t.Fatal(err)
				}
				entries, _, err := pack.List(repo.Key(), bytes.NewReader(raw), int64(len(raw)))
				if err != nil {
					t.Fatal(err)
				}
				var handles []restic.BlobHandle
				want := map[restic.BlobHandle]bool{}
				fbe.pack = p.PackID().String()
				for _, e := range entries {
					handles = append(handles, e.BlobHandle)
					want[e.BlobHandle] = true
					if e.BlobHandle == hX {
						fbe.lo, fbe.hi = int64(e.Offset)+20, int64(e.Offset)+24
					}
				}
				got := map[restic.BlobHandle]int{}
				var bad []string
				panicked, msg := vh.NoPanic(func() {
					err = repo.LoadBlobsFromPack(ctx, p.PackID(), handles, func(h restic.BlobHandle, buf []byte, err error) error {
						got[h]++
						switch {
						case !want[h]:
							bad = append(bad, fmt.Sprintf("foreign-callback: blob %v was not requested", h))
						case err == nil && restic.Hash(buf) != h.ID:
							bad = append(bad, fmt.Sprintf("wrong-bytes: blob %v delivered with other content", h))
						case err != nil && h == hX:
							bad = append(bad, fmt.Sprintf("no-fallback: X (copies of %d and %d stored bytes; streamed copy: %d bytes, %s) was reported with an error although its other copy is intact: %v", copies[0].CiphertextLength(), copies[1].CiphertextLength(), p.CiphertextLength(), mode, err))
						case err != nil && mode == "damaged":
							bad = append(bad, fmt.Sprintf("undamaged-blob-failed: blob %v is not damaged but was reported with %v", h, err))
						}
						return nil
					})
				})
				r.Eval(1)
				r.Trace(1)
				r.NontrivialByConstruction(1)
				if panicked {
					bad = append(bad, "panic: "+msg)
				}
				for h := range want {
					if got[h] != 1 {
						bad = append(bad, fmt.Sprintf("not-once: blob %v got %d callbacks", h, got[h]))
					}
				}
				r.Outcome(fmt.Sprintf("real-fallback|%s|%s|ok=%v", variant, mode, len(bad) == 0))
				for _, b := range bad {
					kind := b[:strings.Index(b, ":")]
					r.Violationf(ck, "C43|"+ck+"|"+kind, ck, "%s [%s]", b, ck)
				}
			}
		}
	}
}

func TestVerif_C43(t *testing.T) {
	r := vh.Start(t, "C43")
	defer r.Finish()
	verifC43RealFallback(t, r)
	verifC43InPackDuplicate(t, r)
	r.Rule("every non-empty blob subset of three synthetic pack layouts (gap-boundary, tiny, 32 MiB-chunk-boundary) x every assignment of range-request answers {ok,error,short,MAC damage of blob j,wrong sealed content for blob j} within the stated deviation bound x fallback {nil,all,none,even} x callback abort position, through the real streamPack; non-trivial = more than one range request, or a non-ok answer, or a callback abort")
	key := verifC43Key(t)
	dec, err := zstd.NewReader(nil)
	if err != nil {
		t.Fatal(err)
	}
	defer dec.Close()

	type layoutSpec struct {
		name   string
		items  []verifC43Item
		maxBad int
		aborts int // callback abort positions are enumerated for executions with at most this many non-ok answers (-1: never)
		fbs    []int
	}
	specs := []layoutSpec{
		{name: "A-gaps", maxBad: vh.Pick(r, 1, 2), aborts: vh.Pick(r, 0, 1), fbs: vh.Pick(r, []int{0, 3}, []int{0, 1, 2, 3}), items: []verifC43Item{
			{length: 40}, {length: verifC43MiB}, {length: 300, compressed: true}, {length: verifC43MiB + 1}, {length: 60},
			{length: 7, gap: true}, {length: verifC43MiB - 7}, {length: 50, tree: true}}},
		{name: "B-tiny", maxBad: 99, aborts: 99, fbs: []int{0, 1, 2, 3}, items: []verifC43Item{
			{length: 33}, {length: 90, compressed: true}, {length: 41, tree: true}, {length: 64, compressed: true}, {length: 48}}},
		{name: "C-big", maxBad: vh.Pick(r, 0, 1), aborts: -1, fbs: vh.Pick(r, []int{1}, []int{0, 1, 3}), items: []verifC43Item{
			{length: 16 * verifC43MiB}, {length: 16 * verifC43MiB}, {length: 40}, {length: 16*verifC43MiB - 41}, {length: 33 * verifC43MiB}, {length: 40}}},
	}

	for _, spec := range specs {
		var layout *verifC43Layout
		nblobs := 0
		for _, it := range spec.items {
			if !it.gap {
				nblobs++
			}
		}
		for subset := uint(1); subset < 1<<uint(nblobs); subset++ {
			ck := fmt.Sprintf("%s|subset=%b", spec.name, subset)
			if spec.name == "C-big" {
				// building the big layout costs seconds and ~200 MiB: keep it to a few shards in the quick tier;
				// in the thorough tier the per-subset work dominates, so spread it over all shards
				ck = fmt.Sprintf("%s|group=%d", spec.name, subset%uint(vh.Pick(r, 4, 16)))
			}
			if !r.Case(ck) {
				continue
			}
			if r.Expired() {
				return
			}
			if layout == nil {
				layout = verifC43Build(t, key, spec.name, spec.items) // lazily: the big layout costs ~1 s and 100 MiB
			}
			var req []pack.Blob
			for i, b := range layout.blobs {
				if subset&(1<<uint(i)) != 0 {
					req = append(req, b.blob)
				}
			}
			parts := verifC43Partition(req)
			r.State(ck)
			verifC43Answers(parts, spec.maxBad, func(answers []string) {
				nonOK := 0
				for _, a := range answers {
					if a != "ok" {
						nonOK++
					}
				}
				aborts := []int{0}
				if nonOK <= spec.aborts {
					aborts = append(aborts, 1)
					if len(req) >= 2 {
						aborts = append(aborts, 2)
					}
					if len(req) >= 3 {
						aborts = append(aborts, len(req))
					}
				}
				for _, fb := range spec.fbs {
					for _, ab := range aborts {
						e := verifC43Exec{layout: layout, subset: subset, answers: answers, fallback: fb, abortAt: ab}
						var fails []string
						var outcome string
						var nt bool
						panicked, msg := vh.NoPanic(func() { fails, outcome, nt = verifC43Run(e, key, dec) })
						r.Eval(1)
						r.Trace(1)
						r.Transition(int64(len(parts)))
						if panicked {
							r.Violationf(ck, "C43|"+e.key()+"|panic", e.key(), "streamPack panicked: %s", msg)
							continue
						}
						r.Outcome(outcome)
						if nt {
							r.NontrivialByConstruction(1)
						}
						for _, f := range fails {
							kind := f[:strings.Index(f, ":")]
							r.Violationf(ck, "C43|"+e.key()+"|"+kind, map[string]any{"layout": spec.name, "subset": fmt.Sprintf("%b", subset),
								"answers": answers, "fallback": fb, "abortAt": ab}, "%s [%s]", f, e.key())
						}
						if spec.name == "A-gaps" && subset == 0b0101011 && nonOK == 1 && fb == 3 && ab == 0 {
							r.Sample(map[string]any{"case": e.key(), "outcome": outcome})
						}
					}
				}
			})
		}
	}
}

// verifC43InPackDuplicate (part 3): a real pack that holds the same blob at two offsets (what SaveBlob with
// storeDuplicate produces inside one upload session), both copies indexed.  LoadBlobsFromPack for every
// non-empty subset of the pack's distinct blobs: each requested handle is handed to the callback exactly once,
// with the right bytes, nothing else.
func verifC43InPackDuplicate(t *testing.T, r *vh.Run) {
	ctx := context.Background()
	for _, comp := range []CompressionMode{CompressionOff, CompressionMax} {
		ck := fmt.Sprintf("in-pack-duplicate|compression=%v", comp)
		if !r.Case(ck) {
			continue
		}
		repo, _ := TestRepositoryWithBackend(t, TestBackend(t), 2, Options{Compression: comp})
		mk := func(seed byte, n int) []byte {
			b := make([]byte, n)
			for i := range b {
				b[i] = byte('k' + (i/41+int(seed))%9)
			}
			return b
		}
		A, B, C := mk(1, 1700), mk(2, 900), mk(3, 2600)
		if err := repo.WithBlobUploader(ctx, func(ctx context.Context, up restic.BlobSaverWithAsync) error {
			for _, c := range []struct {
				b   []byte
				dup bool
			}{{A, false}, {B, false}, {A, true}, {C, false}, {B, true}} {
				if _, _, _, err := up.SaveBlob(ctx, restic.DataBlob, c.b, restic.ID{}, c.dup); err != nil {
					return err
				}
			}
			return nil
		}); err != nil {
			t.Fatal(err)
		}
		content := map[restic.BlobHandle][]byte{}
		var hs []restic.BlobHandle
		for _, b := range [][]byte{A, B, C} {
			h := restic.BlobHandle{Type: restic.DataBlob, ID: restic.Hash(b)}
			content[h] = b
			hs = append(hs, h)
		}
		pbs := repo.LookupBlob(hs[0])
		if len(pbs) != 2 || pbs[0].PackID() != pbs[1].PackID() {
			t.Fatalf("fixture: blob A has %d index entries, want 2 in one pack", len(pbs))
		}
		packID := pbs[0].PackID()
		for mask := 1; mask < 1<<len(hs); mask++ {
			var req []restic.BlobHandle
			for i, h := range hs {
				if mask&(1<<i) != 0 {
					req = append(req, h)
				}
			}
			calls := map[restic.BlobHandle]int{}
			var bad []string
			err := repo.LoadBlobsFromPack(ctx, packID, req, func(h restic.BlobHandle, buf []byte, err error) error {
				calls[h]++
				if err != nil {
					bad = append(bad, fmt.Sprintf("callback for %v carries an error on an intact pack: %v", h, err))
				} else if want, ok := content[h]; !ok || !bytes.Equal(buf, want) {
					bad = append(bad, fmt.Sprintf("callback for %v carries wrong bytes", h))
				}
				return nil
			})
			r.Eval(1)
			r.Trace(1)
			r.NontrivialByConstruction(1)
			if err != nil {
				bad = append(bad, fmt.Sprintf("LoadBlobsFromPack failed on an intact pack: %v", err))
			}
			for _, h := range req {
				if calls[h] != 1 {
					bad = append(bad, fmt.Sprintf("requested blob %v: callback called %d times, want exactly once", h, calls[h]))
				}
			}
			for h, n := range calls {
				found := false
				for _, q := range req {
					found = found || q == h
				}
				if !found {
					bad = append(bad, fmt.Sprintf("blob %v was not requested but delivered %d time(s)", h, n))
				}
			}
			if len(bad) > 0 {
				r.Violation(ck, fmt.Sprintf("C43|in-pack-duplicate|compression=%v|request=%03b", comp, mask), strings.Join(bad, "\n"), nil)
			} else {
				r.Outcome("in-pack-duplicate ok")
			}
		}
	}
}

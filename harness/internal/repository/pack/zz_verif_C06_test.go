package pack

// C06: pack files list back exactly the blobs written into them; truncated,
// extended or malformed packs are rejected with an error, never a panic or a
// wrong listing.
//
// Everything runs on the real Packer (Add/Finalize incl. its verifyHeader) and
// the real List.  Spaces (all enumerated completely):
//
//	A  all entry sequences of length <= 4 over the alphabet
//	   {data,tree} x {plain, compressed} x stored length {17,33,1000}            (quick, 22 621 packs)
//	   {data,tree} x {plain, compressed ulen 1 / 3*len+1 / 2^32-1} x {0,17,33,1000} (thorough, 1 082 401 packs)
//	B  eager-read boundary: every mix of p plain + c compressed entries with 1 <= p+c <= 20 (every header
//	   size reachable with <= 20 entries) x 2 orders x first-blob lengths (0..700 for 1-2 entries: the
//	   file size sweeps across the eager read size; 0..8 otherwise)
//	C  header-entry limit: fill until HeaderFull (compressed and plain entries), MaxHeaderEntries-1,
//	   MaxHeaderEntries+1 (ignoring HeaderFull), a header of exactly MaxHeaderSize bytes and one entry more;
//	   length-field values around MaxHeaderSize on the 16 MiB pack
//	D  file-level faults on a 3-blob and a 17-blob pack: every byte x {bit0, bit7} flipped, every
//	   truncation, wrong size argument (+1..+40), extension by 1..40 bytes x 4 fill patterns,
//	   length field set to every value of a boundary list
//	E  plaintext-level faults on the same packs (the mutated header is sealed with the real key, so it
//	   reaches the entry parser): every truncation of the plaintext header, every byte x {bit0,bit7},
//	   every type byte x all 256 values, extension by 1..41 bytes x 2 fills
//
// Oracle: A-C the listing equals the entries added (type, ID, offset, length,
// uncompressed length), hdrSize = file size - sum of blob lengths = 4+32+sum of
// documented entry sizes (37/41), the decrypted header equals an independent
// encoding per doc/design.rst.  D: a mutation inside header or length field
// must give an error; outside (blob data) an error or the unchanged listing.
// E: List agrees with an independent reference decoder of the documented
// format (both reject, or same listing).  A panic anywhere is a violation.
//
// Deviation from DESIGN.md: part E and the exact-MaxHeaderSize packs were
// added; the "length field" boundary list is applied to the 16 MiB pack as
// well so that the MaxHeaderSize test is reachable.

import (
	"bytes"
	"encoding/binary"
	"errors"
	"fmt"
	"testing"

	"github.com/restic/restic/internal/repository/crypto"
	"github.com/restic/restic/internal/restic"
	"github.com/restic/restic/internal/verifshim/vh"
)

const (
	verifC06Plain     = 37 // type 1 + length 4 + id 32            (doc/design.rst)
	verifC06Comp      = 41 // type 1 + length 4 + ulength 4 + id 32
	verifC06Crypto    = 32 // IV 16 + MAC 16
	verifC06LenField  = 4
	verifC06MaxHeader = 16*1024*1024 + 4 // incl. length field
)

type verifC06Sym struct {
	tree bool
	ulen uint // 0 = not compressed
	ln   int
}

func (s verifC06Sym) String() string {
	t := "d"
	if s.tree {
		t = "t"
	}
	if s.ulen != 0 {
		return fmt.Sprintf("%sc%d/%d", t, s.ln, s.ulen)
	}
	return fmt.Sprintf("%sp%d", t, s.ln)
}

func (s verifC06Sym) btype() restic.BlobType {
	if s.tree {
		return restic.TreeBlob
	}
	return restic.DataBlob
}

func verifC06Alphabet(thorough bool) []verifC06Sym {
	var a []verifC06Sym
	lens := []int{17, 33, 1000}
	if thorough {
		lens = []int{0, 17, 33, 1000}
	}
	for _, tree := range []bool{false, true} {
		for _, l := range lens {
			a = append(a, verifC06Sym{tree, 0, l})
			if thorough {
				a = append(a, verifC06Sym{tree, 1, l}, verifC06Sym{tree, uint(3*l + 1), l}, verifC06Sym{tree, 1<<32 - 1, l})
			} else {
				a = append(a, verifC06Sym{tree, uint(2*l + 1), l})
			}
		}
	}
	return a
}

func verifC06ID(pos int, s verifC06Sym) restic.ID {
	var id restic.ID
	for j := range id {
		id[j] = byte(pos*31 + j*7 + s.ln)
	}
	id[0] = byte(pos)
	id[1] = byte(pos >> 8)
	id[2] = byte(pos >> 16)
	if s.tree {
		id[3] = 0xff
	}
	return id
}

// deterministic non-repeating filler for blob data
func verifC06Fill(b []byte, seed uint32) {
	x := seed*2654435761 + 12345
	for i := range b {
		x = x*1664525 + 1013904223
		b[i] = byte(x >> 24)
	}
}

type verifC06Pack struct {
	file     []byte
	want     Blobs
	dataLen  int
	hdrLen   int // encrypted header without length field
	finalErr error
}

// build writes the sequence with the real Packer and reports API-level violations.
func verifC06Build(r *vh.Run, ck string, k *crypto.Key, seq []verifC06Sym, ignoreFull bool, vkey string) (*verifC06Pack, bool) {
	var buf bytes.Buffer
	p := NewPacker(k, &buf)
	pk := &verifC06Pack{}
	ok := true
	off := uint(0)
	var data []byte
	for i, s := range seq {
		if cap(data) < s.ln {
			data = make([]byte, s.ln)
		}
		data = data[:s.ln]
		if s.ln > 0 && len(seq) < 1000 {
			verifC06Fill(data, uint32(i))
		}
		id := verifC06ID(i, s)
		if !ignoreFull && p.HeaderFull() {
			r.Violationf(ck, "C06|headerfull-early|"+vkey, vkey, "HeaderFull() is true with %d entries (< MaxHeaderEntries)", i)
			ok = false
		}
		n, err := p.Add(s.btype(), id, data, int(s.ulen))
		es := verifC06Plain
		if s.ulen != 0 {
			es = verifC06Comp
		}
		if err != nil || n != s.ln+es {
			r.Violationf(ck, "C06|add|"+vkey, vkey, "Add #%d (%v) returned (%d,%v), want (%d,nil)", i, s, n, err, s.ln+es)
			return nil, false
		}
		pk.want = append(pk.want, Blob{BlobHandle: restic.BlobHandle{Type: s.btype(), ID: id}, Length: uint(s.ln), Offset: off, UncompressedLength: s.ulen})
		off += uint(s.ln)
	}
	pk.dataLen = int(off)
	if p.Size() != off || p.Count() != len(seq) {
		r.Violationf(ck, "C06|size-count|"+vkey, vkey, "Size()=%d Count()=%d before Finalize, want %d/%d", p.Size(), p.Count(), off, len(seq))
		ok = false
	}
	pk.finalErr = p.Finalize()
	pk.file = buf.Bytes()
	if pk.finalErr == nil && int(p.Size()) != len(pk.file) {
		r.Violationf(ck, "C06|size-after-finalize|"+vkey, vkey, "Size()=%d after Finalize, file has %d bytes", p.Size(), len(pk.file))
		ok = false
	}
	pk.hdrLen = len(pk.file) - pk.dataLen - verifC06LenField
	return pk, ok
}

// reference encoder of the plaintext header (doc/design.rst)
func verifC06RefEncode(blobs Blobs) []byte {
	var h []byte
	for _, b := range blobs {
		t := byte(0)
		if b.Type == restic.TreeBlob {
			t = 1
		}
		if b.UncompressedLength != 0 {
			t |= 2
		}
		h = append(h, t)
		h = binary.LittleEndian.AppendUint32(h, uint32(b.Length))
		if b.UncompressedLength != 0 {
			h = binary.LittleEndian.AppendUint32(h, uint32(b.UncompressedLength))
		}
		h = append(h, b.ID[:]...)
	}
	return h
}

// reference decoder of the plaintext header (doc/design.rst)
func verifC06RefDecode(h []byte) (Blobs, error) {
	var out Blobs
	off := uint(0)
	for len(h) > 0 {
		t := h[0]
		if t > 3 {
			return nil, errors.New("invalid type")
		}
		need := verifC06Plain
		if t&2 != 0 {
			need = verifC06Comp
		}
		if len(h) < need {
			return nil, errors.New("truncated entry")
		}
		var b Blob
		b.Type = restic.DataBlob
		if t&1 != 0 {
			b.Type = restic.TreeBlob
		}
		b.Length = uint(binary.LittleEndian.Uint32(h[1:5]))
		p := 5
		if t&2 != 0 {
			b.UncompressedLength = uint(binary.LittleEndian.Uint32(h[5:9]))
			p = 9
		}
		copy(b.ID[:], h[p:p+32])
		b.Offset = off
		off += b.Length
		out = append(out, b)
		h = h[need:]
	}
	return out, nil
}

func verifC06Equal(a, b Blobs) bool {
	if len(a) != len(b) {
		return false
	}
	for i := range a {
		if a[i] != b[i] {
			return false
		}
	}
	return true
}

func verifC06FirstDiff(a, b Blobs) string {
	if len(a) != len(b) {
		return fmt.Sprintf("%d entries listed, %d expected", len(a), len(b))
	}
	for i := range a {
		if a[i] != b[i] {
			return fmt.Sprintf("entry %d: listed %v, expected %v", i, a[i], b[i])
		}
	}
	return "equal"
}

type verifC06Result struct {
	entries Blobs
	hdr     uint32
	err     error
	panicky bool
	msg     string
}

func verifC06List(k *crypto.Key, file []byte, size int64) verifC06Result {
	var res verifC06Result
	res.panicky, res.msg = vh.NoPanic(func() {
		res.entries, res.hdr, res.err = List(k, bytes.NewReader(file), size)
	})
	return res
}

// checkValid: a pack written by the Packer must list back exactly.
func verifC06CheckValid(r *vh.Run, ck string, k *crypto.Key, pk *verifC06Pack, vkey string, emptyOK bool) {
	if pk.finalErr != nil {
		if emptyOK {
			r.Outcome("finalize-rejected")
			return
		}
		r.Violationf(ck, "C06|finalize|"+vkey, vkey, "Finalize failed for a valid sequence: %v", pk.finalErr)
		return
	}
	res := verifC06List(k, pk.file, int64(len(pk.file)))
	switch {
	case res.panicky:
		r.Violationf(ck, "C06|panic-valid|"+vkey, vkey, "List panicked on a pack written by Packer: %s", res.msg)
		return
	case res.err != nil:
		r.Violationf(ck, "C06|list-error|"+vkey, vkey, "List failed on a pack written by Packer: %v", res.err)
		return
	case !verifC06Equal(res.entries, pk.want):
		r.Violationf(ck, "C06|listing|"+vkey, vkey, "List differs from what was added: %s", verifC06FirstDiff(res.entries, pk.want))
		return
	}
	wantHdr := verifC06LenField + verifC06Crypto
	for _, b := range pk.want {
		if b.UncompressedLength != 0 {
			wantHdr += verifC06Comp
		} else {
			wantHdr += verifC06Plain
		}
	}
	if int(res.hdr) != len(pk.file)-pk.dataLen || int(res.hdr) != wantHdr || CalculateHeaderSize(pk.want) != wantHdr {
		r.Violationf(ck, "C06|hdrsize|"+vkey, vkey, "hdrSize=%d, file occupies %d, documented format gives %d, CalculateHeaderSize=%d", res.hdr, len(pk.file)-pk.dataLen, wantHdr, CalculateHeaderSize(pk.want))
	}
	// the written header follows the documented format
	hdr := pk.file[pk.dataLen : len(pk.file)-verifC06LenField]
	if len(hdr) >= verifC06Crypto {
		pt, err := k.Open(nil, hdr[:16], hdr[16:], nil)
		if err != nil || !bytes.Equal(pt, verifC06RefEncode(pk.want)) {
			r.Violationf(ck, "C06|format|"+vkey, vkey, "written header does not decrypt to the documented encoding (err=%v)", err)
		}
	}
	r.Outcome(fmt.Sprintf("listed-%d", min(len(pk.want), 5)))
}

func verifC06SeqKey(seq []verifC06Sym) string {
	s := ""
	for i, x := range seq {
		if i > 0 {
			s += ","
		}
		s += x.String()
	}
	return "[" + s + "]"
}

func verifC06Seal(k *crypto.Key, data, plainHdr []byte) []byte {
	nonce := crypto.NewRandomNonce()
	f := append([]byte{}, data...)
	start := len(f)
	f = append(f, nonce...)
	f = k.Seal(f, nonce, plainHdr, nil)
	return binary.LittleEndian.AppendUint32(f, uint32(len(f)-start))
}

func TestVerif_C06(t *testing.T) {
	r := vh.Start(t, "C06")
	defer r.Finish()
	r.Rule("A: all entry sequences of length <= 4 over the alphabet through Packer+List (non-trivial: >= 2 entries); B: eager-read sweep; C: header-entry limit packs; " +
		"D: every byte flip (bit0,bit7) / truncation / extension / length-field value of a 3- and a 17-blob pack (non-trivial: all); " +
		"E: every plaintext-header truncation / flip / type value sealed with the real key vs a reference decoder (non-trivial: all)")
	r.Assume("a single-bit change of the encrypted header cannot produce a valid Poly1305 tag (holds for every case enumerated; checked, not assumed, by the run itself)",
		"blob data is LCG noise, i.e. contains no embedded valid pack header")
	k := crypto.NewRandomKey()
	alpha := verifC06Alphabet(r.Thorough())

	// ---------------------------------------------------------------- A
	var rec func(seq []verifC06Sym, ck string)
	rec = func(seq []verifC06Sym, ck string) {
		vkey := verifC06SeqKey(seq)
		r.Eval(1)
		pk, ok := verifC06Build(r, ck, k, seq, false, vkey)
		r.Transition(int64(len(seq)) + 2)
		if pk != nil && ok {
			verifC06CheckValid(r, ck, k, pk, vkey, len(seq) == 0)
			r.Trace(1)
		}
		if len(seq) >= 2 {
			r.NontrivialByConstruction(1)
		}
		if len(seq) == 3 && seq[0] != seq[1] && seq[1].ulen != 0 && pk != nil {
			r.Sample(map[string]any{"part": "A", "seq": vkey, "file_bytes": len(pk.file), "hdr": pk.hdrLen + 4})
		}
		if len(seq) == 4 {
			return
		}
		for _, s := range alpha {
			rec(append(seq, s), ck)
		}
	}
	if r.Case("A|short") {
		// lengths 0 and 1
		ck := "A|short"
		r.Eval(1)
		pk, ok := verifC06Build(r, ck, k, nil, false, "[]")
		if pk != nil && ok {
			verifC06CheckValid(r, ck, k, pk, "[]", true)
		}
		for _, s := range alpha {
			seq := []verifC06Sym{s}
			r.Eval(1)
			pk, ok := verifC06Build(r, ck, k, seq, false, verifC06SeqKey(seq))
			if pk != nil && ok {
				verifC06CheckValid(r, ck, k, pk, verifC06SeqKey(seq), false)
				r.Trace(1)
			}
		}
	}
	for _, s1 := range alpha {
		for _, s2 := range alpha {
			ck := "A|" + s1.String() + "," + s2.String()
			if !r.Case(ck) {
				continue
			}
			if r.Expired() {
				return
			}
			rec([]verifC06Sym{s1, s2}, ck)
		}
	}

	// ---------------------------------------------------------------- B
	eager := 15*verifC06Comp + verifC06LenField + verifC06Crypto
	for np := 0; np <= 20; np++ {
		for nc := 0; nc+np <= 20; nc++ {
			n := np + nc
			if n == 0 {
				continue
			}
			ck := fmt.Sprintf("B|plain=%d|comp=%d", np, nc)
			if !r.Case(ck) {
				continue
			}
			maxFirst := 8
			if n <= 2 {
				maxFirst = 700
			}
			for order := 0; order < 2; order++ {
				if order == 1 && (np == 0 || nc == 0) {
					continue
				}
				for first := 0; first <= maxFirst; first++ {
					seq := make([]verifC06Sym, n)
					for i := range seq {
						comp := i >= np
						if order == 1 {
							comp = i < nc
						}
						seq[i] = verifC06Sym{tree: i%3 == 0, ln: 17}
						if comp {
							seq[i].ulen = 100
						}
					}
					seq[0].ln = first
					vkey := fmt.Sprintf("B|plain=%d|comp=%d|order=%d|first=%d", np, nc, order, first)
					r.Eval(1)
					pk, ok := verifC06Build(r, ck, k, seq, false, vkey)
					if pk == nil || !ok {
						continue
					}
					verifC06CheckValid(r, ck, k, pk, vkey, false)
					r.Trace(1)
					r.Transition(int64(n) + 2)
					hdrTotal := pk.hdrLen + verifC06LenField
					rel := "hdr<eager"
					if hdrTotal == eager {
						rel = "hdr=eager"
					} else if hdrTotal > eager {
						rel = "hdr>eager"
					}
					srel := "file<eager"
					if len(pk.file) == eager {
						srel = "file=eager"
					} else if len(pk.file) > eager {
						srel = "file>eager"
					}
					r.AddS("eager_relations", rel+"|"+srel)
					if d := hdrTotal - eager; d >= -verifC06Comp && d <= verifC06Comp {
						r.AddS("eager_header_size_distances", fmt.Sprint(d))
						r.NontrivialByConstruction(1)
					} else if len(pk.file) >= eager-4 && len(pk.file) <= eager+4 {
						r.NontrivialByConstruction(1)
					}
				}
			}
		}
	}

	// ---------------------------------------------------------------- C
	verifC06Limit(r, k)

	// ---------------------------------------------------------------- D, E
	for _, nb := range []int{3, 17} {
		verifC06Faults(r, k, nb)
	}
}

func verifC06Limit(r *vh.Run, k *crypto.Key) {
	wantMax := (verifC06MaxHeader - verifC06LenField - verifC06Crypto) / verifC06Comp
	if int(MaxHeaderEntries) != wantMax || MaxHeaderSize != verifC06MaxHeader {
		if r.Case("C|const") {
			r.Violationf("C|const", "C06|constants", nil, "MaxHeaderEntries=%d MaxHeaderSize=%d, expected %d / %d", MaxHeaderEntries, MaxHeaderSize, wantMax, verifC06MaxHeader)
		}
	}
	comp := verifC06Sym{ulen: 9, ln: 1}
	plain := verifC06Sym{tree: true, ln: 1}
	mk := func(n int, s verifC06Sym) []verifC06Sym {
		seq := make([]verifC06Sym, n)
		for i := range seq {
			seq[i] = s
		}
		return seq
	}

	// fill until HeaderFull
	for _, c := range []struct {
		name string
		s    verifC06Sym
	}{{"fill-compressed", comp}, {"fill-plain", plain}} {
		ck := "C|" + c.name
		if !r.Case(ck) {
			continue
		}
		r.Eval(1)
		var buf bytes.Buffer
		p := NewPacker(k, &buf)
		var want Blobs
		n := 0
		bad := false
		for !p.HeaderFull() {
			if n > wantMax+10 {
				break
			}
			id := verifC06ID(n, c.s)
			if _, err := p.Add(c.s.btype(), id, []byte{byte(n)}, int(c.s.ulen)); err != nil {
				r.Violationf(ck, "C06|add|"+c.name, n, "Add #%d failed: %v", n, err)
				bad = true
				break
			}
			want = append(want, Blob{BlobHandle: restic.BlobHandle{Type: c.s.btype(), ID: id}, Length: 1, Offset: uint(n), UncompressedLength: c.s.ulen})
			n++
		}
		r.Transition(int64(n))
		if bad {
			continue
		}
		if n != wantMax {
			r.Violationf(ck, "C06|headerfull-boundary|"+c.name, n, "HeaderFull() became true after %d entries; the header-entry limit is %d (a writer relying on HeaderFull would produce a pack with %d entries)", n, wantMax, n)
		}
		pk := &verifC06Pack{want: want, dataLen: n}
		pk.finalErr = p.Finalize()
		pk.file = buf.Bytes()
		pk.hdrLen = len(pk.file) - n - 4
		verifC06CheckValid(r, ck, k, pk, c.name, false)
		r.Trace(1)
		r.NontrivialByConstruction(1)
		r.Sample(map[string]any{"part": "C", "case": c.name, "entries_when_full": n, "file_bytes": len(pk.file)})

		if c.name == "fill-compressed" && pk.finalErr == nil {
			// length-field values around MaxHeaderSize on the big pack
			trueLen := uint32(pk.hdrLen)
			for _, v := range []uint32{verifC06MaxHeader - 5, verifC06MaxHeader - 4, verifC06MaxHeader - 3, verifC06MaxHeader, verifC06MaxHeader + 1, trueLen - 1, trueLen + 1, trueLen - verifC06Comp, uint32(len(pk.file) - 4), uint32(len(pk.file) - 3)} {
				if v == trueLen {
					continue
				}
				f := append([]byte{}, pk.file...)
				binary.LittleEndian.PutUint32(f[len(f)-4:], v)
				res := verifC06List(k, f, int64(len(f)))
				r.Eval(1)
				r.NontrivialByConstruction(1)
				verifC06MustFail(r, ck, res, fmt.Sprintf("C06|bigpack-lenfield|%d", int64(v)-int64(trueLen)), fmt.Sprintf("16 MiB pack, length field %d instead of %d", v, trueLen))
			}
		}
	}

	type lim struct {
		name     string
		seq      []verifC06Sym
		twoSided bool
	}
	// 13 compressed + 453423 plain entries: encrypted header is exactly MaxHeaderSize-4 bytes
	exact := append(mk(13, comp), mk(453423, plain)...)
	for _, c := range []lim{
		{"max-1", mk(wantMax-1, comp), false},
		{"max+1-ignoring-headerfull", mk(wantMax+1, comp), true},
		{"exact-maxheadersize", exact, true},
		{"exact-maxheadersize+1entry", append(append([]verifC06Sym{}, exact...), plain), true},
	} {
		ck := "C|" + c.name
		if !r.Case(ck) {
			continue
		}
		r.Eval(1)
		pk, ok := verifC06Build(r, ck, k, c.seq, c.twoSided, c.name)
		r.Transition(int64(len(c.seq)))
		if pk == nil || !ok {
			continue
		}
		if c.twoSided && pk.finalErr != nil {
			r.Outcome("limit-finalize-rejected|" + c.name)
			r.Note("limit pack %s (%d entries): Finalize refused: %.120s", c.name, len(c.seq), pk.finalErr.Error())
			r.NontrivialByConstruction(1)
			continue
		}
		verifC06CheckValid(r, ck, k, pk, c.name, false)
		r.Outcome("limit-listed|" + c.name)
		r.Note("limit pack %s (%d entries, encrypted header %d bytes): written and listed back", c.name, len(c.seq), pk.hdrLen)
		r.Trace(1)
		r.NontrivialByConstruction(1)
	}
}

func verifC06MustFail(r *vh.Run, ck string, res verifC06Result, key, what string) {
	switch {
	case res.panicky:
		r.Violationf(ck, key+"|panic", what, "%s: List panicked: %s", what, res.msg)
	case res.err == nil:
		r.Violationf(ck, key+"|accepted", what, "%s: List returned %d entries without error", what, len(res.entries))
	default:
		r.Outcome("rejected")
	}
}

func verifC06Faults(r *vh.Run, k *crypto.Key, nb int) {
	lens := []int{17, 33, 1000}
	seq := make([]verifC06Sym, nb)
	for i := range seq {
		seq[i] = verifC06Sym{tree: i%2 == 1, ln: lens[i%3]}
		if i%3 != 0 {
			seq[i].ulen = uint(2*seq[i].ln + i)
		}
	}
	name := fmt.Sprintf("F%d", nb)
	pk, ok := verifC06Build(r, "", k, seq, false, name)
	if pk == nil || !ok || pk.finalErr != nil {
		r.T.Fatalf("fixture pack %s could not be built: %v", name, pk)
	}
	size := len(pk.file)
	hdrStart := pk.dataLen
	trueLen := uint32(pk.hdrLen)

	same := func(res verifC06Result) bool {
		return res.err == nil && verifC06Equal(res.entries, pk.want) && int(res.hdr) == pk.hdrLen+4
	}
	{
		res := verifC06List(k, pk.file, int64(size))
		if res.panicky || !same(res) {
			if r.Case("D|" + name + "|base") {
				r.Violationf("D|"+name+"|base", "C06|fault-base|"+name, nil, "unmutated fixture pack does not list back: %v %s", res.err, res.msg)
			}
			return
		}
	}

	// D1 byte flips
	const block = 256
	for b0 := 0; b0 < size; b0 += block {
		ck := fmt.Sprintf("D|%s|flip|%d", name, b0)
		if !r.Case(ck) {
			continue
		}
		f := append([]byte{}, pk.file...)
		for pos := b0; pos < b0+block && pos < size; pos++ {
			for _, bit := range []byte{0x01, 0x80} {
				f[pos] ^= bit
				res := verifC06List(k, f, int64(size))
				f[pos] ^= bit
				r.Eval(1)
				r.NontrivialByConstruction(1)
				region := "data"
				if pos >= size-4 {
					region = "lenfield"
				} else if pos >= hdrStart {
					region = "header"
				}
				what := fmt.Sprintf("%s: byte %d (%s) xor %#x", name, pos, region, bit)
				key := fmt.Sprintf("C06|flip|%s|%s", name, region)
				switch {
				case res.panicky:
					r.Violationf(ck, key+"|panic", what, "%s: List panicked: %s", what, res.msg)
				case region == "data":
					if res.err == nil && !same(res) {
						r.Violationf(ck, key+"|wrong-listing", what, "%s: List returned a different listing: %s", what, verifC06FirstDiff(res.entries, pk.want))
					}
					r.Outcome(fmt.Sprintf("data-flip-err=%v", res.err != nil))
				default:
					if res.err == nil {
						r.Violationf(ck, key+"|accepted", what, "%s: List returned %d entries without error (same listing: %v)", what, len(res.entries), same(res))
					}
					r.Outcome("rejected")
				}
			}
		}
	}

	// D2 truncations and wrong size arguments
	for b0 := 0; b0 < size; b0 += block {
		ck := fmt.Sprintf("D|%s|trunc|%d", name, b0)
		if !r.Case(ck) {
			continue
		}
		for n := b0; n < b0+block && n < size; n++ {
			res := verifC06List(k, pk.file[:n], int64(n))
			r.Eval(1)
			r.NontrivialByConstruction(1)
			verifC06MustFail(r, ck, res, fmt.Sprintf("C06|trunc|%s", name), fmt.Sprintf("%s truncated to %d of %d bytes", name, n, size))
		}
	}
	if ck := "D|" + name + "|size-arg"; r.Case(ck) {
		for d := 1; d <= 40; d++ {
			res := verifC06List(k, pk.file, int64(size+d))
			r.Eval(1)
			r.NontrivialByConstruction(1)
			verifC06MustFail(r, ck, res, fmt.Sprintf("C06|size-arg|%s", name), fmt.Sprintf("%s: size argument %d for a %d byte file", name, size+d, size))
		}
	}

	// D3 extensions
	if ck := "D|" + name + "|extend"; r.Case(ck) {
		for d := 1; d <= 40; d++ {
			for fill := 0; fill < 4; fill++ {
				ext := make([]byte, d)
				switch fill {
				case 1:
					for i := range ext {
						ext[i] = 0xff
					}
				case 2: // repeat the true length field
					for i := range ext {
						ext[len(ext)-1-i] = pk.file[size-1-i%4]
					}
				case 3: // a length field that covers old header + extension
					var lf [4]byte
					binary.LittleEndian.PutUint32(lf[:], trueLen+uint32(d))
					for i := range ext {
						ext[len(ext)-1-i] = lf[3-i%4]
					}
				}
				f := append(append([]byte{}, pk.file...), ext...)
				res := verifC06List(k, f, int64(len(f)))
				r.Eval(1)
				r.NontrivialByConstruction(1)
				verifC06MustFail(r, ck, res, fmt.Sprintf("C06|extend|%s|fill%d", name, fill), fmt.Sprintf("%s extended by %d bytes (fill %d)", name, d, fill))
			}
		}
	}

	// D4 length field values
	if ck := "D|" + name + "|lenfield"; r.Case(ck) {
		vals := []uint32{0, 1, 15, 16, 31, 32, 33, 36, 37, trueLen - 41, trueLen - 37, trueLen - 1, trueLen + 1, trueLen + 37, trueLen + 41,
			uint32(size - 5), uint32(size - 4), uint32(size - 3), uint32(size), uint32(size + 1),
			verifC06MaxHeader - 5, verifC06MaxHeader - 4, verifC06MaxHeader - 3, verifC06MaxHeader, 1<<31 - 1, 1 << 31, 1<<32 - 5, 1<<32 - 4, 1<<32 - 3, 1<<32 - 2, 1<<32 - 1}
		for _, v := range vals {
			if v == trueLen {
				continue
			}
			f := append([]byte{}, pk.file...)
			binary.LittleEndian.PutUint32(f[size-4:], v)
			res := verifC06List(k, f, int64(size))
			r.Eval(1)
			r.NontrivialByConstruction(1)
			verifC06MustFail(r, ck, res, fmt.Sprintf("C06|lenfield|%s|%d", name, v), fmt.Sprintf("%s: length field %d instead of %d (file %d bytes)", name, v, trueLen, size))
		}
	}

	// E plaintext-level faults, sealed with the real key
	plain := verifC06RefEncode(pk.want)
	data := pk.file[:pk.dataLen]
	checkPlain := func(ck, key, what string, h []byte) {
		f := verifC06Seal(k, data, h)
		res := verifC06List(k, f, int64(len(f)))
		ref, refErr := verifC06RefDecode(h)
		r.Eval(1)
		r.NontrivialByConstruction(1)
		switch {
		case res.panicky:
			r.Violationf(ck, key+"|panic", what, "%s: List panicked: %s", what, res.msg)
		case len(h) == 0:
			// an empty header: rejecting it or listing nothing are both fine
			if res.err == nil && len(res.entries) != 0 {
				r.Violationf(ck, key+"|wrong-listing", what, "%s: empty header lists %d entries", what, len(res.entries))
			}
		case refErr != nil && res.err == nil:
			r.Violationf(ck, key+"|accepted", what, "%s: malformed header (%v) accepted with %d entries", what, refErr, len(res.entries))
		case refErr == nil && res.err != nil:
			r.Violationf(ck, key+"|rejected-valid", what, "%s: well-formed header rejected: %v", what, res.err)
		case refErr == nil && (!verifC06Equal(res.entries, ref) || int(res.hdr) != len(h)+verifC06Crypto+4):
			r.Violationf(ck, key+"|wrong-listing", what, "%s: %s (hdrSize %d, expected %d)", what, verifC06FirstDiff(res.entries, ref), res.hdr, len(h)+verifC06Crypto+4)
		}
		r.Outcome(fmt.Sprintf("plain-ref-err=%v", refErr != nil))
	}
	const eblock = 64
	for b0 := 0; b0 <= len(plain); b0 += eblock {
		ck := fmt.Sprintf("E|%s|%d", name, b0)
		if !r.Case(ck) {
			continue
		}
		for pos := b0; pos < b0+eblock && pos <= len(plain); pos++ {
			checkPlain(ck, fmt.Sprintf("C06|plain-trunc|%s|rem%d", name, verifC06Rem(plain, pos)), fmt.Sprintf("%s: plaintext header truncated to %d of %d bytes", name, pos, len(plain)), plain[:pos])
			if pos == len(plain) {
				break
			}
			for _, bit := range []byte{0x01, 0x80} {
				h := append([]byte{}, plain...)
				h[pos] ^= bit
				checkPlain(ck, fmt.Sprintf("C06|plain-flip|%s|%s", name, verifC06Field(plain, pos)), fmt.Sprintf("%s: plaintext header byte %d xor %#x", name, pos, bit), h)
			}
			if verifC06Field(plain, pos) == "type" {
				for v := 0; v < 256; v++ {
					h := append([]byte{}, plain...)
					h[pos] = byte(v)
					checkPlain(ck, fmt.Sprintf("C06|plain-type|%s|%d", name, v), fmt.Sprintf("%s: type byte at %d set to %d", name, pos, v), h)
				}
			}
		}
	}
	if ck := "E|" + name + "|extend"; r.Case(ck) {
		for d := 1; d <= 41; d++ {
			for _, fill := range []byte{0, 0xff, 2} {
				h := append(append([]byte{}, plain...), bytes.Repeat([]byte{fill}, d)...)
				checkPlain(ck, fmt.Sprintf("C06|plain-extend|%s|fill%d|%d", name, fill, d), fmt.Sprintf("%s: plaintext header extended by %d bytes %#x", name, d, fill), h)
			}
		}
	}
}

// verifC06Field names the header field byte pos belongs to.
func verifC06Field(plain []byte, pos int) string {
	off := 0
	for off < len(plain) {
		comp := plain[off]&2 != 0
		sz := verifC06Plain
		if comp {
			sz = verifC06Comp
		}
		if pos < off+sz {
			rel := pos - off
			switch {
			case rel == 0:
				return "type"
			case rel < 5:
				return "length"
			case comp && rel < 9:
				return "ulength"
			default:
				return "id"
			}
		}
		off += sz
	}
	return "?"
}

// verifC06Rem: number of bytes of a partial trailing entry when the header is cut at pos (0 = entry boundary).
func verifC06Rem(plain []byte, pos int) int {
	off := 0
	for off < len(plain) {
		sz := verifC06Plain
		if plain[off]&2 != 0 {
			sz = verifC06Comp
		}
		if pos < off+sz {
			return pos - off
		}
		off += sz
	}
	return 0
}

package repository

// C02: loaded data always matches its content address.
//
// (a) Store side.  For each blob content in {empty, 1 byte, MinSize-1 zeros,
// MinSize zeros (the zero-chunk shortcut), MinSize zeros with the last / the
// first bit set, MinSize+1 zeros, MinSize-1 and MinSize+1 random bytes} x blob type
// {data, tree} x repository {v1, v2 compression off/auto/max}: a fresh
// repository, SaveBlob with a null ID (restic computes it) + snapshot, lock
// and second key file; afterwards EVERY file in the backend except the config
// has name = SHA-256(bytes), the ID SaveBlob returned is SHA-256(plaintext),
// and every blob listed in every pack header (pack.List) decrypts
// (crypto.Key.Open) and decompresses (zstd, directly) to a plaintext whose
// SHA-256 is the listed ID; the saved blob is among them and in the index.
// Additionally SaveBlob with an explicit, wrong ID must fail.
//
// (b) Load side.  A lying backend (wrapper around the mem backend) answers
// every Load from {T true bytes, F one bit flipped, S truncated by 1, Z
// truncated to 0, O the same range of another file of the same type (for packs:
// a pack that holds a different, correctly sealed blob of the same length at
// the same offset as the first blob), X
// extended by 1 byte, E error, R the transfer breaks off half-way and the consumer
// is called a second time within the same Load with the true bytes (what
// retry.Backend does; Backend.Load documents that the consumer must be idempotent)}.  The complete answer tree to depth 3 (quick) /
// 4 (thorough) is explored (answers beyond the depth are T; a subtree is cut as
// soon as the call consumes fewer answers than the prefix holds) for each API:
//   LoadRaw      {data pack, index, snapshot, lock, key}
//   LoadUnpacked {index, snapshot, lock, config},  LoadKey
//   LoadBlob     {data blob with 1 copy, data blob with 2 copies, tree blob}
//   LoadBlobsFromPack {data pack with 3 blobs one of which has a 2nd copy, tree pack}
//   ListPackHandles/listPack {data pack}
// x repository version {1, 2} x cache layer {off, on (new Cache object on an emptied directory for every execution)}.
// Oracle: the call returns an error, or bytes whose SHA-256 is the requested
// ID (LoadRaw; an error return may carry the bad buffer), or exactly the
// plaintext an honest backend yields (LoadUnpacked/LoadKey/listPack; these are
// addressed by the ciphertext hash / authenticated by the MAC), or for blobs a
// plaintext whose SHA-256 is the blob ID.  LoadBlobsFromPack: every callback
// carries an error or such a plaintext, each handle at most once.
// Non-trivial: at least one non-T answer was delivered.

import (
	"bytes"
	"context"
	"crypto/sha256"
	"encoding/json"
	"errors"
	"fmt"
	"io"
	"reflect"
	"sort"
	"strings"
	"testing"

	"github.com/klauspost/compress/zstd"
	"github.com/restic/chunker"
	"github.com/restic/restic/internal/backend"
	"github.com/restic/restic/internal/backend/cache"
	"github.com/restic/restic/internal/backend/mem"
	"github.com/restic/restic/internal/repository/pack"
	"github.com/restic/restic/internal/restic"
	rtest "github.com/restic/restic/internal/test"
	"github.com/restic/restic/internal/verifshim/vh"
)

// ---------------------------------------------------------------- store side

type verifC02Content struct {
	name string
	gen  func() []byte
}

func verifC02Rand(seed uint64, n int) []byte {
	buf := make([]byte, n)
	x := seed*0x9E3779B97F4A7C15 + 99
	for i := range buf {
		x ^= x << 13
		x ^= x >> 7
		x ^= x << 17
		buf[i] = byte(x >> 11)
	}
	return buf
}

func verifC02Contents() []verifC02Content {
	ms := chunker.MinSize
	zeros := func(n int) func() []byte { return func() []byte { return make([]byte, n) } }
	return []verifC02Content{
		{"empty", zeros(0)},
		{"one", func() []byte { return []byte{0} }},
		{"min-1-zeros", zeros(ms - 1)},
		{"min-zeros", zeros(ms)},
		{"min-zeros-lastbit", func() []byte { b := make([]byte, ms); b[ms-1] = 1; return b }},
		{"min-zeros-firstbit", func() []byte { b := make([]byte, ms); b[0] = 0x80; return b }},
		{"min+1-zeros", zeros(ms + 1)},
		{"2min-zeros", zeros(2 * ms)},
		{"min-1-random", func() []byte { return verifC02Rand(1, ms-1) }},
		{"min-random", func() []byte { return verifC02Rand(2, ms) }},
	}
}

type verifC02RepoKind struct {
	name    string
	version uint
	comp    CompressionMode
}

func verifC02Kinds() []verifC02RepoKind {
	return []verifC02RepoKind{
		{"v1", 1, CompressionOff},
		{"v2-off", 2, CompressionOff},
		{"v2-auto", 2, CompressionAuto},
		{"v2-max", 2, CompressionMax},
	}
}

func verifC02AllFiles(t testing.TB, be backend.Backend) map[backend.Handle][]byte {
	files := map[backend.Handle][]byte{}
	for _, ft := range []backend.FileType{backend.PackFile, backend.IndexFile, backend.SnapshotFile, backend.LockFile, backend.KeyFile} {
		err := be.List(context.Background(), ft, func(fi backend.FileInfo) error {
			h := backend.Handle{Type: ft, Name: fi.Name}
			return be.Load(context.Background(), h, 0, 0, func(rd io.Reader) error {
				buf, err := io.ReadAll(rd)
				files[h] = buf
				return err
			})
		})
		if err != nil {
			t.Fatalf("listing backend: %v", err)
		}
	}
	return files
}

func verifC02Store(t *testing.T, r *vh.Run, ck string, kind verifC02RepoKind, tpe restic.BlobType, content verifC02Content) {
	ctx := context.Background()
	viol := func(kind2, format string, a ...any) {
		r.Violationf(ck, "C02|"+ck+"|"+kind2, map[string]any{"repo": kind.name, "type": tpe.String(), "content": content.name}, format+" ["+ck+"]", a...)
	}
	be := mem.New()
	repo, _ := TestRepositoryWithBackend(t, be, kind.version, Options{Compression: kind.comp})
	buf := content.gen()
	want := restic.ID(sha256.Sum256(buf))
	var gotID restic.ID
	var wrongIDErr error
	other := restic.ID(sha256.Sum256([]byte("verifC02 other")))
	err := repo.WithBlobUploader(ctx, func(ctx context.Context, up restic.BlobSaverWithAsync) error {
		var err error
		gotID, _, _, err = up.SaveBlob(ctx, tpe, buf, restic.ID{}, false)
		if err != nil {
			return err
		}
		// a caller-supplied ID that does not match the content must not be stored
		_, _, _, wrongIDErr = up.SaveBlob(ctx, tpe, append([]byte("x"), buf...), other, false)
		return nil
	})
	r.Eval(1)
	r.Transition(2)
	if err != nil {
		// restic refusing to store a legitimate blob ("Detected data corruption while
		// saving") means the address it computed does not match the content
		viol("save-failed", "saving a %d byte %v blob failed: %v", len(buf), tpe, err)
		return
	}
	if gotID != want {
		viol("blob-id", "SaveBlob returned ID %v for content whose SHA-256 is %v", gotID.Str(), want.Str())
	}
	if wrongIDErr == nil {
		viol("wrong-explicit-id-accepted", "SaveBlob stored content under an explicit ID that is not its SHA-256")
	}
	if _, err := repo.SaveUnpacked(ctx, restic.WriteableSnapshotFile, []byte(`{"time":"2020-01-01T00:00:00Z","tree":null,"paths":["/x"]}`)); err != nil {
		t.Fatal(err)
	}
	lockID, err := repo.saveUnpacked(ctx, restic.LockFile, []byte(`{"time":"2020-01-01T00:00:00Z","exclusive":false,"hostname":"h","pid":1}`))
	if err != nil {
		t.Fatal(err)
	}
	if _, err := AddKey(ctx, repo, "second password", "u", "h", repo.Key()); err != nil {
		t.Fatal(err)
	}
	files := verifC02AllFiles(t, be)
	if _, ok := files[backend.Handle{Type: backend.LockFile, Name: lockID.String()}]; !ok {
		viol("unpacked-id", "saveUnpacked returned ID %v but no such lock file exists", lockID.Str())
	}
	dec, _ := zstd.NewReader(nil)
	defer dec.Close()
	types := map[backend.FileType]int{}
	found := false
	for h, data := range files {
		types[h.Type]++
		sum := restic.ID(sha256.Sum256(data))
		if h.Name != sum.String() {
			viol("file-name|"+h.Type.String(), "%v file %v has content with SHA-256 %v", h.Type, h.Name[:10], sum.Str())
		}
		if h.Type != backend.PackFile {
			continue
		}
		entries, _, err := pack.List(repo.Key(), bytes.NewReader(data), int64(len(data)))
		if err != nil {
			viol("pack-unreadable", "pack %v: %v", h.Name[:10], err)
			continue
		}
		for _, e := range entries {
			if int(e.Offset+e.Length) > len(data) || e.Length < 32 {
				viol("pack-entry-range", "pack %v entry %v out of range", h.Name[:10], e)
				continue
			}
			ct := data[e.Offset : e.Offset+e.Length]
			plain, err := repo.Key().Open(nil, ct[:16], ct[16:], nil)
			if err == nil && e.UncompressedLength != 0 {
				plain, err = dec.DecodeAll(plain, nil)
				if err == nil && uint(len(plain)) != e.UncompressedLength {
					err = fmt.Errorf("uncompressed length %d != %d", len(plain), e.UncompressedLength)
				}
			}
			if err != nil {
				viol("blob-undecodable", "pack %v blob %v: %v", h.Name[:10], e.ID.Str(), err)
				continue
			}
			if restic.ID(sha256.Sum256(plain)) != e.ID {
				viol("blob-address", "pack %v stores under blob ID %v a plaintext (%d bytes) whose SHA-256 is %x", h.Name[:10], e.ID.Str(), len(plain), sha256.Sum256(plain))
			}
			if e.Type == tpe && bytes.Equal(plain, buf) {
				found = true
				if e.ID != want {
					viol("blob-address-saved", "the saved content is stored under blob ID %v, its SHA-256 is %v", e.ID.Str(), want.Str())
				}
			}
		}
	}
	if !found {
		viol("blob-missing", "the saved content is in no pack")
	}
	if len(repo.LookupBlob(restic.BlobHandle{Type: tpe, ID: want})) == 0 {
		viol("blob-not-indexed", "the saved content is not indexed under its SHA-256")
	}
	if types[backend.PackFile] == 0 || types[backend.IndexFile] == 0 || types[backend.SnapshotFile] != 1 || types[backend.LockFile] != 1 || types[backend.KeyFile] != 2 {
		t.Fatalf("%s: unexpected fixture files %v", ck, types)
	}
	r.NontrivialByConstruction(1)
	r.Outcome(fmt.Sprintf("store|%s|%v|%s|ok", kind.name, tpe, content.name))
}

// ----------------------------------------------------------------- load side

type verifC02Liar struct {
	backend.Backend
	files    map[backend.Handle][]byte
	other    map[backend.Handle]backend.Handle
	script   string
	consumed int
	wrong    int
}

var verifC02ErrLie = errors.New("verifC02 injected load error")

func (l *verifC02Liar) Unwrap() backend.Backend { return l.Backend }

func (l *verifC02Liar) Load(ctx context.Context, h backend.Handle, length int, offset int64, fn func(rd io.Reader) error) error {
	h.IsMetadata = false
	if h.Type == backend.ConfigFile {
		h.Name = ""
	}
	data, ok := l.files[h]
	if !ok {
		return l.Backend.Load(ctx, h, length, offset, fn)
	}
	a := byte('T')
	if l.consumed < len(l.script) {
		a = l.script[l.consumed]
	}
	l.consumed++
	if a != 'T' {
		l.wrong++
	}
	if a == 'E' {
		return verifC02ErrLie
	}
	cut := func(d []byte) []byte {
		if offset > int64(len(d)) {
			return nil
		}
		d = d[offset:]
		if length > 0 && length < len(d) {
			d = d[:length]
		}
		return d
	}
	if offset < 0 || offset+int64(length) > int64(len(data)) {
		return fmt.Errorf("verifC02: range %d+%d outside of file (%d bytes)", offset, length, len(data))
	}
	out := cut(data)
	switch a {
	case 'F':
		out = append([]byte{}, out...)
		if len(out) > 0 {
			out[len(out)/2] ^= 0x04
		}
	case 'S':
		if len(out) > 0 {
			out = out[:len(out)-1]
		}
	case 'Z':
		out = nil
	case 'O':
		out = cut(l.files[l.other[h]])
	case 'X':
		out = append(append([]byte{}, out...), 0x5a)
	case 'R':
		// the transfer breaks off half-way and the backend (like retry.Backend) calls the consumer again
		// within the same Load with the complete, true stream
		if err := fn(io.MultiReader(bytes.NewReader(out[:len(out)/2]), verifC02BrokenReader{})); err == nil {
			return nil
		}
	}
	return fn(bytes.NewReader(out))
}

type verifC02BrokenReader struct{}

func (verifC02BrokenReader) Read([]byte) (int, error) { return 0, verifC02ErrLie }

type verifC02Fixture struct {
	version  uint
	be       *mem.MemoryBackend
	liar     *verifC02Liar
	files    map[backend.Handle][]byte
	blobs    map[string]restic.BlobHandle // symbolic name -> handle
	plain    map[restic.ID][]byte
	packD1   restic.ID            // data pack holding a, b, c
	packT1   restic.ID            // tree pack holding t1
	ids      map[string]restic.ID // "index", "snapshot", "lock", "key" -> a file of that type
	honest   *Repository
	cacheDir string
}

func verifC02BuildFixture(t *testing.T, version uint, scratch string) *verifC02Fixture {
	ctx := context.Background()
	f := &verifC02Fixture{version: version, be: mem.New(), blobs: map[string]restic.BlobHandle{}, plain: map[restic.ID][]byte{}, ids: map[string]restic.ID{}, cacheDir: scratch}
	repo, _ := TestRepositoryWithBackend(t, f.be, version, Options{})
	repo.packerCount = 1 // blobs are packed in the order saved
	f.honest = repo
	contents := map[string][]byte{
		"a": verifC02Rand(11, 300), "b": bytes.Repeat([]byte("restic "), 150), "c": verifC02Rand(13, 50), "d": verifC02Rand(14, 400), "e": verifC02Rand(15, 300), "g": verifC02Rand(16, 300),
		"t1": []byte(`{"nodes":[{"name":"f","type":"file","content":[]}]}` + "\n"), "t2": []byte(`{"nodes":[{"name":"g","type":"file","content":[]}]}` + "\n"),
	}
	save := func(names []string, dup map[string]bool) {
		err := repo.WithBlobUploader(ctx, func(ctx context.Context, up restic.BlobSaverWithAsync) error {
			for _, n := range names {
				tpe := restic.DataBlob
				if strings.HasPrefix(n, "t") {
					tpe = restic.TreeBlob
				}
				id, _, _, err := up.SaveBlob(ctx, tpe, contents[n], restic.ID{}, dup[n])
				if err != nil {
					return err
				}
				f.blobs[n] = restic.BlobHandle{Type: tpe, ID: id}
				f.plain[id] = contents[n]
			}
			return nil
		})
		if err != nil {
			t.Fatal(err)
		}
	}
	// first data pack: a, g, b, c (g has the length of a: it sits where the second pack holds its copy of a)
	save([]string{"a", "g", "b", "c", "t1"}, nil)
	packOf := func(n string) restic.ID {
		pbs := repo.LookupBlob(f.blobs[n])
		if len(pbs) != 1 {
			t.Fatalf("blob %s has %d index entries", n, len(pbs))
		}
		return pbs[0].PackID()
	}
	f.packD1, f.packT1 = packOf("a"), packOf("t1")
	if packOf("b") != f.packD1 || packOf("c") != f.packD1 {
		t.Fatalf("fixture: a, b, c are not in one pack")
	}
	// second data pack: e (same length as a) first, so that the stale answer for the range of a in
	// the first pack is a correctly sealed blob with another content; then the second copy of a
	save([]string{"e", "a", "d", "t2"}, map[string]bool{"a": true})
	if len(repo.LookupBlob(f.blobs["a"])) != 2 {
		t.Fatalf("fixture: blob a does not have two copies")
	}
	packD2, packT2 := packOf("e"), packOf("t2")
	{
		a1 := repo.idx.Lookup(f.blobs["a"])
		e1 := repo.idx.Lookup(f.blobs["e"])[0].Blob
		g1 := repo.idx.Lookup(f.blobs["g"])[0].Blob
		nOK := 0
		for _, pb := range a1 {
			// whichever copy of a is read, the same range of the other pack is a sealed blob with other content
			if pb.Pack == f.packD1 && pb.Blob.Offset == e1.Offset && pb.Blob.Length == e1.Length {
				nOK++
			}
			if pb.Pack == packD2 && pb.Blob.Offset == g1.Offset && pb.Blob.Length == g1.Length {
				nOK++
			}
		}
		okA := nOK == 2
		t1, t2 := repo.idx.Lookup(f.blobs["t1"])[0].Blob, repo.idx.Lookup(f.blobs["t2"])[0].Blob
		if !okA || t1.Offset != t2.Offset || t1.Length != t2.Length {
			t.Fatalf("fixture: blobs a/e or t1/t2 are not stored at the same range of their packs")
		}
	}
	for i := 0; i < 2; i++ {
		id, err := repo.SaveUnpacked(ctx, restic.WriteableSnapshotFile, []byte(fmt.Sprintf(`{"time":"2020-01-0%dT00:00:00Z","tree":null,"paths":["/x"]}`, i+1)))
		if err != nil {
			t.Fatal(err)
		}
		f.ids["snapshot"] = id
		id, err = repo.saveUnpacked(ctx, restic.LockFile, []byte(fmt.Sprintf(`{"time":"2020-01-01T00:00:00Z","exclusive":false,"hostname":"h","pid":%d}`, i+1)))
		if err != nil {
			t.Fatal(err)
		}
		f.ids["lock"] = id
	}
	k, err := AddKey(ctx, repo, "second password", "u", "h", repo.Key())
	if err != nil {
		t.Fatal(err)
	}
	f.ids["key"] = k.ID()
	f.files = verifC02AllFiles(t, f.be)
	// config as well
	err = f.be.Load(ctx, backend.Handle{Type: backend.ConfigFile}, 0, 0, func(rd io.Reader) error {
		buf, err := io.ReadAll(rd)
		f.files[backend.Handle{Type: backend.ConfigFile}] = buf
		return err
	})
	if err != nil {
		t.Fatal(err)
	}
	// "another file of the same type": the next one in name order (cyclic)
	byType := map[backend.FileType][]string{}
	for h := range f.files {
		byType[h.Type] = append(byType[h.Type], h.Name)
		if h.Type == backend.IndexFile {
			id, _ := restic.ParseID(h.Name)
			if _, ok := f.ids["index"]; !ok || h.Name < f.ids["index"].String() {
				f.ids["index"] = id
			}
		}
	}
	other := map[backend.Handle]backend.Handle{}
	for ft, names := range byType {
		sort.Strings(names)
		for i, n := range names {
			other[backend.Handle{Type: ft, Name: n}] = backend.Handle{Type: ft, Name: names[(i+1)%len(names)]}
		}
		if len(names) < 2 && ft != backend.ConfigFile {
			t.Fatalf("fixture: only %d files of type %v", len(names), ft)
		}
	}
	for _, pair := range [][2]restic.ID{{f.packD1, packD2}, {f.packT1, packT2}} {
		h0, h1 := backend.Handle{Type: backend.PackFile, Name: pair[0].String()}, backend.Handle{Type: backend.PackFile, Name: pair[1].String()}
		other[h0], other[h1] = h1, h0
	}
	// a stale config: the config of another repository would not decrypt; use a key file's bytes
	other[backend.Handle{Type: backend.ConfigFile}] = backend.Handle{Type: backend.KeyFile, Name: f.ids["key"].String()}
	f.liar = &verifC02Liar{Backend: f.be, files: f.files, other: other}
	return f
}

// open returns a fresh Repository on top of the lying backend (all answers T
// while opening), optionally with a fresh empty cache.
func (f *verifC02Fixture) clearCache(repo *Repository) {
	for _, ft := range []backend.FileType{backend.PackFile, backend.IndexFile, backend.SnapshotFile} {
		_ = repo.Cache().Clear(ft, nil)
	}
}

func (f *verifC02Fixture) open(t *testing.T, withCache bool, n int) *Repository {
	f.liar.script, f.liar.consumed, f.liar.wrong = "", 0, 0
	repo, err := New(f.liar, Options{})
	if err != nil {
		t.Fatal(err)
	}
	if err := repo.SearchKey(context.Background(), rtest.TestPassword, 10, ""); err != nil {
		t.Fatal(err)
	}
	if withCache {
		c, err := cache.New(fmt.Sprintf("%064x", n), f.cacheDir)
		if err != nil {
			t.Fatal(err)
		}
		repo.UseCache(c, func(string, ...any) {})
	}
	if err := repo.LoadIndex(context.Background(), restic.NoopTerminalCounterFactory); err != nil {
		t.Fatal(err)
	}
	return repo
}

type verifC02API struct {
	name string
	// run performs the call and returns oracle failures and an outcome class
	run func(f *verifC02Fixture, repo *Repository) (fails []string, outcome string)
}

func verifC02APIs() []verifC02API {
	ctx := context.Background()
	errClass := func(err error) string {
		if err == nil {
			return "ok"
		}
		return "error"
	}
	raw := func(kind string, ft restic.FileType, id func(f *verifC02Fixture) restic.ID) verifC02API {
		return verifC02API{"raw|" + kind, func(f *verifC02Fixture, repo *Repository) ([]string, string) {
			want := id(f)
			buf, err := repo.LoadRaw(ctx, ft, want)
			if err == nil && restic.ID(sha256.Sum256(buf)) != want {
				return []string{fmt.Sprintf("wrong-bytes: LoadRaw(%v) returned %d bytes with SHA-256 %x without an error", ft, len(buf), sha256.Sum256(buf))}, "bad"
			}
			return nil, errClass(err)
		}}
	}
	unpacked := func(kind string, ft restic.FileType) verifC02API {
		return verifC02API{"unpacked|" + kind, func(f *verifC02Fixture, repo *Repository) ([]string, string) {
			id := f.ids[kind]
			want, herr := f.honest.LoadUnpacked(ctx, ft, id)
			if herr != nil {
				return []string{"fixture: honest LoadUnpacked failed: " + herr.Error()}, "fixture"
			}
			got, err := repo.LoadUnpacked(ctx, ft, id)
			if err == nil && !bytes.Equal(got, want) {
				return []string{fmt.Sprintf("wrong-bytes: LoadUnpacked(%v) returned %d bytes that differ from the stored content (%d bytes) without an error", ft, len(got), len(want))}, "bad"
			}
			return nil, errClass(err)
		}}
	}
	blob := func(name string) verifC02API {
		return verifC02API{"blob|" + name, func(f *verifC02Fixture, repo *Repository) ([]string, string) {
			bh := f.blobs[name]
			buf, err := repo.LoadBlob(ctx, bh, nil)
			if err == nil && restic.ID(sha256.Sum256(buf)) != bh.ID {
				return []string{fmt.Sprintf("wrong-bytes: LoadBlob(%s) returned %d bytes with SHA-256 %x without an error", name, len(buf), sha256.Sum256(buf))}, "bad"
			}
			return nil, errClass(err)
		}}
	}
	fromPack := func(kind string, packID func(f *verifC02Fixture) restic.ID, names []string) verifC02API {
		return verifC02API{"frompack|" + kind, func(f *verifC02Fixture, repo *Repository) (fails []string, outcome string) {
			var handles []restic.BlobHandle
			for _, n := range names {
				handles = append(handles, f.blobs[n])
			}
			seen := map[restic.BlobHandle]int{}
			var res []string
			err := repo.LoadBlobsFromPack(ctx, packID(f), handles, func(bh restic.BlobHandle, buf []byte, err error) error {
				seen[bh]++
				if _, ok := f.plain[bh.ID]; !ok {
					fails = append(fails, fmt.Sprintf("foreign-callback: callback for %v which was not requested", bh))
				}
				if err == nil && restic.ID(sha256.Sum256(buf)) != bh.ID {
					fails = append(fails, fmt.Sprintf("wrong-bytes: LoadBlobsFromPack delivered %d bytes with SHA-256 %x for blob %v without an error", len(buf), sha256.Sum256(buf), bh.ID.Str()))
				}
				res = append(res, errClass(err))
				return nil
			})
			for bh, n := range seen {
				if n > 1 {
					fails = append(fails, fmt.Sprintf("duplicate-callback: blob %v delivered %d times", bh.ID.Str(), n))
				}
			}
			if err == nil && len(seen) != len(handles) {
				fails = append(fails, fmt.Sprintf("missing-callback: LoadBlobsFromPack returned nil after %d of %d callbacks", len(seen), len(handles)))
			}
			sort.Strings(res)
			return fails, errClass(err) + ":" + strings.Join(res, ",")
		}}
	}
	return []verifC02API{
		raw("pack", restic.PackFile, func(f *verifC02Fixture) restic.ID { return f.packD1 }),
		raw("index", restic.IndexFile, func(f *verifC02Fixture) restic.ID { return f.ids["index"] }),
		raw("snapshot", restic.SnapshotFile, func(f *verifC02Fixture) restic.ID { return f.ids["snapshot"] }),
		raw("lock", restic.LockFile, func(f *verifC02Fixture) restic.ID { return f.ids["lock"] }),
		raw("key", restic.KeyFile, func(f *verifC02Fixture) restic.ID { return f.ids["key"] }),
		unpacked("index", restic.IndexFile),
		unpacked("snapshot", restic.SnapshotFile),
		unpacked("lock", restic.LockFile),
		{"unpacked|config", func(f *verifC02Fixture, repo *Repository) ([]string, string) {
			want, herr := f.honest.LoadUnpacked(ctx, restic.ConfigFile, restic.ID{})
			if herr != nil {
				return []string{"fixture: honest LoadUnpacked(config) failed: " + herr.Error()}, "fixture"
			}
			got, err := repo.LoadUnpacked(ctx, restic.ConfigFile, restic.ID{})
			if err == nil && !bytes.Equal(got, want) {
				return []string{"wrong-bytes: LoadUnpacked(config) returned different content without an error"}, "bad"
			}
			return nil, errClass(err)
		}},
		{"loadkey", func(f *verifC02Fixture, repo *Repository) ([]string, string) {
			want := &Key{}
			if err := json.Unmarshal(f.files[backend.Handle{Type: backend.KeyFile, Name: f.ids["key"].String()}], want); err != nil {
				return []string{"fixture: " + err.Error()}, "fixture"
			}
			got, err := LoadKey(ctx, repo, f.ids["key"])
			if err == nil {
				w, _ := json.Marshal(want)
				g, _ := json.Marshal(got)
				if !bytes.Equal(w, g) || !reflect.DeepEqual(want.Data, got.Data) {
					return []string{"wrong-bytes: LoadKey returned a key that differs from the stored key file without an error"}, "bad"
				}
			}
			return nil, errClass(err)
		}},
		blob("b"), blob("a"), blob("t1"),
		fromPack("data", func(f *verifC02Fixture) restic.ID { return f.packD1 }, []string{"a", "b", "c"}),
		fromPack("tree", func(f *verifC02Fixture) restic.ID { return f.packT1 }, []string{"t1"}),
		{"listpack", func(f *verifC02Fixture, repo *Repository) ([]string, string) {
			size := int64(len(f.files[backend.Handle{Type: backend.PackFile, Name: f.packD1.String()}]))
			want, herr := f.honest.listPack(ctx, f.packD1, size)
			if herr != nil || len(want) != 4 {
				return []string{fmt.Sprintf("fixture: honest listPack: %v (%d entries)", herr, len(want))}, "fixture"
			}
			got, err := repo.listPack(ctx, f.packD1, size)
			if err == nil && !reflect.DeepEqual(got, want) {
				return []string{fmt.Sprintf("wrong-bytes: listPack returned %v instead of %v without an error", got, want)}, "bad"
			}
			hs, err2 := repo.ListPackHandles(ctx, f.packD1, size)
			if err2 == nil {
				for i, h := range hs {
					if len(hs) != len(want) || h != want[i].BlobHandle {
						return []string{"wrong-bytes: ListPackHandles returned a different header without an error"}, "bad"
					}
				}
			}
			return nil, errClass(err) + errClass(err2)
		}},
	}
}

const verifC02Alphabet = "TFSZOXER"

func TestVerif_C02(t *testing.T) {
	r := vh.Start(t, "C02")
	defer r.Finish()
	depth := vh.Pick(r, 3, 4)
	r.Rule(fmt.Sprintf("store side: 10 blob contents around the zero-chunk shortcut x 2 blob types x 4 repository kinds, every stored file and every pack header entry re-hashed independently; load side: complete tree of lying-backend answers {T,F,S,Z,O,X,E} to depth %d for 16 API variants x repository version {1,2} x cache {off,on}; non-trivial = at least one non-true answer was delivered to the call", depth))

	// (a) store side
	for _, kind := range verifC02Kinds() {
		for _, tpe := range []restic.BlobType{restic.DataBlob, restic.TreeBlob} {
			for _, content := range verifC02Contents() {
				ck := fmt.Sprintf("store|%s|%v|%s", kind.name, tpe, content.name)
				if !r.Case(ck) {
					continue
				}
				verifC02Store(t, r, ck, kind, tpe, content)
				r.Trace(1)
			}
		}
	}

	// (b) load side
	apis := verifC02APIs()
	for _, version := range []uint{1, 2} {
		var fix *verifC02Fixture
		var plainRepo, cachedRepo *Repository
		for _, withCache := range []bool{false, true} {
			for _, api := range apis {
				for i := 0; i < len(verifC02Alphabet); i++ {
					first := verifC02Alphabet[i : i+1]
					ck := fmt.Sprintf("load|v%d|cache=%v|%s|first=%s", version, withCache, api.name, first)
					if !r.Case(ck) {
						continue
					}
					if r.Expired() {
						return
					}
					if fix == nil {
						fix = verifC02BuildFixture(t, version, r.Scratch)
						plainRepo = fix.open(t, false, 0)
					}
					var explore func(prefix string)
					explore = func(prefix string) {
						repo := plainRepo
						if withCache {
							// a fresh Cache object per execution (it keeps a per-process
							// "forgotten" circuit breaker), on the same, emptied directory
							cachedRepo = fix.open(t, true, int(version))
							repo = cachedRepo
							fix.clearCache(repo)
						}
						fix.liar.script, fix.liar.consumed, fix.liar.wrong = prefix, 0, 0
						var fails []string
						var outcome string
						panicked, msg := vh.NoPanic(func() { fails, outcome = api.run(fix, repo) })
						consumed, wrong := fix.liar.consumed, fix.liar.wrong
						fix.liar.script = ""
						if !panicked && consumed > len(prefix) && len(prefix) < depth {
							// the call asked for more answers than the prefix fixes: branch
							for j := 0; j < len(verifC02Alphabet); j++ {
								explore(prefix + verifC02Alphabet[j:j+1])
							}
							return
						}
						r.Eval(1)
						r.Trace(1)
						r.Transition(int64(consumed))
						key := fmt.Sprintf("load|v%d|cache=%v|%s|answers=%s", version, withCache, api.name, prefix)
						if panicked {
							r.Violationf(ck, "C02|"+key+"|panic", key, "panic: %s", msg)
							return
						}
						r.Outcome(api.name + "|" + outcome)
						r.State(fmt.Sprintf("%s|%d|%s", api.name, consumed, outcome))
						if wrong > 0 {
							r.Nontrivial(key)
						}
						for _, f := range fails {
							kind := f
							if k := strings.Index(f, ":"); k > 0 {
								kind = f[:k]
							}
							if kind == "fixture" {
								t.Fatalf("%s: %s", key, f)
							}
							r.Violationf(ck, "C02|"+key+"|"+kind, map[string]any{"version": version, "cache": withCache, "api": api.name, "answers": prefix}, "%s [%s]", f, key)
						}
						if prefix == "FOT" || prefix == "FO" {
							r.Sample(map[string]any{"case": key, "consumed": consumed, "outcome": outcome})
						}
					}
					explore(first)
				}
			}
		}
	}
}

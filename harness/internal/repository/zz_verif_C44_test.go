package repository_test

// C44: every saved blob ends up in exactly one uploaded, indexed pack.
//
// Engine FINE+GATE on the real Repository.WithBlobUploader with a white-box
// pack size of 1000 bytes: 2–3 saver goroutines (synchronous SaveBlob and
// asynchronous SaveBlobAsync, including a caller that returns from the upload
// callback WITHOUT waiting for its callbacks) save blobs whose ciphertext sizes
// straddle the pack size (incompressible) or whose plaintext does while the
// ciphertext is far smaller (compressible); pack/index uploads are gated backend operations; the
// "sync" import of internal/repository{,/index,/pack} is replaced by the vsync
// shim, so every mutex acquisition of a registered saver is a scheduling point.
// crypto/rand is the deterministic stream, so the packer choice repeats.
// Explored: all schedules within the preemption bound.
//
// Oracle when WithBlobUploader returns nil: a fresh repository opened on the
// resulting store finds, for every blob whose save was accepted, exactly one
// index entry (two only if both copies were explicitly requested), the pack it
// names exists, LoadBlob returns the saved bytes, check --read-data reports no
// error and no mixed pack.  No panic, no deadlock, no error without a fault.

import (
	"context"
	"fmt"
	"sort"
	"strings"
	"sync"
	"testing"

	"github.com/restic/restic/internal/backend"
	"github.com/restic/restic/internal/repository"
	"github.com/restic/restic/internal/repository/index"
	"github.com/restic/restic/internal/restic"
	"github.com/restic/restic/internal/verifshim/detrand"
	"github.com/restic/restic/internal/verifshim/gatebe"
	"github.com/restic/restic/internal/verifshim/oracle"
	"github.com/restic/restic/internal/verifshim/vh"
	"github.com/restic/restic/internal/verifshim/vx"
	"github.com/restic/restic/internal/verifshim/xplore"
)

type verifC44Save struct {
	name  string
	tpe   restic.BlobType
	size  int
	seed  uint64
	async bool
	dup   bool // storeDuplicate
}

type verifC44Prog struct {
	name      string
	savers    map[string][]verifC44Save // registered saver goroutines (waited for inside the callback)
	nowait    []verifC44Save            // async saves issued by the callback goroutine itself, not waited for
	fullIndex bool                      // index.Full hook: every index is uploaded as soon as a pack was stored
}

type verifC44Accepted struct {
	h    restic.BlobHandle
	data []byte
	what string
	dup  bool // saved with storeDuplicate
}

type verifC44Exec struct {
	store    *gatebe.Store
	mu       sync.Mutex
	accepted []verifC44Accepted
	errs     []string
	err      error
	done     bool
	restore  func()
}

// verifC44Blob: seeds >= 1000 give compressible content (the stored length is far below the plaintext
// length: the packer's size decisions see the ciphertext, the caller the plaintext), others incompressible.
func verifC44Blob(s verifC44Save) []byte {
	if s.seed >= 1000 {
		buf := make([]byte, s.size)
		for i := range buf {
			buf[i] = byte('a' + (uint64(i)/97+s.seed)%7)
		}
		return buf
	}
	return oracle.LCG(s.seed, s.size)
}

func TestVerif_C44(t *testing.T) {
	r := vh.Start(t, "C44")
	defer r.Finish()
	r.Rule("FINE+GATE: all schedules (mutex acquisitions of the saver goroutines, completion order of pack/index uploads) of 2-3 savers inside one WithBlobUploader within the preemption bound, pack size 1000 bytes; non-trivial = execution in which at least two packs were uploaded; states = distinct complete schedules")
	r.Assume("accesses outside critical sections are thread-local (separate free-running -race pass)", "packer choice is driven by a deterministic crypto/rand stream", "goroutines started by restic itself (uploader, async savers) are scheduled by the Go runtime between two scheduling points")
	ctx := context.Background()
	oracle.LowKDF()
	_, store0, err := oracle.NewRepo(ctx, 2, repository.Options{})
	if err != nil {
		t.Fatal(err)
	}
	base := store0.Snapshot()

	D, T := restic.DataBlob, restic.TreeBlob
	progs := []verifC44Prog{
		{name: "two-sync-savers", savers: map[string][]verifC44Save{
			"S1": {{"x", D, 400, 1, false, false}, {"y", D, 960, 2, false, false}},
			"S2": {{"z", D, 1500, 3, false, false}, {"w", D, 40, 4, false, false}},
		}},
		{name: "data-and-tree", savers: map[string][]verifC44Save{
			"S1": {{"d1", D, 600, 5, false, false}, {"d2", D, 600, 6, false, false}},
			"S2": {{"t1", T, 600, 7, false, false}, {"t2", T, 500, 8, false, false}},
		}},
		{name: "async-not-awaited", nowait: []verifC44Save{{"a1", D, 700, 9, true, false}, {"a2", D, 700, 10, true, false}, {"a3", T, 300, 11, true, false}}},
		{name: "sync-plus-async-not-awaited", savers: map[string][]verifC44Save{
			"S1": {{"s1", D, 900, 12, false, false}},
		}, nowait: []verifC44Save{{"a1", D, 500, 13, true, false}, {"a2", D, 990, 14, true, false}}},
	}
	// compressible blobs whose plaintext is at or above the pack size while their ciphertext is far below it
	progs = append(progs, verifC44Prog{name: "compressible-oversized", savers: map[string][]verifC44Save{
		"S1": {{"c1", D, 1500, 1001, false, false}, {"y", D, 300, 21, false, false}},
		"S2": {{"c2", T, 2500, 1002, false, false}, {"c3", D, 1000, 1003, true, false}},
	}})
	// every index counts as "full" (real repositories: 50000 blobs / 10 minutes): an index file is uploaded
	// right after each pack while other uploads complete; blobs saved earlier in the run are submitted again
	progs = append(progs, verifC44Prog{name: "full-index-resubmit", fullIndex: true, savers: map[string][]verifC44Save{
		"S1": {{"a", D, 600, 31, false, false}, {"b", D, 600, 32, false, false}, {"a2", D, 600, 31, false, false}},
		"S2": {{"c", D, 600, 33, false, false}, {"d", D, 600, 34, false, false}, {"b2", D, 600, 32, false, false}},
	}})
	if r.Thorough() {
		progs = append(progs, verifC44Prog{name: "three-savers", savers: map[string][]verifC44Save{
			"S1": {{"p", D, 999, 15, false, false}, {"q", D, 1000, 16, false, false}},
			"S2": {{"r", D, 40, 17, false, false}, {"p2", D, 999, 15, false, true}},
			"S3": {{"u", T, 1500, 18, true, false}},
		}})
	}
	bound := vh.Pick(r, 2, 3)
	for _, prog := range progs {
		prog := prog
		sc := xplore.Scenario{
			Start: func(x *xplore.Exec) {
				st := &verifC44Exec{store: gatebe.NewStoreFrom(base, nil)}
				x.Data = st
				st.restore = detrand.Install(3)
				if prog.fullIndex {
					oldFull, inner := index.Full, st.restore
					index.Full = func(*index.Index) bool { return true }
					st.restore = func() { index.Full = oldFull; inner() }
				}
				armed := false
				be := &gatebe.Backend{S: st.store, Proc: "up", Conns: 2, AtomicReplace: true, X: func() *xplore.Exec {
					if armed {
						return x
					}
					return nil
				}}
				repo, err := oracle.OpenOn(x.Ctx, be, repository.Options{})
				if err != nil {
					t.Fatalf("open: %v", err)
				}
				repository.VerifSetPackSize(repo, 1000)
				armed = true
				doSave := func(ctx context.Context, up restic.BlobSaverWithAsync, s verifC44Save, done *sync.WaitGroup) {
					buf := verifC44Blob(s)
					h := restic.BlobHandle{ID: restic.Hash(buf), Type: s.tpe}
					record := func(err error) {
						st.mu.Lock()
						defer st.mu.Unlock()
						if err != nil {
							st.errs = append(st.errs, fmt.Sprintf("save %s: %v", s.name, err))
							return
						}
						st.accepted = append(st.accepted, verifC44Accepted{h: h, data: buf, what: s.name, dup: s.dup})
					}
					if s.async {
						if done != nil {
							done.Add(1)
						}
						up.SaveBlobAsync(ctx, s.tpe, buf, restic.ID{}, s.dup, func(_ restic.ID, _ bool, _ int, err error) {
							record(err)
							if done != nil {
								done.Done()
							}
						})
						return
					}
					_, _, _, err := up.SaveBlob(ctx, s.tpe, buf, restic.ID{}, s.dup)
					record(err)
				}
				x.Go("main", func() {
					st.err = repo.WithBlobUploader(x.Ctx, func(ctx context.Context, up restic.BlobSaverWithAsync) error {
						var wg sync.WaitGroup
						names := make([]string, 0, len(prog.savers))
						for n := range prog.savers {
							names = append(names, n)
						}
						sort.Strings(names)
						for _, n := range names {
							n := n
							wg.Add(1)
							x.Go(n, func() {
								defer wg.Done()
								var cbs sync.WaitGroup
								for _, s := range prog.savers[n] {
									doSave(ctx, up, s, &cbs)
								}
								cbs.Wait()
							})
						}
						for _, s := range prog.nowait {
							doSave(ctx, up, s, nil) // fire and forget: the callback returns without awaiting
						}
						wg.Wait()
						return nil
					})
					st.done = true
				})
			},
		}
		check := func(x *xplore.Exec) {
			st := x.Data.(*verifC44Exec)
			st.restore()
			key := strings.Join(x.Trace, ">")
			r.State(key)
			var bad []string
			for _, p := range x.Panics {
				bad = append(bad, "panic: "+p)
			}
			if x.Deadlock {
				bad = append(bad, "deadlock: savers/flush blocked forever")
			}
			if st.done && st.err != nil {
				bad = append(bad, fmt.Sprintf("error: WithBlobUploader failed although no fault was injected: %v", st.err))
			}
			for _, e := range st.errs {
				bad = append(bad, "error: "+e)
			}
			if st.done && st.err == nil && len(bad) == 0 {
				final := st.store.Snapshot()
				packs := 0
				for k := range final {
					if _, ok := base[k]; !ok && k.Type.String() == "data" {
						packs++
					}
				}
				if packs >= 2 {
					r.Nontrivial(key)
				}
				r.Outcome(fmt.Sprintf("%s packs=%d", prog.name, packs))
				fresh, _, err := oracle.Open(ctx, final, oracle.Password)
				if err != nil {
					bad = append(bad, "open: "+err.Error())
				} else if err := fresh.LoadIndex(ctx, restic.NoopTerminalCounterFactory); err != nil {
					bad = append(bad, "LoadIndex: "+err.Error())
				} else {
					// identical content is stored once; a further copy only where storeDuplicate asked for it
					// (a save stores iff the blob was unknown when it was announced or storeDuplicate is set; which
					// of several concurrent saves of one blob is announced first is the schedule's choice, so
					// the bound must not depend on the order in which the saves returned: at most one copy for
					// all plain saves together plus one per storeDuplicate save)
					want := map[restic.BlobHandle]int{}
					plain := map[restic.BlobHandle]bool{}
					for _, a := range st.accepted {
						if a.dup {
							want[a.h]++
						} else if !plain[a.h] {
							plain[a.h] = true
							want[a.h]++
						}
					}
					for _, a := range st.accepted {
						pbs := fresh.LookupBlob(a.h)
						switch {
						case len(pbs) == 0:
							bad = append(bad, fmt.Sprintf("lost: blob %s (%v) was accepted but is not in the index written by flush", a.what, a.h.Type))
						case len(pbs) > want[a.h]:
							bad = append(bad, fmt.Sprintf("duplicate: blob %s has %d index entries, at most %d allowed (one for all plain saves, one per storeDuplicate save)", a.what, len(pbs), want[a.h]))
						}
						for _, pb := range pbs {
							if _, ok := final[gatebe.FileKey{Type: backend.PackFile, Name: pb.PackID().String()}]; !ok {
								bad = append(bad, fmt.Sprintf("lost: blob %s is indexed in pack %v which was never uploaded", a.what, pb.PackID().String()[:8]))
							}
						}
						got, err := fresh.LoadBlob(ctx, a.h, nil)
						if err != nil || string(got) != string(a.data) {
							bad = append(bad, fmt.Sprintf("lost: blob %s cannot be loaded back (%v)", a.what, err))
						}
					}
					cr := oracle.Check(ctx, fresh, true)
					for _, e := range cr.Errors {
						bad = append(bad, "check: "+e)
					}
					for _, h := range cr.Hints {
						if strings.Contains(h, "mixed") || strings.Contains(h, "contains both") {
							bad = append(bad, "mixed: "+h)
						}
					}
				}
			}
			if len(bad) > 0 {
				kind := strings.SplitN(bad[0], ":", 2)[0]
				vx.Violation(r, prog.name, x, "C44|"+kind+"|"+prog.name, strings.Join(bad, "\n"), nil)
			}
			if len(x.Trace) > 6 {
				n := len(x.Labels)
				if n > 14 {
					n = 14
				}
				r.Sample(map[string]any{"scenario": prog.name, "events": x.Labels[:n]})
			}
		}
		stt := vx.Explore(r, t, prog.name, sc, xplore.Options{Policy: xplore.Preempt, Bound: bound, LockPoints: true, MaxSteps: 600}, check)
		r.Note("%s: execs(this shard)=%d", prog.name, stt.Execs)
	}
	r.Extra("preemption_bound", bound)
}

// TestVerifRace_C44 runs the same bodies free under the race detector.
func TestVerifRace_C44(t *testing.T) {
	r := vh.Start(t, "C44")
	defer r.Finish()
	ctx := context.Background()
	oracle.LowKDF()
	for round := 0; round < 30; round++ {
		repo, _, err := oracle.NewRepo(ctx, 2, repository.Options{})
		if err != nil {
			t.Fatal(err)
		}
		repository.VerifSetPackSize(repo, 1000)
		err = repo.WithBlobUploader(ctx, func(ctx context.Context, up restic.BlobSaverWithAsync) error {
			var wg sync.WaitGroup
			for g := 0; g < 3; g++ {
				wg.Add(1)
				go func(g int) {
					defer wg.Done()
					for i := 0; i < 4; i++ {
						buf := oracle.LCG(uint64(round*100+g*10+i), 300+200*i)
						if i%2 == 0 {
							_, _, _, _ = up.SaveBlob(ctx, restic.DataBlob, buf, restic.ID{}, false)
						} else {
							up.SaveBlobAsync(ctx, restic.TreeBlob, buf, restic.ID{}, false, func(restic.ID, bool, int, error) {})
						}
					}
				}(g)
			}
			wg.Wait()
			return nil
		})
		if err != nil {
			t.Fatal(err)
		}
		r.Eval(1)
	}
}

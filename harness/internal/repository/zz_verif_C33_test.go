package repository

// C33: repair index rebuilds an index that describes the stored packs exactly.
//
// Fixture: a v2 repository written by the real code in two sessions: data pack
// D1 + tree pack T1 + index X1, data pack D2 + tree pack T2 + index X2 (4 packs).
//
// Damage atoms (each applied to a fresh copy of the pristine files):
//   idx-del:X1|X2        delete an index file
//   idx-flip:X1|X2       flip one byte of an index file
//   idx-dup:X1|X2        store a second index file with the same entries
//   idx-off:D1|T2        replace the index holding the pack by one whose first entry of
//                        that pack has offset+1 (index-derived pack size unchanged)
//   idx-len:D1           same, but length+1 (index-derived pack size changes)
//   idx-ghost            add an index file listing a blob in a pack that does not exist
//   pack-del:p           delete pack p                         (p in D1,T1,D2,T2)
//   pack-trunc:p:{hdr-1, mid, 0}   truncate pack p by one byte / in the middle of its
//                        first blob / to zero length
//   pack-junk            add a file under data/ that is not a pack (named by its SHA-256)
// Space: all subsets of size <= 2 (quick) / <= 3 (thorough) of the 27 atoms, applied in
// canonical order, x {--read-all-packs off, on, off with every existing index file
// counting as "full" (index.Full hook; real repositories: index files with >= 50000
// entries, which the index rewrite keeps untouched unless they list a pack to remove)}.
//
// Oracle.  Ground truth GT(p) = pack.List (with the repository key) over the raw bytes
// of every file under data/ after the damage, computed by the harness without any index.
// After RepairIndex the index files are read back (independent JSON decoding of every
// index file through a fresh repository) and compared pack by pack:
//   * pack missing or header unreadable  -> no entry at all;
//   * --read-all-packs                   -> exactly GT(p), every entry once;
//   * otherwise                          -> exactly GT(p), or exactly what the loadable
//     index files said about p before the repair (without --read-all-packs restic
//     documents that it only reads packs that are unknown or whose size does not match;
//     "from scratch" needs the flag - so a wrong offset in an otherwise consistent old
//     index is not required to be repaired in that mode);
//   * every index file loads; RepairIndex itself returns nil;
//   * the set of files under data/ and their bytes are unchanged by the repair.
// Non-trivial: at least one damage atom changed the repository (all cases but the empty subset).

import (
	"bytes"
	"context"
	"crypto/sha256"
	"encoding/json"
	"fmt"
	"io"
	"sort"
	"strings"
	"testing"

	"github.com/restic/restic/internal/backend"
	"github.com/restic/restic/internal/backend/mem"
	"github.com/restic/restic/internal/repository/index"
	"github.com/restic/restic/internal/repository/pack"
	"github.com/restic/restic/internal/restic"
	rtest "github.com/restic/restic/internal/test"
	"github.com/restic/restic/internal/verifshim/vh"
)

type verifC33Entry struct {
	Pack   string
	Blob   string
	Type   string
	Offset uint
	Length uint
	ULen   uint
}

func (e verifC33Entry) String() string {
	return fmt.Sprintf("%s/%s:%s@%d+%d(%d)", e.Pack[:6], e.Type, e.Blob[:6], e.Offset, e.Length, e.ULen)
}

type verifC33Index struct {
	Packs []struct {
		ID    string `json:"id"`
		Blobs []struct {
			ID     string `json:"id"`
			Type   string `json:"type"`
			Offset uint   `json:"offset"`
			Length uint   `json:"length"`
			ULen   uint   `json:"uncompressed_length,omitempty"`
		} `json:"blobs"`
	} `json:"packs"`
}

type verifC33Fixture struct {
	files map[backend.Handle][]byte
	packs map[string]restic.ID // "D1","T1","D2","T2"
	idxs  map[string]restic.ID // "X1","X2"
	key   *Repository          // an opened pristine repository (for the key and for encrypting forged index files)
}

func verifC33Rand(seed uint64, n int) []byte {
	buf := make([]byte, n)
	x := seed*0x9E3779B97F4A7C15 + 5
	for i := range buf {
		x ^= x << 13
		x ^= x >> 7
		x ^= x << 17
		buf[i] = byte(x >> 9)
	}
	return buf
}

func verifC33Snapshot(t testing.TB, be backend.Backend) map[backend.Handle][]byte {
	files := map[backend.Handle][]byte{}
	for _, ft := range []backend.FileType{backend.PackFile, backend.IndexFile, backend.SnapshotFile, backend.KeyFile, backend.LockFile, backend.ConfigFile} {
		err := be.List(context.Background(), ft, func(fi backend.FileInfo) error {
			h := backend.Handle{Type: ft, Name: fi.Name}
			return be.Load(context.Background(), h, 0, 0, func(rd io.Reader) error {
				buf, err := io.ReadAll(rd)
				if ft == backend.ConfigFile {
					h.Name = ""
				}
				files[h] = buf
				return err
			})
		})
		if err != nil {
			t.Fatalf("snapshot of backend: %v", err)
		}
	}
	return files
}

func verifC33Restore(t testing.TB, files map[backend.Handle][]byte) *mem.MemoryBackend {
	be := mem.New()
	for h, buf := range files {
		if err := be.Save(context.Background(), h, backend.NewByteReader(buf, be.Hasher())); err != nil {
			t.Fatalf("restoring %v: %v", h, err)
		}
	}
	return be
}

func verifC33Open(t testing.TB, be backend.Backend) *Repository {
	repo, err := New(be, Options{})
	if err != nil {
		t.Fatal(err)
	}
	if err := repo.SearchKey(context.Background(), rtest.TestPassword, 10, ""); err != nil {
		t.Fatalf("opening repository: %v", err)
	}
	return repo
}

func verifC33Build(t testing.TB) *verifC33Fixture {
	ctx := context.Background()
	be := mem.New()
	repo, _ := TestRepositoryWithBackend(t, be, 2, Options{})
	repo.packerCount = 1
	f := &verifC33Fixture{packs: map[string]restic.ID{}, idxs: map[string]restic.ID{}}
	seen := map[string]bool{}
	for s := 1; s <= 2; s++ {
		var dataH, treeH restic.BlobHandle
		rtest.OK(t, repo.WithBlobUploader(ctx, func(ctx context.Context, up restic.BlobSaverWithAsync) error {
			for i := 0; i < 3; i++ {
				id, _, _, err := up.SaveBlob(ctx, restic.DataBlob, verifC33Rand(uint64(10*s+i), 60+40*i), restic.ID{}, false)
				if err != nil {
					return err
				}
				dataH = restic.BlobHandle{Type: restic.DataBlob, ID: id}
			}
			for i := 0; i < 2; i++ {
				id, _, _, err := up.SaveBlob(ctx, restic.TreeBlob, []byte(fmt.Sprintf(`{"nodes":[{"name":"n%d-%d","type":"file","content":[]}]}`+"\n", s, i)), restic.ID{}, false)
				if err != nil {
					return err
				}
				treeH = restic.BlobHandle{Type: restic.TreeBlob, ID: id}
			}
			return nil
		}))
		f.packs[fmt.Sprintf("D%d", s)] = repo.LookupBlob(dataH)[0].PackID()
		f.packs[fmt.Sprintf("T%d", s)] = repo.LookupBlob(treeH)[0].PackID()
		rtest.OK(t, be.List(ctx, backend.IndexFile, func(fi backend.FileInfo) error {
			if !seen[fi.Name] {
				seen[fi.Name] = true
				id, _ := restic.ParseID(fi.Name)
				if _, dup := f.idxs[fmt.Sprintf("X%d", s)]; dup {
					t.Fatalf("session %d wrote more than one index file", s)
				}
				f.idxs[fmt.Sprintf("X%d", s)] = id
			}
			return nil
		}))
	}
	if len(f.packs) != 4 || len(f.idxs) != 2 {
		t.Fatalf("fixture: %d packs, %d indexes", len(f.packs), len(f.idxs))
	}
	f.files = verifC33Snapshot(t, be)
	n := 0
	for h := range f.files {
		if h.Type == backend.PackFile {
			n++
		}
	}
	if n != 4 {
		t.Fatalf("fixture has %d pack files", n)
	}
	f.key = verifC33Open(t, verifC33Restore(t, f.files))
	return f
}

// decodeIndexFile decrypts an index file with the real LoadUnpacked and decodes its JSON independently.
func verifC33DecodeIndex(repo *Repository, id restic.ID) ([]verifC33Entry, error) {
	buf, err := repo.LoadUnpacked(context.Background(), restic.IndexFile, id)
	if err != nil {
		return nil, err
	}
	var idx verifC33Index
	if err := json.Unmarshal(buf, &idx); err != nil {
		return nil, err
	}
	var out []verifC33Entry
	for _, p := range idx.Packs {
		for _, b := range p.Blobs {
			out = append(out, verifC33Entry{Pack: p.ID, Blob: b.ID, Type: b.Type, Offset: b.Offset, Length: b.Length, ULen: b.ULen})
		}
	}
	return out, nil
}

func verifC33EncodeIndex(entries []verifC33Entry) []byte {
	var idx verifC33Index
	pos := map[string]int{}
	for _, e := range entries {
		i, ok := pos[e.Pack]
		if !ok {
			i = len(idx.Packs)
			pos[e.Pack] = i
			idx.Packs = append(idx.Packs, struct {
				ID    string `json:"id"`
				Blobs []struct {
					ID     string `json:"id"`
					Type   string `json:"type"`
					Offset uint   `json:"offset"`
					Length uint   `json:"length"`
					ULen   uint   `json:"uncompressed_length,omitempty"`
				} `json:"blobs"`
			}{ID: e.Pack})
		}
		idx.Packs[i].Blobs = append(idx.Packs[i].Blobs, struct {
			ID     string `json:"id"`
			Type   string `json:"type"`
			Offset uint   `json:"offset"`
			Length uint   `json:"length"`
			ULen   uint   `json:"uncompressed_length,omitempty"`
		}{e.Blob, e.Type, e.Offset, e.Length, e.ULen})
	}
	buf, _ := json.Marshal(idx)
	return buf
}

func verifC33Atoms() []string {
	atoms := []string{}
	for _, x := range []string{"X1", "X2"} {
		atoms = append(atoms, "idx-del:"+x, "idx-flip:"+x, "idx-dup:"+x)
	}
	atoms = append(atoms, "idx-off:D1", "idx-off:T2", "idx-len:D1", "idx-ghost")
	for _, p := range []string{"D1", "T1", "D2", "T2"} {
		atoms = append(atoms, "pack-del:"+p, "pack-trunc:"+p+":hdr-1", "pack-trunc:"+p+":mid", "pack-trunc:"+p+":0")
	}
	atoms = append(atoms, "pack-junk")
	return atoms
}

// verifC33Apply applies one damage atom to the file set (using repo only to encrypt forged index files).
func verifC33Apply(t testing.TB, f *verifC33Fixture, files map[backend.Handle][]byte, atom string) {
	ctx := context.Background()
	parts := strings.Split(atom, ":")
	idxH := func(name string) backend.Handle {
		return backend.Handle{Type: backend.IndexFile, Name: f.idxs[name].String()}
	}
	packH := func(name string) backend.Handle {
		return backend.Handle{Type: backend.PackFile, Name: f.packs[name].String()}
	}
	// saveIndex encrypts plaintext index JSON through the real saveUnpacked into a scratch backend
	saveIndex := func(plain []byte) {
		scratch := verifC33Restore(t, map[backend.Handle][]byte{})
		r2, err := New(scratch, Options{})
		rtest.OK(t, err)
		r2.key = f.key.key
		r2.setConfig(f.key.Config())
		id, err := r2.saveUnpacked(ctx, restic.IndexFile, plain)
		rtest.OK(t, err)
		h := backend.Handle{Type: backend.IndexFile, Name: id.String()}
		rtest.OK(t, scratch.Load(ctx, h, 0, 0, func(rd io.Reader) error {
			buf, err := io.ReadAll(rd)
			files[h] = buf
			return err
		}))
	}
	switch parts[0] {
	case "idx-del":
		delete(files, idxH(parts[1]))
	case "idx-flip":
		if buf, ok := files[idxH(parts[1])]; ok {
			buf = append([]byte{}, buf...)
			buf[len(buf)/2] ^= 0x20
			files[idxH(parts[1])] = buf
		}
	case "idx-dup":
		entries, err := verifC33DecodeIndex(f.key, f.idxs[parts[1]])
		rtest.OK(t, err)
		saveIndex(verifC33EncodeIndex(entries))
	case "idx-off", "idx-len":
		which := "X" + parts[1][1:]
		if _, ok := files[idxH(which)]; !ok {
			return
		}
		entries, err := verifC33DecodeIndex(f.key, f.idxs[which])
		rtest.OK(t, err)
		target := f.packs[parts[1]].String()
		done := false
		for i := range entries {
			if entries[i].Pack == target && !done {
				if parts[0] == "idx-off" {
					entries[i].Offset++
				} else {
					entries[i].Length++
				}
				done = true
			}
		}
		delete(files, idxH(which))
		saveIndex(verifC33EncodeIndex(entries))
	case "idx-ghost":
		ghost := sha256.Sum256([]byte("verifC33 ghost pack"))
		blob := sha256.Sum256([]byte("verifC33 ghost blob"))
		saveIndex(verifC33EncodeIndex([]verifC33Entry{{Pack: restic.ID(ghost).String(), Blob: restic.ID(blob).String(), Type: "data", Offset: 0, Length: 100}}))
	case "pack-del":
		delete(files, packH(parts[1]))
	case "pack-trunc":
		buf, ok := files[packH(parts[1])]
		if !ok {
			return
		}
		switch parts[2] {
		case "hdr-1":
			buf = buf[:len(buf)-1]
		case "mid":
			if len(buf) > 40 {
				buf = buf[:40]
			}
		case "0":
			buf = buf[:0]
		}
		files[packH(parts[1])] = buf
	case "pack-junk":
		junk := verifC33Rand(99, 300)
		files[backend.Handle{Type: backend.PackFile, Name: restic.ID(sha256.Sum256(junk)).String()}] = junk
	default:
		t.Fatalf("unknown atom %q", atom)
	}
}

func verifC33Canon(entries []verifC33Entry) string {
	s := make([]string, len(entries))
	for i, e := range entries {
		s[i] = e.String()
	}
	sort.Strings(s)
	return strings.Join(s, " ")
}

func verifC33Case(t testing.TB, f *verifC33Fixture, atoms []string, readAll, fullIdx bool) (fails []string, outcome string) {
	ctx := context.Background()
	fail := func(kind, format string, a ...any) { fails = append(fails, kind+": "+fmt.Sprintf(format, a...)) }
	files := map[backend.Handle][]byte{}
	for h, b := range f.files {
		files[h] = b
	}
	for _, a := range atoms {
		verifC33Apply(t, f, files, a)
	}

	// ground truth from the pack files alone
	gt := map[string][]verifC33Entry{}
	readable := map[string]bool{}
	before := map[string][]byte{}
	for h, buf := range files {
		if h.Type != backend.PackFile {
			continue
		}
		before[h.Name] = buf
		entries, _, err := pack.List(f.key.Key(), bytes.NewReader(buf), int64(len(buf)))
		if err != nil {
			continue
		}
		readable[h.Name] = true
		for _, e := range entries {
			gt[h.Name] = append(gt[h.Name], verifC33Entry{Pack: h.Name, Blob: e.ID.String(), Type: e.Type.String(), Offset: e.Offset, Length: e.Length, ULen: e.UncompressedLength})
		}
	}
	// what the loadable index files say before the repair
	be := verifC33Restore(t, files)
	pre := verifC33Open(t, be)
	old := map[string][]verifC33Entry{}
	oldSeen := map[string]bool{}
	for h := range files {
		if h.Type != backend.IndexFile {
			continue
		}
		id, _ := restic.ParseID(h.Name)
		entries, err := verifC33DecodeIndex(pre, id)
		if err != nil {
			continue
		}
		for _, e := range entries {
			if !oldSeen[e.String()] {
				oldSeen[e.String()] = true
				old[e.Pack] = append(old[e.Pack], e)
			}
		}
	}

	// the repair
	repo := verifC33Open(t, be)
	if fullIdx {
		// every existing index file counts as "full" (in real repositories: >= 50000 entries): such files
		// are kept as they are by the index rewrite unless they list a pack that has to go
		oldFull := index.Full
		index.Full = func(*index.Index) bool { return true }
		defer func() { index.Full = oldFull }()
	}
	err := RepairIndex(ctx, repo, RepairIndexOptions{ReadAllPacks: readAll}, restic.NewNoopPrinter())
	if err != nil {
		fail("repair-failed", "RepairIndex returned %v", err)
		return fails, "repair-failed"
	}

	// read back
	after := verifC33Snapshot(t, be)
	post := verifC33Open(t, be)
	final := map[string][]verifC33Entry{}
	nIdx := 0
	for h := range after {
		if h.Type != backend.IndexFile {
			continue
		}
		nIdx++
		id, _ := restic.ParseID(h.Name)
		entries, err := verifC33DecodeIndex(post, id)
		if err != nil {
			fail("index-unreadable", "index file %s left after the repair does not load: %v", h.Name[:8], err)
			continue
		}
		for _, e := range entries {
			final[e.Pack] = append(final[e.Pack], e)
		}
	}
	if err := post.LoadIndex(ctx, restic.NoopTerminalCounterFactory); err != nil {
		fail("index-unreadable", "LoadIndex after the repair fails: %v", err)
	}
	packNames := map[string]bool{}
	for p := range final {
		packNames[p] = true
	}
	for p := range before {
		packNames[p] = true
	}
	role := func(p string) string {
		for r, id := range f.packs {
			if id.String() == p {
				return r
			}
		}
		return p[:6]
	}
	kinds := map[string]bool{}
	for p := range packNames {
		got := verifC33Canon(final[p])
		_, exists := before[p]
		switch {
		case !exists || !readable[p]:
			if len(final[p]) != 0 {
				fail("entries-for-unusable-pack", "pack %s is %s but the repaired index lists %d blobs for it: %s", role(p), map[bool]string{true: "unreadable", false: "missing"}[exists], len(final[p]), got)
			}
			kinds["unusable"] = true
		case got == verifC33Canon(gt[p]):
			kinds["exact"] = true
		case !readAll && got == verifC33Canon(old[p]):
			kinds["kept-old"] = true
		default:
			fail("index-differs-from-pack", "pack %s: repaired index lists [%s], the pack header holds [%s] (index before the repair: [%s])", role(p), got, verifC33Canon(gt[p]), verifC33Canon(old[p]))
		}
	}
	// pack files untouched
	for h, buf := range after {
		if h.Type == backend.PackFile {
			if b, ok := before[h.Name]; !ok || !bytes.Equal(b, buf) {
				fail("pack-modified", "file data/%s was created or modified by the repair", h.Name[:8])
			}
			delete(before, h.Name)
		}
	}
	for name := range before {
		fail("pack-deleted", "pack file %s (%s) was deleted by the repair", name[:8], role(name))
	}
	var ks []string
	for k := range kinds {
		ks = append(ks, k)
	}
	sort.Strings(ks)
	return fails, fmt.Sprintf("idx=%d|%s", nIdx, strings.Join(ks, ","))
}

func TestVerif_C33(t *testing.T) {
	r := vh.Start(t, "C33")
	defer r.Finish()
	maxAtoms := vh.Pick(r, 2, 3)
	r.Rule(fmt.Sprintf("all subsets of <= %d of 27 index/pack damage atoms on a 4-pack repository x --read-all-packs {off,on}; RepairIndex, then the index files are decoded independently and compared pack by pack with pack.List over the raw pack files; non-trivial = at least one damage atom applied", maxAtoms))
	r.Note("without --read-all-packs a wrong offset in an index entry whose pack size still matches is not re-read (documented: only --read-all-packs rebuilds from scratch); that case is accepted as 'kept-old' and not demanded")
	atoms := verifC33Atoms()
	var fix *verifC33Fixture

	var subsets [][]int
	var rec func(start int, cur []int)
	rec = func(start int, cur []int) {
		subsets = append(subsets, append([]int{}, cur...))
		if len(cur) == maxAtoms {
			return
		}
		for i := start; i < len(atoms); i++ {
			rec(i+1, append(cur, i))
		}
	}
	rec(0, nil)

	for _, sub := range subsets {
		var names []string
		for _, i := range sub {
			names = append(names, atoms[i])
		}
		ck := "damage=" + strings.Join(names, "+")
		if !r.Case(ck) {
			continue
		}
		if r.Expired() {
			return
		}
		if fix == nil {
			fix = verifC33Build(t)
		}
		for _, mode := range []struct{ readAll, fullIdx bool }{{false, false}, {true, false}, {false, true}} {
			readAll, fullIdx := mode.readAll, mode.fullIdx
			var fails []string
			var outcome string
			panicked, msg := vh.NoPanic(func() { fails, outcome = verifC33Case(t, fix, names, readAll, fullIdx) })
			r.Eval(1)
			r.Trace(1)
			r.Transition(int64(len(names) + 1))
			key := fmt.Sprintf("%s|readall=%v", ck, readAll)
			if fullIdx {
				key += "|full-index-files"
			}
			if panicked {
				r.Violationf(ck, "C33|"+key+"|panic", key, "panic: %s", msg)
				continue
			}
			r.Outcome(outcome)
			if len(names) > 0 {
				r.NontrivialByConstruction(1)
			}
			for _, fl := range fails {
				kind := fl[:strings.Index(fl, ":")]
				r.Violationf(ck, "C33|"+key+"|"+kind, map[string]any{"damage": names, "read_all_packs": readAll}, "%s [%s]", fl, key)
			}
			if len(names) == 2 && names[0] == "idx-del:X1" && names[1] == "pack-trunc:D2:mid" {
				r.Sample(map[string]any{"case": key, "outcome": outcome})
			}
		}
	}
}

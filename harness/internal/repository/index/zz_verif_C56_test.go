package index

// C56: the index hash table (indexMap) behaves as a multimap.
//
// Explicit-state check of the real indexMap against a map[ID][]entry model.
//
// Space (complete): insertion sequences of length N for EVERY N in 0..400 and
// N in {1000, 5000} (thorough: also 100000), for 7 key patterns
//   distinct        all keys different (hash derived)
//   equal           one key N times
//   pairs           every key twice, grouped (a a b b ...)
//   five-interleaved 5 keys cycled 5 times per block of 25 (a b c d e a b ...)
//   same-bloom      distinct keys whose id[0] % 28 is equal (bloom filter never excludes)
//   every-bloom     distinct keys, id[0] cycling through all 28 bloom bits
//   same-bloom-dups same bloom bit, every key three times, interleaved
// x 10 preallocation variants: none, or preallocate(m) at position
// {0, N/2, N} with m in {0, N, 4N}.
//
// Oracle (full check): in the thorough tier after EVERY insertion that follows
// an effective preallocate call for N <= 400 (the states before it are the final
// states of shorter runs, which are always fully checked; every N is a run
// end).  Otherwise, in the quick tier, and for the large N, a full check
// is made whenever the canonical state (pattern, number of insertions, bucket
// count, HAT block size) has not been fully checked before in this shard
// (N <= 1000), after every change of the bucket count or HAT block size, after
// every preallocate call, at the end of every run (every N is a run end) and,
// for N = 1000, every 97th step; in between only the key just inserted is
// checked (only get() once a key has more than 64 entries).  Full check:
//   len() = number of insertions; for every inserted key valuesWithID yields
//   exactly the inserted entries (multiset, compared on all fields), get()
//   returns one of them, firstIndex() equals the 1-based position of the key's
//   first insertion (so it never changes); keys never inserted (same bloom
//   bit, other bloom bits, one-byte neighbours of present keys, and keys
//   sharing 24 leading bytes AND the bucket with a present key) are reported
//   absent by get / firstIndex / valuesWithID; values() yields every entry
//   exactly once.  Any panic is a violation.
//
// Note: bucket placement uses maphash with a per-map random seed, which cannot
// be fixed from outside; chains of several entries are guaranteed by the load
// (up to 4 entries per bucket on average) rather than by chosen collisions.
// Violation keys therefore name pattern/variant/kind, the exact N and step are
// in the detail.

import (
	"cmp"
	"crypto/sha256"
	"encoding/binary"
	"fmt"
	"runtime/debug"
	"slices"
	"testing"

	"github.com/restic/restic/internal/restic"
	"github.com/restic/restic/internal/verifshim/vh"
)

type verifC56Entry struct {
	seq                uint32 // stored as packIndex: unique per insertion
	offset, length, ul uint32
}

type verifC56Model struct {
	entries map[restic.ID][]verifC56Entry
	first   map[restic.ID]int
	order   []restic.ID // distinct keys in order of first insertion
	bySeq   []restic.ID // seq -> id (seq is 1-based, bySeq[0] unused)
	total   int
}

func verifC56NewModel() *verifC56Model {
	return &verifC56Model{entries: map[restic.ID][]verifC56Entry{}, first: map[restic.ID]int{}, bySeq: []restic.ID{{}}}
}

func verifC56EntryFor(seq int) verifC56Entry {
	s := uint32(seq)
	return verifC56Entry{seq: s, offset: s*3 + 1, length: s + 7, ul: s ^ 0x5555}
}

func (mo *verifC56Model) add(id restic.ID) verifC56Entry {
	mo.total++
	e := verifC56EntryFor(mo.total)
	if _, ok := mo.first[id]; !ok {
		mo.first[id] = mo.total
		mo.order = append(mo.order, id)
	}
	mo.entries[id] = append(mo.entries[id], e)
	mo.bySeq = append(mo.bySeq, id)
	return e
}

func verifC56Hash(label string, i int) restic.ID {
	var b [8]byte
	binary.LittleEndian.PutUint64(b[:], uint64(i))
	return restic.ID(sha256.Sum256(append([]byte("verif-C56/"+label+"/"), b[:]...)))
}

var verifC56Patterns = []string{"distinct", "equal", "pairs", "five-interleaved", "same-bloom", "every-bloom", "same-bloom-dups"}

// verifC56Key returns the key of the i-th insertion (0-based) of a pattern.
func verifC56Key(pattern string, i int) restic.ID {
	switch pattern {
	case "distinct":
		return verifC56Hash("d", i)
	case "equal":
		return verifC56Hash("e", 0)
	case "pairs":
		return verifC56Hash("p", i/2)
	case "five-interleaved":
		return verifC56Hash("f", (i%5)+5*(i/25))
	case "same-bloom":
		id := verifC56Hash("s", i)
		id[0] = byte(3 + 28*(i%9))
		return id
	case "every-bloom":
		id := verifC56Hash("b", i)
		id[0] = byte(i % 28)
		return id
	case "same-bloom-dups":
		k := (i % 4) + 4*(i/12) // blocks of 12 insertions: 4 keys x 3
		id := verifC56Hash("sd", k)
		id[0] = byte(3 + 28*(k%9))
		return id
	}
	panic("unknown pattern")
}

// verifC56Absent: keys that are never inserted.
func verifC56Absent(m *indexMap, mo *verifC56Model) []restic.ID {
	var out []restic.ID
	// absent keys that share the first 24 bytes (hence the bloom bit) AND the
	// bucket with a present key: the maphash seed is random, so candidates are
	// tried until one lands in the same bucket (white-box use of m.hash)
	if len(mo.order) > 0 && len(m.buckets) > 0 {
		limit := 16 * len(m.buckets)
		if limit > 1<<16 {
			limit = 1 << 16
		}
		for _, base := range []restic.ID{mo.order[0], mo.order[len(mo.order)-1]} {
			hb := m.hash(base)
			for c := 1; c <= limit; c++ {
				cand := base
				cand[31] ^= byte(c)
				cand[30] ^= byte(c >> 8)
				cand[29] ^= byte(c >> 16)
				if m.hash(cand) == hb {
					out = append(out, cand)
					break
				}
			}
		}
	}
	for j, b0 := range []byte{3, 31, 0, 27, 4, 255, 128} {
		id := verifC56Hash("absent", j)
		id[0] = b0
		out = append(out, id)
	}
	// one-byte neighbours of the first and the last inserted key
	if len(mo.order) > 0 {
		for _, base := range []restic.ID{mo.order[0], mo.order[len(mo.order)-1]} {
			n1 := base
			n1[31] ^= 0x01
			n2 := base
			n2[1] ^= 0x80
			out = append(out, n1, n2)
		}
	}
	res := out[:0]
	for _, id := range out {
		if _, ok := mo.entries[id]; !ok {
			res = append(res, id)
		}
	}
	return res
}

func verifC56EntryOf(e *indexEntry) verifC56Entry {
	return verifC56Entry{seq: e.packIndex, offset: e.offset, length: e.length, ul: e.uncompressedLength}
}

var verifC56Scratch []verifC56Entry

// verifC56CheckKey checks all lookups of one present key; returns kind, message.
func verifC56CheckKey(m *indexMap, mo *verifC56Model, id restic.ID) (string, string) {
	want := mo.entries[id]
	got := verifC56Scratch[:0]
	defer func() { verifC56Scratch = got[:0] }()
	for e := range m.valuesWithID(id) {
		if e.id != id {
			return "valuesWithID-foreign", fmt.Sprintf("valuesWithID(%s) yielded an entry of key %s", id.Str(), e.id.Str())
		}
		got = append(got, verifC56EntryOf(e))
	}
	if len(got) > 1 {
		slices.SortFunc(got, func(a, b verifC56Entry) int { return cmp.Compare(a.seq, b.seq) })
	}
	if len(got) != len(want) {
		return "valuesWithID-count", fmt.Sprintf("valuesWithID(%s) yielded %d entries, %d were inserted", id.Str(), len(got), len(want))
	}
	for i := range want {
		if got[i] != want[i] {
			return "valuesWithID-content", fmt.Sprintf("valuesWithID(%s): entry %d is %+v, inserted %+v", id.Str(), i, got[i], want[i])
		}
	}
	e := m.get(id)
	if e == nil {
		return "get-missing", fmt.Sprintf("get(%s) = nil although %d entries were inserted", id.Str(), len(want))
	}
	if e.id != id {
		return "get-foreign", fmt.Sprintf("get(%s) returned an entry of key %s", id.Str(), e.id.Str())
	}
	ge := verifC56EntryOf(e)
	found := false
	for _, w := range want {
		if w == ge {
			found = true
		}
	}
	if !found {
		return "get-content", fmt.Sprintf("get(%s) returned %+v which was never inserted for this key", id.Str(), ge)
	}
	if fi := m.firstIndex(id); fi != mo.first[id] {
		return "firstIndex", fmt.Sprintf("firstIndex(%s) = %d, the key was first inserted as entry %d", id.Str(), fi, mo.first[id])
	}
	return "", ""
}

func verifC56CheckFull(m *indexMap, mo *verifC56Model) (string, string) {
	if int(m.len()) != mo.total {
		return "len", fmt.Sprintf("len() = %d after %d insertions", m.len(), mo.total)
	}
	for _, id := range mo.order {
		if k, msg := verifC56CheckKey(m, mo, id); k != "" {
			return k, msg
		}
	}
	for _, id := range verifC56Absent(m, mo) {
		if e := m.get(id); e != nil {
			return "absent-get", fmt.Sprintf("get(%s) of a key never inserted returned an entry (key %s)", id.Str(), e.id.Str())
		}
		if fi := m.firstIndex(id); fi != -1 {
			return "absent-firstIndex", fmt.Sprintf("firstIndex(%s) of a key never inserted = %d", id.Str(), fi)
		}
		for e := range m.valuesWithID(id) {
			return "absent-valuesWithID", fmt.Sprintf("valuesWithID(%s) of a key never inserted yielded an entry (key %s)", id.Str(), e.id.Str())
		}
	}
	seen := make([]bool, mo.total+1)
	n := 0
	for e := range m.values() {
		n++
		ge := verifC56EntryOf(e)
		if ge.seq < 1 || int(ge.seq) > mo.total {
			return "values-foreign", fmt.Sprintf("values() yielded an entry that was never inserted: %+v key %s", ge, e.id.Str())
		}
		if seen[ge.seq] {
			return "values-duplicate", fmt.Sprintf("values() yielded insertion #%d twice", ge.seq)
		}
		seen[ge.seq] = true
		if ge != verifC56EntryFor(int(ge.seq)) || e.id != mo.bySeq[ge.seq] {
			return "values-content", fmt.Sprintf("values() yielded insertion #%d with altered content %+v key %s", ge.seq, ge, e.id.Str())
		}
	}
	if n != mo.total {
		return "values-count", fmt.Sprintf("values() yielded %d entries after %d insertions", n, mo.total)
	}
	return "", ""
}

type verifC56Variant struct {
	name string
	pos  int // -1 none, 0 = before first insertion, 1 = after N/2 insertions, 2 = after all
	mul  int // m = mul * N
}

func verifC56Variants() []verifC56Variant {
	out := []verifC56Variant{{"none", -1, 0}}
	for pi, pn := range []string{"start", "half", "end"} {
		for _, mul := range []int{0, 1, 4} {
			out = append(out, verifC56Variant{fmt.Sprintf("prealloc(%dN)@%s", mul, pn), pi, mul})
		}
	}
	return out
}

type verifC56Shape struct {
	pattern         string
	step            int
	buckets, blocks int
}

func TestVerif_C56(t *testing.T) {
	r := vh.Start(t, "C56")
	defer r.Finish()
	defer debug.SetGCPercent(debug.SetGCPercent(400)) // many short-lived maps; harness-only tuning
	r.Rule("every N in 0..400 and N in {1000, 5000} (thorough: + 100000) x 7 key patterns (distinct, equal, pairs, interleaved copies, same bloom bit, every bloom bit, same bloom bit with duplicates) x 10 preallocation variants; the real indexMap is compared with a map[ID][]entry model (thorough: additionally full comparison after every insertion that follows a preallocation for N <= 400; both tiers: full comparison for every not yet seen canonical state, growth, preallocation and run end, inserted key otherwise); state = (pattern, insertions so far, bucket count, HAT block size); non-trivial = a checked state in which some key has >= 2 entries or the table has grown (buckets > 64 or HAT block size > 4)")
	r.Assume("maphash bucket placement is seeded randomly per map and cannot be fixed; chains are forced by load, not by chosen collisions")

	verifC56Identical(r)

	var ns []int
	for n := 0; n <= 400; n++ {
		ns = append(ns, n)
	}
	ns = append(ns, 1000, 5000)
	if r.Thorough() {
		ns = append(ns, 100000)
	}
	shapes := map[verifC56Shape]bool{}

	for _, pattern := range verifC56Patterns {
		for _, v := range verifC56Variants() {
			for _, n := range ns {
				grp := n / 10
				ck := fmt.Sprintf("%s|%s|N=%d..%d", pattern, v.name, grp*10, grp*10+9)
				if n > 400 {
					ck = fmt.Sprintf("%s|%s|N=%d", pattern, v.name, n)
				}
				if !r.Case(ck) {
					continue
				}
				if r.Expired() {
					return
				}
				verifC56Run(r, ck, pattern, v, n, shapes)
			}
		}
	}
}

func verifC56Run(r *vh.Run, ck, pattern string, v verifC56Variant, n int, shapes map[verifC56Shape]bool) {
	var m indexMap
	mo := verifC56NewModel()
	everyStep := n <= 400
	lastBuckets, lastBlock := -1, -1
	fail := func(step int, op, kind, msg string) {
		r.Violationf(ck, fmt.Sprintf("C56|%s|pattern=%s|%s", kind, pattern, v.name),
			map[string]any{"pattern": pattern, "variant": v.name, "N": n, "after_insertions": step, "last_operation": op, "buckets": len(m.buckets), "hat_block_size": m.blockList.blockSize},
			"%s, N=%d, after %d insertions (last operation %s): %s", pattern, n, step, op, msg)
	}
	// returns false when the run must stop
	check := func(step int, op string, lastKey *restic.ID) bool {
		shapeChanged := len(m.buckets) != lastBuckets || int(m.blockList.blockSize) != lastBlock
		lastBuckets, lastBlock = len(m.buckets), int(m.blockList.blockSize)
		cur := verifC56Shape{pattern, step, len(m.buckets), int(m.blockList.blockSize)}
		// thorough: full comparison after every step once an effective preallocate call has happened;
		// before that the state equals the final state of a shorter run, which is always fully compared
		afterPrealloc := v.mul > 0 && (v.pos == 0 || (v.pos == 1 && step >= n/2))
		full := (everyStep && r.Thorough() && afterPrealloc) || shapeChanged || step == n || lastKey == nil || (n <= 1000 && !shapes[cur]) || (n == 1000 && step%97 == 0)
		var kind, msg string
		pn, pmsg := vh.NoPanic(func() {
			if full {
				kind, msg = verifC56CheckFull(&m, mo)
			} else {
				if int(m.len()) != mo.total {
					kind, msg = "len", fmt.Sprintf("len() = %d after %d insertions", m.len(), mo.total)
					return
				}
				if len(mo.entries[*lastKey]) > 64 {
					// long chains of one key: the per-key check is O(chain); only get() here
					if e := m.get(*lastKey); e == nil || e.id != *lastKey {
						kind, msg = "get-missing", fmt.Sprintf("get(%s) does not return the key just inserted", lastKey.Str())
					}
					return
				}
				kind, msg = verifC56CheckKey(&m, mo, *lastKey)
			}
		})
		r.Eval(1)
		if pn {
			fail(step, op, "panic", "lookup panicked: "+pmsg)
			return false
		}
		if kind != "" {
			fail(step, op, kind, msg)
			return false
		}
		if full {
			sh := verifC56Shape{pattern, step, len(m.buckets), int(m.blockList.blockSize)}
			if !shapes[sh] {
				shapes[sh] = true
				sk := fmt.Sprintf("%s|%d|%d|%d", pattern, step, sh.buckets, sh.blocks)
				r.State(sk)
				if (step >= 2 && pattern != "distinct" && pattern != "same-bloom" && pattern != "every-bloom") || sh.buckets > 64 || sh.blocks > 4 {
					r.Nontrivial(sk)
				}
			}
		}
		return true
	}
	prealloc := func(step int) bool {
		mm := v.mul * n
		op := fmt.Sprintf("preallocate(%d)", mm)
		if pn, pmsg := vh.NoPanic(func() { m.preallocate(mm) }); pn {
			fail(step, op, "panic", "preallocate panicked: "+pmsg)
			return false
		}
		r.Transition(1)
		return check(step, op, nil)
	}

	if !check(0, "none", nil) {
		return
	}
	if v.pos == 0 && !prealloc(0) {
		return
	}
	for i := 0; i < n; i++ {
		if v.pos == 1 && i == n/2 && n/2 > 0 {
			if !prealloc(i) {
				return
			}
		}
		id := verifC56Key(pattern, i)
		e := mo.add(id)
		if pn, pmsg := vh.NoPanic(func() { m.add(id, e.seq, e.offset, e.length, e.ul) }); pn {
			fail(i+1, "add", "panic", "add panicked: "+pmsg)
			return
		}
		r.Transition(1)
		if !check(i+1, "add", &id) {
			return
		}
		if !everyStep && i%4096 == 0 && r.Expired() {
			return
		}
	}
	if v.pos == 1 && n/2 == 0 {
		if !prealloc(n) {
			return
		}
	}
	if v.pos == 2 && !prealloc(n) {
		return
	}
	r.Trace(1)
	r.Outcome(fmt.Sprintf("buckets=%d/block=%d", len(m.buckets), m.blockList.blockSize))
	if n == 300 && v.name == "prealloc(4N)@half" {
		r.Sample(map[string]any{"pattern": pattern, "variant": v.name, "N": n, "distinct_keys": len(mo.order), "buckets": len(m.buckets), "hat_block_size": m.blockList.blockSize, "len": m.len()})
	}
}

// verifC56Identical: entries that are equal in every field (the same blob listed twice at the same place
// of the same pack, as two index files written by an interrupted repack may do), and entries that differ in
// the uncompressed length only.  A multimap keeps each insertion: len(), values() and valuesWithID count them.
func verifC56Identical(r *vh.Run) {
	for _, mode := range []string{"identical", "ul-differs"} {
		for _, n := range []int{1, 2, 3, 4, 5, 8, 16, 17, 64, 65, 300} {
			for _, copies := range []int{2, 3, 8} {
				ck := fmt.Sprintf("identical|%s|n=%d|copies=%d", mode, n, copies)
				if !r.Case(ck) {
					continue
				}
				var m indexMap
				want := map[restic.ID]int{}
				total := 0
				bad := ""
				panicked, pmsg := vh.NoPanic(func() {
					for round := 0; round < copies; round++ {
						// all keys once per round: the copies of one key are n insertions apart (across table growth)
						for k := 0; k < n; k++ {
							id := verifC56Hash("ident", k)
							ul := uint32(k + 100)
							if mode == "ul-differs" {
								ul += uint32(round)
							}
							m.add(id, uint32(k%7), uint32(k*11+1), uint32(k+3), ul)
							want[id]++
							total++
						}
					}
					if int(m.len()) != total {
						bad = fmt.Sprintf("len() = %d after %d insertions", m.len(), total)
						return
					}
					cnt := 0
					for range m.values() {
						cnt++
					}
					if cnt != total {
						bad = fmt.Sprintf("values() yielded %d entries after %d insertions", cnt, total)
						return
					}
					for id, w := range want {
						g := 0
						for e := range m.valuesWithID(id) {
							if e.id != id {
								bad = fmt.Sprintf("valuesWithID(%s) yielded an entry of key %s", id.Str(), e.id.Str())
								return
							}
							g++
						}
						if g != w {
							bad = fmt.Sprintf("valuesWithID(%s) yielded %d entries, %d were inserted (equal in pack, offset and length)", id.Str(), g, w)
							return
						}
					}
				})
				r.Eval(1)
				r.Transition(int64(total))
				r.NontrivialByConstruction(1)
				switch {
				case panicked:
					r.Violation(ck, "C56|identical|"+mode+"|panic", "indexMap panicked: "+pmsg, nil)
				case bad != "":
					r.Violation(ck, "C56|identical|"+mode, fmt.Sprintf("%d keys x %d copies: %s", n, copies, bad), nil)
				}
			}
		}
	}
}

package index

// C08: the loaded index matches exactly the index files in the repository;
// re-loading after index files were added or removed gives the same lookups as
// a fresh load; Encode -> DecodeIndex preserves every entry.
//
// Part H (histories, explicit state): a tiny in-memory ListerLoaderUnpacked
// serves encoded index files (produced by the real Index.Encode).  Universe:
//
//	A {p1:[b1,b2]}            B {p2:[b1]}  (same blob in another pack, compressed there)
//	C  = byte-identical copy of A under another file ID
//	D {p3:[b3,b4]}            E {p1:[b1,b2], p3:[b3]}  (supersedes A and part of D)
//	b1,b3 data, b2 compressed data, b4 tree;  one handle that is in no file
//
// Operations: add(X) (enabled when X is absent), remove(X) (when present),
// pend (MasterIndex.AddPending of the absent handle, as a running backup
// would), reload (incremental MasterIndex.Load on ONE long-lived MasterIndex).
// All histories of enabled operations of length <= 6 (quick) / <= 8 (thorough)
// that end with a reload are executed from scratch on the real code; no state
// deduplication is used for pruning (a stale-entry bug makes the hidden state
// history dependent), the state key (files present, files the long-lived index
// reports as loaded before the final reload) is only counted.
// Oracle after the final reload, three-way between the long-lived index, a
// fresh NewMasterIndex().Load and the model (union of the entries of the
// present files as a set): Lookup for every handle (as a multiset: a location
// reported twice is flagged separately), LookupSize, Packs, IDs, Values.
//
// Part E (Encode/Decode): every index made of k packs (k = 0..3) whose blobs
// take all combinations of type x offset x length x uncompressed length in
// {0, 1, 2^32-1} (quick: 1 pack x 1-2 blobs, 2 packs x 1 blob, 3 packs x same
// combination; thorough adds 3 packs x all combinations) is encoded with the
// real Encode and decoded with the real DecodeIndex; every entry must be found
// by Lookup with identical values and nothing else may appear.
//
// Deviation from DESIGN.md: histories end with a reload and are checked there
// only (every prefix ending in a reload is a history of its own); "pend" was
// added because Load promises a result identical to a fresh load, which
// includes forgetting pending blobs; the length bound is 6/8 instead of 5/6.

import (
	"bytes"
	"context"
	"fmt"
	"sort"
	"strings"
	"testing"

	"github.com/restic/restic/internal/repository/crypto"
	"github.com/restic/restic/internal/repository/pack"
	"github.com/restic/restic/internal/restic"
	"github.com/restic/restic/internal/verifshim/vh"
)

type verifC08Loc struct {
	Pack   restic.ID
	Type   restic.BlobType
	ID     restic.ID
	Offset uint
	Length uint
	ULen   uint
}

func (l verifC08Loc) String() string {
	return fmt.Sprintf("%s/%s@%s+%d:%d/%d", l.Type, l.ID.Str(), l.Pack.Str(), l.Offset, l.Length, l.ULen)
}

type verifC08File struct {
	name string
	id   restic.ID
	data []byte
	locs []verifC08Loc
}

type verifC08Fake struct {
	present map[restic.ID][]byte
}

func (f *verifC08Fake) Connections() uint { return 1 }
func (f *verifC08Fake) List(_ context.Context, t restic.FileType, fn func(restic.ID, int64) error) error {
	if t != restic.IndexFile {
		return nil
	}
	ids := make(restic.IDs, 0, len(f.present))
	for id := range f.present {
		ids = append(ids, id)
	}
	sort.Sort(ids)
	for _, id := range ids {
		if err := fn(id, int64(len(f.present[id]))); err != nil {
			return err
		}
	}
	return nil
}
func (f *verifC08Fake) LoadUnpacked(_ context.Context, t restic.FileType, id restic.ID) ([]byte, error) {
	buf, ok := f.present[id]
	if !ok || t != restic.IndexFile {
		return nil, fmt.Errorf("verif fake: %v/%v does not exist", t, id)
	}
	return append([]byte{}, buf...), nil
}

type verifC08Universe struct {
	files   []*verifC08File
	handles []restic.BlobHandle // b1..b4, absent
}

func verifC08NewUniverse(t *testing.T) *verifC08Universe {
	u := &verifC08Universe{}
	p := func(i int) restic.ID { return restic.Hash([]byte(fmt.Sprintf("verif-C08-pack-%d", i))) }
	b := func(i int) restic.ID { return restic.Hash([]byte(fmt.Sprintf("verif-C08-blob-%d", i))) }
	h1 := restic.BlobHandle{ID: b(1), Type: restic.DataBlob}
	h2 := restic.BlobHandle{ID: b(2), Type: restic.DataBlob}
	h3 := restic.BlobHandle{ID: b(3), Type: restic.DataBlob}
	h4 := restic.BlobHandle{ID: b(4), Type: restic.TreeBlob}
	u.handles = []restic.BlobHandle{h1, h2, h3, h4, {ID: b(99), Type: restic.DataBlob}}
	l1 := uint(crypto.CiphertextLength(100))
	// pack contents
	p1 := pack.Blobs{{BlobHandle: h1, Offset: 0, Length: l1}, {BlobHandle: h2, Offset: l1, Length: 70, UncompressedLength: 200}}
	p2 := pack.Blobs{{BlobHandle: h1, Offset: 0, Length: 60, UncompressedLength: 100}}
	p3 := pack.Blobs{{BlobHandle: h3, Offset: 0, Length: uint(crypto.CiphertextLength(7))}, {BlobHandle: h4, Offset: uint(crypto.CiphertextLength(7)), Length: 90, UncompressedLength: 300}}
	type pk struct {
		id    restic.ID
		blobs pack.Blobs
	}
	mk := func(name string, packs ...pk) {
		idx := NewIndex()
		f := &verifC08File{name: name, id: restic.Hash([]byte("verif-C08-file-" + name))}
		for _, q := range packs {
			idx.StorePack(q.id, q.blobs)
			for _, bl := range q.blobs {
				f.locs = append(f.locs, verifC08Loc{Pack: q.id, Type: bl.Type, ID: bl.ID, Offset: bl.Offset, Length: bl.Length, ULen: bl.UncompressedLength})
			}
		}
		var buf bytes.Buffer
		if err := idx.Encode(&buf); err != nil {
			t.Fatalf("fixture: encode: %v", err)
		}
		f.data = buf.Bytes()
		u.files = append(u.files, f)
	}
	mk("A", pk{p(1), p1})
	mk("B", pk{p(2), p2})
	mk("C", pk{p(1), p1})
	mk("D", pk{p(3), p3})
	mk("E", pk{p(1), p1}, pk{p(3), p3[:1]})
	if !bytes.Equal(u.files[0].data, u.files[2].data) {
		t.Fatalf("fixture: A and C are expected to encode identically")
	}
	return u
}

// ops: 0..4 toggle file i (add when absent, remove when present), 5 pend, 6 reload
const (
	verifC08Pend   = 5
	verifC08Reload = 6
)

func (u *verifC08Universe) opName(op int, present uint) string {
	switch {
	case op < 5 && present&(1<<op) == 0:
		return "add(" + u.files[op].name + ")"
	case op < 5:
		return "remove(" + u.files[op].name + ")"
	case op == verifC08Pend:
		return "pend"
	}
	return "reload"
}

func (u *verifC08Universe) modelLocs(present uint) map[verifC08Loc]int {
	m := map[verifC08Loc]int{}
	for i, f := range u.files {
		if present&(1<<i) != 0 {
			for _, l := range f.locs {
				m[l] = 1 // a set: the same location recorded in several files is one location
			}
		}
	}
	return m
}

func verifC08Collect(mi *MasterIndex, handles []restic.BlobHandle) (lookup map[verifC08Loc]int, values map[verifC08Loc]int) {
	lookup = map[verifC08Loc]int{}
	values = map[verifC08Loc]int{}
	for _, h := range handles {
		for _, pb := range mi.Lookup(h) {
			lookup[verifC08Loc{Pack: pb.Pack, Type: pb.Blob.Type, ID: pb.Blob.ID, Offset: pb.Blob.Offset, Length: pb.Blob.Length, ULen: pb.Blob.UncompressedLength}]++
		}
	}
	for pb := range mi.Values() {
		values[verifC08Loc{Pack: pb.Pack, Type: pb.Blob.Type, ID: pb.Blob.ID, Offset: pb.Blob.Offset, Length: pb.Blob.Length, ULen: pb.Blob.UncompressedLength}]++
	}
	return
}

func verifC08Diff(got, want map[verifC08Loc]int) (missing, extra, dup []string) {
	for l := range want {
		if got[l] == 0 {
			missing = append(missing, l.String())
		}
	}
	for l, n := range got {
		if want[l] == 0 {
			extra = append(extra, l.String())
		} else if n > 1 {
			dup = append(dup, fmt.Sprintf("%s x%d", l, n))
		}
	}
	sort.Strings(missing)
	sort.Strings(extra)
	sort.Strings(dup)
	return
}

func verifC08IDs(s restic.IDSet) string {
	l := s.List()
	sort.Sort(l)
	var sb strings.Builder
	for _, id := range l {
		sb.WriteString(id.Str() + ",")
	}
	return sb.String()
}

func (u *verifC08Universe) fileNames(mask uint) string {
	s := ""
	for i, f := range u.files {
		if mask&(1<<i) != 0 {
			s += f.name
		}
	}
	return "{" + s + "}"
}

// run executes one history on the real code and checks the final state.
func (u *verifC08Universe) run(r *vh.Run, ck string, hist []int) {
	ctx := context.Background()
	fake := &verifC08Fake{present: map[restic.ID][]byte{}}
	mi := NewMasterIndex()
	present := uint(0)
	names := make([]string, 0, len(hist))
	nontrivial := false
	removedSinceReload := false
	believedBefore := ""
	absent := u.handles[len(u.handles)-1]
	var loadErr error
	pan, msg := vh.NoPanic(func() {
		for i, op := range hist {
			names = append(names, u.opName(op, present))
			switch {
			case op < 5:
				f := u.files[op]
				if present&(1<<op) == 0 {
					fake.present[f.id] = f.data
				} else {
					delete(fake.present, f.id)
					removedSinceReload = true
				}
				present ^= 1 << op
			case op == verifC08Pend:
				mi.AddPending(absent, 42)
			default:
				if i == len(hist)-1 {
					believedBefore = verifC08IDs(mi.IDs())
				}
				if removedSinceReload {
					nontrivial = true
					removedSinceReload = false
				}
				if err := mi.Load(ctx, fake, restic.NoopCounter, nil); err != nil {
					loadErr = err
					return
				}
			}
		}
	})
	r.Eval(1)
	r.Transition(int64(len(hist)))
	hs := strings.Join(names, " ")
	detail := map[string]any{"history": names, "present_at_end": u.fileNames(present)}
	if pan {
		r.Violationf(ck, "C08|panic|"+hs, detail, "history [%s] panicked: %s", hs, msg)
		return
	}
	if loadErr != nil {
		r.Violationf(ck, "C08|load-error|"+hs, detail, "history [%s]: incremental Load failed: %v", hs, loadErr)
		return
	}
	fresh := NewMasterIndex()
	if err := fresh.Load(ctx, fake, restic.NoopCounter, nil); err != nil {
		r.Violationf(ck, "C08|fresh-load-error|"+u.fileNames(present), detail, "fresh Load of %s failed: %v", u.fileNames(present), err)
		return
	}
	r.Trace(1)
	r.State(u.fileNames(present) + "|believed=" + believedBefore)
	if nontrivial {
		r.Nontrivial(hs)
	}

	model := u.modelLocs(present)
	wantIDs := restic.NewIDSet()
	wantPacks := restic.NewIDSet()
	for i, f := range u.files {
		if present&(1<<i) != 0 {
			wantIDs.Insert(f.id)
			for _, l := range f.locs {
				wantPacks.Insert(l.Pack)
			}
		}
	}
	for _, sub := range []struct {
		name string
		mi   *MasterIndex
	}{{"incremental", mi}, {"fresh", fresh}} {
		// the violation key names the index under test and the final file set; for the long-lived
		// index the history is part of the key, a fresh load depends on the file set only
		where := sub.name + "|" + u.fileNames(present)
		if sub.name == "incremental" {
			where += "|" + hs
		}
		lookup, values := verifC08Collect(sub.mi, u.handles)
		for _, v := range []struct {
			api string
			got map[verifC08Loc]int
		}{{"Lookup", lookup}, {"Values", values}} {
			missing, extra, dup := verifC08Diff(v.got, model)
			if len(missing) > 0 || len(extra) > 0 {
				r.Violationf(ck, "C08|"+v.api+"|"+where, detail, "history [%s], %s index, files present %s: %s misses %v and has stale/foreign %v",
					hs, sub.name, u.fileNames(present), v.api, missing, extra)
			} else if len(dup) > 0 {
				r.Violationf(ck, "C08|"+v.api+"-duplicate|"+where, detail, "history [%s], %s index, files present %s: %s reports the same location more than once: %v",
					hs, sub.name, u.fileNames(present), v.api, dup)
			}
		}
		for _, h := range u.handles {
			size, found := sub.mi.LookupSize(h)
			wantFound, wantSize := false, uint(0)
			for l := range model {
				if l.ID == h.ID && l.Type == h.Type {
					wantFound = true
					wantSize = l.ULen
					if wantSize == 0 {
						wantSize = uint(crypto.PlaintextLength(int(l.Length)))
					}
				}
			}
			if found != wantFound || (found && size != wantSize) {
				r.Violationf(ck, "C08|LookupSize|"+where+"|"+h.String(), detail, "history [%s], %s index: LookupSize(%v)=(%d,%v), expected (%d,%v)", hs, sub.name, h, size, found, wantSize, wantFound)
			}
		}
		if got := sub.mi.IDs(); !got.Equals(wantIDs) {
			r.Violationf(ck, "C08|IDs|"+where, detail, "history [%s], %s index: IDs()=%s, index files present %s", hs, sub.name, verifC08IDs(got), verifC08IDs(wantIDs))
		}
		if got := sub.mi.Packs(nil); !got.Equals(wantPacks) {
			r.Violationf(ck, "C08|Packs|"+where, detail, "history [%s], %s index: Packs()=%s, expected %s", hs, sub.name, verifC08IDs(got), verifC08IDs(wantPacks))
		}
	}
	r.Outcome(fmt.Sprintf("%s:%d-locations", u.fileNames(present), len(model)))
	if len(hist) == 6 && nontrivial && present == 0b10010 {
		r.Sample(map[string]any{"history": names, "present": u.fileNames(present), "locations": len(model)})
	}
}

func TestVerif_C08(t *testing.T) {
	r := vh.Start(t, "C08")
	defer r.Finish()
	maxLen := vh.Pick(r, 6, 8)
	r.Rule(fmt.Sprintf("H: all histories of enabled ops {add/remove x 5 files, pend, reload} of length <= %d ending in reload, each executed from scratch on one long-lived MasterIndex, "+
		"final state compared three-way (incremental, fresh load, set model); non-trivial = a removal is followed by a reload. "+
		"E: all indexes of 0..3 packs with entries over type x {0,1,2^32-1}^3 through Encode/DecodeIndex; non-trivial = at least one entry", maxLen))
	r.Assume("index files are served by an in-memory ListerLoaderUnpacked; the repository layer (encryption, backend) is covered by C07")
	u := verifC08NewUniverse(t)

	// ---------------------------------------------------------------- H
	const nops = 7
	var rec func(hist []int, ck string)
	rec = func(hist []int, ck string) {
		if r.Expired() {
			return
		}
		// the history extended by the final reload
		h := append(append(make([]int, 0, len(hist)+1), hist...), verifC08Reload)
		u.run(r, ck, h)
		if len(hist)+1 >= maxLen {
			return
		}
		for op := 0; op < nops; op++ {
			rec(append(hist, op), ck)
		}
	}
	// shard by the first two operations
	if r.Case("H|short") {
		u.run(r, "H|short", []int{verifC08Reload})
		for op := 0; op < nops; op++ {
			u.run(r, "H|short", []int{op, verifC08Reload})
		}
	}
	for o1 := 0; o1 < nops; o1++ {
		for o2 := 0; o2 < nops; o2++ {
			ck := fmt.Sprintf("H|%d,%d", o1, o2)
			if !r.Case(ck) {
				continue
			}
			rec([]int{o1, o2}, ck)
		}
	}

	// ---------------------------------------------------------------- E
	verifC08EncodeDecode(r)
}

type verifC08Combo struct {
	typ               restic.BlobType
	off, length, ulen uint
}

func verifC08Combos() []verifC08Combo {
	vals := []uint{0, 1, 1<<32 - 1}
	var c []verifC08Combo
	for _, typ := range []restic.BlobType{restic.DataBlob, restic.TreeBlob} {
		for _, o := range vals {
			for _, l := range vals {
				for _, ul := range vals {
					c = append(c, verifC08Combo{typ, o, l, ul})
				}
			}
		}
		// values around a coincidence an encoder might exploit: a compressed blob whose ciphertext length
		// equals the ciphertext length of its plaintext (length = uncompressed length + 32) and its neighbours
		ov := uint(crypto.CiphertextLength(0))
		for _, lu := range [][2]uint{{1000 + ov, 1000}, {1000 + ov, 1001}, {1000 + ov, 999}, {1 + ov, 1}, {ov, 0}, {ov + 5, ov + 5}} {
			c = append(c, verifC08Combo{typ, 17, lu[0], lu[1]})
		}
	}
	return c
}

func verifC08EncodeDecode(r *vh.Run) {
	combos := verifC08Combos()
	pid := func(i int) restic.ID { return restic.Hash([]byte{byte(i), 'p'}) }
	bid := func(i, j int) restic.ID { return restic.Hash([]byte{byte(i), byte(j), 'b'}) }
	check := func(ck, key string, layout [][]int) {
		// layout[p] = combo indices of the blobs of pack p
		idx := NewIndex()
		want := map[verifC08Loc]int{}
		var handles []restic.BlobHandle
		for p, blobs := range layout {
			var bl pack.Blobs
			for j, ci := range blobs {
				c := combos[ci]
				b := pack.Blob{BlobHandle: restic.BlobHandle{ID: bid(p, j), Type: c.typ}, Offset: c.off, Length: c.length, UncompressedLength: c.ulen}
				bl = append(bl, b)
				handles = append(handles, b.BlobHandle)
				want[verifC08Loc{Pack: pid(p), Type: c.typ, ID: b.ID, Offset: c.off, Length: c.length, ULen: c.ulen}] = 1
			}
			idx.StorePack(pid(p), bl)
		}
		r.Eval(1)
		var buf bytes.Buffer
		var dec *Index
		var err error
		fileID := restic.Hash([]byte(key))
		pan, msg := vh.NoPanic(func() {
			if err = idx.Encode(&buf); err != nil {
				return
			}
			dec, err = DecodeIndex(buf.Bytes(), fileID)
		})
		r.Transition(2)
		if pan {
			r.Violationf(ck, "C08|encdec-panic|"+key, layout, "Encode/DecodeIndex panicked for layout %s: %s", key, msg)
			return
		}
		if err != nil {
			r.Violationf(ck, "C08|encdec-error|"+key, layout, "Encode/DecodeIndex failed for layout %s: %v", key, err)
			return
		}
		got := map[verifC08Loc]int{}
		for _, h := range handles {
			for _, pb := range dec.Lookup(h, nil) {
				got[verifC08Loc{Pack: pb.Pack, Type: pb.Blob.Type, ID: pb.Blob.ID, Offset: pb.Blob.Offset, Length: pb.Blob.Length, ULen: pb.Blob.UncompressedLength}]++
			}
		}
		all := map[verifC08Loc]int{}
		for pb := range dec.Values() {
			all[verifC08Loc{Pack: pb.Pack, Type: pb.Blob.Type, ID: pb.Blob.ID, Offset: pb.Blob.Offset, Length: pb.Blob.Length, ULen: pb.Blob.UncompressedLength}]++
		}
		for name, g := range map[string]map[verifC08Loc]int{"Lookup": got, "Values": all} {
			missing, extra, dup := verifC08Diff(g, want)
			if len(missing)+len(extra)+len(dup) > 0 {
				r.Violationf(ck, "C08|encdec|"+name+"|"+key, layout, "layout %s: after Encode/DecodeIndex %s misses %v, has extra %v, duplicates %v", key, name, missing, extra, dup)
			}
		}
		ids, ierr := dec.IDs()
		if ierr != nil || len(ids) != 1 || ids[0] != fileID || !dec.Final() {
			r.Violationf(ck, "C08|encdec-id|"+key, layout, "decoded index has IDs %v (err %v), final=%v; expected the file ID", ids, ierr, dec.Final())
		}
		r.Trace(1)
		if len(want) > 0 {
			r.NontrivialByConstruction(1)
		}
	}
	n := len(combos)
	if r.Case("E|small") {
		check("E|small", "empty", nil)
		check("E|small", "1pack-0blobs", [][]int{{}})
		for a := 0; a < n; a++ {
			check("E|small", fmt.Sprintf("1x1|%d", a), [][]int{{a}})
			check("E|small", fmt.Sprintf("3x1-same|%d", a), [][]int{{a}, {a}, {a}})
		}
	}
	for a := 0; a < n; a++ {
		ck := fmt.Sprintf("E|a=%d", a)
		if !r.Case(ck) {
			continue
		}
		for b := 0; b < n; b++ {
			check(ck, fmt.Sprintf("1x2|%d,%d", a, b), [][]int{{a, b}})
			check(ck, fmt.Sprintf("2x1|%d,%d", a, b), [][]int{{a}, {b}})
			if r.Thorough() {
				for c := 0; c < n; c++ {
					check(ck, fmt.Sprintf("3x1|%d,%d,%d", a, b, c), [][]int{{a}, {b}, {c}})
				}
			}
		}
	}
}

package repository

// C07: index, snapshot, lock and config files decode to what was saved.
//
// Complete enumeration of
//
//	payload (15 hand-picked incl. empty, "[", "{", 0x02+garbage, 0x02+valid zstd frame, 1 KiB noise,
//	         1 MiB zeros; plus all 256 one-byte payloads and all 256 "b + JSON tail" payloads)
//	x file type {index, snapshot, lock}  x repository version {1, 2}  x all 5 compression modes
//
// through the real SaveUnpacked / LoadUnpacked of a repository on the
// in-memory backend that was opened the normal way (New + SearchKey) with the
// compression mode under test.  Oracle per case: LoadUnpacked(SaveUnpacked(p))
// == p; returned ID == SHA-256 of the bytes found in the backend under that
// type/name; an independent decode of the stored file (decrypt with the
// repository key; v1: plaintext == p; v2: first byte 2, rest is a zstd stream
// decoding to p with a separate decoder instance).
//
// Config: for every payload the config file is replaced through the internal
// SaveUnpacked(ConfigFile): stored under the fixed name, plaintext == payload
// exactly (no version byte, no compression) in both versions, LoadUnpacked
// returns it; restic.SaveConfig/LoadConfig round-trip a Config value.
//
// First-byte rule: for all 256 first bytes x 4 tails a file is sealed by hand
// with the repository key (what an older or foreign writer could have produced)
// and loaded through LoadUnpacked: v1 returns the plaintext unchanged; v2
// returns it unchanged for '[' and '{', returns the decoded payload for 0x02 +
// valid zstd frame, and must reject every other first byte.  (0x02 followed by
// something that is not a zstd stream, and the empty plaintext, are left open:
// error or anything else is only recorded as outcome.)

import (
	"bytes"
	"context"
	"crypto/sha256"
	"fmt"
	"testing"

	"github.com/klauspost/compress/zstd"
	"github.com/restic/restic/internal/backend"
	"github.com/restic/restic/internal/restic"
	"github.com/restic/restic/internal/test"
	"github.com/restic/restic/internal/verifshim/vh"
)

type verifC07Payload struct {
	name string
	data []byte
}

func verifC07Zstd(t *testing.T, p []byte) []byte {
	enc, err := zstd.NewWriter(nil)
	if err != nil {
		t.Fatalf("zstd encoder: %v", err)
	}
	defer enc.Close()
	return enc.EncodeAll(p, nil)
}

func verifC07Payloads(t *testing.T) []verifC07Payload {
	noise := make([]byte, 1024)
	x := uint32(12345)
	for i := range noise {
		x = x*1664525 + 1013904223
		noise[i] = byte(x >> 24)
	}
	jsonDoc := []byte(`{"time":"2026-01-02T03:04:05.000000006Z","tree":"4bf8f0e3d4b1b1b1c0c0c0c0c0c0c0c0c0c0c0c0c0c0c0c0c0c0c0c0c0c0c0c0","paths":["/home/user/ä"],"hostname":"h","tags":["a","b"]}`)
	pl := []verifC07Payload{
		{"empty", []byte{}},
		{"[", []byte("[")},
		{"{", []byte("{")},
		{"[]", []byte("[]")},
		{"{}", []byte("{}")},
		{"02", []byte{2}},
		{"02+garbage", []byte{2, 0xde, 0xad, 0xbe, 0xef, 0x00, 0x11}},
		{"02+zstd", append([]byte{2}, verifC07Zstd(t, []byte(`{"inner":true}`))...)},
		{"00", []byte{0}},
		{"01", []byte{1}},
		{"ff", []byte{0xff}},
		{"x", []byte("x")},
		{"json", jsonDoc},
		{"noise1k", noise},
		{"zeros1M", make([]byte, 1<<20)},
		{"zstd-magic", verifC07Zstd(t, []byte("plain zstd frame as payload"))},
	}
	for b := 0; b < 256; b++ {
		pl = append(pl, verifC07Payload{fmt.Sprintf("byte-%02x", b), []byte{byte(b)}})
		pl = append(pl, verifC07Payload{fmt.Sprintf("byte-%02x+json", b), append([]byte{byte(b)}, []byte(`"k":[1,2,3]}`)...)})
	}
	return pl
}

var verifC07Modes = []CompressionMode{CompressionAuto, CompressionOff, CompressionMax, CompressionFastest, CompressionBetter}
var verifC07Types = []restic.FileType{restic.IndexFile, restic.SnapshotFile, restic.LockFile}

// open creates a fresh repository of the given version on a mem backend and
// re-opens it the normal way with the requested compression mode.
func verifC07Open(t *testing.T, version uint, mode CompressionMode) (*Repository, backend.Backend) {
	_, be := TestRepositoryWithBackend(t, nil, version, Options{})
	repo, err := New(be, Options{Compression: mode})
	if err != nil {
		t.Fatalf("fixture: New: %v", err)
	}
	if err := repo.SearchKey(context.Background(), test.TestPassword, 10, ""); err != nil {
		t.Fatalf("fixture: SearchKey: %v", err)
	}
	if repo.Config().Version != version {
		t.Fatalf("fixture: repository has version %d, want %d", repo.Config().Version, version)
	}
	return repo, be
}

func verifC07Short(b []byte) string {
	if len(b) > 24 {
		return fmt.Sprintf("%x… (%d bytes)", b[:24], len(b))
	}
	return fmt.Sprintf("%x", b)
}

func TestVerif_C07(t *testing.T) {
	r := vh.Start(t, "C07")
	defer r.Finish()
	r.Rule("complete product payload x {index,snapshot,lock} x version {1,2} x 5 compression modes through SaveUnpacked/LoadUnpacked (non-trivial: version 2, where the version byte and zstd are in play); " +
		"config replace/load per payload; 256 first bytes x 4 tails sealed by hand and loaded (non-trivial: all)")
	ctx := context.Background()
	payloads := verifC07Payloads(t)
	dec, err := zstd.NewReader(nil)
	if err != nil {
		t.Fatalf("zstd decoder: %v", err)
	}
	defer dec.Close()
	innerFrame := verifC07Zstd(t, []byte(`{"hand":"sealed"}`))

	for _, version := range []uint{1, 2} {
		for mi, mode := range verifC07Modes {
			modeName := mode.String()
			_ = mi
			// ------------------------------------------------ round trip
			for _, ft := range verifC07Types {
				ck := fmt.Sprintf("rt|v%d|%s|%v", version, modeName, ft)
				if !r.Case(ck) {
					continue
				}
				repo, be := verifC07Open(t, version, mode)
				internal := &internalRepository{repo}
				for _, p := range payloads {
					vk := fmt.Sprintf("v%d|%s|%v|%s", version, modeName, ft, p.name)
					detail := map[string]any{"version": version, "compression": modeName, "type": ft.String(), "payload": verifC07Short(p.data)}
					r.Eval(1)
					in := append([]byte{}, p.data...)
					var id restic.ID
					var serr error
					pan, msg := vh.NoPanic(func() {
						if ft == restic.SnapshotFile {
							id, serr = repo.SaveUnpacked(ctx, restic.WriteableSnapshotFile, in)
						} else {
							id, serr = internal.SaveUnpacked(ctx, ft, in)
						}
					})
					r.Transition(1)
					if pan {
						r.Violationf(ck, "C07|save-panic|"+vk, detail, "SaveUnpacked panicked: %s", msg)
						continue
					}
					if serr != nil {
						r.Violationf(ck, "C07|save-error|"+vk, detail, "SaveUnpacked(%v, %s) failed: %v", ft, p.name, serr)
						continue
					}
					if !bytes.Equal(in, p.data) {
						r.Violationf(ck, "C07|save-modifies-input|"+vk, detail, "SaveUnpacked modified the caller's buffer")
					}
					raw, lerr := loadRaw(ctx, be, backend.Handle{Type: backend.FileType(ft), Name: id.String()})
					if lerr != nil {
						r.Violationf(ck, "C07|not-stored|"+vk, detail, "file %v/%v not found in the backend after SaveUnpacked: %v", ft, id, lerr)
						continue
					}
					if sum := sha256.Sum256(raw); restic.ID(sum) != id {
						r.Violationf(ck, "C07|id|"+vk, detail, "returned ID %v is not the SHA-256 of the stored bytes (%x)", id, sum)
					}
					var got []byte
					var gerr error
					pan, msg = vh.NoPanic(func() { got, gerr = repo.LoadUnpacked(ctx, ft, id) })
					r.Transition(1)
					switch {
					case pan:
						r.Violationf(ck, "C07|load-panic|"+vk, detail, "LoadUnpacked panicked: %s", msg)
					case gerr != nil:
						r.Violationf(ck, "C07|load-error|"+vk, detail, "LoadUnpacked of a file written by SaveUnpacked failed: %v", gerr)
					case !bytes.Equal(got, p.data):
						r.Violationf(ck, "C07|roundtrip|"+vk, detail, "LoadUnpacked returned %s, saved %s", verifC07Short(got), verifC07Short(p.data))
					}
					// independent decode of the stored file
					if len(raw) < 32 {
						r.Violationf(ck, "C07|stored-short|"+vk, detail, "stored file has only %d bytes", len(raw))
						continue
					}
					pt, oerr := repo.Key().Open(nil, raw[:16], raw[16:], nil)
					if oerr != nil {
						r.Violationf(ck, "C07|stored-undecryptable|"+vk, detail, "stored file does not decrypt with the repository key: %v", oerr)
						continue
					}
					if version == 1 {
						if !bytes.Equal(pt, p.data) {
							r.Violationf(ck, "C07|stored-v1|"+vk, detail, "v1: stored plaintext %s differs from payload", verifC07Short(pt))
						}
						r.Outcome("v1-raw")
					} else {
						if len(pt) == 0 || pt[0] != 2 {
							r.Violationf(ck, "C07|stored-v2-versionbyte|"+vk, detail, "v2: stored plaintext %s does not start with encoding version 2", verifC07Short(pt))
						} else if out, derr := dec.DecodeAll(pt[1:], nil); derr != nil || !bytes.Equal(out, p.data) {
							r.Violationf(ck, "C07|stored-v2-zstd|"+vk, detail, "v2: stored plaintext after the version byte does not zstd-decode to the payload (err=%v)", derr)
						}
						r.NontrivialByConstruction(1)
						r.Outcome("v2-compressed")
					}
					r.Trace(1)
					if p.name == "[" || p.name == "02+zstd" {
						r.Sample(map[string]any{"case": vk, "stored_bytes": len(raw), "plaintext_prefix": verifC07Short(pt)})
					}
				}
			}

			// ------------------------------------------------ config
			if ck := fmt.Sprintf("config|v%d|%s", version, modeName); r.Case(ck) {
				repo, be := verifC07Open(t, version, mode)
				internal := &internalRepository{repo}
				h := backend.Handle{Type: backend.ConfigFile}
				for _, p := range payloads[:16] {
					vk := fmt.Sprintf("v%d|%s|%s", version, modeName, p.name)
					detail := map[string]any{"version": version, "compression": modeName, "payload": verifC07Short(p.data)}
					r.Eval(1)
					if err := be.Remove(ctx, h); err != nil {
						t.Fatalf("fixture: remove config: %v", err)
					}
					id, serr := internal.SaveUnpacked(ctx, restic.ConfigFile, append([]byte{}, p.data...))
					if serr != nil {
						r.Violationf(ck, "C07|config-save|"+vk, detail, "saving the config failed: %v", serr)
						continue
					}
					raw, lerr := loadRaw(ctx, be, h)
					if lerr != nil || !id.IsNull() {
						r.Violationf(ck, "C07|config-name|"+vk, detail, "config not stored under the fixed config name (id %v, err %v)", id, lerr)
						continue
					}
					if len(raw) < 32 {
						r.Violationf(ck, "C07|config-short|"+vk, detail, "stored config has %d bytes", len(raw))
						continue
					}
					pt, oerr := repo.Key().Open(nil, raw[:16], raw[16:], nil)
					if oerr != nil || !bytes.Equal(pt, p.data) {
						r.Violationf(ck, "C07|config-not-plain|"+vk, detail, "stored config plaintext is %s (err %v), want the payload itself (uncompressed, no version byte)", verifC07Short(pt), oerr)
					}
					got, gerr := repo.LoadUnpacked(ctx, restic.ConfigFile, restic.ID{})
					if gerr != nil || !bytes.Equal(got, p.data) {
						r.Violationf(ck, "C07|config-roundtrip|"+vk, detail, "LoadUnpacked(config) returned %s, err %v", verifC07Short(got), gerr)
					}
					r.NontrivialByConstruction(1)
					r.Trace(1)
					r.Transition(2)
				}
				// Config value round trip
				for _, cv := range []uint{1, 2} {
					if err := be.Remove(ctx, h); err != nil {
						t.Fatalf("fixture: remove config: %v", err)
					}
					cfg := restic.Config{Version: cv, ID: restic.Hash([]byte{byte(cv)}).String(), ChunkerPolynomial: testChunkerPol}
					r.Eval(1)
					if err := restic.SaveConfig(ctx, internal, cfg); err != nil {
						r.Violationf(ck, fmt.Sprintf("C07|saveconfig|v%d|%s|cfg%d", version, modeName, cv), nil, "SaveConfig failed: %v", err)
						continue
					}
					got, err := restic.LoadConfig(ctx, repo)
					if err != nil || got != cfg {
						r.Violationf(ck, fmt.Sprintf("C07|loadconfig|v%d|%s|cfg%d", version, modeName, cv), nil, "LoadConfig returned %+v, err %v; saved %+v", got, err, cfg)
					}
					r.Transition(2)
				}
			}

			// ------------------------------------------------ first byte rule
			for _, ft := range verifC07Types {
				ck := fmt.Sprintf("firstbyte|v%d|%s|%v", version, modeName, ft)
				if !r.Case(ck) {
					continue
				}
				repo, be := verifC07Open(t, version, mode)
				tails := []struct {
					name string
					data []byte
				}{
					{"none", nil},
					{"json", []byte(`"a":1}`)},
					{"zstd", innerFrame},
					{"garbage", []byte{0x00, 0xff, 0x28, 0xb5, 0x2f, 0x00, 0x13, 0x37}},
				}
				for b := 0; b < 256; b++ {
					for _, tail := range tails {
						pt := append([]byte{byte(b)}, tail.data...)
						vk := fmt.Sprintf("v%d|%s|%v|%02x|%s", version, modeName, ft, b, tail.name)
						detail := map[string]any{"version": version, "compression": modeName, "type": ft.String(), "plaintext": verifC07Short(pt)}
						nonce := make([]byte, 16)
						for i := range nonce {
							nonce[i] = byte(b + i + 1)
						}
						nonce[15] = byte(len(tail.data)) | 1
						file := append([]byte{}, nonce...)
						file = repo.Key().Seal(file, nonce, pt, nil)
						id := restic.Hash(file)
						hd := backend.Handle{Type: backend.FileType(ft), Name: id.String()}
						if err := be.Save(ctx, hd, backend.NewByteReader(file, be.Hasher())); err != nil {
							t.Fatalf("fixture: save: %v", err)
						}
						r.Eval(1)
						var got []byte
						var gerr error
						pan, msg := vh.NoPanic(func() { got, gerr = repo.LoadUnpacked(ctx, ft, id) })
						r.Transition(1)
						r.Trace(1)
						r.NontrivialByConstruction(1)
						_ = be.Remove(ctx, hd)
						if pan {
							r.Violationf(ck, "C07|firstbyte-panic|"+vk, detail, "LoadUnpacked panicked: %s", msg)
							continue
						}
						switch {
						case version == 1, b == '[', b == '{':
							if gerr != nil || !bytes.Equal(got, pt) {
								r.Violationf(ck, "C07|firstbyte-raw|"+vk, detail, "plaintext %s must be returned unchanged, got %s err %v", verifC07Short(pt), verifC07Short(got), gerr)
							}
							r.Outcome("raw")
						case b == 2 && tail.name == "zstd":
							if gerr != nil || !bytes.Equal(got, []byte(`{"hand":"sealed"}`)) {
								r.Violationf(ck, "C07|firstbyte-v2|"+vk, detail, "version byte 2 + zstd frame must decode to the payload, got %s err %v", verifC07Short(got), gerr)
							}
							r.Outcome("decoded")
						case b == 2:
							// 0x02 followed by something that is not a zstd stream: left open
							r.Outcome(fmt.Sprintf("v2-byte2-%s-err=%v-raw=%v", tail.name, gerr != nil, bytes.Equal(got, pt)))
						default:
							if gerr == nil {
								r.Violationf(ck, "C07|firstbyte-accepted|"+vk, detail, "v2: plaintext %s with unknown encoding version %#x was accepted, returned %s", verifC07Short(pt), b, verifC07Short(got))
							}
							r.Outcome("rejected")
						}
					}
				}
				// the empty plaintext: recorded only
				{
					nonce := bytes.Repeat([]byte{7}, 16)
					file := repo.Key().Seal(append([]byte{}, nonce...), nonce, nil, nil)
					id := restic.Hash(file)
					hd := backend.Handle{Type: backend.FileType(ft), Name: id.String()}
					if err := be.Save(ctx, hd, backend.NewByteReader(file, be.Hasher())); err != nil {
						t.Fatalf("fixture: save: %v", err)
					}
					var got []byte
					var gerr error
					pan, msg := vh.NoPanic(func() { got, gerr = repo.LoadUnpacked(ctx, ft, id) })
					r.Eval(1)
					if pan {
						r.Violationf(ck, fmt.Sprintf("C07|firstbyte-panic|v%d|%s|%v|empty", version, modeName, ft), nil, "LoadUnpacked of an empty plaintext panicked: %s", msg)
					}
					r.Outcome(fmt.Sprintf("empty-err=%v-len=%d", gerr != nil, len(got)))
				}
			}
		}
	}
}
